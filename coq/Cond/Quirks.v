(* C02 - model of the compiler's constant folding (lib/src/compiler/ir/mod.rs:
   minus, bitwise_not, bitwise_and/or/xor, shl/shr with a non-negative
   constant count, and add/sub/mul through fold_arithmetic, which since
   commit 8b83ae6a folds integer operands with CHECKED i64 arithmetic) as a
   source-to-source transformation, and of the places where the
   implementation is known to leave the documented meaning.

   * [prefold]: what ast2ir.rs and the builders of ir/mod.rs make of a
     condition, bottom-up: constant operands of - ~ << >> & | ^ fold; an n-ary
     + - * node folds only when ALL its operands are constants; `not`, `and`,
     `or` of boolean constants fold; a `with` identifier declared with a
     constant is replaced by it; `0 of` becomes `none of`.  Compared node by
     node with the IR the compiler really built (Cond/IrTree.v, Cond/Check.v).
     A constant + - * whose exact result leaves the
     i64 range is rejected by the compiler (NumberOutOfRange): an accept /
     reject difference, not a verdict difference; the model leaves such a
     node unfolded and the harness does not generate it.  [fold_sound]
     (QuirksProofs.v): folding never changes the value of a condition.
     (Before that commit the folding went through f64 and
     `9007199254740993 + 1 == 9007199254740994` was false: DESIGN finding 10,
     now a regression case of the harness.)
   * [pat_range_match]: the host function the emitted code calls for
     `N of <set>` when the pattern ids of the set are consecutive
     (lib/src/wasm/mod.rs), as repaired by commit bf5119e4.  Before, it
     answered true for every N <= 0 (findings 6, 11);
     [of_fast_path_equiv_loop] (QuirksProofs.v): it now agrees with the loop
     for every N.
   * the undefined-flag aliasing of variable slots >= 64 found by this check
     was repaired by commit 93e33409 (regression stream "deep_vars"). *)
From Coq Require Import List ZArith Bool Lia.
From YV Require Import Cond.Syntax Cond.Sem Gen.FoldFacts.
Import ListNotations.
Local Open Scope Z_scope.

Definition in_i64 (z : Z) : bool := (- two63 <=? z) && (z <? two63).

Definition ap (op : arith) (a b : Z) : Z :=
  match op with Add => a + b | Sub => a - b | _ => a * b end.

Definition arith_eqb (a b : arith) : bool :=
  match a, b with
  | Add, Add | Sub, Sub | Mul, Mul | Div, Div | Mod, Mod | Shl, Shl | Shr, Shr
  | BAnd, BAnd | BOr, BOr | BXor, BXor => true
  | _, _ => false
  end.

(* identifiers whose value the compiler knows: a `with` identifier declared
   with a constant expression is replaced by that constant wherever it is used
   (ir.ident: a symbol whose type_value is constant); loop variables never are *)
Inductive kconst := KI (z : Z) | KB (b : bool) | KS (s : list Z).
Definition kexpr (k : kconst) : expr :=
  match k with KI z => EInt z | KB b => EBool b | KS s => EStr s end.
Definition kval (k : kconst) : value :=
  match k with KI z => VInt z | KB b => VBool b | KS s => VStr s end.
Definition const_of (e : expr) : option kconst :=
  match e with EInt z => Some (KI z) | EBool b => Some (KB b) | EStr s => Some (KS s) | _ => None end.
Definition kenv := list (nat * option kconst).
Fixpoint klookup (x : nat) (c : kenv) : option kconst :=
  match c with
  | [] => None
  | (y, v) :: t => if Nat.eqb x y then v else klookup x t
  end.

(* fold_arithmetic over the operands of one n-ary + - * node (the parser
   appends to the node on its left when it has the same operator, cst2ast.rs
   new_n_ary_expr): a value only when EVERY operand is a constant, computed
   left to right with checked i64 arithmetic.  [e] is the left-nested chain. *)
Fixpoint sval (op : arith) (e : expr) : option Z :=
  match e with
  | EInt z => Some z
  | EArith op' a (EInt y) =>
      if arith_eqb op' op then
        match sval op a with
        | Some x => let r := ap op x y in
                    if in_i64 r then Some r else if FoldFacts.nary_fold_checked then None else Some (wrap64 r)
        | None => None
        end
      else None
  | _ => None
  end.
Definition nary (op : arith) (e : expr) : expr :=
  match sval op e with Some r => EInt r | None => e end.

(* shl / shr (non-negative constant count) and the bitwise operators: binary.
   The shape of the two shift folds is read from ir/mod.rs by
   translate/gen_foldfacts.py (Gen/FoldFacts.v): limit, value beyond it, `<<` / `>>`
   on i64 values below it. *)
Definition fold_shift (op : arith) (x y : Z) : Z :=
  match op with
  | Shl => if FoldFacts.shl_fold_limit <=? y then FoldFacts.shl_fold_over else wrap64 (Z.shiftl x y)
  | _ => if FoldFacts.shr_fold_limit <=? y then FoldFacts.shr_fold_over
         else if FoldFacts.shr_fold_arithmetic then Z.shiftr x y else Z.shiftr (x mod two64) y
  end.
Definition fold_bin (op : arith) (a b : expr) : expr :=
  match a, b with
  | EInt x, EInt y =>
      match op with
      | Shl | Shr =>
          if negb FoldFacts.shift_fold_needs_nonneg_count || (0 <=? y) then EInt (fold_shift op x y)
          else EArith op a b
      | BAnd | BOr | BXor => match arith_int op x y with VInt r => EInt r | _ => EArith op a b end
      | _ => EArith op a b
      end
  | _, _ => EArith op a b
  end.

(* ir.and / ir.or: constant operands that do not decide the result are
   dropped; the node becomes a constant when all operands were dropped or one
   decides.  (The chain stays left-nested here; Cond/IrTree.v lists the
   operands that remain.) *)
(* Expr::try_as_const_bool: a constant, or a `with` whose body is one
   (IR::with copies the type_value of the body) *)
Fixpoint bconst (e : expr) : option bool :=
  match e with
  | EBool b => Some b
  | EWith _ _ body => bconst body
  | _ => None
  end.
Definition fold_and (a b : expr) : expr :=
  match bconst a, bconst b with
  | Some false, _ | _, Some false => EBool false
  | Some true, Some true => EBool true
  | _, _ => EAnd a b
  end.
Definition fold_or (a b : expr) : expr :=
  match bconst a, bconst b with
  | Some true, _ | _, Some true => EBool true
  | Some false, Some false => EBool false
  | _, _ => EOr a b
  end.
Definition fold_not (a : expr) : expr :=
  match bconst a with Some b => EBool (negb b) | None => ENot a end.
Definition fold_neg (a : expr) : expr :=
  match a with EInt v => EInt (wrap64 (- v)) | _ => ENeg a end.
Definition fold_bitnot (a : expr) : expr :=
  match a with EInt v => EInt (Z.lnot v) | _ => EBitNot a end.
(* of_expr_from_ast (commit 2b4649c7): a quantifier known to be zero is `none` *)
Definition zero_quant (qk : qkind) (q : expr) : qkind :=
  match qk, q with QExpr, EInt 0 => QNone | _, _ => qk end.

(* [chain]: this expression is the left operand of an n-ary node of that
   operator, so - when it has the same operator - it is part of that node and
   not folded on its own *)
Fixpoint pfold (chain : option arith) (c : kenv) (e : expr) : expr :=
  match e with
  | EBool _ | EInt _ | EStr _ | EFilesize | EGlobal _ | ERule _ => e
  | EVar x => match klookup x c with Some k => kexpr k | None => e end
  | ENot a => fold_not (pfold None c a)
  | EAnd a b => fold_and (pfold None c a) (pfold None c b)
  | EOr a b => fold_or (pfold None c a) (pfold None c b)
  | EDefined a => EDefined (pfold None c a)
  | ENeg a => fold_neg (pfold None c a)
  | EBitNot a => fold_bitnot (pfold None c a)
  | EArith op a b =>
      match op with
      | Add | Sub | Mul =>
          let e' := EArith op (pfold (Some op) c a) (pfold None c b) in
          match chain with
          | Some op0 => if arith_eqb op op0 then e' else nary op e'
          | None => nary op e'
          end
      | Div | Mod => EArith op (pfold None c a) (pfold None c b)
      | _ => fold_bin op (pfold None c a) (pfold None c b)
      end
  | ECmp op a b => ECmp op (pfold None c a) (pfold None c b)
  | EStrOp op a b => EStrOp op (pfold None c a) (pfold None c b)
  | ERead k off => ERead k (pfold None c off)
  | EPat p ak a1 a2 => EPat p ak (pfold None c a1) (pfold None c a2)
  | ECount p rg lo hi => ECount p rg (pfold None c lo) (pfold None c hi)
  | EOffset p i => EOffset p (pfold None c i)
  | ELength p i => ELength p (pfold None c i)
  | EOf qk q set ak a1 a2 =>
      let q' := pfold None c q in
      EOf (zero_quant qk q') q' set ak (pfold None c a1) (pfold None c a2)
  | EOfB qk q items =>
      let q' := pfold None c q in
      EOfB (zero_quant qk q') q' (pfold_list c items)
  | EForOf qk q set body => EForOf qk (pfold None c q) set (pfold None c body)
  | EForRange qk q x lo hi body =>
      EForRange qk (pfold None c q) x (pfold None c lo) (pfold None c hi) (pfold None ((x, None) :: c) body)
  | EForTuple qk q x items body =>
      EForTuple qk (pfold None c q) x (pfold_list c items) (pfold None ((x, None) :: c) body)
  | EWith x d body =>
      let d' := pfold None c d in
      EWith x d' (pfold None ((x, const_of d') :: c) body)
  end
with pfold_list (c : kenv) (es : exprs) : exprs :=
  match es with
  | ENil => ENil
  | ECons e t => ECons (pfold None c e) (pfold_list c t)
  end.

Definition prefold (e : expr) : expr := pfold None [] e.

(* the value the compiler computes for an integer expression at compile time *)
Definition cval (c : kenv) (e : expr) : option Z :=
  match pfold None c e with EInt v => Some v | _ => None end.

(* pat_range_match(start, end, required) over the match lists of the patterns
   with ids start..=end: number of patterns with at least one match, then
   `match required { 0 => n == 0, r if r < 0 => n > 0, r => n >= r }` *)
Definition pat_range_match (required : Z) (ms : list mlist) : bool :=
  let n := Z.of_nat (length (filter matched ms)) in
  if required =? 0 then n =? 0
  else if required <? 0 then 0 <? n
  else required <=? n.
