(* C02 - models of the places where the implementation is known to leave the
   documented meaning (DESIGN.md section 7, findings 6, 10, 11 and the
   variable-flag aliasing found by this check).  They are used to CLASSIFY a
   disagreement between [RuleSet.run] and the implementation: a case whose
   observed verdicts are reproduced by switching one of these models on is
   reported under that finding's fingerprint; anything else is a new
   violation.

   * [prefold]: the compiler's constant folding of integer + - * through f64
     (lib/src/compiler/ir/mod.rs, fold_arithmetic), as a source-to-source
     transformation.  An n-ary chain `a + b + c` (the parser flattens the left
     spine of equal operators, parser/src/ast/cst2ast.rs new_n_ary_expr) is
     folded only when ALL its operands are constants; every step is rounded to
     53 bits; the result is converted with a saturating cast.
   * [e_fast] in Sem.v: `N of <set>` over consecutive pattern ids.
   * [var_depth]: number of variable slots a condition needs; from slot 64 on
     the undefined-flag of slot v aliases the flag of slot v - 56
     (emit.rs load_var / set_var_undef use index/64 as a byte address). *)
From Coq Require Import List ZArith Bool Lia.
From YV Require Import Cond.Syntax Cond.Sem.
Import ListNotations.
Local Open Scope Z_scope.

(* round-to-nearest-even of an integer to 53 significant bits: the value of
   `z as f64`, and of a correctly rounded f64 operation whose exact result is z *)
Definition r53 (z : Z) : Z :=
  if z =? 0 then 0 else
  let a := Z.abs z in
  let e := Z.log2 a - 52 in
  if e <=? 0 then z else
  let q := Z.shiftr a e in
  let r := a - Z.shiftl q e in
  let half := Z.shiftl 1 (e - 1) in
  let q' := if (half <? r) || ((half =? r) && Z.odd q) then q + 1 else q in
  Z.sgn z * Z.shiftl q' e.

(* `folded as i64` guarded by `folded >= i64::MIN as f64 && folded <= i64::MAX as f64` *)
Definition to_i64 (acc : Z) : option Z :=
  if (- two63 <=? acc) && (acc <=? two63) then
    Some (if acc =? two63 then two63 - 1 else acc)
  else None.

Definition ap (op : arith) (a b : Z) : Z :=
  match op with Add => a + b | Sub => a - b | _ => a * b end.

Definition finalize (r : expr * option (arith * Z)) : expr :=
  match snd r with
  | Some (_, acc) => match to_i64 acc with Some v => EInt v | None => fst r end
  | None => fst r
  end.

Fixpoint pf (e : expr) : expr * option (arith * Z) :=
  match e with
  | EBool _ | EInt _ | EStr _ | EFilesize | EVar _ | EGlobal _ | ERule _ => (e, None)
  | ENot a => (ENot (finalize (pf a)), None)
  | EAnd a b => (EAnd (finalize (pf a)) (finalize (pf b)), None)
  | EOr a b => (EOr (finalize (pf a)) (finalize (pf b)), None)
  | EDefined a => (EDefined (finalize (pf a)), None)
  | ENeg a =>
      match finalize (pf a) with
      | EInt v => (EInt (wrap64 (- v)), None)
      | a' => (ENeg a', None)
      end
  | EBitNot a =>
      match finalize (pf a) with
      | EInt v => (EInt (Z.lnot v), None)
      | a' => (EBitNot a', None)
      end
  | EArith op a b =>
      let ra := pf a in
      let b' := finalize (pf b) in
      if additive op then
        match snd ra with
        | Some (opa, acca) =>
            if arith_eqb opa op then
              (* the chain continues: a + b + c is one n-ary node *)
              match b' with
              | EInt vb => (EArith op (fst ra) b', Some (op, r53 (ap op acca (r53 vb))))
              | _ => (EArith op (fst ra) b', None)
              end
            else
              let a' := finalize ra in
              match a', b' with
              | EInt va, EInt vb => (EArith op a' b', Some (op, r53 (ap op (r53 va) (r53 vb))))
              | _, _ => (EArith op a' b', None)
              end
        | None =>
            let a' := fst ra in
            match a', b' with
            | EInt va, EInt vb => (EArith op a' b', Some (op, r53 (ap op (r53 va) (r53 vb))))
            | _, _ => (EArith op a' b', None)
            end
        end
      else
        let a' := finalize ra in
        match op, a', b' with
        | (BAnd | BOr | BXor), EInt va, EInt vb =>
            (match arith_int op va vb with VInt r => EInt r | _ => EArith op a' b' end, None)
        | (Shl | Shr), EInt va, EInt vb =>
            if 0 <=? vb then
              (match arith_int op va vb with VInt r => EInt r | _ => EArith op a' b' end, None)
            else (EArith op a' b', None)
        | _, _, _ => (EArith op a' b', None)
        end
  | ECmp op a b => (ECmp op (finalize (pf a)) (finalize (pf b)), None)
  | EStrOp op a b => (EStrOp op (finalize (pf a)) (finalize (pf b)), None)
  | ERead k off => (ERead k (finalize (pf off)), None)
  | EPat p ak a1 a2 => (EPat p ak (finalize (pf a1)) (finalize (pf a2)), None)
  | ECount p rg lo hi => (ECount p rg (finalize (pf lo)) (finalize (pf hi)), None)
  | EOffset p i => (EOffset p (finalize (pf i)), None)
  | ELength p i => (ELength p (finalize (pf i)), None)
  | EOf qk q set ak a1 a2 =>
      (EOf qk (finalize (pf q)) set ak (finalize (pf a1)) (finalize (pf a2)), None)
  | EOfB qk q items => (EOfB qk (finalize (pf q)) (pf_list items), None)
  | EForOf qk q set body => (EForOf qk (finalize (pf q)) set (finalize (pf body)), None)
  | EForRange qk q x lo hi body =>
      (EForRange qk (finalize (pf q)) x (finalize (pf lo)) (finalize (pf hi)) (finalize (pf body)), None)
  | EForTuple qk q x items body =>
      (EForTuple qk (finalize (pf q)) x (pf_list items) (finalize (pf body)), None)
  | EWith x d body => (EWith x (finalize (pf d)) (finalize (pf body)), None)
  end
with pf_list (es : exprs) : exprs :=
  match es with
  | ENil => ENil
  | ECons e t => ECons (finalize (pf e)) (pf_list t)
  end.

Definition prefold (e : expr) : expr := finalize (pf e).

(* ------------------------------------------------------------ variable slots *)
(* frame sizes of lib/src/compiler/context.rs (VarStack): `of` 5, `for..of` 5,
   `for..in` 7, `with` one slot per declaration.  Quantifier and iterable are
   compiled before the frame is opened; the anchor of an `of` inside it. *)
Fixpoint var_depth (e : expr) : nat :=
  match e with
  | EBool _ | EInt _ | EStr _ | EFilesize | EVar _ | EGlobal _ | ERule _ => 0
  | ENot a | EDefined a | ENeg a | EBitNot a | ERead _ a | EOffset _ a | ELength _ a => var_depth a
  | EAnd a b | EOr a b | EArith _ a b | ECmp _ a b | EStrOp _ a b
  | EPat _ _ a b | ECount _ _ a b => Nat.max (var_depth a) (var_depth b)
  | EOf _ q _ _ a1 a2 => Nat.max (var_depth q) (5 + Nat.max (var_depth a1) (var_depth a2))
  | EOfB _ q items => Nat.max (var_depth q) (5 + var_depth_list items)
  | EForOf _ q _ body => Nat.max (var_depth q) (5 + var_depth body)
  | EForRange _ q _ lo hi body =>
      Nat.max (var_depth q) (Nat.max (Nat.max (var_depth lo) (var_depth hi)) (7 + var_depth body))
  | EForTuple _ q _ items body =>
      Nat.max (var_depth q) (Nat.max (var_depth_list items) (7 + var_depth body))
  | EWith _ d body => Nat.max (var_depth d) (1 + var_depth body)
  end
with var_depth_list (es : exprs) : nat :=
  match es with
  | ENil => 0
  | ECons e t => Nat.max (var_depth e) (var_depth_list t)
  end.
