(* C02 - model of the compiler's constant folding (lib/src/compiler/ir/mod.rs:
   minus, bitwise_not, bitwise_and/or/xor, shl/shr with a non-negative
   constant count, and add/sub/mul through fold_arithmetic, which since
   commit 8b83ae6a folds integer operands with CHECKED i64 arithmetic) as a
   source-to-source transformation, and of the places where the
   implementation is known to leave the documented meaning.

   * [prefold]: every maximal integer subexpression made of constants is
     replaced by its value.  A constant + - * whose exact result leaves the
     i64 range is rejected by the compiler (NumberOutOfRange): an accept /
     reject difference, not a verdict difference; the model leaves such a
     node unfolded and the harness does not generate it.  [fold_sound]
     (QuirksProofs.v): folding never changes the value of a condition.
     (Before that commit the folding went through f64 and
     `9007199254740993 + 1 == 9007199254740994` was false: DESIGN finding 10,
     now a regression case of the harness.)
   * [pat_range_match]: the host function the emitted code calls for
     `N of <set>` when the pattern ids of the set are consecutive
     (lib/src/wasm/mod.rs), as repaired by commit bf5119e4.  Before, it
     answered true for every N <= 0 (findings 6, 11);
     [of_fast_path_equiv_loop] (QuirksProofs.v): it now agrees with the loop
     for every N.
   * the undefined-flag aliasing of variable slots >= 64 found by this check
     was repaired by commit 93e33409 (regression stream "deep_vars"). *)
From Coq Require Import List ZArith Bool Lia.
From YV Require Import Cond.Syntax Cond.Sem.
Import ListNotations.
Local Open Scope Z_scope.

Definition in_i64 (z : Z) : bool := (- two63 <=? z) && (z <? two63).

Definition ap (op : arith) (a b : Z) : Z :=
  match op with Add => a + b | Sub => a - b | _ => a * b end.

(* the value the compiler computes for an integer expression at compile time *)
Fixpoint cval (e : expr) : option Z :=
  match e with
  | EInt z => Some z
  | ENeg a => match cval a with Some v => Some (wrap64 (- v)) | None => None end
  | EBitNot a => match cval a with Some v => Some (Z.lnot v) | None => None end
  | EArith op a b =>
      match cval a, cval b with
      | Some x, Some y =>
          match op with
          | Add | Sub | Mul => let r := ap op x y in if in_i64 r then Some r else None
          | Div | Mod => None
          | Shl | Shr =>
              if 0 <=? y then match arith_int op x y with VInt r => Some r | _ => None end else None
          | BAnd | BOr | BXor => match arith_int op x y with VInt r => Some r | _ => None end
          end
      | _, _ => None
      end
  | _ => None
  end.

Definition folded (e e' : expr) : expr :=
  match cval e with Some v => EInt v | None => e' end.

Fixpoint prefold (e : expr) : expr :=
  match e with
  | EBool _ | EInt _ | EStr _ | EFilesize | EVar _ | EGlobal _ | ERule _ => e
  | ENot a => ENot (prefold a)
  | EAnd a b => EAnd (prefold a) (prefold b)
  | EOr a b => EOr (prefold a) (prefold b)
  | EDefined a => EDefined (prefold a)
  | ENeg a => folded e (ENeg (prefold a))
  | EBitNot a => folded e (EBitNot (prefold a))
  | EArith op a b => folded e (EArith op (prefold a) (prefold b))
  | ECmp op a b => ECmp op (prefold a) (prefold b)
  | EStrOp op a b => EStrOp op (prefold a) (prefold b)
  | ERead k off => ERead k (prefold off)
  | EPat p ak a1 a2 => EPat p ak (prefold a1) (prefold a2)
  | ECount p rg lo hi => ECount p rg (prefold lo) (prefold hi)
  | EOffset p i => EOffset p (prefold i)
  | ELength p i => ELength p (prefold i)
  | EOf qk q set ak a1 a2 => EOf qk (prefold q) set ak (prefold a1) (prefold a2)
  | EOfB qk q items => EOfB qk (prefold q) (prefold_list items)
  | EForOf qk q set body => EForOf qk (prefold q) set (prefold body)
  | EForRange qk q x lo hi body => EForRange qk (prefold q) x (prefold lo) (prefold hi) (prefold body)
  | EForTuple qk q x items body => EForTuple qk (prefold q) x (prefold_list items) (prefold body)
  | EWith x d body => EWith x (prefold d) (prefold body)
  end
with prefold_list (es : exprs) : exprs :=
  match es with
  | ENil => ENil
  | ECons e t => ECons (prefold e) (prefold_list t)
  end.

(* pat_range_match(start, end, required) over the match lists of the patterns
   with ids start..=end: number of patterns with at least one match, then
   `match required { 0 => n == 0, r if r < 0 => n > 0, r => n >= r }` *)
Definition pat_range_match (required : Z) (ms : list mlist) : bool :=
  let n := Z.of_nat (length (filter matched ms)) in
  if required =? 0 then n =? 0
  else if required <? 0 then 0 <? n
  else required <=? n.
