(* C02 - constant folding (as repaired by commit 8b83ae6a: checked i64
   arithmetic) never changes the value of a condition. *)
From Coq Require Import List ZArith Bool Lia.
From YV Require Import Cond.Syntax Cond.Sem Cond.SemProofs Cond.Quirks.
Import ListNotations.
Local Open Scope Z_scope.

Lemma in_i64_wrap : forall z, in_i64 z = true -> wrap64 z = z.
Proof.
  intros z H. unfold in_i64 in H. apply andb_true_iff in H. destruct H as [H1 H2].
  apply Z.leb_le in H1. apply Z.ltb_lt in H2. apply wrap64_id. lia.
Qed.

(* the compiler's knowledge about identifiers is right *)
Definition agree (c : kenv) (en : env) : Prop :=
  forall x k, klookup x c = Some k -> lookup x (e_vars en) = kval k.

Lemma agree_bind : forall c en x k v,
  agree c en -> (forall k0, k = Some k0 -> v = kval k0) -> agree ((x, k) :: c) (bind x v en).
Proof.
  intros c en x k v A H y z. cbn [klookup bind e_vars lookup]. destruct (Nat.eqb y x).
  - intros E. apply H. exact E.
  - apply A.
Qed.
Lemma agree_cur : forall c en i, agree c en -> agree c (with_cur i en).
Proof. intros c en i A. exact A. Qed.

Lemma const_of_sound : forall e k en, const_of e = Some k -> eval en e = kval k.
Proof. intros e k en H. destruct e; try discriminate; injection H as <-; reflexivity. Qed.
Lemma kexpr_sound : forall k en, eval en (kexpr k) = kval k.
Proof. intros [z|b|s] en; reflexivity. Qed.

Definition nary_op (op : arith) : Prop := op = Add \/ op = Sub \/ op = Mul.

(* the checked fold of an all-constant n-ary node is its run-time value *)
Lemma sval_sound : forall op, nary_op op -> forall e r en, sval op e = Some r -> eval en e = VInt r.
Proof.
  intros op Hop. induction e; intros res en H; cbn [sval] in H; try discriminate.
  - injection H as <-. reflexivity.
  - destruct e2; try discriminate.
    destruct (arith_eqb op0 op) eqn:E; [|discriminate].
    assert (op0 = op) by (destruct op0, op; try discriminate; reflexivity). subst op0.
    destruct (sval op e1) as [x|]; [|discriminate].
    destruct (in_i64 (ap op x z)) eqn:R; [|unfold FoldFacts.nary_fold_checked in H; discriminate]. injection H as <-.
    cbn [eval]. rewrite (IHe1 x en eq_refl). cbn [v_arith].
    destruct Hop as [-> | [-> | ->]]; cbn [ap arith_int] in *; rewrite (in_i64_wrap _ R); reflexivity.
Qed.
Lemma nary_sound : forall op e en, nary_op op -> eval en (nary op e) = eval en e.
Proof.
  intros op e en Hop. unfold nary. destruct (sval op e) as [r|] eqn:E; [|reflexivity].
  cbn [eval]. symmetry. exact (sval_sound op Hop e r en E).
Qed.
Lemma fold_shift_sound : forall op x y, (op = Shl \/ op = Shr) -> 0 <= y ->
  arith_int op x y = VInt (fold_shift op x y).
Proof.
  intros op x y [-> | ->] Hy; cbn [arith_int fold_shift];
    unfold FoldFacts.shl_fold_limit, FoldFacts.shl_fold_over, FoldFacts.shr_fold_limit, FoldFacts.shr_fold_over, FoldFacts.shr_fold_arithmetic;
    destruct (64 <=? y) eqn:E; try reflexivity;
    apply Z.leb_gt in E; rewrite Z.mod_small by lia; reflexivity.
Qed.
Lemma fold_bin_sound : forall op a b en, eval en (fold_bin op a b) = eval en (EArith op a b).
Proof.
  intros op a b en. unfold fold_bin. destruct a; try reflexivity. destruct b; try reflexivity.
  destruct op; try reflexivity.
  - unfold FoldFacts.shift_fold_needs_nonneg_count. cbn [negb orb]. destruct (0 <=? z0) eqn:E; [|reflexivity].
    apply Z.leb_le in E. cbn [eval v_arith]. rewrite (fold_shift_sound Shl z z0 (or_introl eq_refl) E). reflexivity.
  - unfold FoldFacts.shift_fold_needs_nonneg_count. cbn [negb orb]. destruct (0 <=? z0) eqn:E; [|reflexivity].
    apply Z.leb_le in E. cbn [eval v_arith]. rewrite (fold_shift_sound Shr z z0 (or_intror eq_refl) E). reflexivity.
Qed.
Lemma bconst_sound : forall e b, bconst e = Some b -> forall en, eval en e = VBool b.
Proof.
  induction e; intros v H en; cbn [bconst] in H; try discriminate.
  - injection H as <-. reflexivity.
  - cbn [eval]. apply IHe2. exact H.
Qed.
Lemma fold_and_sound : forall a b en, eval en (fold_and a b) = eval en (EAnd a b).
Proof.
  intros a b en. unfold fold_and. cbn [eval].
  destruct (bconst a) as [[|]|] eqn:Ha; destruct (bconst b) as [[|]|] eqn:Hb; cbn [eval];
    try rewrite (bconst_sound _ _ Ha en); try rewrite (bconst_sound _ _ Hb en);
    cbn [truthy andb]; rewrite ?andb_false_r; reflexivity.
Qed.
Lemma fold_or_sound : forall a b en, eval en (fold_or a b) = eval en (EOr a b).
Proof.
  intros a b en. unfold fold_or. cbn [eval].
  destruct (bconst a) as [[|]|] eqn:Ha; destruct (bconst b) as [[|]|] eqn:Hb; cbn [eval];
    try rewrite (bconst_sound _ _ Ha en); try rewrite (bconst_sound _ _ Hb en);
    cbn [truthy orb]; rewrite ?orb_true_r; reflexivity.
Qed.
Lemma fold_not_sound : forall a en, eval en (fold_not a) = eval en (ENot a).
Proof.
  intros a en. unfold fold_not. destruct (bconst a) as [b|] eqn:Ha; [|reflexivity].
  cbn [eval]. rewrite (bconst_sound _ _ Ha en). reflexivity.
Qed.
Lemma fold_neg_sound : forall a en, eval en (fold_neg a) = eval en (ENeg a).
Proof. intros a en. destruct a; reflexivity. Qed.
Lemma fold_bitnot_sound : forall a en, eval en (fold_bitnot a) = eval en (EBitNot a).
Proof. intros a en. destruct a; reflexivity. Qed.

(* a quantifier known to be zero means `none`, also with the strict loop of
   the tuples of boolean expressions *)
Lemma loop_zero_none : forall s items m c,
  loop_q QExpr 0 0 s items = loop_q QNone m c s items.
Proof.
  intros s items m c. induction items as [|v t IH]; [reflexivity|].
  cbn [loop_q]. destruct (s && is_undef v); [reflexivity|].
  destruct (truthy v); [reflexivity | exact IH].
Qed.
Lemma quantified_zero : forall qk q en s items,
  quantified (zero_quant qk q) (eval en q) s items = quantified qk (eval en q) s items.
Proof.
  intros qk q en s items. destruct qk; try reflexivity. destruct q; try reflexivity.
  destruct z; try reflexivity. cbn [zero_quant eval]. unfold quantified. cbn [max_count].
  symmetry. apply loop_zero_none.
Qed.

(* folding equals run-time evaluation, for every condition and environment *)
Theorem pfold_sound : forall e chain c en, agree c en -> eval en (pfold chain c e) = eval en e.
Proof.
  intros e.
  apply (expr_mut
    (fun e => forall chain c en, agree c en -> eval en (pfold chain c e) = eval en e)
    (fun es => forall c en, agree c en -> eval_list en (pfold_list c es) = eval_list en es));
    try (intros; cbn [pfold eval]; reflexivity).
  - intros x ch c en A. cbn [pfold]. destruct (klookup x c) as [k|] eqn:K; [|reflexivity].
    rewrite kexpr_sound. cbn [eval]. symmetry. apply A. exact K.
  - intros a IH ch c en A. cbn [pfold]. rewrite fold_not_sound. cbn [eval]. rewrite (IH None c en A). reflexivity.
  - intros a IHa b IHb ch c en A. cbn [pfold]. rewrite fold_and_sound. cbn [eval]. rewrite (IHa None c en A), (IHb None c en A). reflexivity.
  - intros a IHa b IHb ch c en A. cbn [pfold]. rewrite fold_or_sound. cbn [eval]. rewrite (IHa None c en A), (IHb None c en A). reflexivity.
  - intros a IH ch c en A. cbn [pfold eval]. rewrite (IH None c en A). reflexivity.
  - intros a IH ch c en A. cbn [pfold]. rewrite fold_neg_sound. cbn [eval]. rewrite (IH None c en A). reflexivity.
  - intros a IH ch c en A. cbn [pfold]. rewrite fold_bitnot_sound. cbn [eval]. rewrite (IH None c en A). reflexivity.
  - intros op a IHa b IHb ch c en A.
    assert (N : forall o, nary_op o ->
              eval en (match ch with
                       | Some op0 => if arith_eqb o op0 then EArith o (pfold (Some o) c a) (pfold None c b)
                                     else nary o (EArith o (pfold (Some o) c a) (pfold None c b))
                       | None => nary o (EArith o (pfold (Some o) c a) (pfold None c b))
                       end) = eval en (EArith o a b)).
    { intros o Ho.
      assert (E : eval en (EArith o (pfold (Some o) c a) (pfold None c b)) = eval en (EArith o a b))
        by (cbn [eval]; rewrite (IHa (Some o) c en A), (IHb None c en A); reflexivity).
      destruct ch as [op0|]; [destruct (arith_eqb o op0)|]; rewrite ?nary_sound by exact Ho; exact E. }
    destruct op; cbn [pfold];
      try (apply N; unfold nary_op; auto; fail);
      try (rewrite fold_bin_sound); cbn [eval]; rewrite (IHa None c en A), (IHb None c en A); reflexivity.
  - intros op a IHa b IHb ch c en A. cbn [pfold eval]. rewrite (IHa None c en A), (IHb None c en A). reflexivity.
  - intros op a IHa b IHb ch c en A. cbn [pfold eval]. rewrite (IHa None c en A), (IHb None c en A). reflexivity.
  - intros k a IH ch c en A. cbn [pfold eval]. rewrite (IH None c en A). reflexivity.
  - intros p ak a1 IH1 a2 IH2 ch c en A. cbn [pfold eval]. rewrite (IH1 None c en A), (IH2 None c en A). reflexivity.
  - intros p rg lo IH1 hi IH2 ch c en A. cbn [pfold eval]. rewrite (IH1 None c en A), (IH2 None c en A). reflexivity.
  - intros p i IH ch c en A. cbn [pfold eval]. rewrite (IH None c en A). reflexivity.
  - intros p i IH ch c en A. cbn [pfold eval]. rewrite (IH None c en A). reflexivity.
  - intros qk q IHq set ak a1 IH1 a2 IH2 ch c en A. cbn [pfold eval]. unfold v_of. rewrite quantified_zero.
    rewrite (IHq None c en A), (IH1 None c en A), (IH2 None c en A). reflexivity.
  - intros qk q IHq items IHi ch c en A. cbn [pfold eval]. rewrite quantified_zero.
    rewrite (IHq None c en A), (IHi c en A). reflexivity.
  - intros qk q IHq set body IHb ch c en A. cbn [pfold eval]. rewrite (IHq None c en A). f_equal. apply map_ext. intros i.
    apply IHb. apply agree_cur. exact A.
  - intros qk q IHq x lo IHl hi IHh body IHb ch c en A. cbn [pfold eval]. rewrite (IHq None c en A), (IHl None c en A), (IHh None c en A).
    destruct (range_items (eval en lo) (eval en hi)) as [[l n]|]; [|reflexivity].
    f_equal. apply map_ext. intros k.
    apply IHb. apply agree_bind; [exact A | intros z E; discriminate].
  - intros qk q IHq x items IHi body IHb ch c en A. cbn [pfold eval]. rewrite (IHq None c en A), (IHi c en A). f_equal. apply map_ext. intros v.
    apply IHb. apply agree_bind; [exact A | intros z E; discriminate].
  - intros x d IHd body IHb ch c en A. cbn [pfold eval]. rewrite (IHd None c en A). apply IHb.
    apply agree_bind; [exact A|]. intros k E. rewrite <- (IHd None c en A). exact (const_of_sound _ _ en E).
  - intros e0 IHe es IHes c en A. cbn [pfold_list eval_list]. rewrite (IHe None c en A), (IHes c en A). reflexivity.
Qed.

Theorem fold_sound : forall e en, eval en (prefold e) = eval en e.
Proof. intros e en. apply pfold_sound. intros x z H. discriminate. Qed.

(* the compile-time value of a constant expression is its run-time value *)
Lemma cval_sound : forall c e v, cval c e = Some v -> forall en, agree c en -> eval en e = VInt v.
Proof.
  intros c e v H en A. unfold cval in H. rewrite <- (pfold_sound e None c en A).
  destruct (pfold None c e); try discriminate. injection H as <-. reflexivity.
Qed.

(* the former witnesses of finding 10 now fold to the exact value *)
Example fold_beyond_2_53 :
  prefold (ECmp Eq (EArith Add (EInt 9007199254740993) (EInt 1)) (EInt 9007199254740994))
  = ECmp Eq (EInt 9007199254740994) (EInt 9007199254740994) /\
  (* an overflowing constant expression is not folded by the model: the compiler rejects it *)
  cval [] (EArith Add (EInt 9223372036854775807) (EInt 1)) = None /\
  (* a `with` identifier declared with a constant is propagated *)
  prefold (EWith 0%nat (EArith Add (EInt 1) (EInt 1)) (ECmp Eq (EArith Add (EVar 0%nat) EFilesize) (EInt 3)))
  = EWith 0%nat (EInt 2) (ECmp Eq (EArith Add (EInt 2) EFilesize) (EInt 3)) /\
  (* `1 + 2 + filesize` is ONE n-ary node with a non-constant operand: nothing folds;
     `filesize + (1 + 2)` has a node of its own on the right, which folds *)
  prefold (ECmp Eq (EArith Add (EArith Add (EInt 1) (EInt 2)) EFilesize) (EArith Add EFilesize (EArith Add (EInt 1) (EInt 2))))
  = ECmp Eq (EArith Add (EArith Add (EInt 1) (EInt 2)) EFilesize) (EArith Add EFilesize (EInt 3)) /\
  (* boolean constants *)
  prefold (EOr (EAnd (EBool true) (ENot (EBool false))) (ERule 0%nat)) = EBool true /\
  prefold (EOf QExpr (EArith Sub (EInt 2) (EInt 2)) [0%nat] ANone (EInt 0) (EInt 0)) = EOf QNone (EInt 0) [0%nat] ANone (EInt 0) (EInt 0).
Proof. vm_compute. repeat split; reflexivity. Qed.

(* the two ways the implementation evaluates `N of <set>` (range fast path
   over consecutive ids, loop otherwise) agree for EVERY N - refuted for
   N <= 0 before commits 2b4649c7 / bf5119e4 *)
Lemma count_true_matched : forall ms,
  count_true (map (fun m => VBool (matched m)) ms) = Z.of_nat (length (filter matched ms)).
Proof.
  intros ms. unfold count_true. f_equal. induction ms as [|m t IH]; [reflexivity|].
  cbn [map filter truthy]. destruct (matched m); cbn [length]; rewrite IH; reflexivity.
Qed.
Lemma exists_matched : forall ms,
  existsb truthy (map (fun m => VBool (matched m)) ms) = (0 <? Z.of_nat (length (filter matched ms))).
Proof.
  induction ms as [|m t IH]; [reflexivity|]. cbn [map existsb filter truthy].
  destruct (matched m); cbn [orb length].
  - symmetry. apply Z.ltb_lt. lia.
  - exact IH.
Qed.
Theorem of_fast_path_equiv_loop : forall z ms,
  v_of QExpr (VInt z) (map (fun m => VBool (matched m)) ms) = VBool (pat_range_match z ms).
Proof.
  intros z ms. unfold v_of, quantified, pat_range_match. cbn [max_count].
  destruct (z =? 0) eqn:E0.
  - apply Z.eqb_eq in E0. subst z. rewrite loop_expr_zero by auto. f_equal.
    rewrite exists_matched. destruct (Z.of_nat (length (filter matched ms))) eqn:L; try reflexivity.
    lia.
  - apply Z.eqb_neq in E0. destruct (z <? 0) eqn:En.
    + apply Z.ltb_lt in En. rewrite (loop_expr_neg QExpr z _ 0) by (auto; lia).
      rewrite exists_matched. reflexivity.
    + apply Z.ltb_ge in En. rewrite (loop_expr_pos QExpr z _ 0) by (auto; lia).
      rewrite count_true_matched. reflexivity.
Qed.
