(* C02 - constant folding (as repaired by commit 8b83ae6a: checked i64
   arithmetic) never changes the value of a condition. *)
From Coq Require Import List ZArith Bool Lia.
From YV Require Import Cond.Syntax Cond.Sem Cond.SemProofs Cond.Quirks.
Import ListNotations.
Local Open Scope Z_scope.

Lemma in_i64_wrap : forall z, in_i64 z = true -> wrap64 z = z.
Proof.
  intros z H. unfold in_i64 in H. apply andb_true_iff in H. destruct H as [H1 H2].
  apply Z.leb_le in H1. apply Z.ltb_lt in H2. apply wrap64_id. lia.
Qed.

(* the compile-time value of a constant expression is its run-time value *)
Lemma cval_sound : forall e v, cval e = Some v -> forall en, eval en e = VInt v.
Proof.
  induction e; intros v H en; cbn [cval] in H; try discriminate.
  - injection H as <-. reflexivity.
  - destruct (cval e) as [v0|]; [|discriminate]. injection H as <-.
    cbn [eval]. rewrite (IHe _ eq_refl). reflexivity.
  - destruct (cval e) as [v0|]; [|discriminate]. injection H as <-.
    cbn [eval]. rewrite (IHe _ eq_refl). reflexivity.
  - destruct (cval e1) as [x|]; [|discriminate]. destruct (cval e2) as [y|]; [|discriminate].
    cbn [eval]. rewrite (IHe1 _ eq_refl), (IHe2 _ eq_refl). cbn [v_arith].
    destruct op; try discriminate.
    + cbn [ap] in H. destruct (in_i64 (x + y)) eqn:R; [|discriminate]. injection H as <-.
      cbn [arith_int]. rewrite (in_i64_wrap _ R). reflexivity.
    + cbn [ap] in H. destruct (in_i64 (x - y)) eqn:R; [|discriminate]. injection H as <-.
      cbn [arith_int]. rewrite (in_i64_wrap _ R). reflexivity.
    + cbn [ap] in H. destruct (in_i64 (x * y)) eqn:R; [|discriminate]. injection H as <-.
      cbn [arith_int]. rewrite (in_i64_wrap _ R). reflexivity.
    + destruct (0 <=? y); [|discriminate]. destruct (arith_int Shl x y); try discriminate. injection H as <-. reflexivity.
    + destruct (0 <=? y); [|discriminate]. destruct (arith_int Shr x y); try discriminate. injection H as <-. reflexivity.
    + destruct (arith_int BAnd x y); try discriminate. injection H as <-. reflexivity.
    + destruct (arith_int BOr x y); try discriminate. injection H as <-. reflexivity.
    + destruct (arith_int BXor x y); try discriminate. injection H as <-. reflexivity.
Qed.

Lemma folded_sound : forall e e',
  (forall en, eval en e' = eval en e) -> forall en, eval en (folded e e') = eval en e.
Proof.
  intros e e' H en. unfold folded. destruct (cval e) as [v|] eqn:C.
  - cbn [eval]. symmetry. exact (cval_sound _ _ C en).
  - apply H.
Qed.

(* folding equals run-time evaluation, for every condition and environment *)
Theorem fold_sound : forall e en, eval en (prefold e) = eval en e.
Proof.
  intros e.
  apply (expr_mut
    (fun e => forall en, eval en (prefold e) = eval en e)
    (fun es => forall en, eval_list en (prefold_list es) = eval_list en es));
    try (intros; cbn [prefold eval]; reflexivity).
  - intros a IH en. cbn [prefold eval]. rewrite IH. reflexivity.
  - intros a IHa b IHb en. cbn [prefold eval]. rewrite IHa, IHb. reflexivity.
  - intros a IHa b IHb en. cbn [prefold eval]. rewrite IHa, IHb. reflexivity.
  - intros a IH en. cbn [prefold eval]. rewrite IH. reflexivity.
  - intros a IH. cbn [prefold]. apply folded_sound. intros en. cbn [eval]. rewrite IH. reflexivity.
  - intros a IH. cbn [prefold]. apply folded_sound. intros en. cbn [eval]. rewrite IH. reflexivity.
  - intros op a IHa b IHb. cbn [prefold]. apply folded_sound. intros en. cbn [eval]. rewrite IHa, IHb. reflexivity.
  - intros op a IHa b IHb en. cbn [prefold eval]. rewrite IHa, IHb. reflexivity.
  - intros op a IHa b IHb en. cbn [prefold eval]. rewrite IHa, IHb. reflexivity.
  - intros k a IH en. cbn [prefold eval]. rewrite IH. reflexivity.
  - intros p ak a1 IH1 a2 IH2 en. cbn [prefold eval]. rewrite IH1, IH2. reflexivity.
  - intros p rg lo IH1 hi IH2 en. cbn [prefold eval]. rewrite IH1, IH2. reflexivity.
  - intros p i IH en. cbn [prefold eval]. rewrite IH. reflexivity.
  - intros p i IH en. cbn [prefold eval]. rewrite IH. reflexivity.
  - intros qk q IHq set ak a1 IH1 a2 IH2 en. cbn [prefold eval]. rewrite IHq, IH1, IH2. reflexivity.
  - intros qk q IHq items IHi en. cbn [prefold eval]. rewrite IHq, IHi. reflexivity.
  - intros qk q IHq set body IHb en. cbn [prefold eval]. rewrite IHq. f_equal. apply map_ext. intros i. apply IHb.
  - intros qk q IHq x lo IHl hi IHh body IHb en. cbn [prefold eval]. rewrite IHq, IHl, IHh.
    destruct (range_items (eval en lo) (eval en hi)) as [[l n]|]; [|reflexivity].
    destruct (max_iter <? n); [reflexivity|]. f_equal. apply map_ext. intros k. apply IHb.
  - intros qk q IHq x items IHi body IHb en. cbn [prefold eval]. rewrite IHq, IHi. f_equal. apply map_ext. intros v. apply IHb.
  - intros x d IHd body IHb en. cbn [prefold eval]. rewrite IHd. apply IHb.
  - intros e0 IHe es IHes en. cbn [prefold_list eval_list]. rewrite IHe, IHes. reflexivity.
Qed.

(* the former witnesses of finding 10 now fold to the exact value *)
Example fold_beyond_2_53 :
  prefold (ECmp Eq (EArith Add (EInt 9007199254740993) (EInt 1)) (EInt 9007199254740994))
  = ECmp Eq (EInt 9007199254740994) (EInt 9007199254740994) /\
  (* an overflowing constant expression is not folded by the model: the compiler rejects it *)
  cval (EArith Add (EInt 9223372036854775807) (EInt 1)) = None.
Proof. vm_compute. split; reflexivity. Qed.

(* the two ways the implementation evaluates `N of <set>` (range fast path
   over consecutive ids, loop otherwise) agree for EVERY N - refuted for
   N <= 0 before commits 2b4649c7 / bf5119e4 *)
Lemma count_true_matched : forall ms,
  count_true (map (fun m => VBool (matched m)) ms) = Z.of_nat (length (filter matched ms)).
Proof.
  intros ms. unfold count_true. f_equal. induction ms as [|m t IH]; [reflexivity|].
  cbn [map filter truthy]. destruct (matched m); cbn [length]; rewrite IH; reflexivity.
Qed.
Lemma exists_matched : forall ms,
  existsb truthy (map (fun m => VBool (matched m)) ms) = (0 <? Z.of_nat (length (filter matched ms))).
Proof.
  induction ms as [|m t IH]; [reflexivity|]. cbn [map existsb filter truthy].
  destruct (matched m); cbn [orb length].
  - symmetry. apply Z.ltb_lt. lia.
  - exact IH.
Qed.
Theorem of_fast_path_equiv_loop : forall z ms,
  v_of QExpr (VInt z) (map (fun m => VBool (matched m)) ms) = VBool (pat_range_match z ms).
Proof.
  intros z ms. unfold v_of, quantified, pat_range_match. cbn [max_count].
  destruct (z =? 0) eqn:E0.
  - apply Z.eqb_eq in E0. subst z. rewrite loop_expr_zero by auto. f_equal.
    rewrite exists_matched. destruct (Z.of_nat (length (filter matched ms))) eqn:L; try reflexivity.
    lia.
  - apply Z.eqb_neq in E0. destruct (z <? 0) eqn:En.
    + apply Z.ltb_lt in En. rewrite (loop_expr_neg QExpr z _ 0) by (auto; lia).
      rewrite exists_matched. reflexivity.
    + apply Z.ltb_ge in En. rewrite (loop_expr_pos QExpr z _ 0) by (auto; lia).
      rewrite count_true_matched. reflexivity.
Qed.
