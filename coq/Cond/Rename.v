(* C02 / C07 - renaming of pattern identifiers inside a condition. *)
From Coq Require Import List ZArith Bool.
From YV Require Import Cond.Syntax.
Import ListNotations.

Definition rename_pref (f : nat -> nat) (p : pref) : pref :=
  match p with PId i => PId (f i) | PCur => PCur end.

Fixpoint rename (f : nat -> nat) (e : expr) : expr :=
  match e with
  | EBool _ | EInt _ | EStr _ | EFilesize | EVar _ | EGlobal _ | ERule _ => e
  | ENot a => ENot (rename f a)
  | EAnd a b => EAnd (rename f a) (rename f b)
  | EOr a b => EOr (rename f a) (rename f b)
  | EDefined a => EDefined (rename f a)
  | ENeg a => ENeg (rename f a)
  | EBitNot a => EBitNot (rename f a)
  | EArith op a b => EArith op (rename f a) (rename f b)
  | ECmp op a b => ECmp op (rename f a) (rename f b)
  | EStrOp op a b => EStrOp op (rename f a) (rename f b)
  | ERead k off => ERead k (rename f off)
  | EPat p ak a1 a2 => EPat (rename_pref f p) ak (rename f a1) (rename f a2)
  | ECount p rg lo hi => ECount (rename_pref f p) rg (rename f lo) (rename f hi)
  | EOffset p i => EOffset (rename_pref f p) (rename f i)
  | ELength p i => ELength (rename_pref f p) (rename f i)
  | EOf qk q set ak a1 a2 => EOf qk (rename f q) (map f set) ak (rename f a1) (rename f a2)
  | EOfB qk q items => EOfB qk (rename f q) (rename_list f items)
  | EForOf qk q set body => EForOf qk (rename f q) (map f set) (rename f body)
  | EForRange qk q x lo hi body => EForRange qk (rename f q) x (rename f lo) (rename f hi) (rename f body)
  | EForTuple qk q x items body => EForTuple qk (rename f q) x (rename_list f items) (rename f body)
  | EWith x d body => EWith x (rename f d) (rename f body)
  end
with rename_list (f : nat -> nat) (es : exprs) : exprs :=
  match es with
  | ENil => ENil
  | ECons e t => ECons (rename f e) (rename_list f t)
  end.
