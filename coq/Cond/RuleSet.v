(* C02 - evaluation of a whole rule set (global_and_private.md, conditions.md
   "Referencing other rules"):
   * rules are evaluated in the order of definition; a rule may refer to rules
     defined earlier in its namespace;
   * if a global rule of a namespace is false, no rule of that namespace
     matches;
   * private rules take part in all of this but are not reported. *)
From Coq Require Import List ZArith Bool Lia.
From YV Require Import Cond.Syntax Cond.Sem.
Import ListNotations.
Local Open Scope Z_scope.

Record rule := mkRule {
  r_ns : nat;                 (* namespace *)
  r_global : bool;
  r_private : bool;
  r_pats : list (list Z);     (* the literal text of each pattern, in order *)
  r_cond : expr }.

(* [tr] lets a caller transform the condition before it is evaluated (the
   identity for the documented meaning; Quirks.prefold for the model of the
   compiler's constant folding) *)
Definition rule_env (data : list Z) (globals : list value)
                    (verdicts : list bool) (r : rule) : env :=
  let ms := map (fun p => find_all p data) (r_pats r) in
  mkEnv data (Z.of_nat (length data)) (fun i => nth i ms []) [] None
        (fun j => nth j verdicts false) (fun g => nth g globals VUndef).

(* condition values of the rules, in order, each seeing the earlier ones *)
Fixpoint verdicts_from (tr : expr -> expr) (data : list Z) (globals : list value)
                       (rules : list rule) (acc : list bool) : list bool :=
  match rules with
  | [] => acc
  | r :: t =>
      verdicts_from tr data globals t
        (acc ++ [holds (rule_env data globals acc r) (tr (r_cond r))])
  end.

Definition verdicts tr data globals rules : list bool :=
  verdicts_from tr data globals rules [].

(* all global rules of namespace ns are satisfied *)
Definition ns_ok (rules : list rule) (vs : list bool) (ns : nat) : bool :=
  forallb (fun rv => negb (r_global (fst rv) && Nat.eqb (r_ns (fst rv)) ns) || snd rv)
          (combine rules vs).

(* indices of the matching rules, private ones included *)
Definition matching_of (rules : list rule) (vs : list bool) : list nat :=
  filter (fun i => nth i vs false && ns_ok rules vs (r_ns (nth i rules (mkRule 0 false false [] (EBool false)))))
         (seq 0 (length rules)).

Definition is_private (rules : list rule) (i : nat) : bool :=
  match nth_error rules i with Some r => r_private r | None => false end.

(* what is reported: the matching rules that are not private *)
Definition reported_of (rules : list rule) (vs : list bool) : list nat :=
  filter (fun i => negb (is_private rules i)) (matching_of rules vs).

Definition run (tr : expr -> expr) (data : list Z) (globals : list value)
               (rules : list rule) : list nat * list nat :=
  let vs := verdicts tr data globals rules in
  (matching_of rules vs, reported_of rules vs).

(* the documented meaning *)
Definition eval_ruleset (data : list Z) (globals : list value) (rules : list rule) : list nat * list nat :=
  run (fun e => e) data globals rules.
