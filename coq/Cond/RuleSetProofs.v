(* C02 - global and private rules, for every rule set, buffer and values of
   the external variables (theorems about Cond/RuleSet.v). *)
From Coq Require Import List ZArith Bool Lia.
From YV Require Import Cond.Syntax Cond.Sem Cond.RuleSet.
Import ListNotations.

Lemma verdicts_from_length : forall tr data globals rules acc,
  length (verdicts_from tr data globals rules acc) = (length acc + length rules)%nat.
Proof.
  intros tr data globals rules. induction rules as [|r t IH]; intros acc; cbn [verdicts_from length].
  - lia.
  - rewrite IH, app_length. cbn [length]. lia.
Qed.
Lemma verdicts_length : forall tr data globals rules,
  length (verdicts tr data globals rules) = length rules.
Proof. intros. unfold verdicts. rewrite verdicts_from_length. reflexivity. Qed.

Lemma in_combine_nth : forall (A B : Type) (l : list A) (l' : list B) i a b,
  nth_error l i = Some a -> nth_error l' i = Some b -> In (a, b) (combine l l').
Proof.
  intros A B l. induction l as [|x t IH]; intros l' i a b Ha Hb; destruct i; cbn in Ha; try discriminate.
  - destruct l'; cbn in Hb; [discriminate|]. injection Ha as ->. injection Hb as ->. left. reflexivity.
  - destruct l'; cbn in Hb; [discriminate|]. right. eapply IH; eassumption.
Qed.

(* If a global rule of a namespace is false, no rule of that namespace
   matches (hence none is reported). *)
Theorem global_fail_suppresses : forall rules vs g rg i,
  length vs = length rules ->
  nth_error rules g = Some rg -> r_global rg = true -> nth_error vs g = Some false ->
  In i (matching_of rules vs) ->
  r_ns (nth i rules (mkRule 0 false false [] (EBool false))) <> r_ns rg.
Proof.
  intros rules vs g rg i Hlen Hg Hglob Hv Hin.
  unfold matching_of in Hin. apply filter_In in Hin. destruct Hin as [_ Hin].
  apply andb_true_iff in Hin. destruct Hin as [_ Hok].
  unfold ns_ok in Hok. rewrite forallb_forall in Hok.
  specialize (Hok (rg, false) (in_combine_nth _ _ _ _ _ _ _ Hg Hv)).
  cbn [fst snd] in Hok. rewrite Hglob in Hok. rewrite orb_false_r in Hok. cbn [andb] in Hok.
  intros E. rewrite E in Hok. rewrite Nat.eqb_refl in Hok. discriminate.
Qed.

Corollary global_fail_suppresses_run : forall tr data globals rules g rg i,
  nth_error rules g = Some rg -> r_global rg = true ->
  nth_error (verdicts tr data globals rules) g = Some false ->
  In i (fst (run tr data globals rules)) \/ In i (snd (run tr data globals rules)) ->
  r_ns (nth i rules (mkRule 0 false false [] (EBool false))) <> r_ns rg.
Proof.
  intros tr data globals rules g rg i Hg Hglob Hv Hin.
  unfold run in Hin. cbn [fst snd] in Hin.
  assert (M : In i (matching_of rules (verdicts tr data globals rules))).
  { destruct Hin as [H | H]; [exact H|]. unfold reported_of in H. apply filter_In in H. tauto. }
  eapply global_fail_suppresses; try eassumption. apply verdicts_length.
Qed.

(* private rules are never reported; what is reported matched *)
Theorem private_hidden : forall rules vs i,
  In i (reported_of rules vs) -> is_private rules i = false /\ In i (matching_of rules vs).
Proof.
  intros rules vs i H. unfold reported_of in H. apply filter_In in H. destruct H as [H1 H2].
  split; [|exact H1]. destruct (is_private rules i); [discriminate|reflexivity].
Qed.
(* ... and every matching rule that is not private is reported *)
Theorem public_reported : forall rules vs i,
  In i (matching_of rules vs) -> is_private rules i = false -> In i (reported_of rules vs).
Proof.
  intros rules vs i H P. unfold reported_of. apply filter_In. split; [exact H|]. rewrite P. reflexivity.
Qed.

(* private rules influence other rules exactly like public ones: the
   condition values do not depend on the private flags *)
Definition set_private (b : bool) (r : rule) : rule :=
  mkRule (r_ns r) (r_global r) b (r_pats r) (r_cond r).

Lemma verdicts_from_ignore_private : forall tr data globals (flags : rule -> bool) rules acc,
  verdicts_from tr data globals (map (fun r => set_private (flags r) r) rules) acc
  = verdicts_from tr data globals rules acc.
Proof.
  intros tr data globals flags rules. induction rules as [|r t IH]; intros acc; [reflexivity|].
  cbn [map verdicts_from]. rewrite IH. reflexivity.
Qed.
Theorem verdicts_ignore_private : forall tr data globals flags rules,
  verdicts tr data globals (map (fun r => set_private (flags r) r) rules)
  = verdicts tr data globals rules.
Proof. intros. apply verdicts_from_ignore_private. Qed.

(* evaluation is a function of (rules, buffer, external variables) *)
Theorem ruleset_deterministic : forall data globals rules r1 r2,
  eval_ruleset data globals rules = r1 -> eval_ruleset data globals rules = r2 -> r1 = r2.
Proof. intros; congruence. Qed.

(* non-vacuity: a failing global rule, an earlier match that is suppressed,
   another namespace that is untouched, a private rule that matches *)
Example global_private_example :
  let rules := [ mkRule 0 false false [] (EBool true);
                 mkRule 0 true false [] (ECmp Gt EFilesize (EInt 100));
                 mkRule 1 false true [] (EBool true);
                 mkRule 1 false false [] (ERule 2) ] in
  eval_ruleset [97; 98; 99]%Z [] rules = ([2; 3]%nat, [3%nat]).
Proof. vm_compute. reflexivity. Qed.
