(* C02 - emit_of_pattern_set sorts the pattern ids of a set and splits them into
   runs of consecutive ids (Emit.runs): the runs cover the set exactly, and
   what pat_range_match answers for the thresholds the emitter passes. *)
From Coq Require Import List ZArith Bool Lia Permutation.
From YV Require Import Cond.Syntax Cond.Sem Cond.Quirks Cond.Machine Cond.Emit.
Import ListNotations.

(* ---------------------------------------------- runs of consecutive pattern ids *)
Definition run_ids (r : nat * nat) : list nat := seq (fst r) (S (snd r - fst r)).
Definition runs_ids (rs : list (nat * nat)) : list nat := flat_map run_ids rs.

Lemma insert_id_perm : forall x l, Permutation (x :: l) (insert_id x l).
Proof.
  intros x l. induction l as [|y t IH]; [apply Permutation_refl|].
  cbn [insert_id]. destruct (Nat.leb x y); [apply Permutation_refl|].
  eapply Permutation_trans; [apply perm_swap|]. apply perm_skip. exact IH.
Qed.
Lemma sort_ids_perm : forall l, Permutation l (sort_ids l).
Proof.
  induction l as [|x t IH]; [apply Permutation_refl|].
  unfold sort_ids. cbn [fold_right]. fold (sort_ids t).
  eapply Permutation_trans; [apply perm_skip; exact IH | apply insert_id_perm].
Qed.

Lemma seq_snoc : forall a n, seq a (S n) = seq a n ++ [(a + n)%nat].
Proof. intros a n. rewrite seq_S. reflexivity. Qed.

Lemma runs_from_ids : forall rest first last, (first <= last)%nat ->
  runs_ids (runs_from first last rest) = seq first (S (last - first)) ++ rest.
Proof.
  induction rest as [|x t IH]; intros first last H.
  - cbn [runs_from runs_ids flat_map run_ids fst snd]. reflexivity.
  - cbn [runs_from]. destruct (Nat.eqb x (S last)) eqn:E.
    + apply Nat.eqb_eq in E. subst x. rewrite IH by lia.
      replace (S (S last - first)) with (S (S (last - first))) by lia.
      rewrite (seq_snoc first (S (last - first))). rewrite <- app_assoc. cbn [app].
      replace (first + S (last - first))%nat with (S last) by lia. reflexivity.
    + cbn [runs_ids flat_map]. fold (runs_ids (runs_from x x t)). rewrite IH by lia.
      unfold run_ids. cbn [fst snd]. rewrite Nat.sub_diag. reflexivity.
Qed.
Lemma runs_ids_sorted : forall l, runs_ids (runs l) = sort_ids l.
Proof.
  intros l. unfold runs. destruct (sort_ids l) as [|x t]; [reflexivity|].
  rewrite runs_from_ids by lia. rewrite Nat.sub_diag. reflexivity.
Qed.
Lemma runs_perm : forall l, Permutation l (runs_ids (runs l)).
Proof. intros l. rewrite runs_ids_sorted. apply sort_ids_perm. Qed.

(* every run goes upwards *)
Lemma runs_from_le : forall rest first last, (first <= last)%nat ->
  Forall (fun r => (fst r <= snd r)%nat) (runs_from first last rest).
Proof.
  induction rest as [|x t IH]; intros first last H; cbn [runs_from].
  - constructor; [exact H | constructor].
  - destruct (Nat.eqb x (S last)) eqn:E.
    + apply Nat.eqb_eq in E. apply IH. lia.
    + constructor; [exact H | apply IH; lia].
Qed.
Lemma runs_le : forall l, Forall (fun r => (fst r <= snd r)%nat) (runs l).
Proof.
  intros l. unfold runs. destruct (sort_ids l) as [|x t]; [constructor|]. apply runs_from_le. lia.
Qed.

(* quantities that do not depend on the order of the patterns *)
Lemma perm_existsb : forall (A : Type) (f : A -> bool) l l', Permutation l l' -> existsb f l = existsb f l'.
Proof.
  intros A f l l' P. induction P; cbn [existsb]; try congruence.
  destruct (f x), (f y); reflexivity.
Qed.
Lemma perm_forallb : forall (A : Type) (f : A -> bool) l l', Permutation l l' -> forallb f l = forallb f l'.
Proof.
  intros A f l l' P. induction P; cbn [forallb]; try congruence.
  destruct (f x), (f y); reflexivity.
Qed.
Lemma perm_count : forall (A : Type) (f : A -> bool) l l', Permutation l l' ->
  length (filter f l) = length (filter f l').
Proof.
  intros A f l l' P. induction P; cbn [filter]; try congruence.
  - destruct (f x); cbn [length]; congruence.
  - destruct (f x), (f y); reflexivity.
Qed.
Lemma pat_range_match_perm : forall z (pm : nat -> mlist) l l', Permutation l l' ->
  pat_range_match z (map pm l) = pat_range_match z (map pm l').
Proof.
  intros z pm l l' P. unfold pat_range_match.
  rewrite (perm_count _ matched (map pm l) (map pm l')); [reflexivity|]. apply Permutation_map. exact P.
Qed.

(* what pat_range_match answers for the two thresholds emit_of_pattern_set uses *)
Lemma count_le_length : forall (A : Type) (f : A -> bool) l, (length (filter f l) <= length l)%nat.
Proof. intros A f l. induction l as [|x t IH]; [apply le_n|]. cbn [filter]. destruct (f x); cbn [length]; lia. Qed.
Lemma count_pos_exists : forall (A : Type) (f : A -> bool) l, (1 <=? Z.of_nat (length (filter f l)))%Z = existsb f l.
Proof.
  intros A f l. induction l as [|x t IH]; [reflexivity|]. cbn [filter existsb].
  destruct (f x); cbn [length orb]; [apply Z.leb_le; lia | exact IH].
Qed.
Lemma count_all_forall : forall (A : Type) (f : A -> bool) l,
  (Z.of_nat (length l) <=? Z.of_nat (length (filter f l)))%Z = forallb f l.
Proof.
  intros A f l. induction l as [|x t IH]; [reflexivity|]. cbn [filter forallb].
  destruct (f x); cbn [length andb].
  - rewrite <- IH. destruct (Z.of_nat (length t) <=? Z.of_nat (length (filter f t)))%Z eqn:E.
    + apply Z.leb_le in E. apply Z.leb_le. lia.
    + apply Z.leb_gt in E. apply Z.leb_gt. lia.
  - apply Z.leb_gt. pose proof (count_le_length A f t). lia.
Qed.
Lemma range_any : forall ms, pat_range_match 1 ms = existsb matched ms.
Proof. intros ms. unfold pat_range_match. cbn. apply count_pos_exists. Qed.
Lemma range_all : forall ms, ms <> [] -> pat_range_match (Z.of_nat (length ms)) ms = forallb matched ms.
Proof.
  intros ms H. unfold pat_range_match.
  destruct ms as [|m t]; [contradiction|].
  replace (Z.of_nat (length (m :: t)) =? 0)%Z with false by (symmetry; apply Z.eqb_neq; cbn [length]; lia).
  replace (Z.of_nat (length (m :: t)) <? 0)%Z with false by (symmetry; apply Z.ltb_ge; lia).
  apply count_all_forall.
Qed.

(* a set whose sorted ids form one run *)
Lemma single_run : forall set r, runs set = [r] -> Permutation set (run_ids r) /\ (fst r <= snd r)%nat.
Proof.
  intros set r H. split.
  - pose proof (runs_perm set) as P. rewrite H in P. cbn [runs_ids flat_map] in P. rewrite app_nil_r in P. exact P.
  - pose proof (runs_le set) as L. rewrite H in L. inversion L. assumption.
Qed.
