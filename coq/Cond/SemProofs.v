(* C02 - the algebra the documentation promises, for ALL expressions and
   environments (theorems about Cond/Sem.v). *)
From Coq Require Import List ZArith Bool Lia Permutation.
From YV Require Import Cond.Syntax Cond.Sem Cond.Rename.
Import ListNotations.
Local Open Scope Z_scope.

(* ------------------------------------------------------------ and / or *)
Lemma and_never_undef : forall en a b, is_undef (eval en (EAnd a b)) = false.
Proof. reflexivity. Qed.
Lemma or_never_undef : forall en a b, is_undef (eval en (EOr a b)) = false.
Proof. reflexivity. Qed.

(* undefined and X = false, X and undefined = false *)
Lemma undef_and : forall en a b,
  eval en a = VUndef \/ eval en b = VUndef -> eval en (EAnd a b) = VBool false.
Proof.
  intros en a b [H | H]; cbn [eval]; rewrite H; cbn [truthy andb].
  - reflexivity.
  - rewrite andb_false_r. reflexivity.
Qed.

(* undefined or X = X taken as a boolean (undefined or true = true,
   undefined or false = false), on both sides *)
Lemma undef_or_l : forall en a b,
  eval en a = VUndef -> eval en (EOr a b) = VBool (truthy (eval en b)).
Proof. intros en a b H. cbn [eval]. rewrite H. reflexivity. Qed.
Lemma undef_or_r : forall en a b,
  eval en b = VUndef -> eval en (EOr a b) = VBool (truthy (eval en a)).
Proof. intros en a b H. cbn [eval]. rewrite H. cbn [truthy]. rewrite orb_false_r. reflexivity. Qed.

Lemma and_bool : forall en a b x y,
  eval en a = VBool x -> eval en b = VBool y -> eval en (EAnd a b) = VBool (x && y).
Proof. intros en a b x y Ha Hb. cbn [eval]. rewrite Ha, Hb. destruct x, y; reflexivity. Qed.
Lemma or_bool : forall en a b x y,
  eval en a = VBool x -> eval en b = VBool y -> eval en (EOr a b) = VBool (x || y).
Proof. intros en a b x y Ha Hb. cbn [eval]. rewrite Ha, Hb. destruct x, y; reflexivity. Qed.

(* ------------------------------------------- every other operator propagates *)
Lemma not_undef : forall en a, eval en a = VUndef -> eval en (ENot a) = VUndef.
Proof. intros en a H. cbn [eval]. rewrite H. reflexivity. Qed.
Lemma neg_undef : forall en a, eval en a = VUndef -> eval en (ENeg a) = VUndef.
Proof. intros en a H. cbn [eval]. rewrite H. reflexivity. Qed.
Lemma bitnot_undef : forall en a, eval en a = VUndef -> eval en (EBitNot a) = VUndef.
Proof. intros en a H. cbn [eval]. rewrite H. reflexivity. Qed.
Lemma arith_undef : forall en op a b,
  eval en a = VUndef \/ eval en b = VUndef -> eval en (EArith op a b) = VUndef.
Proof.
  intros en op a b [H | H]; cbn [eval]; rewrite H; [reflexivity|].
  destruct (eval en a); reflexivity.
Qed.
Lemma cmp_undef : forall en op a b,
  eval en a = VUndef \/ eval en b = VUndef -> eval en (ECmp op a b) = VUndef.
Proof.
  intros en op a b [H | H]; cbn [eval]; rewrite H; [reflexivity|].
  destruct (eval en a); reflexivity.
Qed.
Lemma strop_undef : forall en op a b,
  eval en a = VUndef \/ eval en b = VUndef -> eval en (EStrOp op a b) = VUndef.
Proof.
  intros en op a b [H | H]; cbn [eval]; rewrite H; [reflexivity|].
  destruct (eval en a); reflexivity.
Qed.
Lemma read_undef : forall en k a, eval en a = VUndef -> eval en (ERead k a) = VUndef.
Proof. intros en k a H. cbn [eval]. rewrite H. reflexivity. Qed.
Lemma pat_at_undef : forall en p a1 a2,
  eval en a1 = VUndef -> eval en (EPat p AAt a1 a2) = VUndef.
Proof. intros en p a1 a2 H. cbn [eval]. rewrite H. destruct (resolve en p); reflexivity. Qed.
Lemma pat_in_undef : forall en p a1 a2,
  eval en a1 = VUndef \/ eval en a2 = VUndef -> eval en (EPat p AIn a1 a2) = VUndef.
Proof.
  intros en p a1 a2 [H | H]; cbn [eval]; rewrite H; destruct (resolve en p); try reflexivity.
  cbn [pat_item]. destruct (eval en a1); reflexivity.
Qed.
Lemma offset_undef : forall en p i, eval en i = VUndef -> eval en (EOffset p i) = VUndef.
Proof. intros en p i H. cbn [eval]. rewrite H. destruct (resolve en p); reflexivity. Qed.
Lemma length_undef : forall en p i, eval en i = VUndef -> eval en (ELength p i) = VUndef.
Proof. intros en p i H. cbn [eval]. rewrite H. destruct (resolve en p); reflexivity. Qed.
Lemma div_by_zero_undef : forall en a b,
  eval en b = VInt 0 -> eval en (EArith Div a b) = VUndef /\ eval en (EArith Mod a b) = VUndef.
Proof. intros en a b H. cbn [eval]. rewrite H. destruct (eval en a); split; reflexivity. Qed.
(* @a[i] beyond the number of occurrences is undefined *)
Lemma offset_beyond_undef : forall en i idx z,
  eval en idx = VInt z -> Z.of_nat (length (e_pm en i)) < z ->
  eval en (EOffset (PId i) idx) = VUndef.
Proof.
  intros en i idx z H Hz. cbn [eval resolve]. rewrite H. unfold v_offset, nth_match.
  replace (z <=? Z.of_nat (length (e_pm en i))) with false by (symmetry; apply Z.leb_gt; lia).
  rewrite andb_false_r. reflexivity.
Qed.

(* undefined values exist (the hypotheses above are satisfiable): reading past
   the end of the data, an occurrence that does not exist, division by a
   run-time zero; and `or` recovers from them *)
Example undef_sources :
  let en := mkEnv [1; 2; 3] 3 (fun _ => [(1, 2)]) [] None (fun _ => false) (fun _ => VUndef) in
  let u := ERead (IK 1 false false) (EArith Add EFilesize (EInt 5)) in
  eval en u = VUndef /\
  eval en (EOffset (PId 0) (EInt 9)) = VUndef /\
  eval en (EArith Div (EInt 1) (EArith Sub EFilesize (EInt 3))) = VUndef /\
  eval en (ENot (ECmp Eq u (EInt 1))) = VUndef /\
  eval en (EOr (ECmp Eq u (EInt 1)) (EBool true)) = VBool true /\
  eval en (EAnd (ECmp Eq u (EInt 1)) (EBool true)) = VBool false /\
  eval en (EDefined u) = VBool false.
Proof. vm_compute. repeat split. Qed.

Lemma defined_spec : forall en a, eval en (EDefined a) = VBool (negb (is_undef (eval en a))).
Proof. reflexivity. Qed.

(* the verdict of a rule whose condition is undefined is false *)
Lemma undef_condition_false : forall en e, eval en e = VUndef -> holds en e = false.
Proof. intros en e H. unfold holds. rewrite H. reflexivity. Qed.

Lemma eval_deterministic : forall en e v1 v2, eval en e = v1 -> eval en e = v2 -> v1 = v2.
Proof. intros; congruence. Qed.

(* 64-bit wrap-around stays in range *)
Lemma wrap64_range : forall z, - two63 <= wrap64 z < two63.
Proof.
  intros z. unfold wrap64.
  assert (0 <= (z + two63) mod two64 < two64) by (apply Z.mod_pos_bound; reflexivity).
  unfold two63, two64 in *. lia.
Qed.
Lemma wrap64_id : forall z, - two63 <= z < two63 -> wrap64 z = z.
Proof.
  intros z H. unfold wrap64. rewrite Z.mod_small; unfold two63, two64 in *; lia.
Qed.

(* --------------------------------------------------------------- quantifiers *)
Definition count_true (items : list value) : Z :=
  Z.of_nat (length (filter truthy items)).

Lemma loop_none : forall m c items,
  loop_q QNone m c false items = VBool (negb (existsb truthy items)).
Proof.
  intros m c items. induction items as [|v t IH]; [reflexivity|].
  cbn [loop_q existsb andb]. destruct (truthy v); [reflexivity|]. exact IH.
Qed.
Lemma loop_any : forall m c items,
  loop_q QAny m c false items = VBool (existsb truthy items).
Proof.
  intros m c items. induction items as [|v t IH]; [reflexivity|].
  cbn [loop_q existsb andb]. destruct (truthy v); [reflexivity|]. exact IH.
Qed.
Lemma loop_all : forall m c items,
  loop_q QAll m c false items = VBool (forallb truthy items).
Proof.
  intros m c items. induction items as [|v t IH]; [reflexivity|].
  cbn [loop_q forallb andb]. destruct (truthy v); [|reflexivity]. exact IH.
Qed.

Lemma count_true_cons : forall v t,
  count_true (v :: t) = (if truthy v then 1 else 0) + count_true t.
Proof.
  intros v t. unfold count_true. cbn [filter]. destruct (truthy v); cbn [length]; lia.
Qed.
Lemma count_true_nonneg : forall l, 0 <= count_true l.
Proof. intros l. unfold count_true. lia. Qed.

(* at least m (> 0) true iterations *)
Lemma loop_expr_pos : forall qk m items c,
  qk = QExpr \/ qk = QPct -> 0 < m -> c < m ->
  loop_q qk m c false items = VBool (m <=? c + count_true items).
Proof.
  intros qk m items. induction items as [|v t IH]; intros c Hq Hm Hc.
  - destruct Hq; subst qk; cbn [loop_q]; unfold count_true; cbn [filter length];
      f_equal; rewrite Z.add_0_r;
      (replace (m =? 0) with false by (symmetry; apply Z.eqb_neq; lia));
      symmetry; apply Z.leb_gt; lia.
  - rewrite count_true_cons.
    assert (E : loop_q qk m c false (v :: t) =
                if truthy v then
                  if m <=? c + 1 then VBool (negb (m =? 0)) else loop_q qk m (c + 1) false t
                else loop_q qk m c false t)
      by (destruct Hq; subst qk; reflexivity).
    rewrite E. destruct (truthy v).
    + destruct (m <=? c + 1) eqn:L.
      * apply Z.leb_le in L.
        replace (m =? 0) with false by (symmetry; apply Z.eqb_neq; lia).
        cbn [negb]. f_equal. symmetry. apply Z.leb_le. pose proof (count_true_nonneg t). lia.
      * apply Z.leb_gt in L. rewrite IH by (auto; lia). f_equal. f_equal. lia.
    + rewrite IH by auto. f_equal.
Qed.

(* m = 0: exactly zero true iterations *)
Lemma loop_expr_zero : forall qk items,
  qk = QExpr \/ qk = QPct ->
  loop_q qk 0 0 false items = VBool (negb (existsb truthy items)).
Proof.
  intros qk items Hq. induction items as [|v t IH].
  - destruct Hq; subst qk; reflexivity.
  - assert (E : loop_q qk 0 0 false (v :: t) =
                if truthy v then
                  if 0 <=? 0 + 1 then VBool (negb (0 =? 0)) else loop_q qk 0 (0 + 1) false t
                else loop_q qk 0 0 false t)
      by (destruct Hq; subst qk; reflexivity).
    rewrite E. cbn [existsb]. destruct (truthy v); [reflexivity|]. exact IH.
Qed.

Section OfLaws.
  Variable en : env.
  Variables (set : list nat) (ak : akind) (a1 a2 : expr).

  Definition of_items : list value :=
    map (fun i => pat_item (e_pm en i) ak (eval en a1) (eval en a2)) set.

  Lemma of_none q : eval en (EOf QNone q set ak a1 a2) = VBool (negb (existsb truthy of_items)).
  Proof. cbn [eval]. unfold v_of, quantified. cbn [max_count]. apply loop_none. Qed.
  Lemma of_any q : eval en (EOf QAny q set ak a1 a2) = VBool (existsb truthy of_items).
  Proof. cbn [eval]. unfold v_of, quantified. cbn [max_count]. apply loop_any. Qed.
  Lemma of_all q : eval en (EOf QAll q set ak a1 a2) = VBool (forallb truthy of_items).
  Proof. cbn [eval]. unfold v_of, quantified. cbn [max_count]. apply loop_all. Qed.

  (* `none of S` <-> not `any of S` *)
  Lemma none_of_not_any : forall q q',
    eval en (EOf QNone q set ak a1 a2) = v_not (eval en (EOf QAny q' set ak a1 a2)).
  Proof. intros. rewrite of_none, of_any. reflexivity. Qed.

  (* `N of S` for a positive N: at least N *)
  Lemma n_of_at_least : forall n, 0 < n ->
    eval en (EOf QExpr (EInt n) set ak a1 a2) = VBool (n <=? count_true of_items).
  Proof.
    intros n Hn. cbn [eval]. unfold v_of, quantified. cbn [max_count].
    rewrite (loop_expr_pos QExpr n _ 0) by (auto; lia). reflexivity.
  Qed.

  (* `0 of S`: exactly zero (conditions.md), i.e. the same as `none of S` *)
  Lemma zero_of_is_none : forall q,
    eval en (EOf QExpr (EInt 0) set ak a1 a2) = eval en (EOf QNone q set ak a1 a2).
  Proof.
    intros q. rewrite of_none. cbn [eval]. unfold v_of, quantified. cbn [max_count].
    apply loop_expr_zero. auto.
  Qed.

  (* monotone in N *)
  Lemma n_of_monotone : forall n m, 0 < n -> n <= m ->
    eval en (EOf QExpr (EInt m) set ak a1 a2) = VBool true ->
    eval en (EOf QExpr (EInt n) set ak a1 a2) = VBool true.
  Proof.
    intros n m Hn Hm. rewrite !n_of_at_least by lia. intros H. f_equal.
    injection H as H. apply Z.leb_le in H. apply Z.leb_le. lia.
  Qed.

  (* `1 of S` = `any of S`;  `all of S` = `|S| of S` *)
  Lemma one_of_is_any : forall q,
    eval en (EOf QExpr (EInt 1) set ak a1 a2) = eval en (EOf QAny q set ak a1 a2).
  Proof.
    intros q. rewrite n_of_at_least by lia. rewrite of_any. f_equal.
    unfold count_true. induction of_items as [|v t IH]; [reflexivity|].
    cbn [filter existsb]. destruct (truthy v); cbn [length orb].
    - apply Z.leb_le. lia.
    - exact IH.
  Qed.
End OfLaws.

Lemma existsb_map : forall (A B : Type) (g : A -> B) (p : B -> bool) (l : list A),
  existsb p (map g l) = existsb (fun x => p (g x)) l.
Proof. intros. induction l as [|a t IH]; [reflexivity|]. cbn [map existsb]. rewrite IH. reflexivity. Qed.

(* for-loops: any / all / none are existsb / forallb over the bodies *)
Lemma quantified_any : forall qv items, quantified QAny qv false items = VBool (existsb truthy items).
Proof. intros. unfold quantified. cbn [max_count]. apply loop_any. Qed.
Lemma quantified_all : forall qv items, quantified QAll qv false items = VBool (forallb truthy items).
Proof. intros. unfold quantified. cbn [max_count]. apply loop_all. Qed.
Lemma quantified_none : forall qv items, quantified QNone qv false items = VBool (negb (existsb truthy items)).
Proof. intros. unfold quantified. cbn [max_count]. apply loop_none. Qed.

Lemma for_of_any : forall en q set body,
  eval en (EForOf QAny q set body) = VBool (existsb (fun i => holds (with_cur i en) body) set).
Proof.
  intros. cbn [eval]. rewrite quantified_any. f_equal. rewrite existsb_map. reflexivity.
Qed.
Lemma for_of_all : forall en q set body,
  eval en (EForOf QAll q set body) = VBool (forallb (fun i => holds (with_cur i en) body) set).
Proof.
  intros. cbn [eval]. rewrite quantified_all. f_equal.
  induction set as [|i t IH]; [reflexivity|]. cbn [map forallb]. rewrite IH. reflexivity.
Qed.
Lemma for_of_none : forall en q set body,
  eval en (EForOf QNone q set body) = VBool (negb (existsb (fun i => holds (with_cur i en) body) set)).
Proof.
  intros. cbn [eval]. rewrite quantified_none. f_equal. f_equal. rewrite existsb_map. reflexivity.
Qed.
(* `any of S` is `for any of S : ($)` (conditions.md) *)
Lemma of_is_for_of : forall en q set,
  eval en (EOf QAny q set ANone (EInt 0) (EInt 0)) = eval en (EForOf QAny q set (EPat PCur ANone (EInt 0) (EInt 0))).
Proof.
  intros en q set. rewrite (of_any en). rewrite for_of_any. f_equal.
  unfold of_items. rewrite existsb_map. reflexivity.
Qed.

Lemma for_tuple_any : forall en q x items body,
  eval en (EForTuple QAny q x items body)
  = VBool (existsb (fun v => holds (bind x v en) body) (eval_list en items)).
Proof.
  intros. cbn [eval]. rewrite quantified_any. f_equal. rewrite existsb_map. reflexivity.
Qed.
Lemma for_tuple_all : forall en q x items body,
  eval en (EForTuple QAll q x items body)
  = VBool (forallb (fun v => holds (bind x v en) body) (eval_list en items)).
Proof.
  intros. cbn [eval]. rewrite quantified_all. f_equal.
  induction (eval_list en items) as [|i t IH]; [reflexivity|]. cbn [map forallb]. rewrite IH. reflexivity.
Qed.

(* the loop variable of a range loop whose lower bound is an i64 value *)
Lemma range_item_wrap : forall l k, - two63 <= l < two63 -> range_item l k = wrap64 (l + k).
Proof.
  intros l k H. unfold range_item. destruct (k =? 0) eqn:E; [|reflexivity].
  apply Z.eqb_eq in E. subst k. rewrite Z.add_0_r. symmetry. apply wrap64_id. exact H.
Qed.

(* a range loop with integer bounds lo <= hi *)
Lemma for_range_any : forall en q x lo hi body l h,
  eval en lo = VInt l -> eval en hi = VInt h ->
  0 < wrap64 (h - l + 1) ->
  eval en (EForRange QAny q x lo hi body)
  = VBool (existsb (fun k => holds (bind x (VInt (range_item l k)) en) body) (zseq (wrap64 (h - l + 1)))).
Proof.
  intros en q x lo hi body l h Hl Hh Hn. cbn [eval]. rewrite Hl, Hh. cbn [range_items].
  replace (0 <? wrap64 (h - l + 1)) with true by (symmetry; apply Z.ltb_lt; exact Hn).
  rewrite quantified_any. f_equal. rewrite existsb_map. reflexivity.
Qed.
Lemma for_range_all : forall en q x lo hi body l h,
  eval en lo = VInt l -> eval en hi = VInt h ->
  0 < wrap64 (h - l + 1) ->
  eval en (EForRange QAll q x lo hi body)
  = VBool (forallb (fun k => holds (bind x (VInt (range_item l k)) en) body) (zseq (wrap64 (h - l + 1)))).
Proof.
  intros en q x lo hi body l h Hl Hh Hn. cbn [eval]. rewrite Hl, Hh. cbn [range_items].
  replace (0 <? wrap64 (h - l + 1)) with true by (symmetry; apply Z.ltb_lt; exact Hn).
  rewrite quantified_all. f_equal.
  induction (zseq (wrap64 (h - l + 1))) as [|i t IH]; [reflexivity|]. cbn [map forallb]. rewrite IH. reflexivity.
Qed.
(* with x = d : (body) is body with x bound to the value of d *)
Lemma with_spec : forall en x d body, eval en (EWith x d body) = eval (bind x (eval en d) en) body.
Proof. reflexivity. Qed.

(* the hypotheses of the range lemmas are satisfiable *)
Example for_range_example :
  let en := mkEnv [] 0 (fun _ => []) [] None (fun _ => false) (fun _ => VUndef) in
  eval en (EForRange QAll (EInt 0) 0%nat (EInt 1) (EInt 3)
             (ECmp Lt (EVar 0%nat) (EInt 4))) = VBool true.
Proof. vm_compute. reflexivity. Qed.

(* ------------------------------------------------- renaming pattern identifiers *)
(* en' is en seen through the renaming f of pattern identifiers *)
Record env_ren (f : nat -> nat) (en en' : env) : Prop := {
  er_data : e_data en' = e_data en;
  er_len : e_len en' = e_len en;
  er_vars : e_vars en' = e_vars en;
  er_rules : e_rules en' = e_rules en;
  er_globals : e_globals en' = e_globals en;
  er_pm : forall i, e_pm en' (f i) = e_pm en i;
  er_cur : e_cur en' = option_map f (e_cur en) }.

Lemma env_ren_bind : forall f en en' x v, env_ren f en en' -> env_ren f (bind x v en) (bind x v en').
Proof.
  intros f en en' x v H. destruct H. constructor; cbn [bind e_data e_len e_vars e_rules e_globals e_pm e_cur]; try assumption.
  rewrite er_vars0. reflexivity.
Qed.
Lemma env_ren_cur : forall f en en' i, env_ren f en en' -> env_ren f (with_cur i en) (with_cur (f i) en').
Proof.
  intros f en en' i H. destruct H. constructor; cbn [with_cur e_data e_len e_vars e_rules e_globals e_pm e_cur]; try assumption.
  reflexivity.
Qed.

Lemma resolve_ren : forall f en en' p, env_ren f en en' ->
  resolve en' (rename_pref f p) = option_map f (resolve en p).
Proof. intros f en en' p H. destruct p; cbn; [reflexivity|]. apply (er_cur _ _ _ H). Qed.

Theorem id_renaming_invariance : forall f e en en',
  env_ren f en en' -> eval en' (rename f e) = eval en e.
Proof.
  intros f e.
  apply (expr_mut
    (fun e => forall en en', env_ren f en en' -> eval en' (rename f e) = eval en e)
    (fun es => forall en en', env_ren f en en' -> eval_list en' (rename_list f es) = eval_list en es));
    try (intros; cbn [rename eval]; reflexivity).
  - (* EFilesize *) intros en en' H. cbn [rename eval]. rewrite (er_len _ _ _ H). reflexivity.
  - (* EVar *) intros x en en' H. cbn [rename eval]. rewrite (er_vars _ _ _ H). reflexivity.
  - (* EGlobal *) intros g en en' H. cbn [rename eval]. rewrite (er_globals _ _ _ H). reflexivity.
  - (* ERule *) intros r en en' H. cbn [rename eval]. rewrite (er_rules _ _ _ H). reflexivity.
  - intros a IH en en' H. cbn [rename eval]. rewrite (IH _ _ H). reflexivity.
  - intros a IHa b IHb en en' H. cbn [rename eval]. rewrite (IHa _ _ H), (IHb _ _ H). reflexivity.
  - intros a IHa b IHb en en' H. cbn [rename eval]. rewrite (IHa _ _ H), (IHb _ _ H). reflexivity.
  - intros a IH en en' H. cbn [rename eval]. rewrite (IH _ _ H). reflexivity.
  - intros a IH en en' H. cbn [rename eval]. rewrite (IH _ _ H). reflexivity.
  - intros a IH en en' H. cbn [rename eval]. rewrite (IH _ _ H). reflexivity.
  - intros op a IHa b IHb en en' H. cbn [rename eval]. rewrite (IHa _ _ H), (IHb _ _ H). reflexivity.
  - intros op a IHa b IHb en en' H. cbn [rename eval]. rewrite (IHa _ _ H), (IHb _ _ H). reflexivity.
  - intros op a IHa b IHb en en' H. cbn [rename eval]. rewrite (IHa _ _ H), (IHb _ _ H). reflexivity.
  - (* ERead *) intros k a IH en en' H. cbn [rename eval]. rewrite (IH _ _ H), (er_data _ _ _ H), (er_len _ _ _ H). reflexivity.
  - (* EPat *) intros p ak a1 IH1 a2 IH2 en en' H. cbn [rename eval].
    rewrite (resolve_ren _ _ _ p H), (IH1 _ _ H), (IH2 _ _ H).
    destruct (resolve en p); cbn [option_map]; [rewrite (er_pm _ _ _ H)|]; reflexivity.
  - (* ECount *) intros p rg lo IH1 hi IH2 en en' H. cbn [rename eval].
    rewrite (resolve_ren _ _ _ p H), (IH1 _ _ H), (IH2 _ _ H).
    destruct (resolve en p); cbn [option_map]; [rewrite (er_pm _ _ _ H)|]; reflexivity.
  - (* EOffset *) intros p i IH en en' H. cbn [rename eval].
    rewrite (resolve_ren _ _ _ p H), (IH _ _ H).
    destruct (resolve en p); cbn [option_map]; [rewrite (er_pm _ _ _ H)|]; reflexivity.
  - (* ELength *) intros p i IH en en' H. cbn [rename eval].
    rewrite (resolve_ren _ _ _ p H), (IH _ _ H).
    destruct (resolve en p); cbn [option_map]; [rewrite (er_pm _ _ _ H)|]; reflexivity.
  - (* EOf *) intros qk q IHq set ak a1 IH1 a2 IH2 en en' H. cbn [rename eval].
    rewrite (IHq _ _ H), (IH1 _ _ H), (IH2 _ _ H).
    unfold v_of. rewrite map_map. f_equal. apply map_ext. intros i. rewrite (er_pm _ _ _ H). reflexivity.
  - (* EOfB *) intros qk q IHq items IHi en en' H. cbn [rename eval].
    rewrite (IHq _ _ H), (IHi _ _ H). reflexivity.
  - (* EForOf *) intros qk q IHq set body IHb en en' H. cbn [rename eval].
    rewrite (IHq _ _ H). f_equal. rewrite map_map. apply map_ext. intros i.
    apply IHb. apply env_ren_cur. exact H.
  - (* EForRange *) intros qk q IHq x lo IHl hi IHh body IHb en en' H. cbn [rename eval].
    rewrite (IHq _ _ H), (IHl _ _ H), (IHh _ _ H).
    destruct (range_items (eval en lo) (eval en hi)) as [[l n]|]; [|reflexivity].
    f_equal. apply map_ext. intros k.
    apply IHb. apply env_ren_bind. exact H.
  - (* EForTuple *) intros qk q IHq x items IHi body IHb en en' H. cbn [rename eval].
    rewrite (IHq _ _ H), (IHi _ _ H). f_equal. apply map_ext. intros v.
    apply IHb. apply env_ren_bind. exact H.
  - (* EWith *) intros x d IHd body IHb en en' H. cbn [rename eval].
    rewrite (IHd _ _ H). apply IHb. apply env_ren_bind. exact H.
  - (* ECons *) intros e0 IHe es IHes en en' H. cbn [rename_list eval_list].
    rewrite (IHe _ _ H), (IHes _ _ H). reflexivity.
Qed.

(* the hypothesis is satisfiable: shifting every pattern identifier by one *)
Example env_ren_example :
  let pm := fun i : nat => match i with 0%nat => [(0, 2)] | _ => [] end in
  let en := mkEnv [97; 98] 2 pm [] (Some 0%nat) (fun _ => false) (fun _ => VUndef) in
  let en' := mkEnv [97; 98] 2 (fun i => pm (Nat.pred i)) [] (Some 1%nat) (fun _ => false) (fun _ => VUndef) in
  env_ren S en en' /\
  eval en' (rename S (EPat (PId 0) AAt (EInt 0) (EInt 0))) = VBool true.
Proof. cbn zeta. split; [constructor; cbn; reflexivity | reflexivity]. Qed.

(* a negative quantifier (only possible at run time) behaves like `any` *)
Lemma loop_expr_neg : forall qk m items c,
  qk = QExpr \/ qk = QPct -> m < 0 -> 0 <= c ->
  loop_q qk m c false items = VBool (existsb truthy items).
Proof.
  intros qk m items. induction items as [|v t IH]; intros c Hq Hm Hc.
  - destruct Hq; subst qk; cbn [loop_q existsb]; f_equal; apply Z.eqb_neq; lia.
  - assert (E : loop_q qk m c false (v :: t) =
                if truthy v then
                  if m <=? c + 1 then VBool (negb (m =? 0)) else loop_q qk m (c + 1) false t
                else loop_q qk m c false t)
      by (destruct Hq; subst qk; reflexivity).
    rewrite E. cbn [existsb]. destruct (truthy v).
    + replace (m <=? c + 1) with true by (symmetry; apply Z.leb_le; lia).
      replace (m =? 0) with false by (symmetry; apply Z.eqb_neq; lia). reflexivity.
    + cbn [orb]. apply IH; auto.
Qed.

(* ---- `Q of (<boolean>, ..)`: the order of the items does not matter (since
   commit 99b031b0 an undefined item only counts as false; before, it ended the
   statement when it was reached, so `1 of (true, X)` was true and
   `1 of (X, true)` undefined for an undefined X) *)
Lemma existsb_perm : forall (A : Type) (f : A -> bool) l l', Permutation l l' -> existsb f l = existsb f l'.
Proof.
  intros A f l l' P. induction P; cbn [existsb]; try congruence.
  destruct (f x), (f y); reflexivity.
Qed.
Lemma forallb_perm : forall (A : Type) (f : A -> bool) l l', Permutation l l' -> forallb f l = forallb f l'.
Proof.
  intros A f l l' P. induction P; cbn [forallb]; try congruence.
  destruct (f x), (f y); reflexivity.
Qed.
Lemma count_true_perm : forall l l', Permutation l l' -> count_true l = count_true l'.
Proof.
  intros l l' P. unfold count_true. f_equal. induction P; cbn [filter]; try congruence.
  - destruct (truthy x); cbn [length]; congruence.
  - destruct (truthy x), (truthy y); reflexivity.
Qed.

Theorem quantified_perm : forall qk qv items items',
  Permutation items items' -> quantified qk qv false items = quantified qk qv false items'.
Proof.
  intros qk qv items items' P. unfold quantified.
  rewrite (Permutation_length P).
  destruct (max_count qk qv (Z.of_nat (length items'))) as [m|]; [|reflexivity].
  destruct qk.
  - rewrite !loop_none, (existsb_perm _ truthy _ _ P). reflexivity.
  - rewrite !loop_any, (existsb_perm _ truthy _ _ P). reflexivity.
  - rewrite !loop_all, (forallb_perm _ truthy _ _ P). reflexivity.
  - destruct (Z.compare_spec m 0) as [-> | Hn | Hp].
    + rewrite !loop_expr_zero by auto. rewrite (existsb_perm _ truthy _ _ P). reflexivity.
    + rewrite !(loop_expr_neg QExpr m _ 0) by (auto; lia). rewrite (existsb_perm _ truthy _ _ P). reflexivity.
    + rewrite !(loop_expr_pos QExpr m _ 0) by (auto; lia). rewrite (count_true_perm _ _ P). reflexivity.
  - destruct (Z.compare_spec m 0) as [-> | Hn | Hp].
    + rewrite !loop_expr_zero by auto. rewrite (existsb_perm _ truthy _ _ P). reflexivity.
    + rewrite !(loop_expr_neg QPct m _ 0) by (auto; lia). rewrite (existsb_perm _ truthy _ _ P). reflexivity.
    + rewrite !(loop_expr_pos QPct m _ 0) by (auto; lia). rewrite (count_true_perm _ _ P). reflexivity.
Qed.

Fixpoint exprs_list (es : exprs) : list expr :=
  match es with ENil => [] | ECons e t => e :: exprs_list t end.
Lemma eval_list_map : forall en es, eval_list en es = map (eval en) (exprs_list es).
Proof. intros en es. induction es as [|e t IH]; [reflexivity|]. cbn [eval_list exprs_list map]. rewrite IH. reflexivity. Qed.

(* for every quantifier (none, any, all, <expr>, <expr>%), every tuple and
   every permutation of its items *)
Theorem of_tuple_order_independent : forall en qk q es es',
  Permutation (exprs_list es) (exprs_list es') ->
  eval en (EOfB qk q es) = eval en (EOfB qk q es').
Proof.
  intros en qk q es es' P. cbn [eval]. rewrite !eval_list_map.
  apply quantified_perm. apply Permutation_map. exact P.
Qed.
(* the hypothesis is satisfiable, and the former witness of the order dependence *)
Example of_tuple_order_example :
  let en := mkEnv [97; 98; 99] 3 (fun _ => []) [] None (fun _ => false) (fun _ => VUndef) in
  let x := ECmp Eq (ERead (IK 1 false false) (EInt 99)) (EInt 1) in
  Permutation (exprs_list (ECons (EBool true) (ECons x ENil))) (exprs_list (ECons x (ECons (EBool true) ENil))) /\
  eval en (EOfB QExpr (EInt 1) (ECons (EBool true) (ECons x ENil))) = VBool true /\
  eval en (EOfB QExpr (EInt 1) (ECons x (ECons (EBool true) ENil))) = VBool true.
Proof. split; [apply perm_swap | vm_compute; split; reflexivity]. Qed.
