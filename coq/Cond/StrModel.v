(* C05 - model of the binary string operators of lib/src/wasm/string.rs
   (contains / startswith / endswith / iequals and their case-insensitive
   variants, == != < > <= >=), one definition per evaluation path:
     - case-sensitive: plain bstr operations on the bytes (total);
     - case-insensitive, both operands ASCII: the hand-written fast paths
       contains_/starts_with_/ends_with_ascii_case_insensitive, which slice the
       haystack and are only safe behind their length guards (the guards are
       regenerated from the source: Gen/HostFns.v str_guards);
     - case-insensitive, some operand not ASCII: to_lowercase() + bstr
       operation (total; the verdict is not modelled: Unicode lowercasing).
   Definitions only. *)
From Coq Require Import List ZArith Bool.
From YV Require Import Cond.HostTypes Cond.HostModel.
Import ListNotations.
Local Open Scope Z_scope.

Definition bytes := list Z.
Definition blen (l : bytes) : Z := Z.of_nat (List.length l).
Definition is_ascii (l : bytes) : bool := forallb (fun b => b <? 128) l.
Definition lower (b : Z) : Z := if (65 <=? b) && (b <=? 90) then b + 32 else b.
Definition eqc (ci : bool) (x y : Z) : bool := if ci then lower x =? lower y else x =? y.

(* whole-slice equality (eq_ignore_ascii_case / ==): false when the lengths differ *)
Fixpoint eqs (ci : bool) (a b : bytes) : bool :=
  match a, b with
  | [], [] => true
  | x :: a', y :: b' => eqc ci x y && eqs ci a' b'
  | _, _ => false
  end.
(* reference semantics *)
Fixpoint starts (ci : bool) (h p : bytes) : bool :=
  match p with
  | [] => true
  | y :: p' => match h with [] => false | x :: h' => eqc ci x y && starts ci h' p' end
  end.
Fixpoint contains (ci : bool) (h n : bytes) : bool :=
  starts ci h n || match h with [] => false | _ :: h' => contains ci h' n end.
Definition ends (ci : bool) (h s : bytes) : bool := starts ci (rev h) (rev s).
Fixpoint lex_lt (a b : bytes) : bool :=
  match a, b with
  | _, [] => false
  | [], _ :: _ => true
  | x :: a', y :: b' => (x <? y) || ((x =? y) && lex_lt a' b')
  end.

(* the ASCII fast paths, as written: guard (if present), then slicing *)
Definition ci_starts_fast (g : sguards) (h p : bytes) : res bool :=
  if sg_starts_len g && (blen h <? blen p) then Ret false
  else if blen h <? blen p then RPanic                         (* haystack[..prefix.len()]: end out of range *)
  else Ret (eqs true (firstn (List.length p) h) p).
Definition ci_ends_fast (g : sguards) (h s : bytes) : res bool :=
  if sg_ends_len g && (blen h <? blen s) then Ret false
  else if blen h <? blen s then RPanic                         (* haystack.len() - suffix.len() underflows (debug: overflow panic;
                                                                  release: wraps, then the slice start is out of range) *)
  else Ret (eqs true (skipn (List.length h - List.length s) h) s).
Definition ci_contains_fast (g : sguards) (h n : bytes) : res bool :=
  match n with
  | [] => if sg_contains_empty g then Ret true else RPanic     (* windows(0) panics *)
  | _ => if blen h <? blen n then Ret false                    (* guarded, or windows() yields nothing *)
         else Ret (contains true h n)
  end.

Inductive str_op := OContains | OIContains | OStartsWith | OIStartsWith | OEndsWith | OIEndsWith | OIEquals
                  | OEq | ONe | OLt | OGt | OLe | OGe | OMatches.

Inductive str_path := PCaseSensitive | PAsciiFast | PLowercase | PRegexp.
Definition path_of (op : str_op) (a b : bytes) : str_path :=
  match op with
  | OIContains | OIStartsWith | OIEndsWith | OIEquals => if is_ascii a && is_ascii b then PAsciiFast else PLowercase
  | OMatches => PRegexp
  | _ => PCaseSensitive
  end.

Definition some_res (r : res bool) : res (option bool) :=
  match r with Ret v => Ret (Some v) | Undef => Undef | RPanic => RPanic end.

(* outcome of `a op b` evaluated by the host function; the verdict is None where it is not modelled *)
Definition str_eval (g : sguards) (op : str_op) (a b : bytes) : res (option bool) :=
  match op with
  | OContains => Ret (Some (contains false a b))
  | OStartsWith => Ret (Some (starts false a b))
  | OEndsWith => Ret (Some (ends false a b))
  | OEq => Ret (Some (eqs false a b))
  | ONe => Ret (Some (negb (eqs false a b)))
  | OLt => Ret (Some (lex_lt a b))
  | OGt => Ret (Some (lex_lt b a))
  | OLe => Ret (Some (negb (lex_lt b a)))
  | OGe => Ret (Some (negb (lex_lt a b)))
  | OMatches => Ret None
  | OIContains => if is_ascii a && is_ascii b then some_res (ci_contains_fast g a b) else Ret None
  | OIStartsWith => if is_ascii a && is_ascii b then some_res (ci_starts_fast g a b) else Ret None
  | OIEndsWith => if is_ascii a && is_ascii b then some_res (ci_ends_fast g a b) else Ret None
  | OIEquals => if is_ascii a && is_ascii b then Ret (Some (eqs true a b)) else Ret None
  end.

Definition all_sguards (g : sguards) : bool :=
  sg_contains_empty g && sg_contains_longer g && sg_starts_len g && sg_ends_len g.
(* the guards without which a fast path can panic (contains_longer is an optimisation only) *)
Definition needed_sguards (g : sguards) : bool := sg_contains_empty g && sg_starts_len g && sg_ends_len g.
