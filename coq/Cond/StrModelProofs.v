(* C05 - the string operators never panic when the fast paths keep their
   length guards, and the guarded fast paths compute the reference semantics. *)
From Coq Require Import List ZArith Bool Lia.
From YV Require Import Cond.HostTypes Cond.HostModel Cond.StrModel.
Import ListNotations.
Local Open Scope Z_scope.

Lemma some_res_panic : forall r, some_res r = RPanic -> r = RPanic.
Proof. destruct r; cbn; intros; try discriminate; reflexivity. Qed.

Lemma ci_starts_fast_no_panic : forall g h p, sg_starts_len g = true -> ci_starts_fast g h p <> RPanic.
Proof. intros g h p G. unfold ci_starts_fast. rewrite G. cbn [andb]. destruct (blen h <? blen p); discriminate. Qed.
Lemma ci_ends_fast_no_panic : forall g h s, sg_ends_len g = true -> ci_ends_fast g h s <> RPanic.
Proof. intros g h s G. unfold ci_ends_fast. rewrite G. cbn [andb]. destruct (blen h <? blen s); discriminate. Qed.
Lemma ci_contains_fast_no_panic : forall g h n, sg_contains_empty g = true -> ci_contains_fast g h n <> RPanic.
Proof.
  intros g h n G. unfold ci_contains_fast. rewrite G. destruct n; [discriminate|].
  destruct (blen h <? blen (z :: n)); discriminate.
Qed.

(* for every operator and every pair of byte strings *)
Theorem str_eval_no_panic : forall g op a b, needed_sguards g = true -> str_eval g op a b <> RPanic.
Proof.
  intros g op a b G. unfold needed_sguards in G.
  apply andb_true_iff in G. destruct G as [G G3]. apply andb_true_iff in G. destruct G as [G1 G2].
  destruct op; cbn [str_eval]; try discriminate;
    destruct (is_ascii a && is_ascii b); try discriminate; intro H; apply some_res_panic in H.
  - exact (ci_contains_fast_no_panic g a b G1 H).
  - exact (ci_starts_fast_no_panic g a b G2 H).
  - exact (ci_ends_fast_no_panic g a b G3 H).
Qed.

(* the guards are necessary: without one of them the corresponding fast path panics *)
Lemma ends_guard_needed : forall g h s, sg_ends_len g = false -> blen h < blen s -> ci_ends_fast g h s = RPanic.
Proof.
  intros g h s G L. unfold ci_ends_fast. rewrite G. cbn [andb].
  assert (E : (blen h <? blen s) = true) by (apply Z.ltb_lt; exact L). rewrite E. reflexivity.
Qed.
Lemma starts_guard_needed : forall g h p, sg_starts_len g = false -> blen h < blen p -> ci_starts_fast g h p = RPanic.
Proof.
  intros g h p G L. unfold ci_starts_fast. rewrite G. cbn [andb].
  assert (E : (blen h <? blen p) = true) by (apply Z.ltb_lt; exact L). rewrite E. reflexivity.
Qed.

(* the guarded istartswith fast path is the reference prefix test *)
Lemma eqs_firstn_starts : forall p h, (List.length p <= List.length h)%nat ->
  eqs true (firstn (List.length p) h) p = starts true h p.
Proof.
  induction p as [|y p IH]; intros h L.
  - destruct h; reflexivity.
  - destruct h as [|x h]; [cbn in L; lia|]. cbn in *. rewrite IH by lia. reflexivity.
Qed.
Lemma starts_too_long : forall ci p h, (List.length h < List.length p)%nat -> starts ci h p = false.
Proof.
  induction p as [|y p IH]; intros h L; cbn in *; [lia|].
  destruct h as [|x h]; [reflexivity|]. cbn in L. cbn [starts]. rewrite IH by lia. apply andb_false_r.
Qed.
Theorem ci_starts_fast_spec : forall g h p, sg_starts_len g = true -> ci_starts_fast g h p = Ret (starts true h p).
Proof.
  intros g h p G. unfold ci_starts_fast, blen. rewrite G. cbn [andb].
  destruct (Z.of_nat (List.length h) <? Z.of_nat (List.length p)) eqn:E.
  - apply Z.ltb_lt in E. rewrite starts_too_long by lia. reflexivity.
  - apply Z.ltb_ge in E. rewrite eqs_firstn_starts by lia. reflexivity.
Qed.
