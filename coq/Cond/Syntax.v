(* C02 - abstract syntax of rule conditions (the fragment of
   site/content/docs/writing_rules/conditions.md that the check covers).

   Types are not part of the syntax: the harness generates well-typed
   conditions and the evaluator of Sem.v is total (an ill-typed operand
   yields [VUndef]).

   Floats, regular expressions ([matches]), modules, arrays/maps and the
   [.len()] method are out of scope (see `assumptions` in checks/C02.py). *)
From Coq Require Import List ZArith Bool.
Import ListNotations.

Inductive arith := Add | Sub | Mul | Div | Mod | Shl | Shr | BAnd | BOr | BXor.
Inductive cmp := Eq | Ne | Lt | Le | Gt | Ge.
Inductive strop := Contains | IContains | StartsWith | IStartsWith | EndsWith | IEndsWith | IEquals.

(* uintN / intN / ...be : number of bytes (1, 2, 4), signed?, big endian? *)
Inductive intkind := IK (bytes : nat) (signed : bool) (be : bool).

(* quantifiers: none | any | all | <expr> | <expr>% ; the expression is
   carried next to the kind and ignored for none/any/all *)
Inductive qkind := QNone | QAny | QAll | QExpr | QPct.

(* anchors: nothing | at <expr> | in (<expr>..<expr>); the expressions are
   carried next to the kind and ignored when not needed *)
Inductive akind := ANone | AAt | AIn.

(* a pattern reference: [$a] (index of the pattern in the rule's strings
   section) or the placeholder [$] of the innermost [for .. of] *)
Inductive pref := PId (i : nat) | PCur.

Inductive expr :=
| EBool (b : bool)
| EInt (z : Z)
| EStr (s : list Z)
| EFilesize
| EVar (x : nat)                                  (* loop / with identifier *)
| EGlobal (g : nat)                               (* external variable *)
| ERule (r : nat)                                 (* reference to an earlier rule *)
| ENot (e : expr)
| EAnd (a b : expr)
| EOr (a b : expr)
| EDefined (e : expr)
| ENeg (e : expr)
| EBitNot (e : expr)
| EArith (op : arith) (a b : expr)
| ECmp (op : cmp) (a b : expr)
| EStrOp (op : strop) (a b : expr)
| ERead (k : intkind) (off : expr)
| EPat (p : pref) (ak : akind) (a1 a2 : expr)     (* $a, $a at e, $a in (e..e) *)
| ECount (p : pref) (ranged : bool) (lo hi : expr)   (* #a, #a in (e..e) *)
| EOffset (p : pref) (idx : expr)                 (* @a[e]   (@a = @a[1]) *)
| ELength (p : pref) (idx : expr)                 (* !a[e]   (!a = !a[1]) *)
| EOf (qk : qkind) (q : expr) (set : list nat) (ak : akind) (a1 a2 : expr)
| EOfB (qk : qkind) (q : expr) (items : exprs)    (* q of (b1, b2, ...) *)
| EForOf (qk : qkind) (q : expr) (set : list nat) (body : expr)
| EForRange (qk : qkind) (q : expr) (x : nat) (lo hi : expr) (body : expr)
| EForTuple (qk : qkind) (q : expr) (x : nat) (items : exprs) (body : expr)
| EWith (x : nat) (d : expr) (body : expr)        (* with x = d : (body); several
                                                     declarations = nested EWith *)
with exprs :=
| ENil
| ECons (e : expr) (es : exprs).

Scheme expr_mut := Induction for expr Sort Prop
with exprs_mut := Induction for exprs Sort Prop.

Fixpoint exprs_length (es : exprs) : nat :=
  match es with ENil => 0 | ECons _ t => S (exprs_length t) end.

Definition arith_eqb (a b : arith) : bool :=
  match a, b with
  | Add, Add | Sub, Sub | Mul, Mul | Div, Div | Mod, Mod | Shl, Shl | Shr, Shr
  | BAnd, BAnd | BOr, BOr | BXor, BXor => true
  | _, _ => false
  end.

Definition additive (op : arith) : bool :=
  match op with Add | Sub | Mul => true | _ => false end.
