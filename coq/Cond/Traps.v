(* C05 - the WASM instructions emitted by lib/src/compiler/emit.rs that can
   trap, and the guards emit.rs places in front of them.  Definitions only.

   i64.div_s   traps on divisor 0 and on i64::MIN / -1
   i64.rem_s   traps on divisor 0 (i64::MIN % -1 = 0, no trap)
   i64.trunc_f64_s  traps on NaN, infinities and values outside [-2^63, 2^63)
   i64.add/sub/mul, shifts, bitwise operations never trap (wrap-around)
   `unreachable` / out-of-bounds memory accesses are reachable only through
   emitter-controlled indexes (emit_switch, variable slots); not modelled.

   A trap other than the epoch interruption reaches
   ScanContext::eval_conditions as `Err(err) => panic!(..)`.

   f64 arithmetic is Coq's executable IEEE-754 specification (SpecFloat,
   binary64, round to nearest even): pure Gallina, no axioms. *)
From Coq Require Import List ZArith Bool SpecFloat.
From YV Require Import Cond.HostTypes Cond.HostModel.
Import ListNotations.
Local Open Scope Z_scope.

Inductive wres := WVal (v : Z) | WUndef | WTrap.

Definition wrap64 (v : Z) : Z := wrap I64 v.

(* ------------------------------------------------------------------ integer instructions *)
Definition i64_div_s (a b : Z) : wres :=
  if b =? 0 then WTrap
  else if (a =? i64_min) && (b =? -1) then WTrap
  else WVal (Z.quot a b).
Definition i64_rem_s (a b : Z) : wres :=
  if b =? 0 then WTrap else WVal (Z.rem a b).
(* shift counts are taken modulo 64 *)
Definition i64_shl (a b : Z) : Z := wrap64 (a * 2 ^ (b mod 64)).
Definition i64_shr_s (a b : Z) : Z := a / 2 ^ (b mod 64).

(* what emit_div / emit_mod / emit_shift_op produce: the guard, then the instruction.
   g_div_min_neg1: a divisor equal to -1 is emitted as `0 - lhs` (i64.sub, wraps
   around) and only the other divisors reach i64.div_s. *)
Definition emit_div (g : guards) (a b : Z) : wres :=
  if g_div_zero g && (b =? 0) then WUndef
  else if g_div_min_neg1 g && (b =? -1) then WVal (wrap64 (0 - a))
  else i64_div_s a b.
Definition emit_rem (g : guards) (a b : Z) : wres :=
  if g_rem_zero g && (b =? 0) then WUndef else i64_rem_s a b.
Definition emit_shift (g : guards) (left : bool) (a b : Z) : wres :=
  if g_shift_lt64 g && negb (b <? 64) then WVal 0
  else WVal (if left then i64_shl a b else i64_shr_s a b).

(* ------------------------------------------------------------------ arithmetic fragment *)
Inductive aexp :=
| AConst (z : Z) | AVar (i : nat)
| AAdd (a b : aexp) | ASub (a b : aexp) | AMul (a b : aexp)
| ADiv (a b : aexp) | ARem (a b : aexp)
| AShl (a b : aexp) | AShr (a b : aexp)
| ANeg (a : aexp) | ABitNot (a : aexp)
| ABitAnd (a b : aexp) | ABitOr (a b : aexp) | ABitXor (a b : aexp).

Definition bind2 (x y : wres) (f : Z -> Z -> wres) : wres :=
  match x with
  | WVal a => match y with WVal b => f a b | other => other end
  | other => other
  end.

(* env: run-time values (filesize, #a, @a[i], ...); an undefined operand makes
   the whole expression undefined (throw_undef) *)
Fixpoint aeval (g : guards) (env : nat -> option Z) (e : aexp) : wres :=
  match e with
  | AConst z => WVal (wrap64 z)
  | AVar i => match env i with Some v => WVal (wrap64 v) | None => WUndef end
  | AAdd a b => bind2 (aeval g env a) (aeval g env b) (fun x y => WVal (wrap64 (x + y)))
  | ASub a b => bind2 (aeval g env a) (aeval g env b) (fun x y => WVal (wrap64 (x - y)))
  | AMul a b => bind2 (aeval g env a) (aeval g env b) (fun x y => WVal (wrap64 (x * y)))
  | ADiv a b => bind2 (aeval g env a) (aeval g env b) (emit_div g)
  | ARem a b => bind2 (aeval g env a) (aeval g env b) (emit_rem g)
  | AShl a b => bind2 (aeval g env a) (aeval g env b) (emit_shift g true)
  | AShr a b => bind2 (aeval g env a) (aeval g env b) (emit_shift g false)
  | ANeg a => bind2 (aeval g env a) (WVal 0) (fun x _ => WVal (wrap64 (- x)))
  | ABitNot a => bind2 (aeval g env a) (WVal 0) (fun x _ => WVal (wrap64 (- x - 1)))
  | ABitAnd a b => bind2 (aeval g env a) (aeval g env b) (fun x y => WVal (wrap64 (Z.land x y)))
  | ABitOr a b => bind2 (aeval g env a) (aeval g env b) (fun x y => WVal (wrap64 (Z.lor x y)))
  | ABitXor a b => bind2 (aeval g env a) (aeval g env b) (fun x y => WVal (wrap64 (Z.lxor x y)))
  end.

(* no division sub-expression is evaluated on (i64::MIN, -1) *)
Fixpoint min_div_free (g : guards) (env : nat -> option Z) (e : aexp) : bool :=
  match e with
  | AConst _ | AVar _ => true
  | ADiv a b =>
      min_div_free g env a && min_div_free g env b &&
      match aeval g env a, aeval g env b with
      | WVal x, WVal y => negb ((x =? i64_min) && (y =? -1))
      | _, _ => true
      end
  | AAdd a b | ASub a b | AMul a b | ARem a b | AShl a b | AShr a b
  | ABitAnd a b | ABitOr a b | ABitXor a b => min_div_free g env a && min_div_free g env b
  | ANeg a | ABitNot a => min_div_free g env a
  end.

Definition is_trap (r : wres) : bool := match r with WTrap => true | _ => false end.

(* ------------------------------------------------------------------ percentage quantifier *)
Definition prec : Z := 53.
Definition emax : Z := 1024.
Definition f64 := spec_float.
(* f64.convert_i64_s *)
Definition f64_of_Z (z : Z) : f64 := binary_normalize prec emax z 0 false.
Definition f64_mul : f64 -> f64 -> f64 := SFmul prec emax.
Definition f64_div : f64 -> f64 -> f64 := SFdiv prec emax.

(* f64.ceil as an integer; None for NaN and infinities *)
Definition f64_ceil_Z (x : f64) : option Z :=
  match x with
  | S754_zero _ => Some 0
  | S754_finite s m e =>
      let mag := Zpos m in
      if 0 <=? e then Some ((if s then - mag else mag) * 2 ^ e)
      else let d := 2 ^ (- e) in
           if s then Some (- (mag / d)) else Some (- ((- mag) / d))
  | S754_infinity _ | S754_nan => None
  end.

(* i64.trunc_f64_s applied to an integral value *)
Definition trunc_f64_s_int (r : option Z) : wres :=
  match r with
  | None => WTrap
  | Some v => if (i64_min <=? v) && (v <=? i64_max) then WVal v else WTrap
  end.

(* emit_for, Quantifier::Percentage: max_count = trunc(ceil(n * q / 100.0)), with the trapping conversion *)
Definition pct_ceil (n q : Z) : option Z := f64_ceil_Z (f64_div (f64_mul (f64_of_Z n) (f64_of_Z q)) (f64_of_Z 100)).
Definition pct_max_count (n q : Z) : wres := trunc_f64_s_int (pct_ceil n q).

(* i64.trunc_sat_f64_s applied to an integral value: NaN -> 0, out of range -> the nearest bound; never traps *)
Definition trunc_sat_f64_s_int (x : f64) (r : option Z) : Z :=
  match r with
  | Some v => Z.max i64_min (Z.min i64_max v)
  | None => match x with S754_infinity false => i64_max | S754_infinity true => i64_min | _ => 0 end
  end.
(* what emit_for produces for the conversion that the generated flag names *)
Definition emit_pct (trapping : bool) (n q : Z) : wres :=
  if trapping then pct_max_count n q
  else let x := f64_div (f64_mul (f64_of_Z n) (f64_of_Z q)) (f64_of_Z 100) in WVal (trunc_sat_f64_s_int x (f64_ceil_Z x)).

(* the same computation in exact rational arithmetic: ceil(n*q/100) *)
Definition pct_exact (n q : Z) : Z := - ((- (n * q)) / 100).
