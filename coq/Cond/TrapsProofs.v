(* C05 - proofs about Cond/Traps.v: the integer arithmetic emitted by emit.rs
   cannot trap when the guards generated from emit.rs are present, except for
   i64::MIN / -1; the percentage quantifier's i64.trunc_f64_s can trap. *)
From Coq Require Import List ZArith Bool Lia.
From YV Require Import Cond.HostTypes Cond.HostModel Cond.Traps Gen.HostFns.
Import ListNotations.
Local Open Scope Z_scope.

(* ------------------------------------------------------------------ single instructions *)
Lemma emit_div_no_trap : forall g a b,
  g_div_zero g = true ->
  (g_div_min_neg1 g = true \/ ~ (a = i64_min /\ b = -1)) ->
  emit_div g a b <> WTrap.
Proof.
  intros g a b Hz Hm. unfold emit_div, i64_div_s. rewrite Hz. cbn [andb].
  destruct (b =? 0) eqn:B0; [discriminate|].
  destruct Hm as [Hm|Hm].
  - rewrite Hm. cbn [andb]. destruct (b =? -1) eqn:B; [discriminate|].
    rewrite andb_false_r. discriminate.
  - assert (E : ((a =? i64_min) && (b =? -1)) = false).
    { destruct (a =? i64_min) eqn:A; [|reflexivity]. destruct (b =? -1) eqn:B; [|reflexivity].
      apply Z.eqb_eq in A. apply Z.eqb_eq in B. exfalso. apply Hm. split; assumption. }
    destruct (g_div_min_neg1 g && (b =? -1)); [discriminate|].
    rewrite E. discriminate.
Qed.

(* with both guards the division never traps and agrees with wrapping division *)
Lemma emit_div_guarded_value : forall g a b,
  g_div_zero g = true -> g_div_min_neg1 g = true -> b <> 0 ->
  emit_div g a b = WVal (if b =? -1 then wrap64 (- a) else Z.quot a b).
Proof.
  intros g a b Hz Hm Hb. unfold emit_div, i64_div_s. rewrite Hz, Hm. cbn [andb].
  assert (B0 : (b =? 0) = false) by (apply Z.eqb_neq; exact Hb). rewrite B0.
  destruct (b =? -1) eqn:B; [reflexivity|]. rewrite andb_false_r. reflexivity.
Qed.

(* the condition is also necessary: with the zero guard only, MIN / -1 traps *)
Lemma emit_div_traps_iff : forall g a b,
  g_div_zero g = true -> g_div_min_neg1 g = false ->
  (emit_div g a b = WTrap <-> a = i64_min /\ b = -1).
Proof.
  intros g a b Hz Hm. unfold emit_div, i64_div_s. rewrite Hz, Hm. cbn [andb].
  destruct (b =? 0) eqn:B0.
  - apply Z.eqb_eq in B0. split; [discriminate|]. intros [_ H]. lia.
  - destruct (a =? i64_min) eqn:A; destruct (b =? -1) eqn:B; cbn [andb].
    + apply Z.eqb_eq in A. apply Z.eqb_eq in B. tauto.
    + apply Z.eqb_neq in B. split; [discriminate|tauto].
    + apply Z.eqb_neq in A. split; [discriminate|tauto].
    + apply Z.eqb_neq in A. split; [discriminate|tauto].
Qed.

Lemma emit_rem_no_trap : forall g a b, g_rem_zero g = true -> emit_rem g a b <> WTrap.
Proof.
  intros g a b Hz. unfold emit_rem, i64_rem_s. rewrite Hz. cbn [andb].
  destruct (b =? 0); discriminate.
Qed.

Lemma emit_shift_no_trap : forall g l a b, emit_shift g l a b <> WTrap.
Proof. intros. unfold emit_shift. destruct (g_shift_lt64 g && negb (b <? 64)); discriminate. Qed.

(* ------------------------------------------------------------------ the arithmetic fragment *)
Lemma bind2_no_trap : forall x y f,
  x <> WTrap -> y <> WTrap -> (forall a b, x = WVal a -> y = WVal b -> f a b <> WTrap) ->
  bind2 x y f <> WTrap.
Proof.
  intros x y f Hx Hy Hf. unfold bind2. destruct x as [a| |]; [|discriminate|contradiction].
  destruct y as [b| |]; [|discriminate|contradiction]. apply Hf; reflexivity.
Qed.

(* emit_no_trap, guarded: integer arithmetic over run-time values (any values,
   any nesting) never traps provided emit.rs guards zero divisors (generated
   fact) and no division is evaluated on (i64::MIN, -1) *)
Theorem emit_no_trap_guarded : forall g env e,
  g_div_zero g = true -> g_rem_zero g = true ->
  (g_div_min_neg1 g = true \/ min_div_free g env e = true) ->
  aeval g env e <> WTrap.
Proof.
  intros g env e Hz Hr. induction e; intros Hm; cbn [aeval].
  - discriminate.
  - destruct (env i); discriminate.
  - apply bind2_no_trap; [apply IHe1|apply IHe2|intros; discriminate];
      (destruct Hm as [Hm|Hm]; [left; exact Hm|right; cbn in Hm; apply andb_true_iff in Hm; tauto]).
  - apply bind2_no_trap; [apply IHe1|apply IHe2|intros; discriminate];
      (destruct Hm as [Hm|Hm]; [left; exact Hm|right; cbn in Hm; apply andb_true_iff in Hm; tauto]).
  - apply bind2_no_trap; [apply IHe1|apply IHe2|intros; discriminate];
      (destruct Hm as [Hm|Hm]; [left; exact Hm|right; cbn in Hm; apply andb_true_iff in Hm; tauto]).
  - (* ADiv *)
    apply bind2_no_trap.
    + apply IHe1. destruct Hm as [Hm|Hm]; [left; exact Hm|right].
      cbn in Hm. apply andb_true_iff in Hm. destruct Hm as [Hm _]. apply andb_true_iff in Hm. tauto.
    + apply IHe2. destruct Hm as [Hm|Hm]; [left; exact Hm|right].
      cbn in Hm. apply andb_true_iff in Hm. destruct Hm as [Hm _]. apply andb_true_iff in Hm. tauto.
    + intros a b Ea Eb. apply emit_div_no_trap; [assumption|].
      destruct Hm as [Hm|Hm]; [left; exact Hm|right].
      cbn in Hm. apply andb_true_iff in Hm. destruct Hm as [_ Hm]. rewrite Ea, Eb in Hm.
      intros [A B]. subst a b. cbn in Hm. discriminate.
  - (* ARem *)
    apply bind2_no_trap; [apply IHe1|apply IHe2|intros; apply emit_rem_no_trap; assumption];
      (destruct Hm as [Hm|Hm]; [left; exact Hm|right; cbn in Hm; apply andb_true_iff in Hm; tauto]).
  - apply bind2_no_trap; [apply IHe1|apply IHe2|intros; apply emit_shift_no_trap];
      (destruct Hm as [Hm|Hm]; [left; exact Hm|right; cbn in Hm; apply andb_true_iff in Hm; tauto]).
  - apply bind2_no_trap; [apply IHe1|apply IHe2|intros; apply emit_shift_no_trap];
      (destruct Hm as [Hm|Hm]; [left; exact Hm|right; cbn in Hm; apply andb_true_iff in Hm; tauto]).
  - apply bind2_no_trap; [apply IHe; exact Hm|discriminate|intros; discriminate].
  - apply bind2_no_trap; [apply IHe; exact Hm|discriminate|intros; discriminate].
  - apply bind2_no_trap; [apply IHe1|apply IHe2|intros; discriminate];
      (destruct Hm as [Hm|Hm]; [left; exact Hm|right; cbn in Hm; apply andb_true_iff in Hm; tauto]).
  - apply bind2_no_trap; [apply IHe1|apply IHe2|intros; discriminate];
      (destruct Hm as [Hm|Hm]; [left; exact Hm|right; cbn in Hm; apply andb_true_iff in Hm; tauto]).
  - apply bind2_no_trap; [apply IHe1|apply IHe2|intros; discriminate];
      (destruct Hm as [Hm|Hm]; [left; exact Hm|right; cbn in Hm; apply andb_true_iff in Hm; tauto]).
Qed.

(* the generated guards of the current source: zero divisors are guarded *)
Definition zero_guards_present : bool := g_div_zero div_guards && g_rem_zero div_guards && g_shift_lt64 div_guards.

(* ------------------------------------------------------------------ refutations (DESIGN finding 7, repaired since) *)
(* (-9223372036854775807-1) \ (filesize - 4) on a 3-byte file *)
Definition div_witness : aexp := ADiv (AConst i64_min) (ASub (AVar 0) (AConst 4)).
Definition div_witness_env : nat -> option Z := fun _ => Some 3.
(* emit.rs before the repair: zero divisors guarded, -1 not *)
Definition guards_before_fix : guards := mkGuards true false true true.

(* stays true whatever the source does: either emit.rs handles the divisor -1, or the witness traps *)
Definition div_refuted_b : bool := g_div_min_neg1 div_guards || is_trap (aeval div_guards div_witness_env div_witness).

(* for (filesize * 1000)% i in (0..0x3fffffffffffffff) on a 3-byte file: n = 2^62, q = 3000 *)
Definition pct_refuted_b : bool := negb pct_trunc_trapping || is_trap (pct_max_count 4611686018427387904 3000).

(* the conversion emit_for uses never traps once it is the saturating one *)
Lemma emit_pct_sat_no_trap : forall n q, emit_pct false n q <> WTrap.
Proof. intros. unfold emit_pct. discriminate. Qed.

Lemma is_trap_true : forall r, is_trap r = true -> r = WTrap.
Proof. destruct r; cbn; intros; try discriminate; reflexivity. Qed.

(* ------------------------------------------------------------------ percentage: the exact-arithmetic bound *)
(* ceil(n*q/100) itself fits in i64 whenever |n*q| <= 100 * i64::MAX; the f64
   computation of emit_for rounds three times (two conversions exact below 2^53,
   one product, one quotient), which is why the guard that excludes the known
   class is stated on the exact value and the f64 model is compared with the
   implementation case by case (K) *)
Lemma pct_exact_in_range : forall n q,
  - (100 * i64_max) <= n * q <= 100 * i64_max ->
  i64_min <= pct_exact n q <= i64_max.
Proof.
  intros n q H. unfold pct_exact, i64_min, i64_max in *. cbn [ity_min ity_max] in *.
  pose proof (Z.div_mod (- (n * q)) 100 ltac:(lia)) as D.
  pose proof (Z.mod_pos_bound (- (n * q)) 100 ltac:(lia)) as M.
  lia.
Qed.

(* trunc of an integral value traps exactly outside the i64 range *)
Lemma trunc_traps_iff : forall v, trunc_f64_s_int (Some v) = WTrap <-> ~ (i64_min <= v <= i64_max).
Proof.
  intros v. unfold trunc_f64_s_int.
  destruct ((i64_min <=? v) && (v <=? i64_max)) eqn:E.
  - apply andb_true_iff in E. rewrite !Z.leb_le in E. split; [discriminate|tauto].
  - split; [intros _ H|reflexivity]. destruct H as [H1 H2].
    apply Z.leb_le in H1. apply Z.leb_le in H2. rewrite H1, H2 in E. discriminate.
Qed.

(* the f64 model and exact arithmetic agree where every intermediate value is
   exactly representable (a finite test of the SpecFloat model, not a theorem
   about all inputs) *)
Example pct_model_sample :
  map (fun nq => pct_max_count (fst nq) (snd nq)) [(2, 50); (3, 34); (1000, 1); (7, -150); (1, 0); (4503599627370496, 200)]
  = map (fun nq => WVal (pct_exact (fst nq) (snd nq))) [(2, 50); (3, 34); (1000, 1); (7, -150); (1, 0); (4503599627370496, 200)].
Proof. vm_compute. reflexivity. Qed.
