(* C02 - the code the compiler REALLY emits, next to the model of emit.rs.

   The harness compiles every generated rule set a second time with
   `Compiler::emit_wasm_file`, decodes the binary (harness/src/wasm_read.rs)
   and hands over, for every rule, the body of the `block` that
   emit_rule_condition opens for it (found through the `rule_match(<rule id>)`
   call that follows it), as [winstr]: WebAssembly opcodes with their
   immediates; call targets and globals resolved to the names of the import
   section; block types reduced to their arity; memarg reduced to its offset.

   [lower] maps the instructions of Cond/Machine.v to that vocabulary: one
   opcode each, except for the two places where the model of emit.rs is more
   abstract than the emitted code - the field lookup (the index is stored in
   the lookup area, then lookup_integer / lookup_bool is called with the root
   structure) and the byte of the matching-rules bitmap (an i32.load8_u).
   [wasm_agrees]: for a condition of the fragment of Cond/Emit.v, the code
   [Emit.emit_condition] predicts IS the emitted code, instruction by
   instruction, up to the numbering of the scratch locals (walrus numbers
   locals when it writes the module; both sides are renumbered in order of
   first use by [canon]). *)
From Coq Require Import List ZArith Bool.
From YV Require Import Cond.Syntax Cond.Sem Cond.Quirks Cond.Machine Cond.Emit Gen.EmitFacts.
Import ListNotations.
Local Open Scope Z_scope.

Inductive wfn :=
| WfSearch | WfRuleMatch | WfRuleNoMatch | WfLookupInt | WfLookupBool | WfLookupString
| WfCheckMatch                  (* the module's own check_for_pattern_match *)
| WfMatchAt | WfMatchIn | WfMatches | WfMatchesIn | WfOffset | WfLength | WfRangeMatch
| WfReadInt (bytes : nat) (signed be : bool)
| WfOther (n : nat).
Inductive wglob := WgFilesize | WgSearchDone | WgOther (n : nat).

Inductive winstr :=
| WBlock (arity : nat) (body : list winstr)
| WLoop (arity : nat) (body : list winstr)
| WIf (arity : nat) (th el : list winstr)
| WOp (opcode : Z) (imm : list Z)
| WLocal (opcode : Z) (x : nat)          (* 0x20 get, 0x21 set, 0x22 tee *)
| WGlobalGet (g : wglob)
| WCall (f : wfn).

(* opcodes of the WebAssembly core specification *)
Definition op_bin (op : binop) : Z :=
  match op with
  | I64Add => 0x7c | I64Sub => 0x7d | I64Mul => 0x7e | I64DivS => 0x7f | I64RemS => 0x81
  | I64And => 0x83 | I64Or => 0x84 | I64Xor => 0x85 | I64Shl => 0x86 | I64ShrS => 0x87
  | I64Eq => 0x51 | I64Ne => 0x52 | I64LtS => 0x53 | I64GtS => 0x55 | I64LeS => 0x57 | I64GeS => 0x59
  | I32And => 0x71 | I32ShrU => 0x76
  end.
Definition op_un (op : unop) : Z :=
  match op with I64Eqz => 0x50 | I32Eqz => 0x45 | I64ExtendUI32 => 0xad | I32WrapI64 => 0xa7 end.

Definition lookup (f : wfn) (k : nat) : list winstr :=
  [WOp 0x42 [-1]; WOp 0x41 [0]; WOp 0x41 [Z.of_nat k]; WOp 0x36 [EmitFacts.lookup_indexes_start];
   WOp 0x41 [1]; WCall f].

Definition lower_call (f : hostfn) : list winstr :=
  match f with
  | HSearch => [WCall WfSearch]
  | HCheckMatch => [WCall WfCheckMatch]
  | HMatchAt => [WCall WfMatchAt] | HMatchIn => [WCall WfMatchIn]
  | HMatches => [WCall WfMatches] | HMatchesIn => [WCall WfMatchesIn]
  | HOffset => [WCall WfOffset] | HLength => [WCall WfLength]
  | HRangeMatch => [WCall WfRangeMatch]
  | HReadInt n sg be => [WCall (WfReadInt n sg be)]
  | HLookupInt k => lookup WfLookupInt k
  | HLookupBool k => lookup WfLookupBool k
  | HRuleBit r => [WOp 0x41 [Z.of_nat (r / 8)]; WOp 0x2d [EmitFacts.matching_rules_bitmap_base]]
  end.

Fixpoint lower (i : instr) : list winstr :=
  match i with
  | IConst (V32 z) => [WOp 0x41 [z]]
  | IConst (V64 z) => [WOp 0x42 [z]]
  | ILocalGet x => [WLocal 0x20 x]
  | ILocalSet x => [WLocal 0x21 x]
  | ILocalTee x => [WLocal 0x22 x]
  | IGlobalGet GFilesize => [WGlobalGet WgFilesize]
  | IGlobalGet GSearchDone => [WGlobalGet WgSearchDone]
  | IBin op => [WOp (op_bin op) []]
  | IUn op => [WOp (op_un op) []]
  | ILoad W64 off => [WOp 0x29 [off]]
  | ILoad W32 off => [WOp 0x28 [off]]
  | IStore W64 off => [WOp 0x37 [off]]
  | IStore W32 off => [WOp 0x36 [off]]
  | ICall f => lower_call f
  | IDrop => [WOp 0x1a []]
  | IBlock n b => [WBlock n (flat_map lower b)]
  | ILoop n b => [WLoop n (flat_map lower b)]
  | IIf n t e => [WIf n (flat_map lower t) (flat_map lower e)]
  | IBr l => [WOp 0x0c [Z.of_nat l]]
  | IBrIf l => [WOp 0x0d [Z.of_nat l]]
  | IBrTable ls d => [WOp 0x0e (map Z.of_nat ls ++ [Z.of_nat d])]
  | IReturn => [WOp 0x0f []]
  | IUnreachable => [WOp 0x00 []]
  | IRaw op imm => [WOp op imm]
  end.

(* locals renumbered in order of first use *)
Fixpoint index_of (x : nat) (seen : list nat) (k : nat) : option nat :=
  match seen with
  | [] => None
  | y :: t => if Nat.eqb x y then Some k else index_of x t (S k)
  end.
Fixpoint canon_i (seen : list nat) (i : winstr) {struct i} : list nat * winstr :=
  let fix go (seen : list nat) (l : list winstr) {struct l} : list nat * list winstr :=
    match l with
    | [] => (seen, [])
    | x :: t => let r := canon_i seen x in let r2 := go (fst r) t in (fst r2, snd r :: snd r2)
    end in
  match i with
  | WLocal op x =>
      match index_of x seen 0 with
      | Some k => (seen, WLocal op k)
      | None => (seen ++ [x], WLocal op (length seen))
      end
  | WBlock n b => let r := go seen b in (fst r, WBlock n (snd r))
  | WLoop n b => let r := go seen b in (fst r, WLoop n (snd r))
  | WIf n a b => let r := go seen a in let r2 := go (fst r) b in (fst r2, WIf n (snd r) (snd r2))
  | other => (seen, other)
  end.
Fixpoint canon (seen : list nat) (c : list winstr) : list nat * list winstr :=
  match c with
  | [] => (seen, [])
  | x :: t => let r := canon_i seen x in let r2 := canon (fst r) t in (fst r2, snd r :: snd r2)
  end.

Definition wfn_eqb (a b : wfn) : bool :=
  match a, b with
  | WfSearch, WfSearch | WfRuleMatch, WfRuleMatch | WfRuleNoMatch, WfRuleNoMatch
  | WfLookupInt, WfLookupInt | WfLookupBool, WfLookupBool | WfLookupString, WfLookupString
  | WfCheckMatch, WfCheckMatch | WfMatchAt, WfMatchAt | WfMatchIn, WfMatchIn | WfMatches, WfMatches
  | WfMatchesIn, WfMatchesIn | WfOffset, WfOffset | WfLength, WfLength | WfRangeMatch, WfRangeMatch => true
  | WfReadInt n s b, WfReadInt n' s' b' => Nat.eqb n n' && Bool.eqb s s' && Bool.eqb b b'
  | _, _ => false
  end.
Definition wglob_eqb (a b : wglob) : bool :=
  match a, b with WgFilesize, WgFilesize | WgSearchDone, WgSearchDone => true | _, _ => false end.
Fixpoint zl_eqb (a b : list Z) : bool :=
  match a, b with
  | [], [] => true
  | x :: a', y :: b' => (x =? y) && zl_eqb a' b'
  | _, _ => false
  end.
Fixpoint winstr_eqb (a b : winstr) {struct a} : bool :=
  let fix go (l1 l2 : list winstr) {struct l1} : bool :=
    match l1, l2 with
    | [], [] => true
    | x :: t, y :: u => winstr_eqb x y && go t u
    | _, _ => false
    end in
  match a, b with
  | WBlock n x, WBlock m y | WLoop n x, WLoop m y => Nat.eqb n m && go x y
  | WIf n x1 x2, WIf m y1 y2 => Nat.eqb n m && go x1 y1 && go x2 y2
  | WOp o i, WOp p j => (o =? p) && zl_eqb i j
  | WLocal o x, WLocal p y => (o =? p) && Nat.eqb x y
  | WGlobalGet g, WGlobalGet g' => wglob_eqb g g'
  | WCall f, WCall f' => wfn_eqb f f'
  | _, _ => false
  end.
Fixpoint wcode_eqb (a b : list winstr) : bool :=
  match a, b with
  | [], [] => true
  | x :: t, y :: u => winstr_eqb x y && wcode_eqb t u
  | _, _ => false
  end.
Fixpoint wsize_i (i : winstr) : nat :=
  let fix go (l : list winstr) : nat := match l with [] => 0%nat | x :: t => (wsize_i x + go t)%nat end in
  match i with
  | WBlock _ b | WLoop _ b => S (go b)
  | WIf _ a b => S (go a + go b)
  | _ => 1%nat
  end.
Definition wsize (c : list winstr) : nat := fold_right (fun i n => (wsize_i i + n)%nat) 0%nat c.

(* the code predicted for the rule's condition: emit_rule_condition *)
Definition predicted (e : expr) : list winstr := flat_map lower (emit_condition e).

(* [e]: the folded condition with its patterns named by PatternId;
   [real]: the `block` emit_rule_condition opened for the rule, as emitted *)
Definition wasm_agrees (e : expr) (real : list winstr) : bool :=
  match tyof [] 0 e with
  | Some TBool => wcode_eqb (snd (canon [] (predicted e))) (snd (canon [] real))
  | _ => true
  end.
