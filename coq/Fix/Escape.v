(* The hex-pattern-as-text fix: `escape` (lib/src/compiler/ir/ast2ir.rs) writes
   the literal bytes of a hex pattern as a YARA text literal; the tokenizer
   (parser/src/tokenizer/mod.rs, `StringLit`) and `string_lit`
   (parser/src/ast/cst2ast.rs) read it back.

     fn escape(s) = '"' ++ concat (map esc s) ++ '"'
        esc c = the replacement listed in the match, or c itself   (table: Gen/FixApply.v)
     offered iff every char of the literal is in ' '..='~' or is \t \n \r     (Gen/FixApply.v)

     StringLit  =  "  ( \\.  |  [^"\n\\] )*  "      (`.` = any byte except \n; bytes, not chars)
     string_lit : strip the quotes; copy bytes; after a backslash:
        \\ -> 5C   n -> 0A   r -> 0D   t -> 09   0 -> 00   " -> 22   xHH -> byte   else error

   Bytes are N.  Under the producer's guard every char is ASCII, so chars and
   bytes coincide; for other input the model of `string_lit` copies bytes
   (which is what decoding and re-encoding valid UTF-8 does). *)
From Coq Require Import List NArith Bool.
From YV Require Import Gen.FixApply.
Import ListNotations.
Local Open Scope N_scope.

Definition QUOTE : N := 34.
Definition BACKSLASH : N := 92.
Definition NEWLINE : N := 10.

Fixpoint lookup (c : N) (t : list (N * list N)) : option (list N) :=
  match t with
  | [] => None
  | (k, r) :: t' => if N.eqb k c then Some r else lookup c t'
  end.

Definition esc (c : N) : list N :=
  match lookup c escape_table with Some r => r | None => [c] end.

Definition escape (bs : list N) : list N := QUOTE :: flat_map esc bs ++ [QUOTE].

(* the producer's guard *)
Definition guard_char (c : N) : bool :=
  (N.leb guard_lo c && N.leb c guard_hi) || existsb (N.eqb c) guard_extra.
Definition guard (bs : list N) : bool := forallb guard_char bs.

(* ---- reader: tokenizer ---- *)
(* body of a StringLit after the opening quote: returns (body, rest after the
   closing quote); None = no match *)
Fixpoint lex_body (fuel : nat) (s : list N) : option (list N * list N) :=
  match fuel with
  | O => None
  | S fuel' =>
      match s with
      | [] => None
      | c :: s' =>
          if N.eqb c QUOTE then Some ([], s')
          else if N.eqb c NEWLINE then None
          else if N.eqb c BACKSLASH then
            match s' with
            | d :: s'' =>
                if N.eqb d NEWLINE then None
                else match lex_body fuel' s'' with
                     | Some (b, r) => Some (c :: d :: b, r)
                     | None => None
                     end
            | [] => None
            end
          else match lex_body fuel' s' with
               | Some (b, r) => Some (c :: b, r)
               | None => None
               end
      end
  end.

(* a StringLit token at the start of [s]: (text between the quotes, rest) *)
Definition lex_string_lit (s : list N) : option (list N * list N) :=
  match s with
  | c :: s' => if N.eqb c QUOTE then lex_body (S (length s')) s' else None
  | [] => None
  end.

(* ---- reader: string_lit ---- *)
Definition hex_digit (c : N) : option N :=
  if N.leb 48 c && N.leb c 57 then Some (c - 48)
  else if N.leb 65 c && N.leb c 70 then Some (c - 55)
  else if N.leb 97 c && N.leb c 102 then Some (c - 87)
  else None.

Fixpoint unescape_body (fuel : nat) (s : list N) : option (list N) :=
  match fuel with
  | O => None
  | S fuel' =>
      match s with
      | [] => Some []
      | c :: s' =>
          if N.eqb c BACKSLASH then
            match s' with
            | [] => None                      (* `panic!()` in the source; excluded by the grammar *)
            | d :: s'' =>
                let k (b : N) := match unescape_body fuel' s'' with Some r => Some (b :: r) | None => None end in
                if N.eqb d 92 then k 92
                else if N.eqb d 110 then k 10
                else if N.eqb d 114 then k 13
                else if N.eqb d 116 then k 9
                else if N.eqb d 48 then k 0
                else if N.eqb d 34 then k 34
                else if N.eqb d 120 then
                  match s'' with
                  | h1 :: h2 :: s3 =>
                      match hex_digit h1, hex_digit h2 with
                      | Some a, Some b =>
                          match unescape_body fuel' s3 with Some r => Some (16 * a + b :: r) | None => None end
                      | _, _ => None
                      end
                  | _ => None
                  end
                else None
            end
          else match unescape_body fuel' s' with Some r => Some (c :: r) | None => None end
      end
  end.

Definition unescape_inner (body : list N) : option (list N) := unescape_body (S (length body)) body.

(* the whole reader: the literal is one StringLit token followed by [rest],
   and its value is ... *)
Definition read_literal (s : list N) : option (list N * list N) :=
  match lex_string_lit s with
  | Some (body, rest) =>
      match unescape_inner body with Some v => Some (v, rest) | None => None end
  | None => None
  end.

(* what the theorem needs of the generated table: the escapes of the
   characters the reader treats specially *)
Definition table_ok : bool :=
  match lookup 34 escape_table, lookup 92 escape_table, lookup 10 escape_table with
  | Some [92; 34], Some [92; 92], Some [92; 110] =>
      forallb (fun kr => match kr with
                         | (13, [92; 114]) | (10, [92; 110]) | (9, [92; 116]) | (92, [92; 92]) | (34, [92; 34]) => true
                         | _ => false
                         end) escape_table
  | _, _, _ => false
  end.
