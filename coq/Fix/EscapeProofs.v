(* unescape (escape bs) = bs: the text literal offered as replacement for a hex
   pattern is lexed as ONE string literal (whatever follows it) and denotes
   exactly the bytes of the hex pattern.  Holds for every byte string, in
   particular for those passing the producer's guard. *)
From Coq Require Import List NArith Bool Lia.
From YV Require Import Gen.FixApply Fix.Escape.
Import ListNotations.
Local Open Scope N_scope.

(* the generated table is the one the proofs below are about *)
Lemma table_ok_holds : table_ok = true.
Proof. vm_compute. reflexivity. Qed.

Lemma esc_cases : forall c,
  (c = 13 /\ esc c = [92; 114]) \/ (c = 10 /\ esc c = [92; 110]) \/ (c = 9 /\ esc c = [92; 116]) \/
  (c = 92 /\ esc c = [92; 92]) \/ (c = 34 /\ esc c = [92; 34]) \/
  (esc c = [c] /\ c <> 34 /\ c <> 92 /\ c <> 10).
Proof.
  intro c. unfold esc, escape_table. cbn [lookup].
  destruct (N.eqb 13 c) eqn:E1; [apply N.eqb_eq in E1; subst; left; split; reflexivity|].
  destruct (N.eqb 10 c) eqn:E2; [apply N.eqb_eq in E2; subst; right; left; split; reflexivity|].
  destruct (N.eqb 9 c) eqn:E3; [apply N.eqb_eq in E3; subst; right; right; left; split; reflexivity|].
  destruct (N.eqb 92 c) eqn:E4; [apply N.eqb_eq in E4; subst; right; right; right; left; split; reflexivity|].
  destruct (N.eqb 34 c) eqn:E5; [apply N.eqb_eq in E5; subst; right; right; right; right; left; split; reflexivity|].
  right; right; right; right; right.
  apply N.eqb_neq in E2, E4, E5. repeat split; congruence.
Qed.

Lemma esc_length : forall c, (1 <= length (esc c))%nat.
Proof.
  intro c. destruct (esc_cases c) as [[_ E]|[[_ E]|[[_ E]|[[_ E]|[[_ E]|[E _]]]]]]; rewrite E; cbn [length]; lia.
Qed.

Lemma lex_body_esc : forall bs rest fuel,
  (length (flat_map esc bs) < fuel)%nat ->
  lex_body fuel (flat_map esc bs ++ QUOTE :: rest) = Some (flat_map esc bs, rest).
Proof.
  induction bs as [|c bs IH]; intros rest fuel L.
  - cbn [flat_map app] in *. destruct fuel; [cbn in L; lia|]. cbn [lex_body]. reflexivity.
  - cbn [flat_map] in *. rewrite app_length in L. rewrite <- app_assoc.
    destruct (esc_cases c) as [[C E]|[[C E]|[[C E]|[[C E]|[[C E]|[E [N1 [N2 N3]]]]]]]];
      rewrite E in *; cbn [length app] in *.
    1-5: (destruct fuel as [|fuel]; [lia|]; cbn [lex_body];
          repeat match goal with |- context [N.eqb ?x ?y] => let b := eval vm_compute in (N.eqb x y) in change (N.eqb x y) with b end;
          cbn beta iota; rewrite IH by lia; reflexivity).
    destruct fuel as [|fuel]; [lia|]. cbn [lex_body].
    apply N.eqb_neq in N1, N2, N3. unfold QUOTE, NEWLINE, BACKSLASH. rewrite N1, N2, N3.
    rewrite IH by lia. reflexivity.
Qed.

Lemma unescape_body_esc : forall bs fuel,
  (length (flat_map esc bs) < fuel)%nat -> unescape_body fuel (flat_map esc bs) = Some bs.
Proof.
  induction bs as [|c bs IH]; intros fuel L.
  - cbn [flat_map] in *. destruct fuel; [cbn in L; lia|]. reflexivity.
  - cbn [flat_map] in *. rewrite app_length in L.
    destruct (esc_cases c) as [[C E]|[[C E]|[[C E]|[[C E]|[[C E]|[E [N1 [N2 N3]]]]]]]];
      rewrite E in *; cbn [length app] in *.
    1-5: (destruct fuel as [|fuel]; [lia|]; subst c; cbn [unescape_body];
          repeat match goal with |- context [N.eqb ?x ?y] => let b := eval vm_compute in (N.eqb x y) in change (N.eqb x y) with b end;
          cbn beta iota zeta; rewrite IH by lia; reflexivity).
    destruct fuel as [|fuel]; [lia|]. cbn [unescape_body].
    apply N.eqb_neq in N2. unfold BACKSLASH. rewrite N2. rewrite IH by lia. reflexivity.
Qed.

(* the literal is read back as one token with the original bytes, whatever follows *)
Theorem read_escape : forall bs rest, read_literal (escape bs ++ rest) = Some (bs, rest).
Proof.
  intros bs rest. unfold read_literal, lex_string_lit, escape.
  cbn [app]. change (N.eqb QUOTE QUOTE) with true. cbn beta iota.
  rewrite <- app_assoc. cbn [app].
  rewrite lex_body_esc.
  - unfold unescape_inner. rewrite unescape_body_esc by lia. reflexivity.
  - rewrite app_length. cbn [length]. lia.
Qed.

(* as stated in the design: for every byte string passing the producer's guard *)
Theorem unescape_escape : forall bs,
  guard bs = true -> read_literal (escape bs) = Some (bs, []).
Proof.
  intros bs _. rewrite <- (app_nil_r (escape bs)). apply read_escape.
Qed.

(* a non-empty literal never starts like a triple-quoted literal, so the single-line
   rule is the only tokenizer rule that can apply *)
Lemma escape_not_triple_quote : forall c bs, exists x tl,
  escape (c :: bs) = QUOTE :: x :: tl /\ x <> QUOTE.
Proof.
  intros c bs. unfold escape. cbn [flat_map].
  destruct (esc_cases c) as [[C E]|[[C E]|[[C E]|[[C E]|[[C E]|[E [N1 _]]]]]]]; rewrite E; cbn [app];
    eexists; eexists; (split; [reflexivity|]); try (unfold QUOTE; congruence); try (unfold QUOTE; lia).
Qed.

(* the guard is satisfiable, with every escapable byte *)
Example escape_example :
  guard [97; 34; 92; 9; 10; 13; 32; 126] = true /\
  escape [97; 34; 92; 9; 10; 13; 32; 126] = [34; 97; 92; 34; 92; 92; 92; 116; 92; 110; 92; 114; 32; 126; 34] /\
  read_literal (escape [97; 34; 92; 9; 10; 13; 32; 126] ++ [32; 34]) = Some ([97; 34; 92; 9; 10; 13; 32; 126], [32; 34]).
Proof. vm_compute. repeat split. Qed.
