(* Correspondence and specification cases for C20 (written by harness/src/bin/c20.rs).

   K ([check_case]): the model of cli/src/commands/fix.rs ([Patch.apply]) on the
     patches the compiler attached to the warnings of one source (in the order
     of `warnings()`), against what the real `yr fix warnings` left in a
     temporary copy of the file (exit status and content).
   S ([spec_case]): the property on the implementation's own output: every
     patch is inside the source, on token boundaries, the patches of one
     compilation are pairwise disjoint, applying them all (the reference
     [splice]) gives the text the harness recompiled, which still compiles,
     no longer carries the fixed diagnostics and scans like the original
     (unless a diagnostic was flagged unsatisfiable); and when the real
     `yr fix warnings` ran on the file, it succeeded and left exactly that text. *)
From Coq Require Import List NArith ZArith Bool Arith.
From YV Require Import Fix.Patch.
Import ListNotations.

Record case := mkCase {
  c_src : list N;
  c_patches : list patch;                 (* in warning order *)
  c_boundaries : list nat;                (* start/end offsets of the tokens of the source *)
  c_fixed : option (list N);              (* harness: all patches applied (None: it refused, they overlap) *)
  c_yr : option (bool * list N);          (* `yr fix warnings`: exit status ok?, file content afterwards *)
  c_recompiles : bool;
  c_fixed_gone : bool;
  c_scan_equal : bool;
  c_unsat : bool;                         (* nothing to compare (no equivalence fix / original does not compile) *)
  c_span_text_ok : bool;                  (* every patch names the file of this case, its span covers the
                                             text its diagnostic is about, and the operand a
                                             `<bool> == 1` rewrite keeps is the one that was written *)
  c_yr_spellings : nat }.                 (* how many times the file was named on yr's command line
                                             (each time written differently); 1 unless stated *)

Fixpoint bytes_eqb (a b : list N) : bool :=
  match a, b with
  | [], [] => true
  | x :: a', y :: b' => N.eqb x y && bytes_eqb a' b'
  | _, _ => false
  end.

Definition check_case (c : case) : bool :=
  match c_yr c with
  | None => true
  | Some (ok, content) =>
      match yr_file (c_yr_spellings c) (c_patches c) (c_src c) with
      | Ok out => ok && bytes_eqb content out
      | Damaged w => negb ok && bytes_eqb content w
      | Untouched => negb ok && bytes_eqb content (c_src c)
      end
  end.

Definition on_boundaries (c : case) : bool :=
  forallb (fun p => existsb (Nat.eqb (p_start p)) (c_boundaries c) && existsb (Nat.eqb (p_end p)) (c_boundaries c))
          (c_patches c).

Definition spec_case (c : case) : bool :=
  let ps := sort_patches (c_patches c) in
  in_bounds_b (c_patches c) (c_src c) &&
  on_boundaries c &&
  disjoint_b ps &&
  match c_fixed c with
  | Some t => bytes_eqb t (splice ps (c_src c))
  | None => false
  end &&
  c_recompiles c && c_fixed_gone c && (c_scan_equal c || c_unsat c) && c_span_text_ok c &&
  (* the real command, when it ran on the file: it leaves the patches applied together *)
  match c_yr c with
  | Some (ok, content) => ok && bytes_eqb content (splice ps (c_src c))
  | None => true
  end.
