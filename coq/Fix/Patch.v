(* Model of how `yr fix warnings` applies the patches attached to warnings:
   cli/src/commands/fix.rs, exec_fix_warnings.

     for every warning, for every patch of the warning:
         patches_of_file.push(patch);
         patches_of_file.sort_by_key(|patch| patch.span().start());   (stable)
     for every file:
         let input = fs::read(origin)?;
         let mut output = File::create(origin)?;        <- the file is truncated HERE
         let mut input_pos = 0;
         for patch in patches {
             [ if span.start() < input_pos || span.end() < span.start() || span.end() > input.len()
                  { continue; } ]                                   <- only in the repaired version
             output.write_all(&input[input_pos..span.start()])?;   <- panics if input_pos > start or start > len
             output.write_all(patch.replacement().as_bytes())?;
             input_pos = span.end();
         }
         output.write_all(&input[input_pos..])?;                   <- panics if input_pos > len

   A panic after `File::create` leaves the file holding only what had been
   written so far: outcome [Damaged].  The repaired version builds the text
   in memory, writes it after the loop ([Untouched] on a panic) and skips
   patches that overlap: which version is there is read from the source.  Offsets are indices (nat); bytes are N.
   Which of these facts are read from the source on every run: Gen/FixApply.v. *)
From Coq Require Import List NArith Bool Arith.
From YV Require Import Gen.FixApply.
Import ListNotations.

Record patch := mkPatch { p_start : nat; p_end : nat; p_repl : list N }.

(* push + stable sort_by_key(start) of an already sorted vector: the new patch
   goes after every patch whose start is <= its own *)
Fixpoint insert (x : patch) (l : list patch) : list patch :=
  match l with
  | [] => [x]
  | y :: l' => if Nat.leb (p_start y) (p_start x) then y :: insert x l' else x :: l
  end.

Fixpoint sort_acc (acc l : list patch) : list patch :=
  match l with
  | [] => acc
  | x :: l' => sort_acc (insert x acc) l'
  end.
Definition sort_patches (ps : list patch) : list patch :=
  if sorts_by_start then sort_acc [] ps else ps.

(* &input[a..b] for a <= b <= len *)
Definition slice (s : list N) (a b : nat) : list N := firstn (b - a) (skipn a s).

Inductive outcome :=
| Ok (out : list N)            (* the new content of the file *)
| Damaged (written : list N)   (* the tool panicked; the file holds [written] *)
| Untouched.                   (* the tool panicked before truncating the file *)

(* the guard of the repaired loop: the patch overlaps what was already
   replaced, is malformed, or leaves the file *)
Definition skip_patch (p : patch) (pos len : nat) : bool :=
  Nat.ltb (p_start p) pos || Nat.ltb (p_end p) (p_start p) || Nat.ltb len (p_end p).

Fixpoint apply_loop (ps : list patch) (input : list N) (pos : nat) (written : list N) : outcome :=
  match ps with
  | [] =>
      if Nat.leb pos (length input) then Ok (written ++ skipn pos input)
      else if truncates_before_writing then Damaged written else Untouched
  | p :: ps' =>
      if skips_overlapping && skip_patch p pos (length input) then apply_loop ps' input pos written
      else if Nat.leb pos (p_start p) && Nat.leb (p_start p) (length input)
      then apply_loop ps' input (p_end p) (written ++ slice input pos (p_start p) ++ p_repl p)
      else if truncates_before_writing then Damaged written else Untouched
  end.

(* the patches the repaired loop applies *)
Fixpoint keep (pos len : nat) (ps : list patch) : list patch :=
  match ps with
  | [] => []
  | p :: ps' => if skip_patch p pos len then keep pos len ps' else p :: keep (p_end p) len ps'
  end.

Definition apply (ps : list patch) (s : list N) : outcome :=
  apply_loop (sort_patches ps) s 0 [].

(* The whole command on ONE file that was named [spellings] times on the
   command line, each time written differently (`ns1:a.yar ns2:./a.yar`): every
   compilation of the file reports the same patches; the command makes one
   read-patch-write round per key of its map, so with the path as written for
   a key the file goes through [spellings] rounds, each with the patches that
   were computed for the ORIGINAL content. *)
Fixpoint apply_rounds (n : nat) (ps : list patch) (s : list N) : outcome :=
  match n with
  | 0 => Ok s
  | S n' => match apply ps s with Ok out => apply_rounds n' ps out | o => o end
  end.
Definition yr_file (spellings : nat) (ps : list patch) (s : list N) : outcome :=
  apply_rounds (if groups_by_path_as_given then spellings else 1) ps s.

(* ---- specification level ---- *)
(* one replacement on a text *)
Definition replace1 (p : patch) (s : list N) : list N :=
  firstn (p_start p) s ++ p_repl p ++ skipn (p_end p) s.

(* all replacements, the rightmost first (so that the offsets of the
   remaining patches still refer to the original text) *)
Definition splice (ps : list patch) (s : list N) : list N := fold_right replace1 s ps.

Definition wf (p : patch) : Prop := p_start p <= p_end p.
Fixpoint sorted (ps : list patch) : Prop :=
  match ps with
  | [] => True
  | p :: ps' => Forall (fun q => p_start p <= p_start q) ps' /\ sorted ps'
  end.
(* pairwise: an earlier patch of the list ends before a later one starts *)
Fixpoint disjoint (ps : list patch) : Prop :=
  match ps with
  | [] => True
  | p :: ps' => wf p /\ Forall (fun q => p_end p <= p_start q) ps' /\ disjoint ps'
  end.
Definition in_bounds (ps : list patch) (s : list N) : Prop :=
  Forall (fun p => p_end p <= length s) ps.

(* boolean versions, for cases *)
Fixpoint disjoint_b (ps : list patch) : bool :=
  match ps with
  | [] => true
  | p :: ps' => Nat.leb (p_start p) (p_end p) && forallb (fun q => Nat.leb (p_end p) (p_start q)) ps' && disjoint_b ps'
  end.
Definition in_bounds_b (ps : list patch) (s : list N) : bool :=
  forallb (fun p => Nat.leb (p_start p) (p_end p) && Nat.leb (p_end p) (length s)) ps.
