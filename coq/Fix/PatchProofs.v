(* Proofs about the patch application of `yr fix warnings` (Fix/Patch.v). *)
From Coq Require Import List NArith Bool Arith Lia Permutation.
From YV Require Import Gen.FixApply Fix.Patch.
Import ListNotations.

(* ------------------------------------------------------------ sorting *)
Lemma insert_snoc : forall x l,
  Forall (fun y => p_start y <= p_start x) l -> insert x l = l ++ [x].
Proof.
  induction l as [|y l IH]; intro F; [reflexivity|].
  inversion F; subst. cbn [insert app].
  destruct (Nat.leb (p_start y) (p_start x)) eqn:E.
  - rewrite IH by assumption. reflexivity.
  - apply Nat.leb_gt in E. lia.
Qed.

Lemma sorted_app_cons : forall acc x l,
  sorted (acc ++ x :: l) -> Forall (fun y => p_start y <= p_start x) acc.
Proof.
  induction acc as [|a acc IH]; intros x l S; [constructor|].
  cbn [app sorted] in S. destruct S as [F S]. constructor.
  - rewrite Forall_forall in F. apply F. apply in_or_app. right. left. reflexivity.
  - eapply IH; exact S.
Qed.

Lemma sort_acc_sorted : forall l acc, sorted (acc ++ l) -> sort_acc acc l = acc ++ l.
Proof.
  induction l as [|x l IH]; intros acc S; cbn [sort_acc].
  - rewrite app_nil_r. reflexivity.
  - rewrite insert_snoc by (eapply sorted_app_cons; exact S).
    rewrite IH; rewrite <- app_assoc; [reflexivity|exact S].
Qed.

Lemma sort_sorted_id : forall ps, sorted ps -> sort_patches ps = ps.
Proof.
  intros ps S. unfold sort_patches. destruct sorts_by_start; [|reflexivity].
  apply (sort_acc_sorted ps []). exact S.
Qed.

Lemma insert_perm : forall x l, Permutation (insert x l) (x :: l).
Proof.
  induction l as [|y l IH]; cbn [insert]; [apply Permutation_refl|].
  destruct (Nat.leb (p_start y) (p_start x)); [|apply Permutation_refl].
  rewrite IH. apply perm_swap.
Qed.

Lemma sort_acc_perm : forall l acc, Permutation (sort_acc acc l) (acc ++ l).
Proof.
  induction l as [|x l IH]; intro acc; cbn [sort_acc].
  - rewrite app_nil_r. apply Permutation_refl.
  - rewrite IH. rewrite insert_perm. cbn [app]. apply Permutation_middle.
Qed.

Theorem sort_patches_perm : forall ps, Permutation (sort_patches ps) ps.
Proof.
  intro ps. unfold sort_patches. destruct sorts_by_start; [|apply Permutation_refl].
  apply (sort_acc_perm ps []).
Qed.

(* ------------------------------------------------------------ splice *)
(* a chain: every patch starts at or after the previous end (so at or after pos) *)
Fixpoint chain (pos : nat) (ps : list patch) : Prop :=
  match ps with
  | [] => True
  | p :: ps' => pos <= p_start p /\ p_start p <= p_end p /\ chain (p_end p) ps'
  end.

Lemma chain_weaken : forall ps a b, a <= b -> chain b ps -> chain a ps.
Proof. destruct ps as [|p ps]; intros a b L C; [exact I|]. cbn [chain] in *. intuition lia. Qed.

Lemma disjoint_chain : forall ps, sorted ps -> disjoint ps -> chain 0 ps.
Proof.
  assert (G : forall ps pos, Forall (fun q => pos <= p_start q) ps -> disjoint ps -> chain pos ps).
  { induction ps as [|p ps IH]; intros pos F D; [exact I|].
    cbn [disjoint] in D. destruct D as [W [Fd D]]. inversion F; subst.
    cbn [chain]. split; [assumption|]. split; [exact W|]. apply IH; assumption. }
  intros ps _ D. apply G; [|exact D]. apply Forall_forall. intros; lia.
Qed.

(* the text before [pos] is not touched by patches that start at or after it *)
Lemma splice_prefix : forall ps s pos,
  chain pos ps -> Forall (fun p => p_end p <= length s) ps -> pos <= length s ->
  firstn pos (splice ps s) = firstn pos s /\ pos <= length (splice ps s).
Proof.
  induction ps as [|p ps IH]; intros s pos C B L.
  - cbn [splice fold_right]. split; [reflexivity|exact L].
  - cbn [chain] in C. destruct C as [C1 [C2 C3]]. inversion B as [|? ? B1 B2]; subst.
    change (splice (p :: ps) s) with (replace1 p (splice ps s)).
    destruct (IH s (p_end p) C3 B2 B1) as [E LE].
    set (S' := splice ps s) in *.
    assert (Ls : p_start p <= length S') by lia.
    unfold replace1.
    assert (F1 : firstn pos (firstn (p_start p) S' ++ p_repl p ++ skipn (p_end p) S') = firstn pos S').
    { rewrite firstn_app. rewrite firstn_length. rewrite Nat.min_l by exact Ls.
      replace (pos - p_start p) with 0 by lia. cbn [firstn]. rewrite app_nil_r.
      rewrite firstn_firstn. rewrite Nat.min_l by exact C1. reflexivity. }
    split.
    + rewrite F1.
      assert (E2 : firstn pos (firstn (p_end p) S') = firstn pos (firstn (p_end p) s)) by (rewrite E; reflexivity).
      rewrite !firstn_firstn in E2. rewrite !Nat.min_l in E2 by lia. exact E2.
    + rewrite !app_length, firstn_length. rewrite Nat.min_l by exact Ls. lia.
Qed.

Lemma slice_firstn : forall (s : list N) a b, slice s a b = skipn a (firstn b s).
Proof.
  intros s a b. unfold slice. rewrite skipn_firstn_comm. reflexivity.
Qed.

Lemma apply_loop_chain : forall ps s pos w,
  chain pos ps -> Forall (fun p => p_end p <= length s) ps -> pos <= length s ->
  apply_loop ps s pos w = Ok (w ++ skipn pos (splice ps s)).
Proof.
  induction ps as [|p ps IH]; intros s pos w C B L.
  - cbn [apply_loop splice fold_right]. apply Nat.leb_le in L. rewrite L. reflexivity.
  - cbn [chain] in C. destruct C as [C1 [C2 C3]]. inversion B as [|? ? B1 B2]; subst.
    cbn [apply_loop].
    assert (SK : skip_patch p pos (length s) = false).
    { unfold skip_patch. apply orb_false_iff. split; [apply orb_false_iff; split|]; apply Nat.ltb_ge; lia. }
    rewrite SK, andb_false_r.
    assert (L1 : Nat.leb pos (p_start p) = true) by (apply Nat.leb_le; exact C1).
    assert (L2 : Nat.leb (p_start p) (length s) = true) by (apply Nat.leb_le; lia).
    rewrite L1, L2. cbn [andb].
    rewrite (IH s (p_end p) _ C3 B2 B1).
    f_equal. rewrite <- !app_assoc. f_equal.
    change (splice (p :: ps) s) with (replace1 p (splice ps s)).
    destruct (splice_prefix ps s (p_end p) C3 B2 B1) as [E LE].
    set (S' := splice ps s) in *.
    unfold replace1.
    assert (Ls : p_start p <= length S') by lia.
    rewrite skipn_app. rewrite firstn_length. rewrite Nat.min_l by exact Ls.
    replace (pos - p_start p) with 0 by lia. cbn [skipn].
    f_equal.
    rewrite slice_firstn.
    assert (E2 : firstn (p_start p) (firstn (p_end p) S') = firstn (p_start p) (firstn (p_end p) s)) by (rewrite E; reflexivity).
    rewrite !firstn_firstn in E2. rewrite !Nat.min_l in E2 by lia. rewrite E2. reflexivity.
Qed.

(* THE specification of the patch application: patches that are sorted,
   pairwise disjoint and inside the text are all applied, each to the part
   of the text it addresses *)
Theorem apply_spec : forall ps s,
  sorted ps -> disjoint ps -> in_bounds ps s -> apply ps s = Ok (splice ps s).
Proof.
  intros ps s S D B. unfold apply. rewrite (sort_sorted_id ps S).
  rewrite (apply_loop_chain ps s 0 []); [reflexivity| |exact B|lia].
  apply disjoint_chain; assumption.
Qed.

(* in any order: what counts is that the sorted vector is a chain *)
Theorem apply_spec_sorted : forall ps s,
  chain 0 (sort_patches ps) -> in_bounds ps s ->
  apply ps s = Ok (splice (sort_patches ps) s).
Proof.
  intros ps s C B. unfold apply. apply apply_loop_chain; [exact C| |lia].
  unfold in_bounds in B. rewrite Forall_forall in *. intros p I. apply B.
  eapply Permutation_in; [apply sort_patches_perm|exact I].
Qed.

Example apply_spec_example :
  let ps := [mkPatch 2 4 [100; 101; 102]%N; mkPatch 6 6 [103]%N; mkPatch 7 9 []] in
  let s := [0; 1; 2; 3; 4; 5; 6; 7; 8; 9]%N in
  sorted ps /\ disjoint ps /\ in_bounds ps s /\
  apply ps s = Ok [0; 1; 100; 101; 102; 4; 5; 103; 6; 9]%N.
Proof.
  cbn zeta. split; [|split; [|split]].
  - cbn [sorted p_start]. repeat split; repeat constructor.
  - cbn [disjoint wf p_start p_end]. repeat split; repeat constructor.
  - unfold in_bounds. repeat constructor.
  - vm_compute. reflexivity.
Qed.

(* ------------------------------------------------------------ damage *)
(* "the tool never damages the file it rewrites", stated in full: *)
Definition apply_never_damages : Prop :=
  forall ps s, Forall wf ps -> in_bounds ps s -> exists out, apply ps s = Ok out.

(* REFUTED for overlapping patches.  The witness is the pair of patches the
   compiler produces for `pe.is_pe == 1 == 1` (DESIGN.md section 7 #9): 66..79
   and 66..84 on a 100-byte file. *)
Definition witness_patches : list patch := [mkPatch 66 79 [1]%N; mkPatch 66 84 [2]%N].
Definition witness_text : list N := repeat 7%N 100.

Lemma apply_never_damages_refuted : skips_overlapping = false -> ~ apply_never_damages.
Proof.
  intros Hs H. destruct (H witness_patches witness_text) as [out E].
  - repeat constructor; cbn; lia.
  - unfold in_bounds. repeat constructor; cbn; lia.
  - revert E Hs. unfold apply, sort_patches. destruct sorts_by_start; vm_compute; intros; congruence.
Qed.

(* and, as the code stands (the file is truncated before the loop), the file
   is left holding a strict prefix of the intended output *)
Lemma overlap_damages_file :
  sorts_by_start = true -> truncates_before_writing = true -> skips_overlapping = false ->
  apply witness_patches witness_text = Damaged (repeat 7%N 66 ++ [1]%N).
Proof.
  intros H1 H2 H3. vm_compute in H1, H2, H3 |- *.
  first [ reflexivity | discriminate H1 | discriminate H2 | discriminate H3 ].
Qed.

(* ------------------------------------------------------------ the repaired loop *)
(* with the guard, every patch list on every text gives a complete file: the
   patches that are kept form a chain inside the text, the others are skipped *)
Lemma keep_chain : forall ps pos len, pos <= len ->
  chain pos (keep pos len ps) /\ Forall (fun p => p_end p <= len) (keep pos len ps).
Proof.
  induction ps as [|p ps IH]; intros pos len L; cbn [keep]; [split; [exact I|constructor]|].
  destruct (skip_patch p pos len) eqn:SK; [apply IH; exact L|].
  unfold skip_patch in SK. apply orb_false_iff in SK. destruct SK as [SK S3].
  apply orb_false_iff in SK. destruct SK as [S1 S2].
  apply Nat.ltb_ge in S1, S2, S3.
  destruct (IH (p_end p) len S3) as [C B].
  split; [cbn [chain]; repeat split; assumption|constructor; assumption].
Qed.

Lemma apply_loop_keep : skips_overlapping = true -> forall ps s pos w,
  apply_loop ps s pos w = apply_loop (keep pos (length s) ps) s pos w.
Proof.
  intros Hs. induction ps as [|p ps IH]; intros s pos w; cbn [keep]; [reflexivity|].
  destruct (skip_patch p pos (length s)) eqn:SK.
  - cbn [apply_loop]. rewrite Hs, SK. cbn [andb]. apply IH.
  - cbn [apply_loop]. rewrite SK, andb_false_r.
    destruct (Nat.leb pos (p_start p) && Nat.leb (p_start p) (length s)); [apply IH|reflexivity].
Qed.

Theorem apply_skips_spec : skips_overlapping = true -> forall ps s,
  apply ps s = Ok (splice (keep 0 (length s) (sort_patches ps)) s).
Proof.
  intros Hs ps s. unfold apply. rewrite (apply_loop_keep Hs).
  destruct (keep_chain (sort_patches ps) 0 (length s) (Nat.le_0_l _)) as [C B].
  apply apply_loop_chain; [exact C|exact B|lia].
Qed.

(* "the tool never damages the file it rewrites" holds of the repaired code *)
Theorem apply_never_damages_repaired : skips_overlapping = true -> apply_never_damages.
Proof. intros Hs ps s _ _. eexists. apply apply_skips_spec. exact Hs. Qed.

(* nothing is skipped when the sorted patches are a chain inside the text *)
Lemma keep_chain_id : forall ps pos len,
  chain pos ps -> Forall (fun p => p_end p <= len) ps -> keep pos len ps = ps.
Proof.
  induction ps as [|p ps IH]; intros pos len C B; [reflexivity|].
  cbn [chain] in C. destruct C as [C1 [C2 C3]]. inversion B; subst.
  cbn [keep].
  assert (SK : skip_patch p pos len = false).
  { unfold skip_patch. apply orb_false_iff. split; [apply orb_false_iff; split|]; apply Nat.ltb_ge; lia. }
  rewrite SK. f_equal. apply IH; assumption.
Qed.

(* under the guard that excludes the known class *)
Theorem apply_never_damages_disjoint : forall ps s,
  chain 0 (sort_patches ps) -> in_bounds ps s -> exists out, apply ps s = Ok out.
Proof. intros ps s C B. eexists. apply apply_spec_sorted; assumption. Qed.

(* decidable form used on the patches the implementation produced *)
Lemma disjoint_b_sound : forall ps, disjoint_b ps = true -> disjoint ps.
Proof.
  induction ps as [|p ps IH]; intro H; [exact I|].
  cbn [disjoint_b] in H. apply andb_true_iff in H. destruct H as [H H3].
  apply andb_true_iff in H. destruct H as [H1 H2].
  cbn [disjoint]. split; [apply Nat.leb_le; exact H1|]. split; [|apply IH; exact H3].
  rewrite forallb_forall in H2. apply Forall_forall. intros q I. apply Nat.leb_le. apply H2. exact I.
Qed.

(* ------------------------------------------------------------ one file, several spellings *)
(* "for a file with disjoint patches inside it, the command leaves the patches
   applied together", whatever the number of times the file was named *)
Definition yr_file_meets_spec : Prop :=
  forall n ps s, 1 <= n -> chain 0 (sort_patches ps) -> in_bounds ps s ->
  yr_file n ps s = Ok (splice (sort_patches ps) s).

(* REFUTED while the patches are collected per path as written: `0 of them`
   named twice (`ns1:t.yar ns2:./t.yar`, replayed on `yr fix warnings` by the
   harness) goes through two rounds: the second replaces bytes 38..39 of
   the text that the first one produced. *)
Definition twice_patches : list patch := [mkPatch 38 39 [110; 111; 110; 101]%N].
Definition twice_text : list N := repeat 7%N 38 ++ [48]%N ++ repeat 8%N 10.
Lemma yr_file_twice_refuted : groups_by_path_as_given = true -> ~ yr_file_meets_spec.
Proof.
  intros G H. specialize (H 2 twice_patches twice_text).
  assert (C : chain 0 (sort_patches twice_patches)).
  { unfold sort_patches. destruct sorts_by_start; vm_compute; repeat split; repeat constructor. }
  assert (B : in_bounds twice_patches twice_text).
  { unfold in_bounds. repeat constructor. }
  specialize (H ltac:(lia) C B). revert H. unfold yr_file. rewrite G.
  unfold apply_rounds, apply, sort_patches. destruct sorts_by_start, skips_overlapping, truncates_before_writing; vm_compute; intro H; discriminate H.
Qed.

(* with one round per FILE it holds *)
Theorem yr_file_once : groups_by_path_as_given = false -> yr_file_meets_spec.
Proof.
  intros G n ps s _ C B. unfold yr_file. rewrite G. cbn [apply_rounds].
  rewrite (apply_spec_sorted ps s C B). reflexivity.
Qed.

(* and in any case for a file that is named once *)
Theorem yr_file_named_once : forall ps s,
  chain 0 (sort_patches ps) -> in_bounds ps s ->
  yr_file 1 ps s = Ok (splice (sort_patches ps) s).
Proof.
  intros ps s C B. unfold yr_file. destruct groups_by_path_as_given; cbn [apply_rounds];
  rewrite (apply_spec_sorted ps s C B); reflexivity.
Qed.
