(* Executable model of fmt/src/bubble.rs (`Bubble`): tokens of class "air"
   move left over tokens of class "water"; every other token is a barrier.

   Rust `next()`: return the front of output_buffer if any; otherwise read
   the input: water -> input_buffer; air -> yielded at once (so it overtakes
   the buffered water); other -> input_buffer is flushed, then the token.
   At the end of the input the buffered water is flushed.  A token that is
   both air and water panics. *)
From Coq Require Import List NArith ZArith Bool.
From YV Require Import Fmt.Tokens Gen.FmtCats Fmt.Processor.
Import ListNotations.

(* token classes as written in fmt/src/lib.rs:
   `matches!(token, Token::TailComment(_)) || token.is( *NEWLINE)` *)
Inductive catom := KCtor (k : ctor) | KCat (c : N).
Definition tclass := list catom.

Definition in_atom (a : catom) (t : token) : bool :=
  match a with
  | KCtor k => ctor_eqb (ctor_of t) k
  | KCat c => is t c
  end.
Definition in_class (cl : tclass) (t : token) : bool := existsb (fun a => in_atom a t) cl.

(* [out] is in reverse order; None = panic *)
Fixpoint bubble_loop (air water : token -> bool) (inp buf out : list token) : option (list token) :=
  match inp with
  | [] => Some (rev out ++ buf)
  | t :: inp' =>
      if air t && water t then None
      else if water t then bubble_loop air water inp' (buf ++ [t]) out
      else if air t then bubble_loop air water inp' buf (t :: out)
      else bubble_loop air water inp' [] (t :: rev buf ++ out)
  end.

Definition bubble (air water : token -> bool) (ts : list token) : option (list token) :=
  bubble_loop air water ts [] [].

Definition bubble_cl (air water : tclass) (ts : list token) : option (list token) :=
  bubble (in_class air) (in_class water) ts.

(* decidable: the class contains insignificant tokens only *)
Definition atom_insig_b (a : catom) : bool :=
  match a with
  | KCtor k => negb (N.eqb (cat_of_ctor k) 0) && subcat (cat_of_ctor k) INSIGNIFICANT
  | KCat c => subcat c INSIGNIFICANT
  end.
Definition class_insig_b (cl : tclass) : bool := forallb atom_insig_b cl.

(* a Bubble stage cannot reorder significant tokens if one of its two
   classes holds no significant token *)
Definition bubble_safe_b (aw : tclass * tclass) : bool :=
  class_insig_b (fst aw) || class_insig_b (snd aw).
