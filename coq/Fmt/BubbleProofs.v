(* Proofs about the Bubble model (Fmt/Bubble.v): for ALL class predicates and
   ALL token streams, Bubble outputs a permutation of its input and keeps the
   relative order of every family of tokens [p] that avoids one of its two
   classes; in particular (generated classes) the significant tokens. *)
From Coq Require Import List NArith ZArith Bool Lia Permutation.
From YV Require Import Fmt.Tokens Gen.FmtCats Fmt.Processor Fmt.ProcessorProofs Fmt.Bubble.
Import ListNotations.

Lemma bubble_loop_filter : forall (air water p : token -> bool),
  ((forall t, p t = true -> air t = false) \/ (forall t, p t = true -> water t = false)) ->
  forall inp buf out res,
  Forall (fun t => water t = true) buf ->
  bubble_loop air water inp buf out = Some res ->
  filter p res = filter p (rev out) ++ filter p buf ++ filter p inp.
Proof.
  intros air water p Hp. induction inp as [|t inp IH]; intros buf out res FB H; cbn [bubble_loop] in H.
  - inversion H; subst. rewrite filter_app. cbn [filter]. rewrite app_nil_r. reflexivity.
  - destruct (air t) eqn:EA, (water t) eqn:EW; cbn [andb] in H; try discriminate.
    + (* air *) apply IH in H; [|exact FB]. rewrite H. cbn [rev]. rewrite filter_app.
      rewrite <- !app_assoc. f_equal. cbn [filter].
      destruct (p t) eqn:EP; [|reflexivity].
      destruct Hp as [Hp|Hp]; [rewrite (Hp t EP) in EA; discriminate|].
      assert (Z : filter p buf = []).
      { clear -FB Hp. induction buf as [|b buf IHb]; [reflexivity|].
        inversion FB; subst. cbn [filter]. destruct (p b) eqn:E.
        - rewrite (Hp b E) in H1. discriminate.
        - apply IHb; assumption. }
      rewrite Z. reflexivity.
    + (* water *) apply IH in H.
      * rewrite H. change (t :: inp) with ([t] ++ inp). rewrite !filter_app. rewrite <- !app_assoc. reflexivity.
      * apply Forall_app. split; [exact FB|]. constructor; [exact EW|constructor].
    + (* barrier *) apply IH in H; [|constructor]. rewrite H. cbn [rev filter app].
      rewrite rev_app_distr, rev_involutive. change (t :: inp) with ([t] ++ inp).
      rewrite !filter_app. cbn [filter app]. rewrite <- !app_assoc. destruct (p t); reflexivity.
Qed.

Theorem bubble_preserves_order : forall (air water p : token -> bool) ts out,
  ((forall t, p t = true -> air t = false) \/ (forall t, p t = true -> water t = false)) ->
  bubble air water ts = Some out -> filter p out = filter p ts.
Proof.
  intros air water p ts out Hp H. unfold bubble in H.
  apply (bubble_loop_filter air water p Hp) in H; [|constructor]. exact H.
Qed.

Lemma bubble_loop_perm : forall (air water : token -> bool) inp buf out res,
  bubble_loop air water inp buf out = Some res -> Permutation res (rev out ++ buf ++ inp).
Proof.
  intros air water. induction inp as [|t inp IH]; intros buf out res H; cbn [bubble_loop] in H.
  - inversion H; subst. rewrite app_nil_r. apply Permutation_refl.
  - destruct (air t) eqn:EA, (water t) eqn:EW; cbn [andb] in H; try discriminate.
    + apply IH in H. rewrite H. cbn [rev]. rewrite <- app_assoc. apply Permutation_app_head.
      cbn [app]. apply Permutation_middle.
    + apply IH in H. rewrite H. rewrite <- !app_assoc. reflexivity.
    + apply IH in H. rewrite H. cbn [rev app]. rewrite rev_app_distr, rev_involutive.
      rewrite <- !app_assoc. reflexivity.
Qed.

Theorem bubble_permutation : forall air water ts out,
  bubble air water ts = Some out -> Permutation out ts.
Proof. intros air water ts out H. apply bubble_loop_perm in H. exact H. Qed.

(* decidable safety of the generated classes *)
Lemma class_insig_sound : forall cl t,
  class_insig_b cl = true -> in_class cl t = true -> significant t = false.
Proof.
  intros cl t C I. unfold in_class in I. apply existsb_exists in I. destruct I as [a [Ia Ha]].
  unfold class_insig_b in C. rewrite forallb_forall in C. specialize (C a Ia).
  destruct a as [k|c]; cbn [atom_insig_b in_atom] in *.
  - apply andb_true_iff in C. destruct C as [C1 C2].
    assert (E : category t = cat_of_ctor k).
    { unfold category. destruct (ctor_of t), k; try discriminate; reflexivity. }
    unfold significant, is. rewrite E. apply negb_false_iff. apply negb_true_iff.
    apply N.eqb_neq. intro Z. apply negb_true_iff in C1. apply N.eqb_neq in C1. apply C1.
    unfold subcat in C2. apply N.eqb_eq in C2.
    pose proof (N.lor_ldiff_and (cat_of_ctor k) INSIGNIFICANT) as L. rewrite C2, N.lor_0_l in L.
    rewrite <- L. rewrite N.land_comm. exact Z.
  - eapply insig_of_guard; eauto.
Qed.

Theorem bubble_cl_preserves_significant : forall air water ts out,
  bubble_safe_b (air, water) = true -> bubble_cl air water ts = Some out -> sig out = sig ts.
Proof.
  intros air water ts out S H. unfold bubble_cl in H. unfold sig.
  eapply bubble_preserves_order; [|exact H].
  unfold bubble_safe_b in S. cbn [fst snd] in S. apply orb_true_iff in S. destruct S as [S|S].
  - left. intros t Pt. destruct (in_class air t) eqn:E; [|reflexivity].
    rewrite (class_insig_sound _ _ S E) in Pt. discriminate.
  - right. intros t Pt. destruct (in_class water t) eqn:E; [|reflexivity].
    rewrite (class_insig_sound _ _ S E) in Pt. discriminate.
Qed.

(* the example of the module documentation of bubble.rs: A = barrier, B = water, C = air *)
Example bubble_doc_example :
  let A := fun n : N => TKeyword [n] in let B := TEnd in let C := fun _ : N => TNewline in
  bubble_cl [KCat C_NEWLINE] [KCtor KEnd]
    [A 1; A 2; B 1; B 2; B 2; B 3; C 1; B 4; C 2; A 3; A 4; C 3]%N
  = Some [A 1; A 2; C 1; C 2; B 1; B 2; B 2; B 3; B 4; A 3; A 4; C 3]%N.
Proof. vm_compute. reflexivity. Qed.

(* without the side condition the order of [p]-tokens can change *)
Example bubble_can_reorder :
  bubble_cl [KCtor KTailComment] [KCtor KKeyword] [TKeyword [1%N]; TTailComment [[2%N]]]
  = Some [TTailComment [[2%N]]; TKeyword [1%N]].
Proof. vm_compute. reflexivity. Qed.
