(* Correspondence and specification cases for C15 (written by harness/src/bin/c15.rs).

   K ([check_case]): the MODEL recomputes what the implementation produced
     - CProc:   the real `Processor` (through the cfg(yara_x_verif) hook) and
                [Processor.run] on the same pass-through category, rule list
                (condition language) and token stream;
     - CBubble: the real `Bubble` and [Bubble.bubble_cl];
     - CCats:   `Token::category()` bits and the generated [category];
     - CWrite:  the real `TokenStream::write_to` (text of a token stream, with the
                indentation it writes in front of the continuation lines of
                multi-line comments) and [Stages.write_to], byte for byte;
     - CYr:     the real `yr fmt` binary on temporary files (in place and
                --check, several files per invocation) against the model of
                cli/src/commands/fmt.rs: the file afterwards is the library's
                output byte for byte iff the library says modified, otherwise
                untouched (not even rewritten); exit status;
     - CStage:  the real CommentProcessor / FormatHexPatterns / Align /
                AddIndentation / RemoveTrailingSpaces and the models of
                Fmt/Stages.v, token for token.
   S ([spec_case]): the property evaluated on the implementation's own output
     - CFmt:    one run of `yara_x_fmt::Formatter::format` under one option
                combination. *)
From Coq Require Import List NArith ZArith Bool.
From YV Require Import Fmt.Tokens Gen.FmtCats Fmt.Processor Fmt.Bubble Fmt.Stages Fmt.Pipeline Gen.FmtRules.
Import ListNotations.

(* how a run of the real formatter ended *)
Inductive fmt_outcome :=
| FOk (modified : bool)     (* Ok(modified) *)
| FErr                      (* Err(..): invalid UTF-8 is the documented error *)
| FPanic
| FHang.

Record fmt_obs := mkFmt {
  f_in_id : N;                (* interned input text *)
  f_in_utf8 : bool;           (* input is valid UTF-8 *)
  f_in_sig : list (N * N);    (* significant tokens of the input: (kind, interned text) *)
  f_out1 : fmt_outcome;
  f_out1_id : N;              (* interned output text of the first pass *)
  f_out1_sig : list (N * N);
  f_out2 : fmt_outcome;       (* second pass on the first output *)
  f_out2_id : N;
  f_same_behaviour : bool }.  (* input and output compile alike (same error codes, or same
                                 verdicts and matches on the harness buffers) *)

(* the five stages that are not rule-based, with their parameters *)
Inductive hstage :=
| HComments (tab_size : nat)
| HHex
| HAlign
| HIndent (spaces : option nat)      (* None = tabs *)
| HTrailing.

Definition run_hstage (h : hstage) (ts : list token) : option (list token) :=
  match h with
  | HComments tab => comments tab ts
  | HHex => Some (hex_patterns ts)
  | HAlign => option_map fst (align ts)
  | HIndent sp => Some (add_indentation sp ts)
  | HTrailing => Some (trailing_spaces ts)
  end.

(* one file given to `yr fmt`: its content, what the library does with it under
   the same options (outcome, output), its content afterwards and whether its
   modification time changed *)
Record yr_file := mkYrFile {
  y_in : list N; y_lib : fmt_outcome; y_lib_out : list N; y_after : list N; y_rewritten : bool }.

(* cli/src/commands/fmt.rs as coded: files in argument order; a library error
   stops the command (files before it stay processed); without --check a file
   the library reports as modified is overwritten with the library's output
   (through a truncating handle or not: Gen/FmtRules.v, yr_fmt_truncates),
   other files are not touched; exit status 0 iff nothing was modified and
   nothing failed, 1 for modified/error, anything else (>= 2) for a crash *)
Fixpoint yr_model (trunc check : bool) (files : list yr_file) (stopped : bool) (modified failed crashed : bool)
  : list (list N * bool) * N :=
  match files with
  | [] => ([], if crashed then 2 else if modified || failed then 1 else 0)%N
  | f :: fs =>
      if stopped then
        let '(r, e) := yr_model trunc check fs true modified failed crashed in ((y_in f, false) :: r, e)
      else
        match y_lib f with
        | FOk true =>
            let after := if check then y_in f
                         else if trunc then y_lib_out f
                         else y_lib_out f ++ skipn (length (y_lib_out f)) (y_in f) in
            let '(r, e) := yr_model trunc check fs false true failed crashed in ((after, negb check) :: r, e)
        | FOk false => let '(r, e) := yr_model trunc check fs false modified failed crashed in ((y_in f, false) :: r, e)
        | FErr => let '(r, e) := yr_model trunc check fs true modified true crashed in ((y_in f, false) :: r, e)
        | FPanic | FHang => let '(r, e) := yr_model trunc check fs true modified failed true in ((y_in f, false) :: r, e)
        end
  end.

Definition check_yr (trunc check : bool) (files : list yr_file) (exit : N) : bool :=
  let '(expect, e) := yr_model trunc check files false false false false in
  N.eqb (N.min exit 2) e &&
  (fix go (fs : list yr_file) (ex : list (list N * bool)) : bool :=
     match fs, ex with
     | [], [] => true
     | f :: fs', (after, rw) :: ex' => bytes_eqb (y_after f) after && Bool.eqb (y_rewritten f) rw && go fs' ex'
     | _, _ => false
     end) files expect.

Inductive case :=
| CWrite (inp : list token) (res : option (list N))     (* TokenStream::write_to *)
| CYr (check : bool) (files : list yr_file) (exit : N)
| CStage (h : hstage) (inp : list token) (res : option (list token))
| CProc (pt : N) (rules : list (cexpr * action)) (inp : list token) (limit : nat)
        (res : option (list token * bool))
| CBubble (air water : tclass) (inp : list token) (res : option (list token))
| CCats (l : list (token * N))
| CFmt (o : fmt_obs).

Definition check_proc pt rules inp limit (res : option (list token * bool)) : bool :=
  let fuel := (2 * length inp + 3 * limit + 50)%nat in
  let '(o, out) := run fuel (map rule_of rules) pt inp in
  if Nat.ltb limit (length out) then
    match res with
    | Some (r, true) => tokens_eqb (firstn limit out) r
    | _ => false
    end
  else
    match o, res with
    | Done, Some (r, false) => tokens_eqb out r
    | Panicked, None => true
    | _, _ => false
    end.

Definition check_case (c : case) : bool :=
  match c with
  | CProc pt rules inp limit res => check_proc pt rules inp limit res
  | CBubble air water inp res =>
      match bubble_cl air water inp, res with
      | Some a, Some b => tokens_eqb a b
      | None, None => true
      | _, _ => false
      end
  | CWrite inp res => match res with Some r => bytes_eqb (write_to inp) r | None => false end
  | CYr check files exit => check_yr yr_fmt_truncates check files exit
  | CStage h inp res =>
      match run_hstage h inp, res with
      | Some a, Some b => tokens_eqb a b
      | None, None => true
      | _, _ => false
      end
  | CCats l => forallb (fun tc => N.eqb (category (fst tc)) (snd tc)) l
  | CFmt _ => true
  end.

Fixpoint sig_eqb (a b : list (N * N)) : bool :=
  match a, b with
  | [], [] => true
  | (k1, t1) :: a', (k2, t2) :: b' => N.eqb k1 k2 && N.eqb t1 t2 && sig_eqb a' b'
  | _, _ => false
  end.

(* the four clauses of the property, separately (the harness reports which
   one failed through the same functions) *)
Definition fmt_no_crash (o : fmt_obs) : bool :=
  match f_out1 o with
  | FPanic | FHang => false
  | FErr => negb (f_in_utf8 o)      (* the only documented error is invalid UTF-8 *)
  | FOk _ => true
  end.
Definition fmt_tokens_preserved (o : fmt_obs) : bool :=
  match f_out1 o with FOk _ => sig_eqb (f_in_sig o) (f_out1_sig o) | _ => true end.
Definition fmt_flag_truthful (o : fmt_obs) : bool :=
  match f_out1 o with FOk m => Bool.eqb m (negb (N.eqb (f_in_id o) (f_out1_id o))) | _ => true end.
Definition fmt_idempotent (o : fmt_obs) : bool :=
  match f_out1 o with
  | FOk _ => match f_out2 o with
             | FOk m2 => N.eqb (f_out2_id o) (f_out1_id o) && negb m2
             | _ => false
             end
  | _ => true
  end.

Definition fmt_same_behaviour (o : fmt_obs) : bool :=
  match f_out1 o with FOk _ => f_same_behaviour o | _ => true end.

Definition spec_case (c : case) : bool :=
  match c with
  (* the property: after `yr fmt` a file holds exactly the formatter's output *)
  | CYr check files exit => check_yr true check files exit
  | CFmt o => fmt_no_crash o && fmt_tokens_preserved o && fmt_flag_truthful o && fmt_idempotent o &&
              fmt_same_behaviour o
  | _ => true
  end.
