(* The proof obligations about the GENERATED description of the formatter
   pipeline (Gen/FmtRules.v, regenerated from fmt/src/lib.rs on every run).
   Both are finite facts decided by computation: a new rule that drops a
   token not known to be whitespace-class, inserts a significant token or
   swaps tokens -- or a Bubble stage both of whose classes contain a
   significant token -- makes them false. *)
From Coq Require Import List NArith ZArith Bool.
From YV Require Import Fmt.Tokens Gen.FmtCats Fmt.Processor Fmt.ProcessorProofs
  Fmt.Bubble Fmt.BubbleProofs Gen.FmtRules.
Import ListNotations.

Theorem fmt_rules_safe : safe_stages_b stages = true.
Proof. vm_compute. reflexivity. Qed.

Theorem fmt_bubbles_safe : forallb bubble_safe_b bubbles = true.
Proof. vm_compute. reflexivity. Qed.

(* every stage that inserts or drops line breaks sees the comments (its
   pass-through category does not contain COMMENT) *)
Theorem fmt_line_break_stages_see_comments : forallb line_break_stage_sees_comments stages = true.
Proof. vm_compute. reflexivity. Qed.

Example fmt_line_break_stages_nonvacuous :
  (8 <=? length (filter (fun s => existsb touches_line_breaks (g_rules s)) stages))%nat = true /\
  existsb (fun s => negb (N.eqb (N.land (g_pt s) C_COMMENT) 0)) stages = true.
Proof. vm_compute. split; reflexivity. Qed.

(* every Processor stage of the pipeline, with ANY conditions that entail the
   extracted conjuncts, preserves the significant tokens of ANY stream *)
Theorem fmt_stage_preserves_significant : forall s rs ts fuel out,
  In s stages -> Forall2 refines (g_rules s) rs ->
  run fuel rs (g_pt s) ts = (Done, out) -> sig out = sig ts.
Proof.
  intros s rs ts fuel out I R H.
  eapply processor_preserves_significant; [|exact H].
  eapply safe_rules_sound; [|exact R].
  pose proof fmt_rules_safe as S. unfold safe_stages_b in S. rewrite forallb_forall in S.
  apply S. exact I.
Qed.

Theorem fmt_bubble_preserves_significant : forall aw ts out,
  In aw bubbles -> bubble_cl (fst aw) (snd aw) ts = Some out -> sig out = sig ts.
Proof.
  intros [air water] ts out I H. cbn [fst snd] in H.
  eapply bubble_cl_preserves_significant; [|exact H].
  pose proof fmt_bubbles_safe as S. rewrite forallb_forall in S. apply S. exact I.
Qed.

(* the pipeline really has stages, and they include drop rules (the
   obligations are not vacuous) *)
Example fmt_rules_nonvacuous :
  (10 <=? length stages)%nat = true /\
  existsb (fun s => existsb (fun g => match g_act g with ADrop => true | _ => false end) (g_rules s)) stages = true /\
  (2 <=? length bubbles)%nat = true.
Proof. vm_compute. repeat split. Qed.
