(* The shape of the formatter's pipeline (fmt/src/lib.rs, `format_impl`): a
   sequence of stages, some of them selected by a boolean option of the
   `Formatter`.  The concrete sequence is GENERATED (Gen/FmtRules.v,
   [pipeline]); options are identified by numbers (their names are in the
   generated file). *)
From Coq Require Import List NArith Bool.
Import ListNotations.

Inductive bstage :=
| BProc (n : nat)        (* the n-th `Processor::new(..)` chain of lib.rs: nth n stages *)
| BBubble (n : nat)      (* the n-th `Bubble::new(..)`: nth n bubbles *)
| BComments              (* CommentProcessor::new(tokens).tab_size(self.tab_size) *)
| BHex                   (* FormatHexPatterns::new(tokens) *)
| BAlign                 (* Align::new(..) *)
| BIndent                (* AddIndentation::new(tokens, self.indentation) *)
| BTrailing.             (* RemoveTrailingSpaces::new(tokens) *)

Inductive pstage :=
| PBase (b : bstage)
| PIf (opt : N) (a b : list bstage).   (* if self.<opt> { a } else { b } *)

(* the stages that run under a valuation of the options *)
Definition select (flag : N -> bool) (pl : list pstage) : list bstage :=
  flat_map (fun p => match p with
                     | PBase b => [b]
                     | PIf opt a b => if flag opt then a else b
                     end) pl.

(* stages that keep the significant tokens as they are; the comments stage
   rewrites comment tokens and needs raw comments as input *)
Definition tokpres (b : bstage) : bool := match b with BComments => false | _ => true end.

(* at most one comments stage, not under a conditional *)
Fixpoint ok_pipeline (seen : bool) (pl : list pstage) : bool :=
  match pl with
  | [] => true
  | PBase BComments :: pl' => negb seen && ok_pipeline true pl'
  | PBase _ :: pl' => ok_pipeline seen pl'
  | PIf _ a b :: pl' => forallb tokpres a && forallb tokpres b && ok_pipeline seen pl'
  end.
