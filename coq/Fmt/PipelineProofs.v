(* END-TO-END: the composition of the stages of `format_impl`, in the order and
   under the options extracted from fmt/src/lib.rs (Gen/FmtRules.v,
   [pipeline]), preserves the significant content of every token stream.

   A run of the pipeline is a chain of runs of its stages ([bruns]):
     - a Processor stage runs with ANY concrete rule list that refines the
       extracted description (same actions, conditions entail the extracted
       conjuncts), any fuel, and must complete ([Done]);
     - Bubble / CommentProcessor / Align must not panic, Align must run to
       the end of its input (see [align_can_end_early]);
     - the other stages are total.
   The result is stated on [sigc]: text tokens exactly, comments as their
   sequence of lines without leading whitespace. *)
From Coq Require Import List NArith ZArith Bool Arith Lia.
From YV Require Import Fmt.Tokens Gen.FmtCats Fmt.Processor Fmt.ProcessorProofs
  Fmt.Bubble Fmt.BubbleProofs Fmt.Stages Fmt.StagesProofs Fmt.Pipeline Gen.FmtRules Fmt.FmtRulesProofs.
Import ListNotations.

Record fmt_opts := mkOpts {
  o_flag : N -> bool;          (* the boolean options, by number *)
  o_tab : nat;                 (* input_tab_size *)
  o_spaces : option nat }.     (* indentation: Some n = Spaces(n), None = Tabs *)

Section Run.
  Variable stages : list gstage.
  Variable bubbles : list (tclass * tclass).
  Variable o : fmt_opts.

  Definition brun (b : bstage) (ts out : list token) : Prop :=
    match b with
    | BProc n => exists s rs fuel, nth_error stages n = Some s /\ Forall2 refines (g_rules s) rs /\
                                   run fuel rs (g_pt s) ts = (Done, out)
    | BBubble n => exists aw, nth_error bubbles n = Some aw /\ bubble_cl (fst aw) (snd aw) ts = Some out
    | BComments => comments (o_tab o) ts = Some out
    | BHex => out = hex_patterns ts
    | BAlign => align ts = Some (out, true)
    | BIndent => out = add_indentation (o_spaces o) ts
    | BTrailing => out = trailing_spaces ts
    end.

  Fixpoint bruns (bl : list bstage) (ts out : list token) : Prop :=
    match bl with
    | [] => out = ts
    | b :: bl' => exists mid, brun b ts mid /\ bruns bl' mid out
    end.

  Lemma bruns_app : forall a b ts out,
    bruns (a ++ b) ts out <-> exists mid, bruns a ts mid /\ bruns b mid out.
  Proof.
    induction a as [|x a IH]; intros b ts out; cbn [app bruns].
    - split; [intro H; exists ts; split; [reflexivity|exact H]|intros [mid [E H]]; subst; exact H].
    - split.
      + intros [m1 [R H]]. apply IH in H. destruct H as [m2 [H1 H2]]. exists m2. split; [exists m1; split; assumption|exact H2].
      + intros [m2 [[m1 [R H1]] H2]]. exists m1. split; [exact R|]. apply IH. exists m2. split; assumption.
  Qed.

  Hypothesis stages_safe : safe_stages_b stages = true.
  Hypothesis bubbles_safe : forallb bubble_safe_b bubbles = true.

  (* every stage but the comments stage keeps the significant tokens themselves *)
  Lemma brun_tokpres : forall b ts out, tokpres b = true -> brun b ts out -> sig out = sig ts.
  Proof.
    intros b ts out T R. destruct b; cbn [brun] in R; try discriminate.
    - destruct R as [s [rs [fuel [N [F H]]]]].
      eapply processor_preserves_significant; [|exact H].
      eapply safe_rules_sound; [|exact F].
      unfold safe_stages_b in stages_safe. rewrite forallb_forall in stages_safe.
      apply stages_safe. eapply nth_error_In; exact N.
    - destruct R as [[air water] [N H]]. cbn [fst snd] in H.
      eapply bubble_cl_preserves_significant; [|exact H].
      rewrite forallb_forall in bubbles_safe. apply bubbles_safe. eapply nth_error_In; exact N.
    - subst. apply hex_patterns_preserves_significant.
    - apply align_preserves_significant. exact R.
    - subst. apply add_indentation_preserves_significant.
    - subst. apply trailing_spaces_preserves_significant.
  Qed.

  Lemma bruns_tokpres : forall bl ts out, forallb tokpres bl = true -> bruns bl ts out -> sig out = sig ts.
  Proof.
    induction bl as [|b bl IH]; intros ts out T R; cbn [bruns] in R; [subst; reflexivity|].
    cbn [forallb] in T. apply andb_true_iff in T. destruct T as [T1 T2].
    destruct R as [mid [R1 R2]]. rewrite (IH _ _ T2 R2). eapply brun_tokpres; eassumption.
  Qed.

  (* raw streams: no typed comment tokens (what `Tokens` produces) *)
  Definition raw (ts : list token) : bool := forallb (fun t => negb (typed_comment t)) ts.

  Lemma typed_significant : forall t, typed_comment t = true -> significant t = true.
  Proof. intros t H. destruct t; try discriminate; vm_compute; reflexivity. Qed.

  Lemma raw_sig : forall ts, raw (sig ts) = raw ts.
  Proof.
    induction ts as [|t ts IH]; [reflexivity|]. unfold raw, sig in *. cbn [filter forallb].
    destruct (significant t) eqn:E.
    - cbn [forallb]. rewrite IH. reflexivity.
    - rewrite IH. destruct (typed_comment t) eqn:T; [rewrite (typed_significant t T) in E; discriminate|reflexivity].
  Qed.

  Lemma raw_of_sig_eq : forall a b, sig a = sig b -> raw a = raw b.
  Proof. intros a b H. rewrite <- (raw_sig a), <- (raw_sig b), H. reflexivity. Qed.

  Theorem pipeline_preserves_significant : forall pl seen ts out,
    ok_pipeline seen pl = true ->
    (seen = false -> raw ts = true) ->
    bruns (select (o_flag o) pl) ts out ->
    sigc out = sigc ts.
  Proof.
    induction pl as [|p pl IH]; intros seen ts out OK RAW R.
    - cbn in R. subst. reflexivity.
    - unfold select in R. cbn [flat_map] in R. fold (select (o_flag o) pl) in R.
      apply bruns_app in R. destruct R as [mid [R1 R2]].
      destruct p as [b|opt a b].
      + cbn [bruns] in R1. destruct R1 as [m [R1 E]]. subst m.
        destruct (tokpres b) eqn:T.
        * assert (S : sig mid = sig ts) by (eapply brun_tokpres; eassumption).
          rewrite <- (sig_eq_sigc _ _ S).
          eapply (IH seen); [destruct b; try discriminate; exact OK| |exact R2].
          intro SF. rewrite (raw_of_sig_eq _ _ S). apply RAW. exact SF.
        * destruct b; try discriminate. cbn [ok_pipeline] in OK.
          apply andb_true_iff in OK. destruct OK as [NS OK]. apply negb_true_iff in NS.
          cbn [brun] in R1. apply comments_preserves_significant in R1; [|apply RAW; exact NS].
          rewrite <- R1. eapply (IH true); [exact OK|discriminate|exact R2].
      + cbn [ok_pipeline] in OK. apply andb_true_iff in OK. destruct OK as [OK OK3].
        apply andb_true_iff in OK. destruct OK as [OK1 OK2].
        assert (S : sig mid = sig ts).
        { destruct (o_flag o opt); [apply (bruns_tokpres a _ _ OK1 R1)|apply (bruns_tokpres b _ _ OK2 R1)]. }
        rewrite <- (sig_eq_sigc _ _ S).
        eapply (IH seen); [exact OK3| |exact R2].
        intro SF. rewrite (raw_of_sig_eq _ _ S). apply RAW. exact SF.
  Qed.
End Run.

(* the generated pipeline is well formed: one comments stage, outside the conditionals *)
Theorem fmt_pipeline_ok : ok_pipeline false pipeline = true.
Proof. vm_compute. reflexivity. Qed.

(* every stage index of the generated pipeline exists *)
Definition bstage_defined (b : bstage) : bool :=
  match b with
  | BProc n => match nth_error stages n with Some _ => true | None => false end
  | BBubble n => match nth_error bubbles n with Some _ => true | None => false end
  | _ => true
  end.
Theorem fmt_pipeline_defined :
  forallb (fun p => match p with PBase b => bstage_defined b | PIf _ a b => forallb bstage_defined a && forallb bstage_defined b end)
          pipeline = true.
Proof. vm_compute. reflexivity. Qed.

(* THE end-to-end theorem *)
Theorem format_preserves_significant : forall (o : fmt_opts) ts out,
  raw ts = true ->
  bruns stages bubbles o (select (o_flag o) pipeline) ts out ->
  sigc out = sigc ts.
Proof.
  intros o ts out RAW R.
  eapply (pipeline_preserves_significant stages bubbles o fmt_rules_safe fmt_bubbles_safe pipeline false);
    [exact fmt_pipeline_ok|intros _; exact RAW|exact R].
Qed.

(* the default options select 29 stages, all options off 23 *)
Example fmt_pipeline_lengths :
  length (select (fun n => match n with 4%N | 6%N => false | _ => true end) pipeline) = 29%nat /\
  length (select (fun _ => false) pipeline) = 23%nat.
Proof. vm_compute. split; reflexivity. Qed.
