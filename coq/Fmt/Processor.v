(* Executable model of the rule engine of the yara-x formatter:
   fmt/src/processor/mod.rs (`Processor`, `Context`, `actions`).

   Rust                                   model
   ----                                   -----
   Context { input, output, stack,        [state]
             prev_tokens, next_tokens,
             passthrough }
   Context::advance                       [advance]  (fill + flush)
   Context::pop_input_token               [pop_input_token]
   Context::push_output_token             [push_output_token]
   Context::token(n)                      [token_at]  (n in -3..-1, 1..3: type [idx])
   Context::in_rule(kind, deep)           [in_rule]
   Context::swap(i, j)                    [swap_next]
   actions::{drop,copy,space,newline,     [action] / [do_action]
             emptyline,insert,swap} and
   closures made of push_output_token
   Processor::next (the `loop`)           [run] (one loop iteration per unit of fuel)

   The consumer of a Processor pulls tokens one at a time; since nothing in
   the processor depends on the consumer, [run] simply collects everything
   the iterator yields.  Conditions are arbitrary functions of the context
   (they may panic: [None]); the rules of the real pipeline are described by
   Gen/FmtRules.v.

   Panics that are modelled: `assert_eq!(top, rule)` when a popped stack
   entry differs from the `End(rule)` token being output / passed through;
   the `debug_assert_eq!`+`unwrap` in `in_rule` (dev profile);
   `swap` on a position that does not exist.  `token(n)` with n outside
   -3..3 or 0 panics in Rust; such an n is not representable here ([idx])
   and the translator rejects it. *)
From Coq Require Import List NArith ZArith Bool.
From YV Require Import Fmt.Tokens Gen.FmtCats.
Import ListNotations.

Definition category (t : token) : N := cat_of_ctor (ctor_of t).

(* Token::is : `category.intersects(self.category())` *)
Definition is (t : token) (c : N) : bool := negb (N.eqb (N.land c (category t)) 0).
Definition is_not (t : token) (c : N) : bool := negb (is t c).

Record state := mkState {
  input : list token;          (* what the input iterator still holds *)
  output : list token;         (* VecDeque: front = head *)
  stack : list N;              (* Vec<SyntaxKind>: top = head *)
  prev_tokens : list token;    (* most recent first, at most 3 *)
  next_tokens : list token;
  passthrough : N }.

Definition MAX_PREV_TOKENS : nat := 3.
Definition MAX_NEXT_TOKENS : nat := 3.

Definition init (pt : N) (ts : list token) : state := mkState ts [] [] [] [] pt.

Definition non_pt (pt : N) (t : token) : bool := negb (is t pt).

(* first loop of `advance`: read from the input until next_tokens holds
   MAX_NEXT_TOKENS non-pass-through tokens *)
Fixpoint fill (pt : N) (cnt : nat) (inp nxt : list token) : list token * list token :=
  if Nat.leb MAX_NEXT_TOKENS cnt then (inp, nxt)
  else match inp with
       | [] => (inp, nxt)
       | t :: inp' => fill pt (if is t pt then cnt else S cnt) inp' (nxt ++ [t])
       end.

(* second loop of `advance`: move pass-through tokens at the front of
   next_tokens to the output, maintaining the stack.  None = assert_eq! failed *)
Fixpoint flush (pt : N) (nxt out : list token) (stk : list N) : option (list token * list token * list N) :=
  match nxt with
  | [] => Some ([], out, stk)
  | t :: nxt' =>
      if is t pt then
        match t with
        | TBegin k => flush pt nxt' (out ++ [t]) (k :: stk)
        | TEnd k =>
            match stk with
            | [] => flush pt nxt' (out ++ [t]) []
            | top :: stk' => if N.eqb top k then flush pt nxt' (out ++ [t]) stk' else None
            end
        | _ => flush pt nxt' (out ++ [t]) stk
        end
      else Some (nxt, out, stk)
  end.

(* advance: returns the new state and the returned bool
   (true = nothing left in next_tokens nor in output) *)
Definition advance (st : state) : option (state * bool) :=
  let pt := passthrough st in
  let cnt := length (filter (non_pt pt) (next_tokens st)) in
  let '(inp, nxt) := fill pt cnt (input st) (next_tokens st) in
  match flush pt nxt (output st) (stack st) with
  | None => None
  | Some (nxt', out', stk') =>
      let st' := mkState inp out' stk' (prev_tokens st) nxt' pt in
      Some (st', match nxt', out' with [], [] => true | _, _ => false end)
  end.

Definition pop_input_token (st : state) : option (state * option token) :=
  match advance st with
  | None => None
  | Some (st', _) =>
      match next_tokens st' with
      | [] => Some (st', None)
      | t :: nxt' =>
          Some (mkState (input st') (output st') (stack st') (prev_tokens st') nxt' (passthrough st'), Some t)
      end
  end.

(* push_output_token(Some(tok)); None = assert_eq! failed *)
Definition push_output_token (st : state) (tok : token) : option state :=
  let stk :=
    match tok with
    | TBegin k => Some (k :: stack st)
    | TEnd k =>
        match stack st with
        | [] => Some []
        | top :: stk' => if N.eqb top k then Some stk' else None
        end
    | _ => Some (stack st)
    end in
  match stk with
  | None => None
  | Some stk' =>
      let prev := if is tok (passthrough st) then prev_tokens st
                  else firstn MAX_PREV_TOKENS (tok :: prev_tokens st) in
      Some (mkState (input st) (output st ++ [tok]) stk' prev (next_tokens st) (passthrough st))
  end.

Fixpoint push_output_tokens (st : state) (toks : list token) : option state :=
  match toks with
  | [] => Some st
  | t :: toks' =>
      match push_output_token st t with
      | None => None
      | Some st' => push_output_tokens st' toks'
      end
  end.

(* the valid arguments of Context::token *)
Inductive idx := P1 | P2 | P3 | M1 | M2 | M3.
Inductive pos := Q1 | Q2 | Q3.
Definition pos_nat (p : pos) : nat := match p with Q1 => 0 | Q2 => 1 | Q3 => 2 end.

Definition token_at (st : state) (i : idx) : token :=
  let np := filter (non_pt (passthrough st)) (next_tokens st) in
  match i with
  | P1 => nth 0 np TNone | P2 => nth 1 np TNone | P3 => nth 2 np TNone
  | M1 => nth 0 (prev_tokens st) TNone | M2 => nth 1 (prev_tokens st) TNone
  | M3 => nth 2 (prev_tokens st) TNone
  end.

(* in_rule; None = the dev-profile `debug_assert_eq!( *top.unwrap(), rule)` fails *)
Definition in_rule (st : state) (kind : N) (deep : bool) : option bool :=
  let stk :=
    match next_tokens st with
    | TEnd r :: _ =>
        match stack st with
        | [] => None
        | top :: rest => if N.eqb top r then Some rest else None
        end
    | _ => Some (stack st)
    end in
  match stk with
  | None => None
  | Some s =>
      Some (if deep then existsb (N.eqb kind) s
            else match s with [] => false | r :: _ => N.eqb r kind end)
  end.

(* index in next_tokens of the (k+1)-th non-pass-through token *)
Fixpoint np_index (pt : N) (l : list token) (k : nat) (base : nat) : option nat :=
  match l with
  | [] => None
  | t :: l' =>
      if is t pt then np_index pt l' k (S base)
      else match k with O => Some base | S k' => np_index pt l' k' (S base) end
  end.

Fixpoint set_nth (l : list token) (n : nat) (x : token) : list token :=
  match l, n with
  | [], _ => []
  | _ :: l', O => x :: l'
  | y :: l', S n' => y :: set_nth l' n' x
  end.

(* Context::swap; None = `.unwrap()` on a missing position *)
Definition swap_next (st : state) (i j : pos) : option state :=
  match np_index (passthrough st) (next_tokens st) (pos_nat i) 0,
        np_index (passthrough st) (next_tokens st) (pos_nat j) 0 with
  | Some a, Some b =>
      let l := next_tokens st in
      let l' := set_nth (set_nth l a (nth b l TNone)) b (nth a l TNone) in
      Some (mkState (input st) (output st) (stack st) (prev_tokens st) l' (passthrough st))
  | _, _ => None
  end.

Inductive action :=
| ADrop                          (* actions::drop *)
| ACopy                          (* actions::copy *)
| AInsert (ts : list token)      (* space / newline / emptyline / insert(tok) /
                                    closures `ctx.push_output_token(Some(t));...` *)
| ASwap (i j : pos).             (* actions::swap (unused by the pipeline) *)

Definition do_action (st : state) (a : action) : option state :=
  match a with
  | ADrop => match pop_input_token st with None => None | Some (st', _) => Some st' end
  | ACopy =>
      match pop_input_token st with
      | None => None
      | Some (st', None) => Some st'
      | Some (st', Some t) => push_output_token st' t
      end
  | AInsert ts => push_output_tokens st ts
  | ASwap i j => swap_next st i j
  end.

Record rule := mkRule { cond : state -> option bool; act : action }.

Inductive rule_choice := RNone | RFire (a : action) | RPanic.

(* `for (condition, action) in self.rules.iter()`: first rule whose condition holds *)
Fixpoint choose (rs : list rule) (st : state) : rule_choice :=
  match rs with
  | [] => RNone
  | r :: rs' =>
      match cond r st with
      | None => RPanic
      | Some true => RFire (act r)
      | Some false => choose rs' st
      end
  end.

Inductive outcome := Done | Panicked | OutOfFuel.

(* the loop of Processor::next, iterated until the iterator returns None;
   [emitted] is in reverse order *)
Fixpoint run_loop (fuel : nat) (rs : list rule) (st : state) (emitted : list token)
  : outcome * list token * state :=
  match fuel with
  | O => (OutOfFuel, emitted, st)
  | S fuel' =>
      match output st with
      | t :: out' =>
          run_loop fuel' rs (mkState (input st) out' (stack st) (prev_tokens st) (next_tokens st) (passthrough st))
                   (t :: emitted)
      | [] =>
          match advance st with
          | None => (Panicked, emitted, st)
          | Some (st1, true) => (Done, emitted, st1)
          | Some (st1, false) =>
              match choose rs st1 with
              | RPanic => (Panicked, emitted, st1)
              | RFire a =>
                  match do_action st1 a with
                  | None => (Panicked, emitted, st1)
                  | Some st2 => run_loop fuel' rs st2 emitted
                  end
              | RNone =>
                  (* default action: copy *)
                  match do_action st1 ACopy with
                  | None => (Panicked, emitted, st1)
                  | Some st2 => run_loop fuel' rs st2 emitted
                  end
              end
          end
      end
  end.

Definition run (fuel : nat) (rs : list rule) (pt : N) (ts : list token) : outcome * list token :=
  let '(o, em, _) := run_loop fuel rs (init pt ts) [] in (o, rev em).

(* ------------------------------------------------------------------ *)
(* A small language of conditions: what the pipeline's closures are made of
   (used by the generated rule descriptions, which record the top-level
   conjuncts they understand, and by the correspondence cases, which run
   whole rule lists on the implementation and on this model). *)
Inductive cexpr :=
| CTrue
| CIs (i : idx) (c : N)            (* ctx.token(i).is(c) *)
| CIsNot (i : idx) (c : N)         (* ctx.token(i).is_not(c) *)
| CEq (i : idx) (t : token)        (* ctx.token(i).eq(&t) *)
| CNeq (i : idx) (t : token)       (* ctx.token(i).neq(&t) *)
| CInRule (k : N) (deep : bool)    (* ctx.in_rule(k, deep) *)
| CAnd (a b : cexpr)               (* a && b  (short-circuit) *)
| COr (a b : cexpr)                (* a || b  (short-circuit) *)
| CNot (a : cexpr).

Fixpoint eval_cexpr (e : cexpr) (st : state) : option bool :=
  match e with
  | CTrue => Some true
  | CIs i c => Some (is (token_at st i) c)
  | CIsNot i c => Some (is_not (token_at st i) c)
  | CEq i t => Some (token_eqb (token_at st i) t)
  | CNeq i t => Some (negb (token_eqb (token_at st i) t))
  | CInRule k deep => in_rule st k deep
  | CAnd a b =>
      match eval_cexpr a st with
      | None => None
      | Some false => Some false
      | Some true => eval_cexpr b st
      end
  | COr a b =>
      match eval_cexpr a st with
      | None => None
      | Some true => Some true
      | Some false => eval_cexpr b st
      end
  | CNot a => match eval_cexpr a st with None => None | Some b => Some (negb b) end
  end.

Definition rule_of (ca : cexpr * action) : rule := mkRule (eval_cexpr (fst ca)) (snd ca).

(* ------------------------------------------------------------------ *)
(* Description of a rule as extracted from fmt/src/lib.rs: its action and
   the top-level conjuncts of its condition that have the shape
   `ctx.token(i).is(CAT)`. *)
Record grule := mkGRule { g_act : action; g_guards : list (idx * N) }.
Record gstage := mkGStage { g_name : N; g_pt : N; g_rules : list grule }.

(* the tokens that are NOT significant: None, control tokens, the alignment
   marker, spaces/tabs, line breaks *)
Definition INSIGNIFICANT : N :=
  N.lor C_NONE (N.lor C_CONTROL (N.lor C_ALIGNMENT_MARKER (N.lor C_WHITESPACE C_NEWLINE))).
Definition significant (t : token) : bool := negb (is t INSIGNIFICANT).
Definition sig (ts : list token) : list token := filter significant ts.

Definition subcat (c d : N) : bool := N.eqb (N.ldiff c d) 0.

Definition guard_insig (g : idx * N) : bool :=
  match g with (P1, c) => negb (N.eqb c 0) && subcat c INSIGNIFICANT | _ => false end.

Definition safe_grule_b (g : grule) : bool :=
  match g_act g with
  | ADrop => existsb guard_insig (g_guards g)
  | ACopy => true
  | AInsert ts => forallb (fun t => negb (significant t)) ts
  | ASwap _ _ => false
  end.
Definition safe_rules_b (gs : list grule) : bool := forallb safe_grule_b gs.
Definition safe_stages_b (ss : list gstage) : bool := forallb (fun s => safe_rules_b (g_rules s)) ss.

(* A design rule of the pipeline that the idempotence of the formatter rests
   on: the comment stage decides what kind a comment is (block, head, tail,
   inline) from the line breaks around it, so a stage that adds or removes
   line breaks must SEE the comments (must not pass them through) - otherwise
   it separates or joins a comment and code blindly and the next run of the
   formatter reads the comment differently. *)
Definition is_newline_token (t : token) : bool := match t with TNewline => true | _ => false end.
Definition touches_line_breaks (g : grule) : bool :=
  match g_act g with
  | ADrop => existsb (fun ic => match fst ic with P1 => negb (N.eqb (N.land (snd ic) C_NEWLINE) 0) | _ => false end) (g_guards g)
  | AInsert ts => existsb is_newline_token ts
  | _ => false
  end.
Definition line_break_stage_sees_comments (s : gstage) : bool :=
  if existsb touches_line_breaks (g_rules s) then N.eqb (N.land (g_pt s) C_COMMENT) 0 else true.
