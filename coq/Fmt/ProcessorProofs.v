(* Proofs about the Processor engine model (Fmt/Processor.v).

   Main result [processor_preserves_significant]: for EVERY rule list that is
   [safe_rules] (conditions are arbitrary, possibly panicking functions of the
   whole context) and EVERY input token stream, pass-through category and
   amount of fuel, if the processor runs to completion then the significant
   tokens of its output are exactly the significant tokens of its input, in
   the same order; whatever the outcome (panic, out of fuel), the significant
   tokens already yielded are a prefix of those of the input. *)
From Coq Require Import List NArith ZArith Bool Lia.
From YV Require Import Fmt.Tokens Gen.FmtCats Fmt.Processor.
Import ListNotations.

Definition content (st : state) : list token := output st ++ next_tokens st ++ input st.

Definition safe_rule (r : rule) : Prop :=
  match act r with
  | ADrop => forall st, cond r st = Some true -> significant (token_at st P1) = false
  | ACopy => True
  | AInsert ts => sig ts = []
  | ASwap _ _ => False
  end.
Definition safe_rules (rs : list rule) : Prop := Forall safe_rule rs.

Lemma sig_app : forall a b, sig (a ++ b) = sig a ++ sig b.
Proof. intros; unfold sig; apply filter_app. Qed.

(* ---------------------------------------------------------------- fill *)
Definition count_np (pt : N) (l : list token) : nat := length (filter (non_pt pt) l).

Lemma count_np_snoc : forall pt l t,
  count_np pt (l ++ [t]) = if is t pt then count_np pt l else S (count_np pt l).
Proof.
  intros. unfold count_np. rewrite filter_app, app_length. cbn [filter].
  unfold non_pt. destruct (is t pt); cbn [negb length]; lia.
Qed.

Lemma fill_spec : forall pt inp cnt nxt inp' nxt',
  cnt = count_np pt nxt ->
  fill pt cnt inp nxt = (inp', nxt') ->
  nxt' ++ inp' = nxt ++ inp /\ (MAX_NEXT_TOKENS <= count_np pt nxt' \/ inp' = []).
Proof.
  induction inp as [|t inp IH]; intros cnt nxt inp' nxt' Hc H.
  - cbn [fill] in H. destruct (Nat.leb MAX_NEXT_TOKENS cnt) eqn:E; inversion H; subst; clear H.
    + split; [reflexivity|]. left. apply Nat.leb_le in E. lia.
    + split; [reflexivity|]. right; reflexivity.
  - cbn [fill] in H. destruct (Nat.leb MAX_NEXT_TOKENS cnt) eqn:E.
    + inversion H; subst; clear H. split; [reflexivity|]. left. apply Nat.leb_le in E. lia.
    + apply IH in H.
      * destruct H as [H1 H2]. split; [|exact H2]. rewrite H1, <- app_assoc. reflexivity.
      * rewrite count_np_snoc. subst cnt. destruct (is t pt); reflexivity.
Qed.

Lemma fill_noop : forall pt inp cnt nxt,
  (MAX_NEXT_TOKENS <= cnt \/ inp = []) -> fill pt cnt inp nxt = (inp, nxt).
Proof.
  intros pt inp cnt nxt [H|H].
  - destruct inp; cbn [fill]; apply Nat.leb_le in H; rewrite H; reflexivity.
  - subst. cbn [fill]. destruct (Nat.leb MAX_NEXT_TOKENS cnt); reflexivity.
Qed.

(* ---------------------------------------------------------------- flush *)
Definition front_np (pt : N) (l : list token) : Prop :=
  match l with [] => True | t :: _ => is t pt = false end.

Lemma flush_spec : forall pt nxt out stk nxt' out' stk',
  flush pt nxt out stk = Some (nxt', out', stk') ->
  out' ++ nxt' = out ++ nxt /\ front_np pt nxt' /\ count_np pt nxt' = count_np pt nxt.
Proof.
  induction nxt as [|t nxt IH]; intros out stk nxt' out' stk' H.
  - cbn [flush] in H. inversion H; subst. repeat split.
  - cbn [flush] in H. destruct (is t pt) eqn:E.
    + assert (Hc : count_np pt (t :: nxt) = count_np pt nxt).
      { unfold count_np. cbn [filter]. unfold non_pt at 1. rewrite E. reflexivity. }
      assert (G : forall stk0, flush pt nxt (out ++ [t]) stk0 = Some (nxt', out', stk') ->
                  out' ++ nxt' = out ++ t :: nxt /\ front_np pt nxt' /\ count_np pt nxt' = count_np pt (t :: nxt)).
      { intros stk0 H0. apply IH in H0. destruct H0 as [A [B C]]. rewrite Hc.
        split; [|split; assumption]. rewrite A, <- app_assoc. reflexivity. }
      destruct t; try (eapply G; exact H).
      destruct stk as [|top stk0]; [eapply G; exact H|].
      destruct (N.eqb top k); [eapply G; exact H|discriminate].
    + inversion H; subst. repeat split. cbn [front_np]. exact E.
Qed.

Lemma flush_noop : forall pt nxt out stk, front_np pt nxt -> flush pt nxt out stk = Some (nxt, out, stk).
Proof.
  intros pt nxt out stk H. destruct nxt as [|t nxt]; [reflexivity|].
  cbn [front_np] in H. cbn [flush]. rewrite H. reflexivity.
Qed.

(* ---------------------------------------------------------------- advance *)
(* what holds of a context right after `advance` *)
Definition settled (st : state) : Prop :=
  (MAX_NEXT_TOKENS <= count_np (passthrough st) (next_tokens st) \/ input st = []) /\
  front_np (passthrough st) (next_tokens st).

Lemma advance_spec : forall st st' b,
  advance st = Some (st', b) ->
  content st' = content st /\ passthrough st' = passthrough st /\ settled st' /\
  (b = true -> content st' = []).
Proof.
  intros st st' b H. unfold advance in H.
  destruct (fill (passthrough st) (length (filter (non_pt (passthrough st)) (next_tokens st))) (input st) (next_tokens st))
    as [inp nxt] eqn:F.
  apply fill_spec in F; [|reflexivity]. destruct F as [F1 F2].
  destruct (flush (passthrough st) nxt (output st) (stack st)) as [[[nxt' out'] stk']|] eqn:G; [|discriminate].
  apply flush_spec in G. destruct G as [G1 [G2 G3]].
  inversion H; subst; clear H.
  unfold content, settled; cbn [output next_tokens input passthrough].
  split; [|split; [reflexivity|split]].
  - rewrite app_assoc, G1, <- app_assoc, F1. reflexivity.
  - split; [|exact G2]. rewrite G3. exact F2.
  - intro Hb. destruct nxt' as [|? ?]; [|destruct out'; discriminate].
    destruct out' as [|? ?]; [|discriminate].
    destruct F2 as [F2|F2]; [|subst; reflexivity].
    rewrite <- G3 in F2. unfold count_np, MAX_NEXT_TOKENS in F2. cbn in F2. lia.
Qed.

Lemma advance_idem : forall st, settled st -> exists b, advance st = Some (st, b).
Proof.
  intros st [H1 H2]. unfold advance.
  rewrite fill_noop by exact H1. rewrite flush_noop by exact H2.
  destruct st as [inp out stk prev nxt pt]. cbn [input output stack prev_tokens next_tokens passthrough].
  eexists. reflexivity.
Qed.

(* ---------------------------------------------------------------- actions *)
Lemma push_output_token_spec : forall st tok st',
  push_output_token st tok = Some st' ->
  output st' = output st ++ [tok] /\ next_tokens st' = next_tokens st /\ input st' = input st.
Proof.
  intros st tok st' H. unfold push_output_token in H.
  destruct (match tok with
            | TBegin k => Some (k :: stack st)
            | TEnd k => match stack st with [] => Some [] | top :: stk' => if N.eqb top k then Some stk' else None end
            | _ => Some (stack st) end); [|discriminate].
  inversion H; subst. repeat split.
Qed.

Lemma push_output_tokens_spec : forall toks st st',
  push_output_tokens st toks = Some st' ->
  output st' = output st ++ toks /\ next_tokens st' = next_tokens st /\ input st' = input st.
Proof.
  induction toks as [|t toks IH]; intros st st' H; cbn [push_output_tokens] in H.
  - inversion H; subst. rewrite app_nil_r. repeat split.
  - destruct (push_output_token st t) as [st1|] eqn:E; [|discriminate].
    apply push_output_token_spec in E. destruct E as [E1 [E2 E3]].
    apply IH in H. destruct H as [H1 [H2 H3]].
    rewrite H1, H2, H3, E1, E2, E3, <- app_assoc. repeat split.
Qed.

Lemma token_at_front : forall st t l,
  next_tokens st = t :: l -> is t (passthrough st) = false -> token_at st P1 = t.
Proof.
  intros st t l H E. unfold token_at. rewrite H. cbn [filter]. unfold non_pt at 1.
  rewrite E. reflexivity.
Qed.

(* pop on a settled context removes the front of next_tokens, which is token(1) *)
Lemma pop_settled : forall st st' r,
  settled st -> pop_input_token st = Some (st', r) ->
  match r with
  | None => st' = st /\ next_tokens st = []
  | Some t => next_tokens st = t :: next_tokens st' /\ token_at st P1 = t /\
              output st' = output st /\ input st' = input st /\ passthrough st' = passthrough st
  end.
Proof.
  intros st st' r S H. unfold pop_input_token in H.
  destruct (advance_idem st S) as [b A]. rewrite A in H.
  destruct (next_tokens st) as [|t l] eqn:E.
  - inversion H; subst. split; reflexivity.
  - inversion H; subst; clear H. cbn [next_tokens output input passthrough].
    split; [reflexivity|]. split; [|repeat split].
    destruct S as [_ S2]. rewrite E in S2. eapply token_at_front; eauto.
Qed.

Lemma choose_fire : forall rs st a,
  choose rs st = RFire a -> exists r, In r rs /\ cond r st = Some true /\ act r = a.
Proof.
  induction rs as [|r rs IH]; intros st a H; cbn [choose] in H; [discriminate|].
  destruct (cond r st) as [[|]|] eqn:E; try discriminate.
  - inversion H; subst. exists r. split; [left; reflexivity|split; [exact E|reflexivity]].
  - apply IH in H. destruct H as [r' [I [C A]]]. exists r'. split; [right; exact I|split; assumption].
Qed.

Lemma copy_preserves : forall st st',
  settled st -> do_action st ACopy = Some st' -> content st' = content st.
Proof.
  intros st st' S H. cbn [do_action] in H.
  destruct (pop_input_token st) as [[st1 [t|]]|] eqn:P; try discriminate.
  - apply pop_settled in P; [|exact S]. destruct P as [P1' [_ [P3 [P4 _]]]].
    apply push_output_token_spec in H. destruct H as [H1 [H2 H3]].
    unfold content. rewrite H1, H2, H3, P1', P3, P4, <- app_assoc. reflexivity.
  - apply pop_settled in P; [|exact S]. destruct P as [P1' _]. inversion H; subst. reflexivity.
Qed.

Lemma safe_action_preserves : forall r st st',
  safe_rule r -> settled st -> cond r st = Some true ->
  do_action st (act r) = Some st' -> sig (content st') = sig (content st).
Proof.
  intros r st st' SR S C H. unfold safe_rule in SR.
  destruct (act r) as [| |ts|i j] eqn:A.
  - (* drop *)
    cbn [do_action] in H.
    destruct (pop_input_token st) as [[st1 rr]|] eqn:P; [|discriminate].
    inversion H; subst; clear H.
    apply pop_settled in P; [|exact S]. destruct rr as [t|].
    + destruct P as [P1' [P2 [P3 [P4 _]]]]. unfold content.
      rewrite P1', P3, P4. rewrite !sig_app. f_equal. f_equal.
      specialize (SR st C). rewrite P2 in SR.
      unfold sig at 2. cbn [filter]. rewrite SR. reflexivity.
    + destruct P as [P1' _]. subst. reflexivity.
  - (* copy *)
    f_equal. apply copy_preserves; assumption.
  - (* insert *)
    cbn [do_action] in H. apply push_output_tokens_spec in H. destruct H as [H1 [H2 H3]].
    unfold content. rewrite H1, H2, H3. rewrite !sig_app. rewrite SR. rewrite app_nil_r. reflexivity.
  - contradiction.
Qed.

(* ---------------------------------------------------------------- the loop *)
Lemma run_loop_inv : forall fuel rs st em o em' st',
  safe_rules rs ->
  run_loop fuel rs st em = (o, em', st') ->
  sig (rev em') ++ sig (content st') = sig (rev em) ++ sig (content st) /\
  (o = Done -> content st' = []).
Proof.
  induction fuel as [|fuel IH]; intros rs st em o em' st' SR H; cbn [run_loop] in H.
  - inversion H; subst. split; [reflexivity|discriminate].
  - destruct (output st) as [|t out'] eqn:EO.
    + destruct (advance st) as [[st1 [|]]|] eqn:A.
      * inversion H; subst; clear H. apply advance_spec in A. destruct A as [A1 [_ [_ A4]]].
        split; [rewrite A1; reflexivity|]. intros _. apply A4. reflexivity.
      * apply advance_spec in A. destruct A as [A1 [_ [A3 _]]].
        destruct (choose rs st1) as [|a|] eqn:CH.
        -- destruct (do_action st1 ACopy) as [st2|] eqn:D.
           ++ apply IH in H; [|exact SR]. destruct H as [H1 H2]. split; [|exact H2].
              rewrite H1. apply copy_preserves in D; [|exact A3]. rewrite D, A1. reflexivity.
           ++ inversion H; subst. split; [rewrite A1; reflexivity|discriminate].
        -- destruct (do_action st1 a) as [st2|] eqn:D.
           ++ apply IH in H; [|exact SR]. destruct H as [H1 H2]. split; [|exact H2].
              rewrite H1. apply choose_fire in CH. destruct CH as [r [I [C Ac]]]. subst a.
              eapply safe_action_preserves in D; eauto.
              ** rewrite D, A1. reflexivity.
              ** unfold safe_rules in SR. rewrite Forall_forall in SR. apply SR; exact I.
           ++ inversion H; subst. split; [rewrite A1; reflexivity|discriminate].
        -- inversion H; subst. split; [rewrite A1; reflexivity|discriminate].
      * inversion H; subst. split; [reflexivity|discriminate].
    + apply IH in H; [|exact SR]. destruct H as [H1 H2]. split; [|exact H2].
      rewrite H1. unfold content. cbn [output next_tokens input rev]. rewrite EO.
      change (t :: out') with ([t] ++ out'). rewrite !sig_app. rewrite <- !app_assoc. reflexivity.
Qed.

Theorem processor_preserves_significant : forall rs pt ts fuel out,
  safe_rules rs -> run fuel rs pt ts = (Done, out) -> sig out = sig ts.
Proof.
  intros rs pt ts fuel out SR H. unfold run in H.
  destruct (run_loop fuel rs (init pt ts) []) as [[o em] st'] eqn:R.
  inversion H; subst; clear H.
  apply run_loop_inv in R; [|exact SR]. destruct R as [R1 R2].
  rewrite (R2 eq_refl) in R1. cbn [sig filter rev app] in R1. rewrite app_nil_r in R1.
  rewrite R1. unfold content, init. cbn [output next_tokens input app]. reflexivity.
Qed.

(* whatever happens (panic, fuel exhausted), nothing significant was lost,
   duplicated or reordered so far *)
Theorem processor_output_prefix : forall rs pt ts fuel o out,
  safe_rules rs -> run fuel rs pt ts = (o, out) -> exists rest, sig ts = sig out ++ rest.
Proof.
  intros rs pt ts fuel o out SR H. unfold run in H.
  destruct (run_loop fuel rs (init pt ts) []) as [[o' em] st'] eqn:R.
  inversion H; subst; clear H.
  apply run_loop_inv in R; [|exact SR]. destruct R as [R1 _].
  exists (sig (content st')). rewrite R1. reflexivity.
Qed.

(* ---------------------------------------------------------------- decidable safety *)
(* a concrete rule is described by a generated rule: same action, and its
   condition entails the recorded conjuncts *)
Definition refines (g : grule) (r : rule) : Prop :=
  act r = g_act g /\
  forall st, cond r st = Some true ->
    forallb (fun ic => is (token_at st (fst ic)) (snd ic)) (g_guards g) = true.

Lemma subcat_intersects : forall c d x,
  subcat c d = true -> N.land c x <> 0%N -> N.land d x <> 0%N.
Proof.
  intros c d x H N0 Z. apply N0. unfold subcat in H. apply N.eqb_eq in H.
  pose proof (N.lor_ldiff_and c d) as E. rewrite H, N.lor_0_l in E.
  rewrite <- E, <- N.land_assoc, Z. apply N.land_0_r.
Qed.

Lemma insig_of_guard : forall c t,
  subcat c INSIGNIFICANT = true -> is t c = true -> significant t = false.
Proof.
  intros c t S I. unfold significant. apply negb_false_iff. unfold is in *.
  apply negb_true_iff in I. apply N.eqb_neq in I.
  apply negb_true_iff. apply N.eqb_neq. eapply subcat_intersects; eauto.
Qed.

Lemma safe_grule_sound : forall g r, safe_grule_b g = true -> refines g r -> safe_rule r.
Proof.
  intros g r S [A G]. unfold safe_rule, safe_grule_b in *. rewrite A.
  destruct (g_act g) as [| |ts|i j].
  - intros st C. specialize (G st C). apply existsb_exists in S. destruct S as [[i c] [I S]].
    rewrite forallb_forall in G. specialize (G _ I). cbn [fst snd] in G.
    unfold guard_insig in S. destruct i; try discriminate.
    apply andb_true_iff in S. destruct S as [_ S]. eapply insig_of_guard; eauto.
  - exact I.
  - clear A G. unfold sig. induction ts as [|t ts IH]; [reflexivity|].
    cbn [forallb] in S. apply andb_true_iff in S. destruct S as [S1 S2].
    cbn [filter]. apply negb_true_iff in S1. rewrite S1. apply IH; exact S2.
  - discriminate.
Qed.

Lemma safe_rules_sound : forall gs rs,
  safe_rules_b gs = true -> Forall2 refines gs rs -> safe_rules rs.
Proof.
  intros gs rs S F. unfold safe_rules. induction F as [|g r gs rs R F IH]; [constructor|].
  cbn [safe_rules_b forallb] in S. apply andb_true_iff in S. destruct S as [S1 S2].
  constructor; [eapply safe_grule_sound; eauto|apply IH; exact S2].
Qed.

(* rules given in the condition language *)
Lemma cexpr_refines : forall e a gs,
  (forall st, eval_cexpr e st = Some true ->
     forallb (fun ic => is (token_at st (fst ic)) (snd ic)) gs = true) ->
  refines (mkGRule a gs) (rule_of (e, a)).
Proof. intros e a gs H. split; [reflexivity|exact H]. Qed.

(* hypotheses are satisfiable: a drop-whitespace rule and an insert-newline
   rule are safe, and the engine really runs on them *)
Example safe_rules_example :
  let rs := [rule_of (CIs P1 C_WHITESPACE, ADrop);
             rule_of (CAnd (CIs P1 C_KEYWORD) (CIsNot M1 C_NEWLINE), AInsert [TNewline])] in
  safe_rules rs /\
  run 100 rs C_NONE [TKeyword [1%N]; TWhitespace; TIdentifier [2%N]; TWhitespace; TKeyword [3%N]]
  = (Done, [TNewline; TKeyword [1%N]; TIdentifier [2%N]; TNewline; TKeyword [3%N]]).
Proof.
  cbn zeta. split; [|vm_compute; reflexivity].
  eapply (safe_rules_sound [mkGRule ADrop [(P1, C_WHITESPACE)]; mkGRule (AInsert [TNewline]) []]).
  - vm_compute; reflexivity.
  - constructor; [|constructor; [|constructor]].
    + apply cexpr_refines. intros st H. cbn [eval_cexpr] in H. inversion H as [H'].
      cbn [forallb fst snd]. unfold token_at. rewrite H'. reflexivity.
    + apply cexpr_refines. intros; reflexivity.
Qed.

(* a rule that drops a non-whitespace token breaks the decidable obligation,
   and such a rule list really loses a significant token *)
Example unsafe_rule_detected :
  safe_rules_b [mkGRule ADrop [(P1, C_KEYWORD)]] = false /\
  run 100 [rule_of (CIs P1 C_KEYWORD, ADrop)] C_NONE [TKeyword [1%N]; TIdentifier [2%N]] = (Done, [TIdentifier [2%N]]).
Proof. split; vm_compute; reflexivity. Qed.
