(* Executable models of the five formatter stages that are not rule-based:

     comments.rs            CommentProcessor   [comments]
     format_hex_patterns.rs FormatHexPatterns  [hex_patterns]
     align.rs               Align              [align]
     indentation.rs         AddIndentation     [add_indentation]
     trailing_spaces.rs     RemoveTrailingSpaces [trailing_spaces]

   Each Rust stage is an iterator adaptor with an output buffer: `next()`
   first drains the buffer, then reads input until it decides to "return";
   since a return is always followed by a complete drain before more input is
   read, the models flush the whole buffer at every return and simply compute
   the list of everything the iterator yields.  Tokens are concrete (byte
   payloads), so widths and columns are those of the code (`Token::len`,
   `as_bytes().len()`): nothing is abstracted.  [None] = the stage panics. *)
From Coq Require Import List NArith ZArith Bool Arith.
From YV Require Import Fmt.Tokens Gen.FmtCats Gen.FmtComments Fmt.Processor.
Import ListNotations.

(* Token::len() = as_bytes().len(): typed comments and control tokens have length 0 *)
Definition tlen (t : token) : nat :=
  match t with
  | TWhitespace | TTab | TNewline => 1
  | TIdentifier s | TKeyword s | TPunctuation s | TLGrouping s | TRGrouping s
  | TLiteral s | TComment s => length s
  | _ => 0
  end.

(* ------------------------------------------------------------------ *)
(* comments.rs *)

(* bstr `lines()`: split at \n, a \r before the \n is removed; no empty last line *)
Definition strip_cr (l : list N) : list N :=
  match rev l with
  | c :: r => if N.eqb c 13 then rev r else l
  | [] => l
  end.

Fixpoint lines_aux (s cur : list N) : list (list N) :=   (* [cur] is reversed *)
  match s with
  | [] => match cur with [] => [] | _ => [rev cur] end
  | c :: s' => if N.eqb c 10 then strip_cr (rev cur) :: lines_aux s' [] else lines_aux s' (c :: cur)
  end.
Definition lines_of (s : list N) : list (list N) := lines_aux s [].

(* the loop of split_comment_lines over one line: Some k = `comment_start = k; break`,
   None = the loop ran out of characters (comment_start stays 0) *)
Fixpoint cstart (line : list N) (i indent tab : nat) : option nat :=
  match line with
  | [] => None
  | c :: l' =>
      if Nat.leb indent i then Some O
      else if N.eqb c 32 then option_map S (cstart l' (S i) indent tab)
      else if N.eqb c 9 then option_map S (cstart l' (i + tab) indent tab)
      else Some O
  end.
Definition strip_line (indent tab : nat) (line : list N) : list N :=
  match cstart line 0 indent tab with
  | Some k => skipn k line
  | None => if blank_comment_lines_stripped then [] else line   (* Gen/FmtComments.v *)
  end.
Definition split_comment_lines (c : list N) (indent tab : nat) : list (list N) :=
  map (strip_line indent tab) (lines_of c).

Inductive cstate :=
| PreC (leading_newline : bool)
| InC (indentation : nat) (leading_newline trailing_newline : bool) (lines : list (list N)).

(* push_comment; None = `assert!(!comment_lines.is_empty())` *)
Definition push_comment (lines : list (list N)) (leading trailing : bool) : option (list token) :=
  match lines with
  | [] => None
  | _ =>
      let c := match leading, trailing with
               | true, true => TBlockComment lines
               | true, false => THeadComment lines
               | false, true => TTailComment lines
               | false, false => TInlineComment lines
               end in
      Some (if trailing then [c; TNewline] else [c])
  end.

(* process_input_buffer: returns what is appended to the output buffer and the
   new value of self.indentation *)
Fixpoint process_buf (tab : nat) (eoi : bool) (buf : list token) (st : cstate) (indent : nat)
  (out : list token) : option (list token * nat) :=
  match buf with
  | [] =>
      match st with
      | PreC _ => Some (out, indent)
      | InC _ lead trail lines =>
          match push_comment lines lead (trail || eoi) with
          | Some pc => Some (out ++ pc, indent)
          | None => None
          end
      end
  | t :: buf' =>
      match st with
      | PreC lead =>
          match t with
          | TWhitespace => process_buf tab eoi buf' st (S indent) (out ++ [t])
          | TTab => process_buf tab eoi buf' st (indent + tab) (out ++ [t])
          | TNewline => process_buf tab eoi buf' (PreC true) 0 (out ++ [t])
          | TComment c =>
              process_buf tab eoi buf' (InC indent lead false (split_comment_lines c indent tab))
                          (indent + length c) out
          | _ => process_buf tab eoi buf' st indent (out ++ [t])
          end
      | InC ind lead trail lines =>
          match t with
          | TWhitespace => process_buf tab eoi buf' st (S indent) out
          | TTab => process_buf tab eoi buf' st (indent + tab) out
          | TNewline =>
              if trail then
                match push_comment lines lead trail with
                | Some pc => process_buf tab eoi buf' (PreC true) 0 (out ++ pc ++ [TNewline])
                | None => None
                end
              else process_buf tab eoi buf' (InC ind lead true lines) 0 out
          | TComment c =>
              if Nat.eqb ind indent then
                process_buf tab eoi buf' (InC ind lead false (lines ++ split_comment_lines c ind tab)) indent out
              else
                match push_comment lines lead trail with
                | Some pc =>
                    process_buf tab eoi buf' (InC indent trail false (split_comment_lines c indent tab)) indent (out ++ pc)
                | None => None
                end
          | _ => process_buf tab eoi buf' st indent (out ++ [t])
          end
      end
  end.

Definition COMMENTS_BUFFERED : N := N.lor C_NEWLINE (N.lor C_WHITESPACE (N.lor C_COMMENT C_CONTROL)).

Fixpoint comments_loop (tab : nat) (inp buf : list token) (start : bool) (indent : nat)
  (out : list token) : option (list token) :=
  match inp with
  | [] =>
      match buf with
      | [] => Some out
      | _ => match process_buf tab true buf (PreC start) indent [] with
             | Some (o, _) => Some (out ++ o)
             | None => None
             end
      end
  | t :: inp' =>
      if is t COMMENTS_BUFFERED then comments_loop tab inp' (buf ++ [t]) start indent out
      else match process_buf tab false buf (PreC start) indent [] with
           | Some (o, ind) => comments_loop tab inp' [] false (ind + tlen t) (out ++ o ++ [t])
           | None => None
           end
  end.

(* CommentProcessor::new(input).tab_size(tab) *)
Definition comments (tab : nat) (ts : list token) : option (list token) :=
  comments_loop tab ts [] true 0 [].

(* ------------------------------------------------------------------ *)
(* format_hex_patterns.rs *)
Definition LBRACE_BYTES : list N := [123%N].
Definition RBRACE_BYTES : list N := [125%N].

Definition is_newline_tok (t : token) : bool := match t with TNewline => true | _ => false end.

Fixpoint hex_loop (inp buf : list token) (buffering in_hex multi : bool) (out : list token) : list token :=
  match inp with
  | [] => out ++ buf
  | t :: inp' =>
      let other :=
        if buffering then hex_loop inp' (buf ++ [t]) buffering in_hex multi out
        else hex_loop inp' [] buffering in_hex multi (out ++ buf ++ [t]) in
      match t with
      | TBegin k =>
          if N.eqb k K_HEX_PATTERN then hex_loop inp' [] false true false (out ++ buf ++ [t]) else other
      | TEnd k =>
          if N.eqb k K_HEX_PATTERN then hex_loop inp' [] buffering false multi (out ++ buf ++ [t]) else other
      | TPunctuation s =>
          if in_hex && bytes_eqb s LBRACE_BYTES then hex_loop inp' [] true in_hex multi (out ++ buf ++ [t])
          else if in_hex && bytes_eqb s RBRACE_BYTES then
            let b := match rev buf with
                     | [] => buf ++ [t]
                     | last :: _ => if is_newline_tok last then buf ++ [t]
                                    else if multi then buf ++ [TNewline; t] else buf ++ [t]
                     end in
            hex_loop inp' [] buffering in_hex multi (out ++ b)
          else other
      | TNewline =>
          if in_hex then
            let b := buf ++ [t] in
            let b' := if negb multi && negb (match b with f :: _ => is_newline_tok f | [] => false end)
                      then TNewline :: b else b in
            hex_loop inp' [] buffering in_hex true (out ++ b')
          else other
      | _ => other
      end
  end.

Definition hex_patterns (ts : list token) : list token := hex_loop ts [] false false false [].

(* ------------------------------------------------------------------ *)
(* align.rs *)
Fixpoint expand_markers (blk : list token) (cols : list nat) (maxc : nat) : list token :=
  match blk with
  | [] => []
  | TAlignmentMarker :: blk' =>
      match cols with
      | c :: cols' => repeat TWhitespace (maxc - c) ++ expand_markers blk' cols' maxc
      | [] => expand_markers blk' [] maxc      (* cannot happen: one column per marker *)
      end
  | t :: blk' => t :: expand_markers blk' cols maxc
  end.

Definition align_state := option (nat * list nat * list token).   (* column, marker columns, block tokens *)

Definition close_block (cols : list nat) (blk : list token) : list token :=
  expand_markers blk cols (fold_right Nat.max 0 cols).

(* The result carries a flag: [false] = the iterator returned None before the
   end of its input.  That happens when an alignment block expands to nothing
   (`self.output_buffer.pop_front()` on an empty buffer): whoever collects the
   stream stops there and the remaining tokens are never yielded. *)
Fixpoint align_loop (inp : list token) (st : align_state) (out : list token) : option (list token * bool) :=
  match inp with
  | [] =>
      match st with
      | None => Some (out, true)
      | Some (_, cols, blk) => Some (out ++ close_block cols blk, true)
      end
  | t :: inp' =>
      match st with
      | None =>
          match t with
          | TAlignmentBlockBegin => align_loop inp' (Some (0, [], [])) out
          | _ => align_loop inp' None (out ++ [t])
          end
      | Some (col, cols, blk) =>
          match t with
          | TAlignmentBlockBegin => None                 (* unreachable!("nested alignment blocks") *)
          | TAlignmentBlockEnd =>
              match close_block cols blk with
              | [] => Some (out, false)
              | e => align_loop inp' None (out ++ e)
              end
          | TAlignmentMarker => align_loop inp' (Some (col, cols ++ [col], blk ++ [t])) out
          | TNewline => align_loop inp' (Some (0, cols, blk ++ [t])) out
          | _ => align_loop inp' (Some (col + tlen t, cols, blk ++ [t])) out
          end
      end
  end.

Definition align (ts : list token) : option (list token * bool) := align_loop ts None [].

(* ------------------------------------------------------------------ *)
(* indentation.rs; [spaces] = Some n for Indentation::Spaces(n), None for Tabs.
   indent_level is an i16: an overflow (32768 nested levels) is not modelled *)
Definition indent_unit (spaces : option nat) : list token :=
  match spaces with Some n => repeat TWhitespace n | None => [TTab] end.

Fixpoint repeat_list (l : list token) (n : nat) : list token :=
  match n with O => [] | S n' => l ++ repeat_list l n' end.

Fixpoint indent_loop (inp : list token) (level : Z) (spaces : option nat) (out : list token) : list token :=
  match inp with
  | [] => out
  | TIndentation d :: inp' => indent_loop inp' (level + d)%Z spaces out
  | TNewline :: inp' =>
      indent_loop inp' level spaces (out ++ TNewline :: repeat_list (indent_unit spaces) (Z.to_nat level))
  | t :: inp' => indent_loop inp' level spaces (out ++ [t])
  end.

Definition add_indentation (spaces : option nat) (ts : list token) : list token :=
  indent_loop ts 0%Z spaces [].

(* ------------------------------------------------------------------ *)
(* trailing_spaces.rs *)
Fixpoint trailing_loop (inp buf out : list token) : list token :=
  match inp with
  | [] => out ++ buf
  | t :: inp' =>
      match t with
      | TWhitespace | TTab => trailing_loop inp' (buf ++ [t]) out
      | TNewline => trailing_loop inp' [] (out ++ filter (fun x => is x C_CONTROL) buf ++ [t])
      | _ => if is t C_CONTROL then trailing_loop inp' (buf ++ [t]) out
             else trailing_loop inp' [] (out ++ buf ++ [t])
      end
  end.

Definition trailing_spaces (ts : list token) : list token := trailing_loop ts [] [].

(* ------------------------------------------------------------------ *)
(* The significant content of a token stream, comments modulo the leading
   whitespace of their lines (which is where the indentation of continuation
   lines lives) and modulo how consecutive comments are grouped into tokens. *)
Definition is_ws_byte (c : N) : bool := N.eqb c 32 || N.eqb c 9.
Fixpoint norm_line (l : list N) : list N :=
  match l with
  | c :: l' => if is_ws_byte c then norm_line l' else l
  | [] => []
  end.

Inductive atom :=
| ATok (k : ctor) (s : list N)   (* a text token: kind and exact bytes *)
| ALine (l : list N).            (* one comment line, leading whitespace removed *)

Definition comment_atoms (lines : list (list N)) : list atom := map (fun l => ALine (norm_line l)) lines.

Definition atoms (t : token) : list atom :=
  match t with
  | TComment c => comment_atoms (lines_of c)
  | TBlockComment l | THeadComment l | TTailComment l | TInlineComment l => comment_atoms l
  | TIdentifier s => [ATok KIdentifier s]
  | TKeyword s => [ATok KKeyword s]
  | TPunctuation s => [ATok KPunctuation s]
  | TLiteral s => [ATok KLiteral s]
  | TLGrouping s => [ATok KLGrouping s]
  | TRGrouping s => [ATok KRGrouping s]
  | _ => []
  end.

Definition sigc (ts : list token) : list atom := flat_map atoms ts.

(* ------------------------------------------------------------------ *)
(* tokens/mod.rs, TokenStream::write_to: the text of a token stream.  [indent]
   is what is written in front of the continuation lines of a multi-line
   comment: one space per BYTE of every text token written on the line so far,
   a tab for a Tab token; a comment itself does not advance it. *)
Fixpoint write_lines (lines : list (list N)) (indent : list N) : list N :=
  match lines with
  | [] => []
  | l :: rest => (10%N :: indent) ++ l ++ write_lines rest indent
  end.

Fixpoint write_loop (ts : list token) (indent out : list N) : list N :=
  match ts with
  | [] => out
  | t :: ts' =>
      match t with
      | TNewline => write_loop ts' [] (out ++ [10%N])
      | TTab => write_loop ts' (indent ++ [9%N]) (out ++ [9%N])
      | TWhitespace => write_loop ts' (indent ++ [32%N]) (out ++ [32%N])
      | TComment s | TIdentifier s | TKeyword s | TLiteral s | TLGrouping s | TRGrouping s | TPunctuation s =>
          write_loop ts' (indent ++ repeat 32%N (length s)) (out ++ s)
      | TBlockComment ls | THeadComment ls | TTailComment ls | TInlineComment ls =>
          match ls with
          | [] => write_loop ts' indent out
          | first :: rest => write_loop ts' indent (out ++ first ++ write_lines rest indent)
          end
      | _ => write_loop ts' indent out
      end
  end.

Definition write_to (ts : list token) : list N := write_loop ts [] [].

(* ------------------------------------------------------------------ *)
(* Formatter::format returns `in_buf.ne(out_buf.get_ref())`: byte inequality of
   what was read and what is written (that this is how the flag is computed is
   re-read from the source: Gen/FmtRules.v, modified_is_byte_inequality) *)
Definition modified_flag (inp out : list N) : bool := negb (bytes_eqb inp out).
