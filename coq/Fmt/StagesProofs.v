(* Every one of the five hand-written stages preserves the significant content
   of EVERY token stream (Fmt/Stages.v):

     hex_patterns, add_indentation, trailing_spaces : sig out = sig ts
     align        : sig out = sig ts when the iterator runs to the end of its
                    input; otherwise sig out is a prefix (and that case exists:
                    [align_can_end_early])
     comments     : sigc out = sigc ts for streams without typed comments
                    (which is what `Tokens` produces); comment text changes
                    only in the leading whitespace of lines

   [sig] keeps the significant tokens themselves; [sigc] reads comments as
   their sequence of lines without leading whitespace.  sig a = sig b implies
   sigc a = sigc b. *)
From Coq Require Import List NArith ZArith Bool Arith Lia.
From YV Require Import Fmt.Tokens Gen.FmtCats Gen.FmtComments Fmt.Processor Fmt.ProcessorProofs Fmt.Stages.
Import ListNotations.

(* ------------------------------------------------------------------ sig / sigc *)
Lemma sigc_app : forall a b, sigc (a ++ b) = sigc a ++ sigc b.
Proof. intros. unfold sigc. apply flat_map_app. Qed.

Lemma atoms_insig : forall t, significant t = false -> atoms t = [].
Proof. intros t H. destruct t; try reflexivity; vm_compute in H; discriminate. Qed.

Lemma sigc_sig : forall ts, sigc (sig ts) = sigc ts.
Proof.
  induction ts as [|t ts IH]; [reflexivity|]. unfold sig in *. cbn [filter].
  destruct (significant t) eqn:E.
  - change (sigc (t :: filter significant ts)) with (atoms t ++ sigc (filter significant ts)).
    rewrite IH. reflexivity.
  - rewrite IH. change (sigc (t :: ts)) with (atoms t ++ sigc ts). rewrite (atoms_insig t E). reflexivity.
Qed.

Theorem sig_eq_sigc : forall a b, sig a = sig b -> sigc a = sigc b.
Proof. intros a b H. rewrite <- (sigc_sig a), <- (sigc_sig b), H. reflexivity. Qed.

Lemma sig_cons : forall t ts, sig (t :: ts) = sig [t] ++ sig ts.
Proof. intros. change (t :: ts) with ([t] ++ ts). apply sig_app. Qed.

Lemma sig1_insig : forall t, significant t = false -> sig [t] = [].
Proof. intros t H. unfold sig. cbn [filter]. rewrite H. reflexivity. Qed.

Lemma sig_nl : sig [TNewline] = []. Proof. vm_compute. reflexivity. Qed.
Lemma sig_ws : sig [TWhitespace] = []. Proof. vm_compute. reflexivity. Qed.
Lemma sig_tab : sig [TTab] = []. Proof. vm_compute. reflexivity. Qed.

Lemma sig_nil : sig [] = []. Proof. reflexivity. Qed.

(* ------------------------------------------------------------------ hex_patterns *)
Lemma hex_loop_sig : forall inp buf b h m out,
  sig (hex_loop inp buf b h m out) = sig out ++ sig buf ++ sig inp.
Proof.
  induction inp as [|t inp IH]; intros buf b h m out; cbn [hex_loop].
  - rewrite sig_app, sig_nil, app_nil_r. reflexivity.
  - assert (O : sig (if b then hex_loop inp (buf ++ [t]) b h m out
                     else hex_loop inp [] b h m (out ++ buf ++ [t]))
                = sig out ++ sig buf ++ sig (t :: inp)).
    { destruct b; rewrite IH, ?sig_app, ?sig_nil, (sig_cons t inp); cbn [app];
        rewrite <- ?app_assoc; reflexivity. }
    assert (F : forall b' h' m', sig (hex_loop inp [] b' h' m' (out ++ buf ++ [t]))
                = sig out ++ sig buf ++ sig (t :: inp)).
    { intros. rewrite IH, !sig_app, sig_nil, (sig_cons t inp). cbn [app]. rewrite <- !app_assoc. reflexivity. }
    destruct t; try exact O.
    + destruct (N.eqb k K_HEX_PATTERN); [apply F|exact O].
    + destruct (N.eqb k K_HEX_PATTERN); [apply F|exact O].
    + (* Newline *)
      destruct h; [|exact O].
      rewrite IH, sig_nil, (sig_cons TNewline inp), sig_nl. cbn [app].
      match goal with |- context [if ?c then _ else _] => destruct c end;
        rewrite ?sig_app, ?(sig_cons TNewline (buf ++ [TNewline])), ?sig_app, ?sig_nl; cbn [app];
        rewrite ?app_nil_r, <- ?app_assoc; reflexivity.
    + (* Punctuation *)
      destruct (h && bytes_eqb s LBRACE_BYTES); [apply F|].
      destruct (h && bytes_eqb s RBRACE_BYTES); [|exact O].
      rewrite IH, sig_nil, (sig_cons (TPunctuation s) inp). cbn [app].
      destruct (rev buf) as [|last r].
      * rewrite !sig_app, <- !app_assoc. reflexivity.
      * destruct (is_newline_tok last); [|destruct m];
          rewrite !sig_app, ?(sig_cons TNewline [TPunctuation s]), ?sig_nl;
          cbn [app]; rewrite <- ?app_assoc; reflexivity.
Qed.

Theorem hex_patterns_preserves_significant : forall ts, sig (hex_patterns ts) = sig ts.
Proof. intro ts. unfold hex_patterns. rewrite hex_loop_sig, !sig_nil. reflexivity. Qed.

(* ------------------------------------------------------------------ add_indentation *)
Lemma sig_repeat_ws : forall n, sig (repeat TWhitespace n) = [].
Proof. induction n as [|n IH]; [reflexivity|]. cbn [repeat]. rewrite sig_cons, sig_ws, IH. reflexivity. Qed.

Lemma sig_indent_units : forall sp n, sig (repeat_list (indent_unit sp) n) = [].
Proof.
  intros sp n. induction n as [|n IH]; [reflexivity|]. cbn [repeat_list]. rewrite sig_app, IH, app_nil_r.
  destruct sp as [k|]; cbn [indent_unit]; [apply sig_repeat_ws|apply sig_tab].
Qed.

Lemma indent_loop_sig : forall inp level sp out,
  sig (indent_loop inp level sp out) = sig out ++ sig inp.
Proof.
  induction inp as [|t inp IH]; intros level sp out; cbn [indent_loop].
  - cbn [sig filter]. rewrite app_nil_r. reflexivity.
  - destruct t; rewrite IH, ?sig_app, (sig_cons _ inp); try (cbn [app]; rewrite <- ?app_assoc; reflexivity).
    (* Newline + indentation (an Indentation token is dropped: solved above) *)
    rewrite (sig_cons TNewline (repeat_list _ _)), sig_nl, sig_indent_units. cbn [app]. rewrite app_nil_r. reflexivity.
Qed.

Theorem add_indentation_preserves_significant : forall sp ts, sig (add_indentation sp ts) = sig ts.
Proof. intros. unfold add_indentation. rewrite indent_loop_sig. reflexivity. Qed.

(* ------------------------------------------------------------------ trailing_spaces *)
Lemma sig_filter_control : forall buf, sig (filter (fun x => is x C_CONTROL) buf) = sig buf -> True.
Proof. trivial. Qed.

(* the buffer only ever holds spaces, tabs and control tokens *)
Definition bufferable (t : token) : bool :=
  match t with TWhitespace | TTab => true | _ => is t C_CONTROL end.

Lemma bufferable_insig : forall t, bufferable t = true -> significant t = false.
Proof.
  intros t H. destruct t; try reflexivity; cbn [bufferable] in H; vm_compute in H; try discriminate; vm_compute; reflexivity.
Qed.

Lemma sig_bufferable : forall buf, forallb bufferable buf = true -> sig buf = [].
Proof.
  induction buf as [|t buf IH]; intro H; [reflexivity|].
  cbn [forallb] in H. apply andb_true_iff in H. destruct H as [H1 H2].
  rewrite sig_cons, (sig1_insig t (bufferable_insig t H1)), IH by exact H2. reflexivity.
Qed.

Lemma forallb_filter_sub : forall (f g : token -> bool) l, forallb f l = true -> forallb f (filter g l) = true.
Proof.
  induction l as [|x l IH]; intro H; [reflexivity|]. cbn [forallb] in H. apply andb_true_iff in H. destruct H.
  cbn [filter]. destruct (g x); [cbn [forallb]; rewrite H, IH; auto|auto].
Qed.

Lemma trailing_loop_sig : forall inp buf out,
  forallb bufferable buf = true ->
  sig (trailing_loop inp buf out) = sig out ++ sig inp.
Proof.
  induction inp as [|t inp IH]; intros buf out B; cbn [trailing_loop].
  - rewrite sig_app, (sig_bufferable buf B). reflexivity.
  - assert (Bs : forallb bufferable (buf ++ [t]) = true -> sig (trailing_loop inp (buf ++ [t]) out) = sig out ++ sig (t :: inp)).
    { intro Bt. rewrite IH by exact Bt. rewrite (sig_cons t inp).
      rewrite forallb_app in Bt. apply andb_true_iff in Bt. destruct Bt as [_ Bt]. cbn [forallb] in Bt.
      rewrite andb_true_r in Bt. rewrite (sig1_insig t (bufferable_insig t Bt)). reflexivity. }
    assert (Fl : sig (trailing_loop inp [] (out ++ buf ++ [t])) = sig out ++ sig (t :: inp)).
    { rewrite IH by reflexivity. rewrite !sig_app, (sig_bufferable buf B), (sig_cons t inp). cbn [app].
      rewrite <- app_assoc. reflexivity. }
    assert (G : (if is t C_CONTROL then trailing_loop inp (buf ++ [t]) out else trailing_loop inp [] (out ++ buf ++ [t]))
                = (if is t C_CONTROL then trailing_loop inp (buf ++ [t]) out else trailing_loop inp [] (out ++ buf ++ [t]))) by reflexivity.
    destruct t;
      try (destruct (is _ C_CONTROL) eqn:E;
           [apply Bs; rewrite forallb_app, B; cbn [forallb bufferable andb]; rewrite ?E; reflexivity | exact Fl]).
    + (* Whitespace *) apply Bs. rewrite forallb_app, B. reflexivity.
    + (* Tab *) apply Bs. rewrite forallb_app, B. reflexivity.
    + (* Newline *)
      rewrite IH by reflexivity. rewrite !sig_app, (sig_cons TNewline inp), sig_nl.
      rewrite (sig_bufferable _ (forallb_filter_sub bufferable _ buf B)). cbn [app]. rewrite app_nil_r. reflexivity.
Qed.

Theorem trailing_spaces_preserves_significant : forall ts, sig (trailing_spaces ts) = sig ts.
Proof. intro ts. unfold trailing_spaces. rewrite trailing_loop_sig by reflexivity. reflexivity. Qed.

(* ------------------------------------------------------------------ align *)
Lemma sig_expand_markers : forall blk cols maxc, sig (expand_markers blk cols maxc) = sig blk.
Proof.
  induction blk as [|t blk IH]; intros cols maxc; [reflexivity|].
  destruct t; try (cbn [expand_markers]; rewrite sig_cons, IH, <- sig_cons; reflexivity).
  cbn [expand_markers]. destruct cols as [|c cols].
  - rewrite IH, (sig_cons TAlignmentMarker blk), (sig1_insig TAlignmentMarker) by (vm_compute; reflexivity). reflexivity.
  - rewrite sig_app, sig_repeat_ws, IH, (sig_cons TAlignmentMarker blk), (sig1_insig TAlignmentMarker) by (vm_compute; reflexivity).
    reflexivity.
Qed.

Definition st_sig (st : align_state) : list token :=
  match st with None => [] | Some (_, _, blk) => sig blk end.

Lemma align_loop_sig : forall inp st out res fl,
  align_loop inp st out = Some (res, fl) ->
  if fl then sig res = sig out ++ st_sig st ++ sig inp
  else exists rest, sig out ++ st_sig st ++ sig inp = sig res ++ rest.
Proof.
  induction inp as [|t inp IH]; intros st out res fl H; cbn [align_loop] in H.
  - destruct st as [[[col cols] blk]|]; inversion H; subst; cbn [st_sig sig filter].
    + rewrite sig_app. unfold close_block. rewrite sig_expand_markers, app_nil_r. reflexivity.
    + rewrite app_nil_r. reflexivity.
  - assert (K : forall st' out', sig out' ++ st_sig st' = sig out ++ st_sig st ++ sig [t] ->
              align_loop inp st' out' = Some (res, fl) ->
              if fl then sig res = sig out ++ st_sig st ++ sig (t :: inp)
              else exists rest, sig out ++ st_sig st ++ sig (t :: inp) = sig res ++ rest).
    { intros st' out' E H'. apply IH in H'. rewrite (sig_cons t inp).
      destruct fl.
      - rewrite H'. rewrite app_assoc, E. rewrite <- !app_assoc. reflexivity.
      - destruct H' as [rest H']. exists rest. rewrite <- H'.
        rewrite (app_assoc (sig out') _ _), E. rewrite <- !app_assoc. reflexivity. }
    destruct st as [[[col cols] blk]|].
    + (* inside a block *)
      assert (In : forall col' cols', align_loop inp (Some (col', cols', blk ++ [t])) out = Some (res, fl) ->
                  if fl then sig res = sig out ++ st_sig (Some (col, cols, blk)) ++ sig (t :: inp)
                  else exists rest, sig out ++ st_sig (Some (col, cols, blk)) ++ sig (t :: inp) = sig res ++ rest).
      { intros col' cols'. apply K. cbn [st_sig]. rewrite sig_app. reflexivity. }
      destruct t; try (apply In in H; exact H).
      * discriminate.
      * (* BlockEnd *)
        destruct (close_block cols blk) eqn:CB.
        -- inversion H; subst. cbn [st_sig].
           assert (Z : sig blk = []).
           { unfold close_block in CB. rewrite <- (sig_expand_markers blk cols (fold_right Nat.max 0 cols)), CB. reflexivity. }
           rewrite Z. cbn [app]. eexists. reflexivity.
        -- revert H. apply K. cbn [st_sig]. rewrite sig_app, <- CB. unfold close_block. rewrite sig_expand_markers.
           rewrite (sig1_insig TAlignmentBlockEnd) by (vm_compute; reflexivity). rewrite !app_nil_r. reflexivity.
    + (* outside *)
      destruct t; try (revert H; apply K; cbn [st_sig]; rewrite sig_app, !app_nil_r; reflexivity).
      revert H. apply K. cbn [st_sig app]. rewrite (sig1_insig TAlignmentBlockBegin) by (vm_compute; reflexivity).
      rewrite !app_nil_r. reflexivity.
Qed.

Theorem align_preserves_significant : forall ts out, align ts = Some (out, true) -> sig out = sig ts.
Proof. intros ts out H. apply align_loop_sig in H. cbn [st_sig sig filter app] in H. exact H. Qed.

Theorem align_output_prefix : forall ts out fl, align ts = Some (out, fl) -> exists rest, sig ts = sig out ++ rest.
Proof.
  intros ts out fl H. apply align_loop_sig in H. cbn [st_sig sig filter app] in H.
  destruct fl; [exists []; rewrite H, app_nil_r; reflexivity|exact H].
Qed.

(* the early end is real: an alignment block that expands to nothing ends the
   stream, whatever follows is not yielded *)
Example align_can_end_early :
  align [TKeyword [1%N]; TAlignmentBlockBegin; TAlignmentMarker; TAlignmentBlockEnd; TKeyword [2%N]]
  = Some ([TKeyword [1%N]], false).
Proof. vm_compute. reflexivity. Qed.

(* ------------------------------------------------------------------ comments *)
Lemma cstart_norm : forall line i indent tab k,
  cstart line i indent tab = Some k -> norm_line (skipn k line) = norm_line line.
Proof.
  induction line as [|c l IH]; intros i indent tab k H; cbn [cstart] in H; [discriminate|].
  destruct (Nat.leb indent i); [inversion H; reflexivity|].
  destruct (N.eqb c 32) eqn:E1.
  - destruct (cstart l (S i) indent tab) as [k'|] eqn:C; [|discriminate]. inversion H; subst.
    cbn [skipn norm_line]. unfold is_ws_byte. rewrite E1. cbn [orb]. eapply IH; exact C.
  - destruct (N.eqb c 9) eqn:E2.
    + destruct (cstart l (i + tab) indent tab) as [k'|] eqn:C; [|discriminate]. inversion H; subst.
      cbn [skipn norm_line]. unfold is_ws_byte. rewrite E1, E2. cbn [orb]. eapply IH; exact C.
    + inversion H; reflexivity.
Qed.

(* the loop runs out of characters only on a line made of spaces and tabs *)
Lemma cstart_none_blank : forall line i indent tab,
  cstart line i indent tab = None -> norm_line line = [].
Proof.
  induction line as [|c l IH]; intros i indent tab H; [reflexivity|]. cbn [cstart] in H.
  destruct (Nat.leb indent i); [discriminate|].
  destruct (N.eqb c 32) eqn:E1.
  - destruct (cstart l (S i) indent tab) eqn:C; [discriminate|].
    cbn [norm_line]. unfold is_ws_byte. rewrite E1. cbn [orb]. eapply IH; exact C.
  - destruct (N.eqb c 9) eqn:E2; [|discriminate].
    destruct (cstart l (i + tab) indent tab) eqn:C; [discriminate|].
    cbn [norm_line]. unfold is_ws_byte. rewrite E1, E2. cbn [orb]. eapply IH; exact C.
Qed.

Lemma strip_line_norm : forall indent tab line, norm_line (strip_line indent tab line) = norm_line line.
Proof.
  intros. unfold strip_line. destruct (cstart line 0 indent tab) eqn:C; [eapply cstart_norm; exact C|].
  destruct blank_comment_lines_stripped; [|reflexivity].
  rewrite (cstart_none_blank _ _ _ _ C). reflexivity.
Qed.

Lemma split_atoms : forall c indent tab, comment_atoms (split_comment_lines c indent tab) = comment_atoms (lines_of c).
Proof.
  intros. unfold comment_atoms, split_comment_lines. rewrite map_map.
  apply map_ext. intro l. rewrite strip_line_norm. reflexivity.
Qed.

Lemma comment_atoms_app : forall a b, comment_atoms (a ++ b) = comment_atoms a ++ comment_atoms b.
Proof. intros. unfold comment_atoms. apply map_app. Qed.

Lemma push_comment_sigc : forall lines lead trail pc,
  push_comment lines lead trail = Some pc -> sigc pc = comment_atoms lines.
Proof.
  intros lines lead trail pc H. unfold push_comment in H. destruct lines as [|l ls]; [discriminate|].
  inversion H; subst. destruct lead, trail; cbn [sigc flat_map atoms app]; rewrite ?app_nil_r; reflexivity.
Qed.

Definition typed_comment (t : token) : bool :=
  match t with TBlockComment _ | THeadComment _ | TTailComment _ | TInlineComment _ => true | _ => false end.

(* what may sit in the input buffer: tokens of the buffered categories that are
   not typed comments (the stage's input comes from `Tokens`, which only
   produces raw `Comment` tokens) *)
Definition buf_ok (t : token) : bool := is t COMMENTS_BUFFERED && negb (typed_comment t).

Definition pend (st : cstate) : list atom :=
  match st with PreC _ => [] | InC _ _ _ lines => comment_atoms lines end.

Lemma process_buf_sigc : forall tab eoi buf st indent out o indent',
  forallb buf_ok buf = true ->
  process_buf tab eoi buf st indent out = Some (o, indent') ->
  sigc o = sigc out ++ pend st ++ sigc buf.
Proof.
  induction buf as [|t buf IH]; intros st indent out o indent' B H; cbn [process_buf] in H.
  - destruct st as [lead|ci lead trail lines].
    + inversion H; subst. cbn [pend sigc flat_map]. rewrite !app_nil_r. reflexivity.
    + destruct (push_comment lines lead (trail || eoi)) as [pc|] eqn:P; [|discriminate].
      inversion H; subst. rewrite sigc_app, (push_comment_sigc _ _ _ _ P). cbn [pend sigc flat_map].
      rewrite app_nil_r. reflexivity.
  - cbn [forallb] in B. apply andb_true_iff in B. destruct B as [Bt B].
    change (sigc (t :: buf)) with (atoms t ++ sigc buf).
    destruct st as [lead|ci lead trail lines].
    + (* PreComment *)
      destruct t; try (apply IH in H; [|exact B]; rewrite H, ?sigc_app; cbn [pend sigc flat_map atoms app];
                       rewrite ?app_nil_r; reflexivity);
        try (vm_compute in Bt; discriminate).
      (* Comment *)
      apply IH in H; [|exact B]. rewrite H. cbn [pend atoms]. rewrite split_atoms. reflexivity.
    + (* Comment *)
      destruct t; try (apply IH in H; [|exact B]; rewrite H, ?sigc_app; cbn [pend sigc flat_map atoms app];
                       rewrite ?app_nil_r; reflexivity);
        try (vm_compute in Bt; discriminate).
      * (* another Comment token *)
        destruct (Nat.eqb ci indent).
        -- apply IH in H; [|exact B]. rewrite H. cbn [pend atoms].
           rewrite comment_atoms_app, split_atoms, <- !app_assoc. reflexivity.
        -- destruct (push_comment lines lead trail) as [pc|] eqn:P; [|discriminate].
           apply IH in H; [|exact B]. rewrite H, sigc_app, (push_comment_sigc _ _ _ _ P). cbn [pend atoms].
           rewrite split_atoms, <- !app_assoc. reflexivity.
      * (* Newline *)
        destruct trail.
        -- destruct (push_comment lines lead true) as [pc|] eqn:P; [|discriminate].
           apply IH in H; [|exact B]. rewrite H, !sigc_app, (push_comment_sigc _ _ _ _ P).
           cbn [pend sigc flat_map atoms app]. rewrite !app_nil_r, <- ?app_assoc. reflexivity.
        -- apply IH in H; [|exact B]. rewrite H. cbn [pend atoms app]. reflexivity.
Qed.

Lemma comments_loop_sigc : forall tab inp buf start indent out res,
  forallb (fun t => negb (typed_comment t)) inp = true ->
  forallb buf_ok buf = true ->
  comments_loop tab inp buf start indent out = Some res ->
  sigc res = sigc out ++ sigc buf ++ sigc inp.
Proof.
  induction inp as [|t inp IH]; intros buf start indent out res NT B H; cbn [comments_loop] in H.
  - destruct buf as [|b buf'].
    + inversion H; subst. cbn [sigc flat_map]. rewrite !app_nil_r. reflexivity.
    + destruct (process_buf tab true (b :: buf') (PreC start) indent []) as [[o i']|] eqn:P; [|discriminate].
      inversion H; subst. apply process_buf_sigc in P; [|exact B].
      rewrite sigc_app, P. cbn [pend sigc flat_map app]. rewrite !app_nil_r. reflexivity.
  - cbn [forallb] in NT. apply andb_true_iff in NT. destruct NT as [NTt NT].
    change (sigc (t :: inp)) with (atoms t ++ sigc inp).
    destruct (is t COMMENTS_BUFFERED) eqn:E.
    + apply IH in H; [|exact NT|].
      * rewrite H, sigc_app. change (sigc [t]) with (atoms t ++ []). rewrite app_nil_r, <- !app_assoc. reflexivity.
      * rewrite forallb_app, B. cbn [forallb]. unfold buf_ok. rewrite E, NTt. reflexivity.
    + destruct (process_buf tab false buf (PreC start) indent []) as [[o i']|] eqn:P; [|discriminate].
      apply process_buf_sigc in P; [|exact B].
      apply IH in H; [|exact NT|reflexivity].
      rewrite H, !sigc_app, P. cbn [pend sigc flat_map app]. rewrite !app_nil_r, <- !app_assoc. reflexivity.
Qed.

Theorem comments_preserves_significant : forall tab ts out,
  forallb (fun t => negb (typed_comment t)) ts = true ->
  comments tab ts = Some out -> sigc out = sigc ts.
Proof.
  intros tab ts out NT H. unfold comments in H.
  apply comments_loop_sigc in H; [|exact NT|reflexivity]. exact H.
Qed.

(* the hypothesis matters: a typed comment in the input can be overtaken by a
   pending raw comment *)
Example comments_needs_raw_input :
  comments 4 [TComment [47; 47; 97]%N; TBlockComment [[47; 47; 98]%N]]
  = Some [TBlockComment [[47; 47; 98]%N]; TBlockComment [[47; 47; 97]%N]; TNewline].
Proof. vm_compute. reflexivity. Qed.

(* comment text only changes in leading whitespace: the documented example *)
Example comments_reindent_example :
  (* "foo" "/*\n   x */" : the continuation line loses the 3 columns of the comment's indentation *)
  comments 4 [TWhitespace; TWhitespace; TWhitespace; TComment [47; 42; 10; 32; 32; 32; 32; 120; 32; 42; 47]%N; TNewline; TKeyword [1%N]]
  = Some [TWhitespace; TWhitespace; TWhitespace; TBlockComment [[47; 42]; [32; 120; 32; 42; 47]]%N; TNewline; TKeyword [1%N]].
Proof. vm_compute. reflexivity. Qed.

(* ------------------------------------------------------------------ modified *)
Lemma bytes_eqb_eq : forall a b, bytes_eqb a b = true <-> a = b.
Proof.
  induction a as [|x a IH]; destruct b as [|y b]; cbn [bytes_eqb]; split; intro H; try reflexivity; try discriminate.
  - apply andb_true_iff in H. destruct H as [H1 H2]. apply N.eqb_eq in H1. apply IH in H2. subst. reflexivity.
  - inversion H; subst. rewrite N.eqb_refl. apply IH. reflexivity.
Qed.

Theorem modified_flag_truthful : forall inp out, modified_flag inp out = true <-> out <> inp.
Proof.
  intros inp out. unfold modified_flag. rewrite negb_true_iff. split.
  - intros H E. subst. assert (T : bytes_eqb inp inp = true) by (apply bytes_eqb_eq; reflexivity). congruence.
  - intro NE. destruct (bytes_eqb inp out) eqn:E; [|reflexivity]. apply bytes_eqb_eq in E. subst. contradiction.
Qed.
