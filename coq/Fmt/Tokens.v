(* Tokens of the yara-x formatter (fmt/src/tokens/mod.rs, `enum Token`).

   Payloads: byte strings (`&[u8]`) are lists of bytes (N), the lines of the
   typed comments (`Vec<Vec<u8>>`) lists of byte lists; grammar rule kinds
   (`SyntaxKind`, repr(u16)) by their discriminant; the argument of
   `Indentation` by a Z.

   The constructor list is checked against the Rust enum by
   translate/gen_fmtrules.py; the category of every constructor and the
   category bit masks are GENERATED (Gen/FmtCats.v). *)
From Coq Require Import List NArith ZArith Bool.
Import ListNotations.

Inductive token :=
| TNone
| TBegin (k : N)
| TEnd (k : N)
| TIndentation (d : Z)
| TBlockBegin
| TBlockEnd
| TAlignmentBlockBegin
| TAlignmentBlockEnd
| TAlignmentMarker
| TWhitespace
| TTab
| TComment (s : list N)
| TBlockComment (l : list (list N))
| THeadComment (l : list (list N))
| TTailComment (l : list (list N))
| TInlineComment (l : list (list N))
| TNewline
| TIdentifier (s : list N)
| TKeyword (s : list N)
| TPunctuation (s : list N)
| TLiteral (s : list N)
| TLGrouping (s : list N)
| TRGrouping (s : list N).

Fixpoint bytes_eqb (a b : list N) : bool :=
  match a, b with
  | [], [] => true
  | x :: a', y :: b' => N.eqb x y && bytes_eqb a' b'
  | _, _ => false
  end.
Fixpoint lines_eqb (a b : list (list N)) : bool :=
  match a, b with
  | [], [] => true
  | x :: a', y :: b' => bytes_eqb x y && lines_eqb a' b'
  | _, _ => false
  end.

(* derived PartialEq *)
Definition token_eqb (a b : token) : bool :=
  match a, b with
  | TNone, TNone => true
  | TBegin x, TBegin y => N.eqb x y
  | TEnd x, TEnd y => N.eqb x y
  | TIndentation x, TIndentation y => Z.eqb x y
  | TBlockBegin, TBlockBegin => true
  | TBlockEnd, TBlockEnd => true
  | TAlignmentBlockBegin, TAlignmentBlockBegin => true
  | TAlignmentBlockEnd, TAlignmentBlockEnd => true
  | TAlignmentMarker, TAlignmentMarker => true
  | TWhitespace, TWhitespace => true
  | TTab, TTab => true
  | TComment x, TComment y => bytes_eqb x y
  | TBlockComment x, TBlockComment y => lines_eqb x y
  | THeadComment x, THeadComment y => lines_eqb x y
  | TTailComment x, TTailComment y => lines_eqb x y
  | TInlineComment x, TInlineComment y => lines_eqb x y
  | TNewline, TNewline => true
  | TIdentifier x, TIdentifier y => bytes_eqb x y
  | TKeyword x, TKeyword y => bytes_eqb x y
  | TPunctuation x, TPunctuation y => bytes_eqb x y
  | TLiteral x, TLiteral y => bytes_eqb x y
  | TLGrouping x, TLGrouping y => bytes_eqb x y
  | TRGrouping x, TRGrouping y => bytes_eqb x y
  | _, _ => false
  end.

Fixpoint tokens_eqb (a b : list token) : bool :=
  match a, b with
  | [], [] => true
  | x :: a', y :: b' => token_eqb x y && tokens_eqb a' b'
  | _, _ => false
  end.

(* constructor tags, used by the generated class predicates
   (`matches!(token, Token::TailComment(_))`) *)
Inductive ctor :=
| KNone | KBegin | KEnd | KIndentation | KBlockBegin | KBlockEnd
| KAlignmentBlockBegin | KAlignmentBlockEnd | KAlignmentMarker
| KWhitespace | KTab | KComment | KBlockComment | KHeadComment | KTailComment
| KInlineComment | KNewline | KIdentifier | KKeyword | KPunctuation | KLiteral
| KLGrouping | KRGrouping.

Definition ctor_of (t : token) : ctor :=
  match t with
  | TNone => KNone | TBegin _ => KBegin | TEnd _ => KEnd | TIndentation _ => KIndentation
  | TBlockBegin => KBlockBegin | TBlockEnd => KBlockEnd
  | TAlignmentBlockBegin => KAlignmentBlockBegin | TAlignmentBlockEnd => KAlignmentBlockEnd
  | TAlignmentMarker => KAlignmentMarker | TWhitespace => KWhitespace | TTab => KTab
  | TComment _ => KComment | TBlockComment _ => KBlockComment | THeadComment _ => KHeadComment
  | TTailComment _ => KTailComment | TInlineComment _ => KInlineComment | TNewline => KNewline
  | TIdentifier _ => KIdentifier | TKeyword _ => KKeyword | TPunctuation _ => KPunctuation
  | TLiteral _ => KLiteral | TLGrouping _ => KLGrouping | TRGrouping _ => KRGrouping
  end.

Definition ctor_eqb (a b : ctor) : bool :=
  match a, b with
  | KNone, KNone | KBegin, KBegin | KEnd, KEnd | KIndentation, KIndentation
  | KBlockBegin, KBlockBegin | KBlockEnd, KBlockEnd
  | KAlignmentBlockBegin, KAlignmentBlockBegin | KAlignmentBlockEnd, KAlignmentBlockEnd
  | KAlignmentMarker, KAlignmentMarker | KWhitespace, KWhitespace | KTab, KTab
  | KComment, KComment | KBlockComment, KBlockComment | KHeadComment, KHeadComment
  | KTailComment, KTailComment | KInlineComment, KInlineComment | KNewline, KNewline
  | KIdentifier, KIdentifier | KKeyword, KKeyword | KPunctuation, KPunctuation
  | KLiteral, KLiteral | KLGrouping, KLGrouping | KRGrouping, KRGrouping => true
  | _, _ => false
  end.

Definition all_ctors : list ctor :=
  [KNone; KBegin; KEnd; KIndentation; KBlockBegin; KBlockEnd; KAlignmentBlockBegin;
   KAlignmentBlockEnd; KAlignmentMarker; KWhitespace; KTab; KComment; KBlockComment;
   KHeadComment; KTailComment; KInlineComment; KNewline; KIdentifier; KKeyword;
   KPunctuation; KLiteral; KLGrouping; KRGrouping].
