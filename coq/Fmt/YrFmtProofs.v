(* `yr fmt` (cli/src/commands/fmt.rs) as modelled in Fmt/FmtCheck.v, with the
   way it opens the output file re-read from the source (Gen/FmtRules.v,
   yr_fmt_truncates), meets its specification: after the command every file
   holds exactly the formatter's output when the formatter reports a change,
   and its old content otherwise.  The statement compares the model as coded
   with the model under the specification (a truncating write); it holds by
   computation exactly when the source opens the file with truncation. *)
From Coq Require Import List NArith Bool.
From YV Require Import Fmt.Tokens Gen.FmtRules Fmt.FmtCheck.
Import ListNotations.

Theorem yr_fmt_meets_spec : forall check files stopped modified failed crashed,
  yr_model yr_fmt_truncates check files stopped modified failed crashed
  = yr_model true check files stopped modified failed crashed.
Proof. intros. reflexivity. Qed.

(* without truncation a shorter output leaves the tail of the old content *)
Example yr_fmt_without_truncation_leaves_a_tail :
  fst (yr_model false false [mkYrFile [1; 2; 3; 4; 5]%N (FOk true) [9; 9]%N [] false] false false false false)
  = [([9; 9; 3; 4; 5]%N, true)].
Proof. vm_compute. reflexivity. Qed.
