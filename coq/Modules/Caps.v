(* C11 - the loop skeletons of the file-format parsers, with the caps and depth
   limits that bound them (constants from Gen/ModCaps.v).  Definitions only.

   * counted parse:   count(parser, min(n, MAX))            pe sections, data directories, exports, dotnet rows
   * capped iterator: iterator(..).take(MAX)                 pe import descriptors, dex strings/types/classes
   * collect to cap:  push; if len == MAX { return }         pe resources
   * guarded recursion: if *depth == MAX { Err }; *depth += 1; recurse; *depth -= 1     dotnet parse_type_spec
   * pe parse_resources: breadth-first walk of the resource directory graph,
     no memory of visited directories, entries of a directory processed only at
     levels 0..rsrc_max_level, sub-directories queued with level + 1 only while
     level < rsrc_deepest_level (both generated); every examined entry is counted
     and the walk abandoned past MAX_PE_RESOURCE_DIR_ENTRIES; leaves are
     collected to the cap MAX_PE_RESOURCES (the collect-to-cap shape). *)
From Coq Require Import List NArith Arith Bool Lia.
From YV Require Import Gen.ModCaps.
Import ListNotations.

(* ------------------------------------------------------------ counted / capped loops *)
Definition counted (n cap : N) : N := N.min n cap.
Definition capped {A} (cap : nat) (items : list A) : list A := firstn cap items.

(* push each accepted item; return as soon as the collection holds cap items *)
Fixpoint collect {A} (cap : nat) (accept : A -> bool) (items : list A) (acc : list A) : list A :=
  match items with
  | [] => acc
  | x :: t => if accept x
              then let acc' := acc ++ [x] in
                   if Nat.eqb (length acc') cap then acc' else collect cap accept t acc'
              else collect cap accept t acc
  end.

(* ------------------------------------------------------------ guarded recursion *)
Inductive tree := Node (children : list tree).

(* the deepest value the depth counter takes while walking t from depth d;
   None = Err(RecursionLimit) somewhere *)
Fixpoint walk (maxd : nat) (d : nat) (t : tree) : option nat :=
  if Nat.eqb d maxd then None
  else match t with
       | Node cs =>
           (fix go (l : list tree) (deepest : nat) : option nat :=
              match l with
              | [] => Some deepest
              | c :: r => match walk maxd (S d) c with
                          | None => None
                          | Some m => go r (Nat.max deepest m)
                          end
              end) cs (S d)
       end.

(* ------------------------------------------------------------ resource directory walk *)
(* the directory graph: dir id -> entries (is_subdir, target dir id) *)
Definition rgraph := nat -> list (bool * nat).

(* queue items of one level -> queue items of the next level *)
Definition next_level (g : rgraph) (items : list nat) : list nat :=
  flat_map (fun d => map snd (filter fst (g d))) items.

Fixpoint level_items (g : rgraph) (root : nat) (k : nat) : list nat :=
  match k with
  | O => [root]
  | S j => next_level g (level_items g root j)
  end.

(* directories dequeued and parsed: levels 0 .. rsrc_deepest_level *)
Fixpoint dirs_parsed (g : rgraph) (root : nat) (k : nat) : nat :=
  match k with
  | O => length (level_items g root 0)
  | S j => dirs_parsed g root j + length (level_items g root (S j))
  end.
(* directory entries iterated *)
Fixpoint entries_iterated (g : rgraph) (root : nat) (k : nat) : nat :=
  let here := fold_right (fun d n => length (g d) + n) 0 (level_items g root k) in
  match k with O => here | S j => entries_iterated g root j + here end.

Definition rsrc_dirs_parsed (g : rgraph) (root : nat) : nat := dirs_parsed g root rsrc_deepest_level.
Definition rsrc_entries_iterated (g : rgraph) (root : nat) : nat := entries_iterated g root rsrc_deepest_level.

(* entries examined: parse_resources increments a counter first thing for every
   entry it examines, in walk order, and once the counter exceeds
   MAX_PE_RESOURCE_DIR_ENTRIES clears the queue and leaves the loop.  The walk
   examines entries one at a time, so it stops at the (cap + 1)-th examined
   entry or examines them all: the minimum of the two counts. *)
Definition rsrc_entries_examined (g : rgraph) (root : nat) : N :=
  N.min (N.of_nat (rsrc_entries_iterated g root)) (pe_MAX_PE_RESOURCE_DIR_ENTRIES + 1).

(* the self-referential table: directory 1 has e sub-directory entries that
   all point to directory 1; the root (0) has e entries pointing to 1 *)
Definition bomb (e : nat) : rgraph := fun d => repeat (true, 1) e.

(* ------------------------------------------------------------ macho export trie walk *)
(* macho parse_exports: a stack of (offset, prefix) nodes; a popped node whose
   key is already in `visited` is skipped, otherwise the key is inserted and,
   if the offset lies inside the trie data, the node is expanded: each of its
   edges (a u8 count) pushes the child.  A parse error inside a node ends the
   whole walk (`?`): the walk modelled here is the longest one.
   The trie: offset -> children offsets, None = outside the data.
   key_offset = true: visited is keyed by the offset alone (generated fact
   trie_visited_key_is_offset); false: by (offset, path) where the path is the list of edge numbers taken from
   the root (it stands for the accumulated prefix), i.e. per path. *)
Definition trie := nat -> option (list nat).
Definition tkey := (nat * list nat)%type.
Fixpoint natlist_eqb (a b : list nat) : bool :=
  match a, b with [], [] => true | x :: a', y :: b' => Nat.eqb x y && natlist_eqb a' b' | _, _ => false end.
Definition tkey_eqb (a b : tkey) : bool := Nat.eqb (fst a) (fst b) && natlist_eqb (snd a) (snd b).
Definition tmem (k : tkey) (l : list tkey) : bool := existsb (tkey_eqb k) l.

Fixpoint trie_walk (key_offset : bool) (g : trie) (fuel : nat) (stack : list tkey) (visited : list tkey)
                   (expanded : list nat) : list nat :=
  match fuel with
  | O => expanded
  | S f =>
      match stack with
      | [] => expanded
      | (o, path) :: rest =>
          let key := if key_offset then (o, []) else (o, path) in
          if tmem key visited then trie_walk key_offset g f rest visited expanded
          else match g o with
               | None => trie_walk key_offset g f rest (key :: visited) expanded
               | Some children =>
                   trie_walk key_offset g f (rev (map (fun ic => (snd ic, fst ic :: path)) (combine (seq 0 (length children)) children)) ++ rest)
                             (key :: visited) (o :: expanded)
               end
      end
  end.
(* nodes expanded (each may push one export), starting from the root at offset 0 *)
Definition trie_expanded (key_offset : bool) (g : trie) (fuel : nat) : list nat :=
  trie_walk key_offset g fuel [(0, [])] [] [].

(* a trie that is not a tree: both edges of node i point to node i + 1 *)
Definition diamond (k : nat) : trie := fun o => if Nat.ltb o k then Some [S o; S o] else if Nat.eqb o k then Some [] else None.
