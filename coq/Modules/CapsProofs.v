(* C11 - iteration counts and recursion depth of the capped loops. *)
From Coq Require Import List NArith Arith Bool Lia.
From YV Require Import Gen.ModCaps Modules.Caps.
Import ListNotations.

Lemma counted_le : forall n cap, (counted n cap <= cap)%N.
Proof. intros. unfold counted. lia. Qed.

Lemma capped_le : forall A cap (items : list A), length (capped cap items) <= cap.
Proof. intros. unfold capped. rewrite firstn_length. lia. Qed.

Lemma collect_le : forall A cap accept (items acc : list A),
  length acc < cap -> length (collect cap accept items acc) <= cap.
Proof.
  intros A cap accept items. induction items as [|x t IH]; intros acc H; cbn [collect]; [lia|].
  destruct (accept x); [|apply IH; exact H].
  destruct (Nat.eqb (length (acc ++ [x])) cap) eqn:E.
  - apply Nat.eqb_eq in E. lia.
  - apply Nat.eqb_neq in E. apply IH. rewrite app_length in *. cbn [length] in *. lia.
Qed.

(* ------------------------------------------------------------ guarded recursion *)
Section tree_ind2.
  Variable P : tree -> Prop.
  Hypothesis H : forall cs, Forall P cs -> P (Node cs).
  Fixpoint tree_ind2 (t : tree) : P t :=
    match t with
    | Node cs => H cs ((fix go (l : list tree) : Forall P l :=
                         match l with [] => Forall_nil P | x :: r => Forall_cons x (tree_ind2 x) (go r) end) cs)
    end.
End tree_ind2.

(* the depth counter (it starts at 0 and moves by one) never exceeds the limit,
   whatever the tree *)
Theorem walk_depth_bounded : forall maxd t d m, d <= maxd -> walk maxd d t = Some m -> m <= maxd.
Proof.
  intros maxd t. induction t as [cs IH] using tree_ind2. intros d m Hd Hw. cbn [walk] in Hw.
  destruct (Nat.eqb d maxd) eqn:E; [discriminate|]. apply Nat.eqb_neq in E.
  assert (Hsd : S d <= maxd) by lia.
  assert (G : forall l deepest m0, Forall (fun c => forall d m, d <= maxd -> walk maxd d c = Some m -> m <= maxd) l ->
                deepest <= maxd ->
                (fix go (l : list tree) (deepest : nat) : option nat :=
                   match l with
                   | [] => Some deepest
                   | c :: r => match walk maxd (S d) c with None => None | Some m => go r (Nat.max deepest m) end
                   end) l deepest = Some m0 -> m0 <= maxd).
  { induction l as [|c r IHl]; intros dp m0 HF Hdp Hg.
    - inversion Hg; subst; exact Hdp.
    - apply Forall_cons_iff in HF. destruct HF as [Hc Hr].
      destruct (walk maxd (S d) c) as [mc|] eqn:Ec; [|discriminate].
      pose proof (Hc _ _ Hsd Ec) as Hmc. apply (IHl (Nat.max dp mc) m0 Hr); [lia|exact Hg]. }
  apply (G cs (S d) m IH Hsd Hw).
Qed.

(* ------------------------------------------------------------ resource walk *)
Lemma filter_len_le : forall A (f : A -> bool) l, length (filter f l) <= length l.
Proof. intros A f l. induction l as [|x t IH]; cbn [filter length]; [lia|]. destruct (f x); cbn [length]; lia. Qed.

Section rsrc.
  Variable g : rgraph.
  Variable E : nat.
  Hypothesis HE : forall d, length (g d) <= E.

  Lemma next_level_le : forall items, length (next_level g items) <= E * length items.
  Proof.
    induction items as [|d t IH]; cbn [next_level flat_map length]; [lia|].
    rewrite app_length, map_length. fold (next_level g t).
    pose proof (filter_len_le _ fst (g d)). pose proof (HE d). lia.
  Qed.

  Lemma level_items_le : forall root k, length (level_items g root k) <= E ^ k.
  Proof.
    intros root k. induction k as [|j IH]; cbn [level_items]; [cbn; lia|].
    pose proof (next_level_le (level_items g root j)). cbn [Nat.pow]. nia.
  Qed.

  Lemma entries_here_le : forall items, fold_right (fun d n => length (g d) + n) 0 items <= E * length items.
  Proof. induction items as [|d t IH]; cbn [fold_right length]; [lia|]. pose proof (HE d). lia. Qed.

  (* number of directories dequeued and parsed, number of entries iterated:
     bounded by the geometric sums up to the deepest dequeued level - quadratic
     resp. cubic in the number of entries per directory *)
  Theorem rsrc_walk_bounded : forall root,
    rsrc_dirs_parsed g root <= 1 + E + E ^ 2 /\
    rsrc_entries_iterated g root <= E * (1 + E + E ^ 2).
  Proof.
    intros root. unfold rsrc_dirs_parsed, rsrc_entries_iterated, rsrc_deepest_level.
    cbn [dirs_parsed entries_iterated].
    pose proof (level_items_le root 0). pose proof (level_items_le root 1). pose proof (level_items_le root 2).
    pose proof (entries_here_le (level_items g root 0)). pose proof (entries_here_le (level_items g root 1)).
    pose proof (entries_here_le (level_items g root 2)).
    replace (E ^ 0) with 1 in * by reflexivity. replace (E ^ 1) with E in * by (cbn; lia).
    replace (E ^ 2) with (E * E) in * by (cbn; lia).
    pose proof (Nat.mul_le_mono_l _ _ E H) as M0. pose proof (Nat.mul_le_mono_l _ _ E H0) as M1.
    pose proof (Nat.mul_le_mono_l _ _ E H1) as M2.
    clear HE.
    generalize dependent (fold_right (fun d n => length (g d) + n) 0 (level_items g root 0)).
    generalize dependent (fold_right (fun d n => length (g d) + n) 0 (level_items g root 1)).
    generalize dependent (fold_right (fun d n => length (g d) + n) 0 (level_items g root 2)).
    generalize dependent (length (level_items g root 0)). generalize dependent (length (level_items g root 1)).
    generalize dependent (length (level_items g root 2)).
    intros. split; nia.
  Qed.

  (* nothing deeper than the levels whose entries are processed is dequeued *)
  Lemma rsrc_no_wasted_level : rsrc_deepest_level <= rsrc_max_level.
  Proof. unfold rsrc_deepest_level, rsrc_max_level. lia. Qed.
End rsrc.

(* the bound is reached by a table of two directories (16 + 8e bytes each)
   whose sub-directory entries point back at the second directory *)
Lemma bomb_level : forall e k, length (level_items (bomb e) 0 k) = e ^ k.
Proof.
  intros e k. induction k as [|j IH]; [reflexivity|]. cbn [level_items Nat.pow]. rewrite <- IH.
  generalize (level_items (bomb e) 0 j). intro items.
  induction items as [|d t IHt]; cbn [next_level flat_map length]; [lia|].
  rewrite app_length, map_length. fold (next_level (bomb e) t). rewrite IHt. unfold bomb.
  assert (F : forall n, filter fst (repeat (true, 1) n) = repeat (true, 1) n).
  { induction n as [|n IHn]; [reflexivity|]. cbn [repeat filter fst]. rewrite IHn. reflexivity. }
  rewrite F, repeat_length. lia.
Qed.

Lemma bomb_entries_here : forall e items, fold_right (fun d n => length (bomb e d) + n) 0 items = e * length items.
Proof. intros e items. induction items as [|d t IH]; cbn [fold_right length]; [lia|]. rewrite IH. unfold bomb. rewrite repeat_length. lia. Qed.

(* the bound is exact for the self-referential table: the walk is cubic in the
   number of entries per directory (a 16-bit count bounded by the size of the
   section / 8), not linear in the size of the input *)
Theorem rsrc_walk_bound_reached : forall e,
  rsrc_dirs_parsed (bomb e) 0 = 1 + e + e ^ 2 /\
  rsrc_entries_iterated (bomb e) 0 = e * (1 + e + e ^ 2).
Proof.
  intros e. unfold rsrc_dirs_parsed, rsrc_entries_iterated, rsrc_deepest_level.
  cbn [dirs_parsed entries_iterated]. rewrite !bomb_entries_here, !bomb_level.
  replace (e ^ 0) with 1 by reflexivity. replace (e ^ 1) with e by (cbn; lia). split; nia.
Qed.

(* with the counter of examined entries: bounded by a constant that does not
   depend on the file, and by the cubic polynomial for small tables *)
Theorem rsrc_examined_bounded : forall g E, (forall d, length (g d) <= E) -> forall root,
  (rsrc_entries_examined g root <= N.min (N.of_nat (E * (1 + E + E ^ 2))) (pe_MAX_PE_RESOURCE_DIR_ENTRIES + 1))%N /\
  (rsrc_entries_examined g root <= pe_MAX_PE_RESOURCE_DIR_ENTRIES + 1)%N.
Proof.
  intros g E HE root. destruct (rsrc_walk_bounded g E HE root) as [_ H].
  unfold rsrc_entries_examined. split; lia.
Qed.

(* what the self-referential table reaches: the polynomial while it is below
   the cap, the cap (+ the entry that trips it) from 102 entries per directory on *)
Theorem rsrc_examined_reached : forall e,
  rsrc_entries_examined (bomb e) 0 = N.min (N.of_nat (e * (1 + e + e ^ 2))) (pe_MAX_PE_RESOURCE_DIR_ENTRIES + 1) /\
  (102 <= e -> rsrc_entries_examined (bomb e) 0 = (pe_MAX_PE_RESOURCE_DIR_ENTRIES + 1)%N).
Proof.
  intros e. destruct (rsrc_walk_bound_reached e) as [_ H]. unfold rsrc_entries_examined. rewrite H.
  split; [reflexivity|]. intro He. unfold pe_MAX_PE_RESOURCE_DIR_ENTRIES.
  replace (e ^ 2) with (e * e) by (cbn; lia).
  apply N.min_r. rewrite !Nat2N.inj_mul, !Nat2N.inj_add, !Nat2N.inj_mul.
  assert (102 <= N.of_nat e)%N by lia. change (N.of_nat 1) with 1%N.
  generalize dependent (N.of_nat e). intros n Hn. nia.
Qed.

(* ------------------------------------------------------------ export trie walk *)
Lemma natlist_eqb_refl : forall l, natlist_eqb l l = true.
Proof. induction l as [|x t IH]; [reflexivity|]. cbn [natlist_eqb]. rewrite Nat.eqb_refl, IH. reflexivity. Qed.
Lemma tmem_in : forall k l, In k l -> tmem k l = true.
Proof.
  intros k l H. unfold tmem. apply existsb_exists. exists k. split; [exact H|].
  unfold tkey_eqb. rewrite Nat.eqb_refl, natlist_eqb_refl. reflexivity.
Qed.

(* keyed by offset: no offset is expanded twice, and only offsets inside the data are expanded *)
Lemma trie_walk_inv : forall g fuel stack visited expanded,
  NoDup expanded -> (forall o, In o expanded -> In (o, []) visited /\ g o <> None) ->
  let r := trie_walk true g fuel stack visited expanded in
  NoDup r /\ forall o, In o r -> g o <> None.
Proof.
  intros g fuel. induction fuel as [|f IH]; intros stack visited expanded Hn Hi; cbn [trie_walk].
  - split; [exact Hn|]. intros o Ho. apply (Hi o Ho).
  - destruct stack as [|[o path] rest].
    + split; [exact Hn|]. intros o Ho. apply (Hi o Ho).
    + destruct (tmem (o, []) visited) eqn:M.
      * apply IH; assumption.
      * destruct (g o) as [children|] eqn:G.
        -- apply IH.
           ++ constructor; [|exact Hn]. intro Hin. destruct (Hi o Hin) as [Hv _]. rewrite (tmem_in _ _ Hv) in M. discriminate.
           ++ intros o' [<-|Hin]; [split; [left; reflexivity|rewrite G; discriminate]|].
              destruct (Hi o' Hin) as [A B]. split; [right; exact A|exact B].
        -- apply IH; [exact Hn|]. intros o' Hin. destruct (Hi o' Hin) as [A B]. split; [right; exact A|exact B].
Qed.

(* the number of nodes expanded (hence of exports produced) is at most the
   number of distinct offsets inside the trie data, whatever the shape of the
   graph (DAGs, cycles, self references) and however long the walk runs *)
Theorem trie_expansions_bounded : forall g U fuel,
  (forall o, g o <> None -> o < U) ->
  length (trie_expanded true g fuel) <= U.
Proof.
  intros g U fuel HU. unfold trie_expanded.
  destruct (trie_walk_inv g fuel [(0, [])] [] [] (NoDup_nil _) ltac:(intros o [])) as [Hn Hg].
  rewrite <- (seq_length U 0). apply NoDup_incl_length; [exact Hn|].
  intros o Ho. apply in_seq. specialize (HU o (Hg o Ho)). lia.
Qed.

(* keyed by path instead (the seeded change that was missed before the trie
   inputs existed): every path of a diamond-shaped trie is walked *)
Example trie_keyed_by_path_explodes :
  length (trie_expanded true (diamond 10) 5000) = 11 /\
  length (trie_expanded false (diamond 10) 5000) = 2047.
Proof. vm_compute. split; reflexivity. Qed.

(* selected by the generated fact *)
Definition trie_statement (key_offset : bool) : Prop :=
  if key_offset then forall g U fuel, (forall o, g o <> None -> o < U) -> length (trie_expanded true g fuel) <= U
  else exists g U fuel, (forall o, g o <> None -> o < U) /\ U < length (trie_expanded false g fuel).
Lemma trie_statement_holds : forall b, trie_statement b.
Proof.
  intros [|]; cbn [trie_statement]; [exact trie_expansions_bounded|].
  exists (diamond 10), 11, 5000. split.
  - intros o H. unfold diamond in H. destruct (Nat.ltb o 10) eqn:E; [apply Nat.ltb_lt in E; lia|].
    destruct (Nat.eqb o 10) eqn:E2; [apply Nat.eqb_eq in E2; lia|congruence].
  - destruct trie_keyed_by_path_explodes as [_ ->]. lia.
Qed.

(* summary: iteration counts <= cap, recursion depth <= limit *)
Theorem bounded_steps :
  (forall n cap, (counted n cap <= cap)%N) /\
  (forall A cap (items : list A), length (capped cap items) <= cap) /\
  (forall A cap accept (items acc : list A), length acc < cap -> length (collect cap accept items acc) <= cap) /\
  (forall maxd t d m, d <= maxd -> walk maxd d t = Some m -> m <= maxd).
Proof. repeat split; [apply counted_le|apply capped_le|apply collect_le|apply walk_depth_bounded]. Qed.

Example caps_example :
  collect 3 (fun x => Nat.even x) [2; 3; 4; 6; 8; 10] [] = [2; 4; 6] /\
  walk 3 0 (Node [Node [Node []]; Node []]) = Some 3 /\
  walk 3 0 (Node [Node [Node [Node []]]]) = None /\
  rsrc_entries_iterated (bomb 3) 0 = 39 /\
  rsrc_entries_examined (bomb 3) 0 = 39%N.
Proof. vm_compute. repeat split. Qed.
