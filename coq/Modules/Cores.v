(* C11 - further arithmetic cores over attacker-controlled integers, exactly as
   coded.  Definitions only.

   * dotnet coded / table indexes (dotnet/parser.rs: table_index, coded_index,
     CodedIndex::from_u32): width selection and decoding;
   * pe overlay (pe/parser.rs, end of From<PE>): max over sections of
     raw_data_offset + raw_data_size in u64, checked_sub from the file length;
   * lnk length_data (lnk/parser.rs): a block whose size field counts itself;
   * elf rva_to_offset (elf/parser.rs) with Phdr/Shdr range helpers. *)
From Coq Require Import List ZArith Bool Lia.
Import ListNotations.
Local Open Scope Z_scope.

(* ------------------------------------------------------------ dotnet indexes *)
(* f64::log2(n as f64).ceil() as u32 for the table counts that occur (1..22) *)
Definition tag_size (ntables : Z) : Z := if ntables <=? 1 then 0 else Z.log2_up ntables.

(* 16 - tag_size is a u32 subtraction, 1u64.checked_shl(..).unwrap() *)
Inductive widx := WBytes (n : Z) | WUnderflow | WShlPanic.
Definition coded_index_width (ntables max_rows : Z) : widx :=
  let t := tag_size ntables in
  if 16 <? t then WUnderflow
  else if 64 <=? 16 - t then WShlPanic
  else if max_rows <=? 2 ^ (16 - t) then WBytes 2 else WBytes 4.

Definition table_index_width (rows : Z) : Z := if 65535 <? rows then 4 else 2.

(* CodedIndex::from_u32: Some (position in the table list, 0-based row) *)
Definition coded_from_u32 (ntables u : Z) : option (Z * Z) :=
  let t := tag_size ntables in
  let table := Z.land u (2 ^ t - 1) in
  if table <? ntables then Some (table, Z.max 0 (Z.shiftr u t - 1)) else None.

(* ------------------------------------------------------------ pe overlay *)
Definition overlay_end (secs : list (Z * Z)) : option Z :=      (* (raw_data_offset, raw_data_size) *)
  match secs with
  | [] => None
  | _ => Some (fold_right (fun s m => Z.max (fst s + snd s) m) 0 secs)
  end.
(* (offset, size) as reported *)
Definition pe_overlay (secs : list (Z * Z)) (file_len : Z) : Z * Z :=
  match overlay_end secs with
  | Some off => if (off <=? file_len) && (0 <? file_len - off) then (off, file_len - off) else (0, 0)
  | None => (0, 0)
  end.

(* ------------------------------------------------------------ lnk length_data *)
Inductive lres := LTake (n : Z)          (* data.take_split(n): n bytes of the block body *)
                | LTooLarge | LIncomplete | LUnderflow.
(* input_len: bytes available including the size field; size_len: 2 or 4 *)
Definition lnk_length_data (input_len size_len size : Z) : lres :=
  if size <? size_len then LTooLarge
  else if input_len <? size then LIncomplete
  else if size <? size_len then LUnderflow else LTake (size - size_len).

(* ------------------------------------------------------------ elf rva_to_offset *)
Definition u64_max : Z := 2 ^ 64 - 1.
Record phdr := mkPhdr { p_offset : Z; p_vaddr : Z; p_memsz : Z }.
Record shdr := mkShdr { s_type : Z; s_addr : Z; s_offset : Z; s_size : Z }.
Definition checked_add64 (a b : Z) : option Z := if a + b <=? u64_max then Some (a + b) else None.

Inductive eres := EFound (o : option Z) | ENone | EUnderflow.
(* ET_EXEC / ET_DYN: first segment whose virtual range contains rva; a range
   that overflows ends the search (`?`) *)
Fixpoint elf_rva_segments (segs : list phdr) (rva : Z) : eres :=
  match segs with
  | [] => ENone
  | s :: t =>
      match checked_add64 (p_vaddr s) (p_memsz s) with
      | None => EFound None
      | Some e => if (p_vaddr s <=? rva) && (rva <? e)
                  then (if p_vaddr s <=? rva then EFound (checked_add64 (p_offset s) (rva - p_vaddr s)) else EUnderflow)
                  else elf_rva_segments t rva
      end
  end.
Definition SHT_NULL : Z := 0.
Definition SHT_NOBITS : Z := 8.
Fixpoint elf_rva_sections (secs : list shdr) (rva : Z) : eres :=
  match secs with
  | [] => ENone
  | s :: t =>
      if (s_type s =? SHT_NOBITS) || (s_type s =? SHT_NULL) then elf_rva_sections t rva
      else match checked_add64 (s_addr s) (s_size s) with
           | None => EFound None
           | Some e => if (s_addr s <=? rva) && (rva <? e)
                       then (if s_addr s <=? rva then EFound (checked_add64 (s_offset s) (rva - s_addr s)) else EUnderflow)
                       else elf_rva_sections t rva
           end
  end.
Definition elf_rva_to_offset (exec_or_dyn : bool) (segs : list phdr) (secs : list shdr) (rva : Z) : eres :=
  if exec_or_dyn then elf_rva_segments segs rva else elf_rva_sections secs rva.
Definition eres_value (r : eres) : option Z := match r with EFound o => o | _ => None end.
