(* C11 - the further cores never under/overflow and stay in bounds. *)
From Coq Require Import List ZArith Bool Lia.
From YV Require Import Modules.Cores.
Import ListNotations.
Local Open Scope Z_scope.

(* ------------------------------------------------------------ dotnet indexes *)
Lemma tag_size_bound : forall n, 1 <= n <= 22 -> 0 <= tag_size n <= 5.
Proof.
  intros n Hn. unfold tag_size. destruct (n <=? 1); [lia|].
  split; [apply Z.log2_up_nonneg|]. change 5 with (Z.log2_up 32). apply Z.log2_up_le_mono. lia.
Qed.

(* the u32 subtraction `16 - tag_size` and the unwrap of checked_shl are safe
   for every table list the parser uses (1..22 tables, asserted in the code) *)
Theorem coded_index_width_total : forall n rows, 1 <= n <= 22 ->
  coded_index_width n rows = WBytes 2 \/ coded_index_width n rows = WBytes 4.
Proof.
  intros n rows Hn. pose proof (tag_size_bound n Hn). unfold coded_index_width.
  destruct (16 <? tag_size n) eqn:E; [apply Z.ltb_lt in E; lia|].
  destruct (64 <=? 16 - tag_size n) eqn:E2; [apply Z.leb_le in E2; lia|].
  destruct (rows <=? 2 ^ (16 - tag_size n)); auto.
Qed.

Theorem coded_from_u32_roundtrip : forall n t r,
  1 <= n <= 22 -> 0 <= t < n -> 0 <= r ->
  coded_from_u32 n ((r + 1) * 2 ^ tag_size n + t) = Some (t, r).
Proof.
  intros n t r Hn Ht Hr. pose proof (tag_size_bound n Hn) as Hts. unfold coded_from_u32.
  set (ts := tag_size n) in *.
  assert (P : 0 < 2 ^ ts) by (apply Z.pow_pos_nonneg; lia).
  assert (Htl : t < 2 ^ ts).
  { subst ts. unfold tag_size in *. destruct (n <=? 1) eqn:E; [apply Z.leb_le in E; change (2 ^ 0) with 1; lia|].
    apply Z.leb_gt in E. pose proof (Z.log2_up_spec n ltac:(lia)). lia. }
  replace (2 ^ ts - 1) with (Z.ones ts) by (rewrite Z.ones_equiv; lia).
  rewrite Z.land_ones by lia. rewrite Z.shiftr_div_pow2 by lia.
  rewrite Z.add_comm, Z.mod_add by lia. rewrite Z.mod_small by lia.
  rewrite Z.div_add by lia. rewrite Z.div_small by lia.
  destruct (t <? n) eqn:E; [|apply Z.ltb_ge in E; lia]. f_equal. f_equal. lia.
Qed.

Theorem coded_from_u32_in_range : forall n u t r, 1 <= n <= 22 -> 0 <= u < 2 ^ 32 ->
  coded_from_u32 n u = Some (t, r) -> 0 <= t < n /\ 0 <= r < 2 ^ 32.
Proof.
  intros n u t r Hn Hu H. pose proof (tag_size_bound n Hn) as Hts. unfold coded_from_u32 in H.
  destruct (Z.land u (2 ^ tag_size n - 1) <? n) eqn:E; [|discriminate]. inversion H; subst. apply Z.ltb_lt in E.
  assert (0 < 2 ^ tag_size n) by (apply Z.pow_pos_nonneg; lia).
  replace (2 ^ tag_size n - 1) with (Z.ones (tag_size n)) in * by (rewrite Z.ones_equiv; lia).
  rewrite Z.land_ones in * by lia. pose proof (Z.mod_pos_bound u (2 ^ tag_size n) ltac:(lia)).
  rewrite Z.shiftr_div_pow2 by lia.
  assert (0 <= u / 2 ^ tag_size n <= u) by (split; [apply Z.div_pos; lia|apply Z.div_le_upper_bound; nia]). lia.
Qed.

(* the width test is `max_rows <= 2^(16 - tag)` where ECMA-335 II.24.2.6 says
   `<`: with exactly 2^(16 - tag) rows a 2-byte coded index is chosen although
   the last row does not fit (the file is then read with the wrong row size;
   not a totality issue) *)
Example coded_index_two_bytes_at_threshold :
  coded_index_width 4 16384 = WBytes 2 /\ 2 ^ 16 <= 16384 * 2 ^ tag_size 4 + 0.
Proof. vm_compute. split; [reflexivity|discriminate]. Qed.

(* ------------------------------------------------------------ pe overlay *)
Definition u32_pairs (secs : list (Z * Z)) : Prop := Forall (fun s => 0 <= fst s < 2 ^ 32 /\ 0 <= snd s < 2 ^ 32) secs.

Lemma overlay_fold_bound : forall secs, u32_pairs secs ->
  0 <= fold_right (fun s m => Z.max (fst s + snd s) m) 0 secs < 2 ^ 33 /\
  forall s, In s secs -> fst s + snd s <= fold_right (fun s m => Z.max (fst s + snd s) m) 0 secs.
Proof.
  induction secs as [|x t IH]; intros H; cbn [fold_right].
  - split; [change (2 ^ 33) with 8589934592; lia|intros s []].
  - apply Forall_cons_iff in H. destruct H as [Hx Ht]. destruct (IH Ht) as [B M].
    change (2 ^ 33) with 8589934592 in *. change (2 ^ 32) with 4294967296 in *. split; [lia|].
    intros s [<-|Hin]; [lia|]. specialize (M s Hin). lia.
Qed.

(* the u64 additions cannot overflow; what is reported is either (0, 0) or an
   overlay that starts where the last section ends and runs to the end of the file *)
Theorem pe_overlay_spec : forall secs len off size, u32_pairs secs -> 0 <= len ->
  pe_overlay secs len = (off, size) ->
  (off = 0 /\ size = 0) \/
  (0 < size /\ off + size = len /\ 0 <= off < 2 ^ 33 /\ forall s, In s secs -> fst s + snd s <= off).
Proof.
  intros secs len off size H Hl E. unfold pe_overlay, overlay_end in E.
  destruct secs as [|x t]; [inversion E; auto|].
  destruct (overlay_fold_bound (x :: t) H) as [B M].
  set (m := fold_right (fun s m => Z.max (fst s + snd s) m) 0 (x :: t)) in *.
  destruct ((m <=? len) && (0 <? len - m)) eqn:C; inversion E; subst; [|auto].
  apply andb_true_iff in C. destruct C as [C1 C2]. apply Z.leb_le in C1. apply Z.ltb_lt in C2.
  right. repeat split; try lia. exact M.
Qed.

(* ------------------------------------------------------------ lnk length_data *)
Theorem lnk_length_data_in_bounds : forall input_len size_len size,
  0 <= size_len <= input_len -> 0 <= size ->
  lnk_length_data input_len size_len size <> LUnderflow /\
  forall n, lnk_length_data input_len size_len size = LTake n -> 0 <= n <= input_len - size_len.
Proof.
  intros il sl sz Hs Hz. unfold lnk_length_data.
  destruct (sz <? sl) eqn:E1; [split; [discriminate|intros n H; discriminate]|].
  destruct (il <? sz) eqn:E2; [split; [discriminate|intros n H; discriminate]|].
  apply Z.ltb_ge in E1. apply Z.ltb_ge in E2. split; [discriminate|]. intros n H. inversion H. lia.
Qed.

(* ------------------------------------------------------------ elf rva_to_offset *)
Definition phdr_ok (s : phdr) : Prop := 0 <= p_offset s <= u64_max /\ 0 <= p_vaddr s <= u64_max /\ 0 <= p_memsz s <= u64_max.
Definition shdr_ok (s : shdr) : Prop := 0 <= s_offset s <= u64_max /\ 0 <= s_addr s <= u64_max /\ 0 <= s_size s <= u64_max.

Lemma checked_add64_some : forall a b e, checked_add64 a b = Some e -> e = a + b /\ a + b <= u64_max.
Proof. intros a b e H. unfold checked_add64 in H. destruct (a + b <=? u64_max) eqn:E; [|discriminate]. apply Z.leb_le in E. inversion H. lia. Qed.

Lemma elf_segments_spec : forall segs rva, Forall phdr_ok segs -> 0 <= rva <= u64_max ->
  elf_rva_segments segs rva <> EUnderflow /\
  forall o, elf_rva_segments segs rva = EFound (Some o) ->
    exists s, In s segs /\ p_vaddr s <= rva < p_vaddr s + p_memsz s /\ o = p_offset s + (rva - p_vaddr s) /\ 0 <= o <= u64_max.
Proof.
  induction segs as [|s t IH]; intros rva H Hr; cbn [elf_rva_segments]; [split; [discriminate|intros o X; discriminate]|].
  apply Forall_cons_iff in H. destruct H as [Hs Ht]. destruct Hs as [Ho [Hv Hm]].
  destruct (checked_add64 (p_vaddr s) (p_memsz s)) as [e|] eqn:E; [|split; [discriminate|intros o X; discriminate]].
  apply checked_add64_some in E. destruct E as [-> E].
  destruct (p_vaddr s <=? rva) eqn:C1; cbn [andb].
  - destruct (rva <? p_vaddr s + p_memsz s) eqn:C2.
    + apply Z.leb_le in C1. apply Z.ltb_lt in C2. split; [discriminate|]. intros o X. injection X as X'.
      apply checked_add64_some in X'. destruct X' as [-> X']. exists s. repeat split; try lia. left; reflexivity.
    + destruct (IH rva Ht Hr) as [A B]. split; [exact A|]. intros o X. destruct (B o X) as [s' [Hin R]]. exists s'. split; [right; exact Hin|exact R].
  - destruct (IH rva Ht Hr) as [A B]. split; [exact A|]. intros o X. destruct (B o X) as [s' [Hin R]]. exists s'. split; [right; exact Hin|exact R].
Qed.

Lemma elf_sections_spec : forall secs rva, Forall shdr_ok secs -> 0 <= rva <= u64_max ->
  elf_rva_sections secs rva <> EUnderflow /\
  forall o, elf_rva_sections secs rva = EFound (Some o) ->
    exists s, In s secs /\ s_type s <> SHT_NOBITS /\ s_type s <> SHT_NULL /\
              s_addr s <= rva < s_addr s + s_size s /\ o = s_offset s + (rva - s_addr s) /\ 0 <= o <= u64_max.
Proof.
  induction secs as [|s t IH]; intros rva H Hr; cbn [elf_rva_sections]; [split; [discriminate|intros o X; discriminate]|].
  apply Forall_cons_iff in H. destruct H as [Hs Ht]. destruct Hs as [Ho [Hv Hm]].
  destruct (IH rva Ht Hr) as [A B].
  assert (Rec : elf_rva_sections t rva <> EUnderflow /\
                forall o, elf_rva_sections t rva = EFound (Some o) ->
                  exists s0, In s0 (s :: t) /\ s_type s0 <> SHT_NOBITS /\ s_type s0 <> SHT_NULL /\
                    s_addr s0 <= rva < s_addr s0 + s_size s0 /\ o = s_offset s0 + (rva - s_addr s0) /\ 0 <= o <= u64_max).
  { split; [exact A|]. intros o X. destruct (B o X) as [s' [Hin R]]. exists s'. split; [right; exact Hin|exact R]. }
  destruct ((s_type s =? SHT_NOBITS) || (s_type s =? SHT_NULL)) eqn:T; [exact Rec|].
  apply orb_false_iff in T. destruct T as [T1 T2]. apply Z.eqb_neq in T1. apply Z.eqb_neq in T2.
  destruct (checked_add64 (s_addr s) (s_size s)) as [e|] eqn:E; [|split; [discriminate|intros o X; discriminate]].
  apply checked_add64_some in E. destruct E as [-> E].
  destruct (s_addr s <=? rva) eqn:C1; cbn [andb]; [|exact Rec].
  destruct (rva <? s_addr s + s_size s) eqn:C2; [|exact Rec].
  apply Z.leb_le in C1. apply Z.ltb_lt in C2. split; [discriminate|]. intros o X. injection X as X'.
  apply checked_add64_some in X'. destruct X' as [-> X']. exists s. repeat split; try lia; auto. left; reflexivity.
Qed.

(* `rva - segment.virt_addr` never underflows and a returned offset is the
   file offset of the container plus the displacement, within u64 *)
Theorem elf_rva_no_underflow : forall exe segs secs rva,
  Forall phdr_ok segs -> Forall shdr_ok secs -> 0 <= rva <= u64_max ->
  elf_rva_to_offset exe segs secs rva <> EUnderflow /\
  forall o, elf_rva_to_offset exe segs secs rva = EFound (Some o) -> 0 <= o <= u64_max.
Proof.
  intros exe segs secs rva Hp Hs Hr. unfold elf_rva_to_offset. destruct exe.
  - destruct (elf_segments_spec segs rva Hp Hr) as [A B]. split; [exact A|]. intros o X. destruct (B o X) as [s [_ [_ [_ R]]]]. exact R.
  - destruct (elf_sections_spec secs rva Hs Hr) as [A B]. split; [exact A|]. intros o X. destruct (B o X) as [s [_ [_ [_ [_ [_ R]]]]]]. exact R.
Qed.

Example cores_example :
  coded_from_u32 5 ((7 + 1) * 8 + 3) = Some (3, 7) /\ coded_from_u32 5 7 = None /\
  pe_overlay [(1024, 512); (512, 4096); (4294967295, 4294967295)] 10000 = (0, 0) /\
  pe_overlay [(1024, 512); (512, 4096)] 10000 = (4608, 5392) /\
  lnk_length_data 100 2 1 = LTooLarge /\ lnk_length_data 100 2 101 = LIncomplete /\ lnk_length_data 100 4 100 = LTake 96 /\
  elf_rva_to_offset true [mkPhdr 0 4194304 1000; mkPhdr 4096 6291456 500] [] 6291460 = EFound (Some 4100) /\
  elf_rva_to_offset true [mkPhdr 0 u64_max 5; mkPhdr 4096 10 500] [] 12 = EFound None.
Proof. vm_compute. repeat split. Qed.
