(* C11 - utils::leb128::{uleb128, sleb128} (lib/src/modules/utils/leb128.rs)
   exactly as coded: the accumulator is OR-ed with `b.checked_shl(shift)`
   (None iff shift >= 64: Err(TooLarge); bits shifted out are silently lost),
   `shift += 7` is a plain u32 addition, running out of input is an error.
   Definitions only. *)
From Coq Require Import List ZArith Bool Lia.
Import ListNotations.
Local Open Scope Z_scope.

Definition u64_mod : Z := 2 ^ 64.
Definition wrap_i64 (z : Z) : Z := (z + 2 ^ 63) mod 2 ^ 64 - 2 ^ 63.

Inductive lres := LOk (value : Z) (consumed : nat) | LErrEof | LErrTooLarge | LShiftOverflow.

(* uleb128: val : u64, shift : u32 *)
Fixpoint uleb_go (bytes : list Z) (val shift : Z) (consumed : nat) : lres :=
  match bytes with
  | [] => LErrEof
  | byte :: t =>
      if 64 <=? shift then LErrTooLarge                      (* checked_shl -> None *)
      else
        let val' := Z.lor val (((byte mod 128) * 2 ^ shift) mod u64_mod) in
        if byte <? 128 then LOk val' (S consumed)
        else if 2 ^ 32 <=? shift + 7 then LShiftOverflow     (* `shift += 7` on u32 *)
        else uleb_go t val' (shift + 7) (S consumed)
  end.
Definition uleb128 (bytes : list Z) : lres := uleb_go bytes 0 0 0.

(* sleb128: val : i64, shift : u32; the shift is incremented before the
   termination test, the sign is extended when shift < 64 and bit 6 is set *)
Fixpoint sleb_go (bytes : list Z) (val shift : Z) (consumed : nat) : lres :=
  match bytes with
  | [] => LErrEof
  | byte :: t =>
      if 64 <=? shift then LErrTooLarge
      else
        let val' := Z.lor val (wrap_i64 ((byte mod 128) * 2 ^ shift)) in
        if 2 ^ 32 <=? shift + 7 then LShiftOverflow
        else
          let shift' := shift + 7 in
          if byte <? 128
          then LOk (if (shift' <? 64) && (64 <=? byte mod 128) then Z.lor val' (- 2 ^ shift') else val') (S consumed)
          else sleb_go t val' shift' (S consumed)
  end.
Definition sleb128 (bytes : list Z) : lres := sleb_go bytes 0 0 0.

(* reference encoders *)
Fixpoint uleb_encode_go (fuel : nat) (n : Z) : list Z :=
  match fuel with
  | O => []
  | S f => if n <? 128 then [n] else (n mod 128 + 128) :: uleb_encode_go f (n / 128)
  end.
Definition uleb_encode (n : Z) : list Z := uleb_encode_go 10 n.

Fixpoint sleb_encode_go (fuel : nat) (n : Z) : list Z :=
  match fuel with
  | O => []
  | S f => let b := n mod 128 in
           let r := n / 128 in                     (* arithmetic shift: floor *)
           if ((r =? 0) && (b <? 64)) || ((r =? -1) && (64 <=? b)) then [b] else (b + 128) :: sleb_encode_go f r
  end.
Definition sleb_encode (n : Z) : list Z := sleb_encode_go 10 n.

Definition bytes_ok (l : list Z) : Prop := Forall (fun b => 0 <= b < 256) l.
