(* C11 - uleb128 / sleb128 as coded: no arithmetic overflow, at most 10 bytes
   consumed, result in range; decode (encode n) = n for every u64 (uleb). *)
From Coq Require Import List ZArith Bool Lia.
From YV Require Import Modules.Leb.
Import ListNotations.
Local Open Scope Z_scope.

Lemma lor_bound : forall a b n, 0 <= n -> 0 <= a < 2 ^ n -> 0 <= b < 2 ^ n -> 0 <= Z.lor a b < 2 ^ n.
Proof.
  intros a b n Hn Ha Hb. split; [apply Z.lor_nonneg; lia|].
  destruct (Z.eq_dec (Z.lor a b) 0) as [E|E]; [rewrite E; apply Z.pow_pos_nonneg; lia|].
  assert (0 < Z.lor a b) by (pose proof (proj2 (Z.lor_nonneg a b) (conj (proj1 Ha) (proj1 Hb))); lia).
  assert (0 < n).
  { destruct (Z.eq_dec n 0) as [->|]; [|lia]. change (2 ^ 0) with 1 in *.
    assert (a = 0) by lia. assert (b = 0) by lia. subst. cbn in E. congruence. }
  apply Z.log2_lt_pow2; [assumption|]. rewrite Z.log2_lor by lia.
  apply Z.max_lub_lt.
  - destruct (Z.eq_dec a 0) as [->|]; [cbn; lia|]. apply Z.log2_lt_pow2; lia.
  - destruct (Z.eq_dec b 0) as [->|]; [cbn; lia|]. apply Z.log2_lt_pow2; lia.
Qed.

(* OR-ing in a group above the bits collected so far is an addition *)
Lemma lor_disjoint : forall v m s, 0 <= s -> 0 <= v < 2 ^ s -> 0 <= m -> Z.lor v (m * 2 ^ s) = v + m * 2 ^ s.
Proof.
  intros v m s Hs Hv Hm.
  assert (L : Z.land v (m * 2 ^ s) = 0).
  { apply Z.bits_inj'. intros i Hi. rewrite Z.land_spec, Z.bits_0.
    destruct (Z_lt_le_dec i s) as [Lt|Ge].
    - rewrite (Z.mul_pow2_bits_low m s i Lt). apply andb_false_r.
    - assert (Z.testbit v i = false) as ->; [|reflexivity].
      destruct (Z.eq_dec v 0) as [->|Nz]; [apply Z.bits_0|].
      apply Z.bits_above_log2; [lia|]. assert (Z.log2 v < s) by (apply Z.log2_lt_pow2; lia). lia. }
  rewrite <- (Z.lxor_lor _ _ L). symmetry. apply Z.add_nocarry_lxor. exact L.
Qed.

(* ------------------------------------------------------------ uleb128: bounds *)
Lemma uleb_go_bounds : forall bytes k val c,
  0 <= k -> 0 <= val < 2 ^ 64 ->
  match uleb_go bytes val (7 * k) c with
  | LOk v n => 0 <= v < 2 ^ 64 /\ Z.of_nat n <= Z.of_nat c + 10 - k
  | LShiftOverflow => False
  | _ => True
  end.
Proof.
  induction bytes as [|byte t IH]; intros k val c Hk Hv; cbn [uleb_go]; [exact I|].
  destruct (64 <=? 7 * k) eqn:E; [exact I|]. apply Z.leb_gt in E.
  assert (Hv' : 0 <= Z.lor val ((byte mod 128 * 2 ^ (7 * k)) mod u64_mod) < 2 ^ 64).
  { apply lor_bound; [lia|exact Hv|]. unfold u64_mod. apply Z.mod_pos_bound. lia. }
  destruct (byte <? 128).
  - split; [exact Hv'|lia].
  - assert (7 * k + 7 < 2 ^ 32) by (assert (2 ^ 32 = 4294967296) by reflexivity; lia).
    destruct (2 ^ 32 <=? 7 * k + 7) eqn:O; [apply Z.leb_le in O; lia|].
    replace (7 * k + 7) with (7 * (k + 1)) by lia.
    specialize (IH (k + 1) _ (S c) ltac:(lia) Hv').
    destruct (uleb_go t _ (7 * (k + 1)) (S c)); try exact IH. destruct IH as [A B]. split; [exact A|lia].
Qed.

(* no u32 overflow of the shift counter, at most 10 bytes consumed, result is a u64 *)
Theorem uleb_no_overflow : forall bytes,
  match uleb128 bytes with
  | LOk v n => 0 <= v < 2 ^ 64 /\ (n <= 10)%nat
  | LShiftOverflow => False
  | _ => True
  end.
Proof.
  intros bytes. unfold uleb128. pose proof (uleb_go_bounds bytes 0 0 0%nat ltac:(lia) ltac:(split; [lia|apply Z.pow_pos_nonneg; lia])) as H.
  change (7 * 0) with 0 in H. destruct (uleb_go bytes 0 0 0); try exact H. destruct H as [A B]. split; [exact A|lia].
Qed.

(* ------------------------------------------------------------ uleb128: round trip *)
Lemma uleb_roundtrip_go : forall fuel m val k c rest,
  0 <= k -> 0 <= val < 2 ^ (7 * k) -> 0 <= m < 128 ^ Z.of_nat fuel -> (k = 0 \/ 0 < m) ->
  val + m * 2 ^ (7 * k) < 2 ^ 64 -> (0 < fuel)%nat ->
  uleb_go (uleb_encode_go fuel m ++ rest) val (7 * k) c
  = LOk (val + m * 2 ^ (7 * k)) (c + length (uleb_encode_go fuel m)).
Proof.
  induction fuel as [|f IH]; intros m val k c rest Hk Hv Hm Hkm Htot Hf; [lia|].
  assert (P : 0 < 2 ^ (7 * k)) by (apply Z.pow_pos_nonneg; lia).
  assert (S64 : 7 * k < 64).
  { destruct Hkm as [->|Hpos]; [lia|]. destruct (Z_lt_le_dec (7 * k) 64); [assumption|].
    assert (2 ^ 64 <= 2 ^ (7 * k)) by (apply Z.pow_le_mono_r; lia). nia. }
  cbn [uleb_encode_go]. destruct (m <? 128) eqn:Em.
  - pose proof Em as Em'. apply Z.ltb_lt in Em. cbn [app uleb_go].
    destruct (64 <=? 7 * k) eqn:E; [apply Z.leb_le in E; lia|].
    rewrite (Z.mod_small m 128) by lia.
    assert (Hs : (m * 2 ^ (7 * k)) mod u64_mod = m * 2 ^ (7 * k)) by (unfold u64_mod; apply Z.mod_small; nia).
    rewrite Hs, lor_disjoint by lia. rewrite Em'. cbn [length]. f_equal. lia.
  - apply Z.ltb_ge in Em. cbn [app uleb_go].
    destruct (64 <=? 7 * k) eqn:E; [apply Z.leb_le in E; lia|].
    pose proof (Z.mod_pos_bound m 128 ltac:(lia)) as Hb. pose proof (Z.div_mod m 128 ltac:(lia)) as Hd.
    replace ((m mod 128 + 128) mod 128) with (m mod 128)
      by (rewrite <- (Z.mod_small (m mod 128) 128) at 1 by lia; rewrite Z.add_mod, Z.mod_same, Z.add_0_r, !Z.mod_mod by lia; reflexivity).
    assert (Hs : (m mod 128 * 2 ^ (7 * k)) mod u64_mod = m mod 128 * 2 ^ (7 * k)) by (unfold u64_mod; apply Z.mod_small; nia).
    rewrite Hs, lor_disjoint by lia.
    destruct (m mod 128 + 128 <? 128) eqn:E2; [apply Z.ltb_lt in E2; lia|].
    assert (7 * k + 7 < 2 ^ 32) by (assert (2 ^ 32 = 4294967296) by reflexivity; lia).
    destruct (2 ^ 32 <=? 7 * k + 7) eqn:O; [apply Z.leb_le in O; lia|].
    replace (7 * k + 7) with (7 * (k + 1)) by lia.
    assert (P2 : 2 ^ (7 * (k + 1)) = 128 * 2 ^ (7 * k)) by (replace (7 * (k + 1)) with (7 + 7 * k) by lia; rewrite Z.pow_add_r by lia; reflexivity).
    assert (Hq : 0 < m / 128) by (apply Z.div_str_pos; lia).
    assert (Hf0 : (0 < f)%nat).
    { destruct f; [|lia]. change (128 ^ Z.of_nat 1) with 128 in Hm. lia. }
    rewrite (IH (m / 128) (val + m mod 128 * 2 ^ (7 * k)) (k + 1) (S c) rest); try lia.
    + cbn [length]. f_equal; [rewrite P2; nia|lia].
    + rewrite P2. nia.
    + split; [lia|]. replace (Z.of_nat (S f)) with (1 + Z.of_nat f) in Hm by lia. rewrite Z.pow_add_r in Hm by lia.
      change (128 ^ 1) with 128 in Hm. apply Z.div_lt_upper_bound; lia.
Qed.

Theorem uleb_roundtrip : forall n rest, 0 <= n < 2 ^ 64 ->
  uleb128 (uleb_encode n ++ rest) = LOk n (length (uleb_encode n)).
Proof.
  intros n rest Hn. unfold uleb128, uleb_encode.
  pose proof (uleb_roundtrip_go 10 n 0 0 0%nat rest ltac:(lia) ltac:(cbn; lia)) as H.
  change (7 * 0) with 0 in H. rewrite Z.mul_1_r in H. cbn [Z.add Nat.add] in H. apply H; try lia.
Qed.

(* a tenth byte above 1 loses bits silently instead of failing (the doc
   comment promises a failure for numbers above 2^64 - 1) *)
Example uleb_silent_truncation :
  uleb128 [255; 255; 255; 255; 255; 255; 255; 255; 255; 127] = LOk (2 ^ 64 - 1) 10 /\
  uleb128 [128; 128; 128; 128; 128; 128; 128; 128; 128; 2] = LOk 0 10 /\
  uleb128 [128; 128; 128; 128; 128; 128; 128; 128; 128; 128; 1] = LErrTooLarge.
Proof. vm_compute. repeat split. Qed.

(* ------------------------------------------------------------ sleb128: bounds *)
Lemma wrap_i64_range : forall z, - 2 ^ 63 <= wrap_i64 z < 2 ^ 63.
Proof. intro z. unfold wrap_i64. pose proof (Z.mod_pos_bound (z + 2 ^ 63) (2 ^ 64) ltac:(lia)). lia. Qed.

(* OR of two i64 values is an i64 *)
Lemma i64_iff_hi : forall z, - 2 ^ 63 <= z < 2 ^ 63 <-> (Z.shiftr z 63 = 0 \/ Z.shiftr z 63 = -1).
Proof.
  intro z. rewrite Z.shiftr_div_pow2 by lia. change (2 ^ 63) with 9223372036854775808.
  split; intro H; Z.div_mod_to_equations; lia.
Qed.

Lemma lor_i64 : forall a b, - 2 ^ 63 <= a < 2 ^ 63 -> - 2 ^ 63 <= b < 2 ^ 63 -> - 2 ^ 63 <= Z.lor a b < 2 ^ 63.
Proof.
  intros a b Ha Hb. apply i64_iff_hi in Ha. apply i64_iff_hi in Hb. apply i64_iff_hi.
  rewrite Z.shiftr_lor. destruct Ha as [-> | ->], Hb as [-> | ->]; cbn; auto.
Qed.

Lemma sleb_go_bounds : forall bytes k val c,
  0 <= k -> - 2 ^ 63 <= val < 2 ^ 63 ->
  match sleb_go bytes val (7 * k) c with
  | LOk v n => - 2 ^ 63 <= v < 2 ^ 63 /\ Z.of_nat n <= Z.of_nat c + 10 - k
  | LShiftOverflow => False
  | _ => True
  end.
Proof.
  induction bytes as [|byte t IH]; intros k val c Hk Hv; cbn [sleb_go]; [exact I|].
  destruct (64 <=? 7 * k) eqn:E; [exact I|]. apply Z.leb_gt in E.
  assert (Hv' : - 2 ^ 63 <= Z.lor val (wrap_i64 (byte mod 128 * 2 ^ (7 * k))) < 2 ^ 63)
    by (apply lor_i64; [exact Hv|apply wrap_i64_range]).
  assert (7 * k + 7 < 2 ^ 32) by (assert (2 ^ 32 = 4294967296) by reflexivity; lia).
  destruct (2 ^ 32 <=? 7 * k + 7) eqn:O; [apply Z.leb_le in O; lia|].
  destruct (byte <? 128).
  - split; [|lia]. destruct ((7 * k + 7 <? 64) && (64 <=? byte mod 128)) eqn:S; [|exact Hv'].
    apply andb_true_iff in S. destruct S as [S _]. apply Z.ltb_lt in S.
    apply lor_i64; [exact Hv'|].
    assert (0 < 2 ^ (7 * k + 7)) by (apply Z.pow_pos_nonneg; lia).
    assert (2 ^ (7 * k + 7) <= 2 ^ 63) by (apply Z.pow_le_mono_r; lia). lia.
  - replace (7 * k + 7) with (7 * (k + 1)) by lia.
    specialize (IH (k + 1) _ (S c) ltac:(lia) Hv').
    destruct (sleb_go t _ (7 * (k + 1)) (S c)); try exact IH. destruct IH as [A B]. split; [exact A|lia].
Qed.

(* no u32 overflow of the shift counter, at most 10 bytes consumed, result is an i64 *)
Theorem sleb_no_overflow : forall bytes,
  match sleb128 bytes with
  | LOk v n => - 2 ^ 63 <= v < 2 ^ 63 /\ (n <= 10)%nat
  | LShiftOverflow => False
  | _ => True
  end.
Proof.
  intros bytes. unfold sleb128. pose proof (sleb_go_bounds bytes 0 0 0%nat ltac:(lia) ltac:(lia)) as H.
  change (7 * 0) with 0 in H. destruct (sleb_go bytes 0 0 0); try exact H. destruct H as [A B]. split; [exact A|lia].
Qed.

(* round trip on the boundary values of every encoded length (finite check;
   the general statement for sleb128 is covered by K on generated values) *)
Example sleb_roundtrip_samples :
  forallb (fun n => match sleb128 (sleb_encode n ++ [255]) with LOk v c => (v =? n) && Nat.eqb c (length (sleb_encode n)) | _ => false end)
    [0; 1; -1; 63; 64; -64; -65; 8191; 8192; -8192; -8193; 2 ^ 31; - 2 ^ 31; 2 ^ 62; - 2 ^ 62 - 1; 2 ^ 63 - 1; - 2 ^ 63; 2 ^ 63 - 2 ^ 56; - 2 ^ 63 + 12345] = true.
Proof. vm_compute. reflexivity. Qed.
