(* Cases for C11 (written by harness/src/bin/c11.rs).
   K: rva_to_offset of Modules/Rva.v recomputes the file offsets that the PE
   module reported for the RVAs visible in its output (entry point, exports,
   resources), on the section table of the same - possibly mutated - file.
   S: the run record of one input (supporting test): the child returned, the
   three invocations and the two scans agreed, the first invocation stayed
   within the affine wall-time bound. *)
From Coq Require Import List ZArith Bool.
From YV Require Import Modules.Rva Modules.Leb Modules.VarInt Modules.Cores.
Import ListNotations.
Local Open Scope Z_scope.

Inductive case :=
| KRun (returned deterministic time_ok : bool)
| KRva (ss : list section) (fa sa : Z) (pairs : list (Z * option Z))
(* arithmetic cores, observed through the hook lib/src/modules/verif_c11*.rs or
   in the modules' public output *)
| KUleb (bytes : list Z) (obs : Leb.lres)
| KSleb (bytes : list Z) (obs : Leb.lres)
| KVarU (bytes : list Z) (obs : option (Z * nat))
| KVarS (bytes : list Z) (obs : option (Z * nat))
| KCoded (ntables rows : Z) (bytes : list Z) (obs : option (nat * Z * Z))
| KTblIdx (rows : Z) (bytes : list Z) (obs : option (nat * Z))
| KLnk (size_len : Z) (bytes : list Z) (obs : option Cores.lres)
| KOverlay (secs : list (Z * Z)) (file_len off size : Z)
(* a count reported by a module against the bound the property demands for it *)
| KCount (bound observed : Z)
(* one carrier file, `mutations` single-field boundary mutations of it: how many invocations
   returned, how many returned and stayed within the time and memory bounds *)
| KSweep (mutations returned within_bounds : Z)
| KElf (exe : bool) (segs : list phdr) (secs : list shdr) (rva : Z) (obs : option Z).

Definition oz_eqb (a b : option Z) : bool :=
  match a, b with None, None => true | Some x, Some y => x =? y | _, _ => false end.

Definition lres_eqb (a b : Leb.lres) : bool :=
  match a, b with
  | LOk v n, LOk w m => (v =? w) && Nat.eqb n m
  | LErrEof, LErrEof | LErrTooLarge, LErrTooLarge => true
  | _, _ => false
  end.
Definition ozn_eqb (a b : option (Z * nat)) : bool :=
  match a, b with None, None => true | Some (v, n), Some (w, m) => (v =? w) && Nat.eqb n m | _, _ => false end.
(* little-endian value of the first n bytes, None if there are fewer *)
Fixpoint le_bytes (n : nat) (l : list Z) : option Z :=
  match n, l with
  | O, _ => Some 0
  | S k, b :: t => match le_bytes k t with Some r => Some (b + 256 * r) | None => None end
  | S _, [] => None
  end.
Definition coded_model (ntables rows : Z) (bytes : list Z) : option (nat * Z * Z) :=
  match coded_index_width ntables rows with
  | WBytes w => match le_bytes (Z.to_nat w) bytes with
                | Some u => match coded_from_u32 ntables u with Some (t, r) => Some (Z.to_nat w, t, r) | None => None end
                | None => None
                end
  | _ => None
  end.
Definition tblidx_model (rows : Z) (bytes : list Z) : option (nat * Z) :=
  let w := table_index_width rows in
  match le_bytes (Z.to_nat w) bytes with Some u => Some (Z.to_nat w, Z.max 0 (u - 1)) | None => None end.
Definition lnk_model (size_len : Z) (bytes : list Z) : option Cores.lres :=
  match le_bytes (Z.to_nat size_len) bytes with
  | Some size => Some (lnk_length_data (Z.of_nat (List.length bytes)) size_len size)
  | None => None                                   (* the size field itself is missing *)
  end.
Definition clres_eqb (a b : option Cores.lres) : bool :=
  match a, b with
  | None, None => true
  | Some (LTake x), Some (LTake y) => x =? y
  | Some LTooLarge, Some LTooLarge | Some LIncomplete, Some LIncomplete => true
  | _, _ => false
  end.

Definition check_case (k : case) : bool :=
  match k with
  | KRun _ _ _ => true
  | KCount _ _ => true
  | KSweep _ _ _ => true
  | KUleb b obs => lres_eqb (uleb128 b) obs
  | KSleb b obs => lres_eqb (sleb128 b) obs
  | KVarU b obs => ozn_eqb (var_uint b) obs
  | KVarS b obs => ozn_eqb (var_sint b) obs
  | KCoded nt rows b obs =>
      match coded_model nt rows b, obs with
      | None, None => true
      | Some (c, t, r), Some (c', t', r') => Nat.eqb c c' && (t =? t') && (r =? r')
      | _, _ => false
      end
  | KTblIdx rows b obs =>
      match tblidx_model rows b, obs with
      | None, None => true
      | Some (c, r), Some (c', r') => Nat.eqb c c' && (r =? r')
      | _, _ => false
      end
  | KLnk sl b obs => clres_eqb (lnk_model sl b) obs
  | KOverlay secs len off size => let '(o, z) := pe_overlay secs len in (o =? off) && (z =? size)
  | KElf exe segs secs rva obs => oz_eqb (eres_value (elf_rva_to_offset exe segs secs rva)) obs
  | KRva ss fa sa pairs =>
      forallb (fun p => match rva_to_offset (fst p) ss fa sa with
                        | Returned r => oz_eqb r (snd p)
                        | Underflow _ => false
                        end) pairs
  end.

Definition spec_case (k : case) : bool :=
  match k with
  | KRun r d t => r && d && t
  | KCount bound observed => observed <=? bound
  | KSweep n r w => (r =? n) && (w =? n)
  | _ => true
  end.
