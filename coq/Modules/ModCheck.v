(* Cases for C11 (written by harness/src/bin/c11.rs).
   K: rva_to_offset of Modules/Rva.v recomputes the file offsets that the PE
   module reported for the RVAs visible in its output (entry point, exports,
   resources), on the section table of the same - possibly mutated - file.
   S: the run record of one input (supporting test): the child returned, the
   three invocations and the two scans agreed, the first invocation stayed
   within the affine wall-time bound. *)
From Coq Require Import List ZArith Bool.
From YV Require Import Modules.Rva.
Import ListNotations.
Local Open Scope Z_scope.

Inductive case :=
| KRun (returned deterministic time_ok : bool)
| KRva (ss : list section) (fa sa : Z) (pairs : list (Z * option Z)).

Definition oz_eqb (a b : option Z) : bool :=
  match a, b with None, None => true | Some x, Some y => x =? y | _, _ => false end.

Definition check_case (k : case) : bool :=
  match k with
  | KRun _ _ _ => true
  | KRva ss fa sa pairs =>
      forallb (fun p => match rva_to_offset (fst p) ss fa sa with
                        | Returned r => oz_eqb r (snd p)
                        | Underflow _ => false
                        end) pairs
  end.

Definition spec_case (k : case) : bool :=
  match k with
  | KRun r d t => r && d && t
  | KRva _ _ _ _ => true
  end.
