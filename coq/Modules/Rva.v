(* C11 - pe::rva_to_offset (lib/src/modules/pe/rva2off.rs) exactly as coded, with
   the u32 arithmetic made explicit: every subtraction that the source writes
   with a plain `-` / `-=` is modelled by [usub], which reports an underflow
   (a panic in the profile with overflow checks, a wrap otherwise) instead of
   hiding it; saturating_add / saturating_sub / checked_rem as in Rust.
   Definitions only. *)
From Coq Require Import List ZArith Bool Lia.
Import ListNotations.
Local Open Scope Z_scope.

Definition u32_max : Z := 2 ^ 32 - 1.
Definition is_u32 (z : Z) : bool := (0 <=? z) && (z <=? u32_max).

Record section := mkSection { s_va : Z; s_vsize : Z; s_raw_off : Z; s_raw_size : Z }.
Definition section_ok (s : section) : bool :=
  is_u32 (s_va s) && is_u32 (s_vsize s) && is_u32 (s_raw_off s) && is_u32 (s_raw_size s).

Definition sat_add (a b : Z) : Z := Z.min u32_max (a + b).
Definition sat_sub (a b : Z) : Z := Z.max 0 (a - b).
(* plain u32 subtraction: None = underflow *)
Definition usub (a b : Z) : option Z := if b <=? a then Some (a - b) else None.

(* result of running the function: the value it returns, or the arithmetic
   step that under/overflowed *)
Inductive outcome := Returned (r : option Z) | Underflow (step : nat).

Fixpoint min_va (ss : list section) : option Z :=
  match ss with
  | [] => None
  | s :: t => match min_va t with None => Some (s_va s) | Some m => Some (Z.min (s_va s) m) end
  end.

(* loop state: section_rva, section_offset, section_raw_size *)
Definition lstate := (Z * Z * Z)%type.

(* body of the loop for one section; None = `section_offset -= rem` underflowed *)
Definition step (rva fa sa : Z) (st : lstate) (s : section) : option lstate :=
  let '(section_rva, section_offset, section_raw_size) := st in
  let size := Z.max (s_vsize s) (s_raw_size s) in
  let start := s_va s in
  let end_ := sat_add start size in
  if (section_rva <=? s_va s) && ((start <=? rva) && (rva <? end_)) then
    let off := s_raw_off s in
    let fa' := Z.min fa 512 in
    (* if let Some(rem) = section_offset.checked_rem(file_alignment) { section_offset -= rem; } *)
    match (if fa' =? 0 then Some off else usub off (off mod fa')) with
    | None => None
    | Some off1 =>
        let off2 := if 4096 <=? sa then sat_sub off1 (off1 mod 512) else off1 in
        Some (s_va s, off2, s_raw_size s)
    end
  else Some st.

Fixpoint loop (rva fa sa : Z) (st : lstate) (ss : list section) : option lstate :=
  match ss with
  | [] => Some st
  | s :: t => match step rva fa sa st s with None => None | Some st' => loop rva fa sa st' t end
  end.

(* the part after the early return *)
Definition after_loop (rva : Z) (ss : list section) (fa sa : Z) : outcome :=
  match loop rva fa sa (0, 0, 0) ss with
  | None => Underflow 1                                   (* `section_offset -= rem` *)
  | Some (section_rva, section_offset, section_raw_size) =>
      if section_raw_size <=? sat_sub rva section_rva then Returned None
      else match usub rva section_rva with                (* `rva - section_rva` *)
           | None => Underflow 2
           | Some d => Returned (Some (sat_add section_offset d))
           end
  end.

Definition rva_to_offset (rva : Z) (ss : list section) (fa sa : Z) : outcome :=
  match min_va ss with
  | Some x => if rva <? x then Returned (Some rva) else after_loop rva ss fa sa
  | None => after_loop rva ss fa sa
  end.

(* the section the loop settles on: the last one, in table order, that
   contains the rva and whose va is not below the previously chosen one *)
Fixpoint chosen (rva : Z) (cur_rva : Z) (cur : option section) (ss : list section) : option section :=
  match ss with
  | [] => cur
  | s :: t =>
      let end_ := sat_add (s_va s) (Z.max (s_vsize s) (s_raw_size s)) in
      if (cur_rva <=? s_va s) && ((s_va s <=? rva) && (rva <? end_))
      then chosen rva (s_va s) (Some s) t else chosen rva cur_rva cur t
  end.

(* the file offset the code intends for the start of the section's raw data *)
Definition aligned_off (s : section) (fa sa : Z) : Z :=
  let off := s_raw_off s in
  let fa' := Z.min fa 512 in
  let off1 := if fa' =? 0 then off else off - off mod fa' in
  if 4096 <=? sa then off1 - off1 mod 512 else off1.
