(* C11 - rva_to_offset never under/overflows, and what it returns. *)
From Coq Require Import List ZArith Bool Lia.
From YV Require Import Modules.Rva.
Import ListNotations.
Local Open Scope Z_scope.

Lemma is_u32_iff : forall z, is_u32 z = true <-> 0 <= z <= u32_max.
Proof. intro z. unfold is_u32. rewrite andb_true_iff, !Z.leb_le. tauto. Qed.

Lemma section_ok_iff : forall s, section_ok s = true ->
  0 <= s_va s <= u32_max /\ 0 <= s_vsize s <= u32_max /\ 0 <= s_raw_off s <= u32_max /\ 0 <= s_raw_size s <= u32_max.
Proof.
  intros s H. unfold section_ok in H.
  apply andb_true_iff in H. destruct H as [H H4]. apply andb_true_iff in H. destruct H as [H H3].
  apply andb_true_iff in H. destruct H as [H1 H2].
  apply is_u32_iff in H1. apply is_u32_iff in H2. apply is_u32_iff in H3. apply is_u32_iff in H4. tauto.
Qed.

(* the state the loop is in after having settled on [cur] *)
Definition st_of (fa sa : Z) (cur : option section) : lstate :=
  match cur with None => (0, 0, 0) | Some s => (s_va s, aligned_off s fa sa, s_raw_size s) end.
Definition rva_of (cur : option section) : Z := match cur with None => 0 | Some s => s_va s end.

Lemma mod_le_self : forall a b, 0 <= a -> 0 < b -> a mod b <= a.
Proof. intros a b Ha Hb. apply Z.mod_le; lia. Qed.

Lemma step_spec : forall rva fa sa cur s,
  0 <= fa -> section_ok s = true ->
  step rva fa sa (st_of fa sa cur) s =
  Some (st_of fa sa (let end_ := sat_add (s_va s) (Z.max (s_vsize s) (s_raw_size s)) in
                     if (rva_of cur <=? s_va s) && ((s_va s <=? rva) && (rva <? end_)) then Some s else cur)).
Proof.
  intros rva fa sa cur s Hfa Hs. apply section_ok_iff in Hs. destruct Hs as [Hva [Hvs [Hro Hrs]]].
  unfold step.
  assert (E : fst (fst (st_of fa sa cur)) = rva_of cur) by (destruct cur; reflexivity).
  destruct (st_of fa sa cur) as [[srva soff] sraw] eqn:Est. cbn [fst] in E. subst srva. cbn zeta.
  destruct ((rva_of cur <=? s_va s) && ((s_va s <=? rva) && (rva <? sat_add (s_va s) (Z.max (s_vsize s) (s_raw_size s))))); [|rewrite Est; reflexivity].
  cbn [st_of]. unfold aligned_off.
  destruct (Z.min fa 512 =? 0) eqn:F0.
  - destruct (4096 <=? sa); [|reflexivity].
    unfold sat_sub. pose proof (mod_le_self (s_raw_off s) 512 ltac:(lia) ltac:(lia)).
    rewrite Z.max_r by lia. reflexivity.
  - apply Z.eqb_neq in F0. assert (0 < Z.min fa 512) by lia.
    pose proof (mod_le_self (s_raw_off s) (Z.min fa 512) ltac:(lia) H) as Hm.
    pose proof (Z.mod_pos_bound (s_raw_off s) (Z.min fa 512) H) as Hp.
    unfold usub. destruct (s_raw_off s mod Z.min fa 512 <=? s_raw_off s) eqn:L; [|apply Z.leb_gt in L; lia].
    destruct (4096 <=? sa); [|reflexivity].
    set (o1 := s_raw_off s - s_raw_off s mod Z.min fa 512) in *.
    pose proof (mod_le_self o1 512 ltac:(lia) ltac:(lia)).
    unfold sat_sub. rewrite Z.max_r by lia. reflexivity.
Qed.

Lemma loop_spec : forall rva fa sa ss cur,
  0 <= fa -> Forall (fun s => section_ok s = true) ss ->
  loop rva fa sa (st_of fa sa cur) ss = Some (st_of fa sa (chosen rva (rva_of cur) cur ss)).
Proof.
  intros rva fa sa ss. induction ss as [|s t IH]; intros cur Hfa Hss; [reflexivity|].
  apply Forall_cons_iff in Hss. destruct Hss as [Hs Ht].
  cbn [loop chosen]. rewrite (step_spec rva fa sa cur s Hfa Hs). cbn zeta.
  destruct ((rva_of cur <=? s_va s) && ((s_va s <=? rva) && (rva <? sat_add (s_va s) (Z.max (s_vsize s) (s_raw_size s))))).
  - rewrite (IH (Some s) Hfa Ht). reflexivity.
  - apply (IH cur Hfa Ht).
Qed.

(* the section settled on contains the rva from below *)
Lemma chosen_le : forall rva ss cur_rva cur,
  (forall s, cur = Some s -> s_va s <= rva) ->
  forall s, chosen rva cur_rva cur ss = Some s -> s_va s <= rva.
Proof.
  intros rva ss. induction ss as [|x t IH]; intros cur_rva cur Hc s H; cbn [chosen] in H; [apply Hc; exact H|].
  destruct ((cur_rva <=? s_va x) && ((s_va x <=? rva) && (rva <? sat_add (s_va x) (Z.max (s_vsize x) (s_raw_size x))))) eqn:E.
  - apply andb_true_iff in E. destruct E as [_ E]. apply andb_true_iff in E. destruct E as [E _]. apply Z.leb_le in E.
    refine (IH (s_va x) (Some x) _ s H). intros s0 H0. inversion H0; subst. exact E.
  - apply (IH _ _ Hc s H).
Qed.

Lemma chosen_in : forall rva ss cur_rva cur s,
  chosen rva cur_rva cur ss = Some s -> cur = Some s \/ In s ss.
Proof.
  intros rva ss. induction ss as [|x t IH]; intros cur_rva cur s H; cbn [chosen] in H; [left; exact H|].
  destruct ((cur_rva <=? s_va x) && ((s_va x <=? rva) && (rva <? sat_add (s_va x) (Z.max (s_vsize x) (s_raw_size x))))).
  - destruct (IH _ _ _ H) as [A|A]; [inversion A; subst; right; left; reflexivity|right; right; exact A].
  - destruct (IH _ _ _ H) as [A|A]; [left; exact A|right; right; exact A].
Qed.

(* no arithmetic step of the function under- or overflows, for any section
   table and any rva *)
Theorem rva_no_overflow : forall rva ss fa sa,
  is_u32 rva = true -> 0 <= fa -> Forall (fun s => section_ok s = true) ss ->
  exists r, rva_to_offset rva ss fa sa = Returned r.
Proof.
  intros rva ss fa sa Hr Hfa Hss. apply is_u32_iff in Hr.
  assert (A : exists r, after_loop rva ss fa sa = Returned r).
  { unfold after_loop. change (0, 0, 0) with (st_of fa sa None).
    rewrite (loop_spec rva fa sa ss None Hfa Hss). cbn [rva_of].
    destruct (chosen rva 0 None ss) as [s|] eqn:C; cbn [st_of].
    - pose proof (chosen_le rva ss 0 None ltac:(discriminate) s C) as Hle.
      destruct (s_raw_size s <=? sat_sub rva (s_va s)); [eexists; reflexivity|].
      unfold usub. destruct (s_va s <=? rva) eqn:L; [eexists; reflexivity|apply Z.leb_gt in L; lia].
    - destruct (0 <=? sat_sub rva 0); [eexists; reflexivity|].
      unfold usub. destruct (0 <=? rva) eqn:L; [eexists; reflexivity|apply Z.leb_gt in L; lia]. }
  unfold rva_to_offset. destruct (min_va ss) as [x|]; [|exact A].
  destruct (rva <? x); [eexists; reflexivity|exact A].
Qed.

Lemma aligned_off_bounds : forall s fa sa, 0 <= fa -> section_ok s = true ->
  0 <= aligned_off s fa sa <= s_raw_off s /\ s_raw_off s - aligned_off s fa sa < 1024.
Proof.
  intros s fa sa Hfa Hs. apply section_ok_iff in Hs. destruct Hs as [_ [_ [Hro _]]].
  unfold aligned_off.
  assert (H1 : 0 <= (if Z.min fa 512 =? 0 then s_raw_off s else s_raw_off s - s_raw_off s mod Z.min fa 512) <= s_raw_off s /\
               s_raw_off s - (if Z.min fa 512 =? 0 then s_raw_off s else s_raw_off s - s_raw_off s mod Z.min fa 512) < 512).
  { destruct (Z.min fa 512 =? 0) eqn:F0; [lia|]. apply Z.eqb_neq in F0. assert (0 < Z.min fa 512) by lia.
    pose proof (mod_le_self (s_raw_off s) (Z.min fa 512) ltac:(lia) H).
    pose proof (Z.mod_pos_bound (s_raw_off s) (Z.min fa 512) H). lia. }
  set (o1 := if Z.min fa 512 =? 0 then s_raw_off s else s_raw_off s - s_raw_off s mod Z.min fa 512) in *.
  destruct (4096 <=? sa); [|lia].
  pose proof (mod_le_self o1 512 ltac:(lia) ltac:(lia)). pose proof (Z.mod_pos_bound o1 512 ltac:(lia)). lia.
Qed.

(* what a returned offset is: the rva itself below the first section; otherwise
   the (aligned) start of the raw data of the section settled on plus the
   displacement into it, the displacement being inside the raw data *)
Theorem rva_result_spec : forall rva ss fa sa off,
  is_u32 rva = true -> 0 <= fa -> Forall (fun s => section_ok s = true) ss ->
  rva_to_offset rva ss fa sa = Returned (Some off) ->
  (exists x, min_va ss = Some x /\ rva < x /\ off = rva) \/
  (exists s, In s ss /\ chosen rva 0 None ss = Some s /\
             s_va s <= rva /\ rva - s_va s < s_raw_size s /\
             off = Z.min u32_max (aligned_off s fa sa + (rva - s_va s)) /\
             0 <= aligned_off s fa sa <= s_raw_off s /\ s_raw_off s - aligned_off s fa sa < 1024).
Proof.
  intros rva ss fa sa off Hr Hfa Hss H. apply is_u32_iff in Hr.
  assert (A : after_loop rva ss fa sa = Returned (Some off) ->
              exists s, In s ss /\ chosen rva 0 None ss = Some s /\
                s_va s <= rva /\ rva - s_va s < s_raw_size s /\
                off = Z.min u32_max (aligned_off s fa sa + (rva - s_va s)) /\
                0 <= aligned_off s fa sa <= s_raw_off s /\ s_raw_off s - aligned_off s fa sa < 1024).
  { unfold after_loop. change (0, 0, 0) with (st_of fa sa None).
    rewrite (loop_spec rva fa sa ss None Hfa Hss). cbn [rva_of].
    destruct (chosen rva 0 None ss) as [s|] eqn:C; cbn [st_of].
    - pose proof (chosen_le rva ss 0 None ltac:(discriminate) s C) as Hle.
      destruct (chosen_in rva ss 0 None s C) as [X|Hin]; [discriminate|].
      destruct (s_raw_size s <=? sat_sub rva (s_va s)) eqn:L; [discriminate|].
      apply Z.leb_gt in L. unfold sat_sub in L. rewrite Z.max_r in L by lia.
      unfold usub. destruct (s_va s <=? rva) eqn:L2; [|discriminate]. intro E. inversion E; subst off.
      exists s. rewrite Forall_forall in Hss.
      destruct (aligned_off_bounds s fa sa Hfa (Hss s Hin)) as [B1 B2].
      repeat split; auto; try lia.
    - destruct (0 <=? sat_sub rva 0) eqn:L; [discriminate|]. apply Z.leb_gt in L. unfold sat_sub in L. lia. }
  unfold rva_to_offset in H. destruct (min_va ss) as [x|] eqn:M; [|right; apply A; exact H].
  destruct (rva <? x) eqn:L.
  - left. exists x. apply Z.ltb_lt in L. inversion H; subst. auto.
  - right. apply A; exact H.
Qed.

(* non-vacuity: a table with overlapping sections, small alignments *)
Example rva_example :
  let ss := [mkSection 4096 100 1024 512; mkSection 8192 8192 1543 4096; mkSection 8192 16 3000 16] in
  rva_to_offset 100 ss 512 4096 = Returned (Some 100) /\
  rva_to_offset 4100 ss 512 4096 = Returned (Some 1028) /\
  rva_to_offset 8200 ss 512 4096 = Returned (Some (2560 + 8)) /\
  rva_to_offset 8200 ss 7 16 = Returned (Some (2996 + 8)) /\
  rva_to_offset 8300 ss 512 4096 = Returned (Some 1644) /\
  rva_to_offset 20000 ss 512 4096 = Returned None /\
  rva_to_offset 4294967290 [mkSection 4294967000 4294967295 4294967295 4294967295] 0 0 = Returned (Some 4294967295).
Proof. vm_compute. repeat split. Qed.
