(* C11 - dotnet var_uint / var_sint (lib/src/modules/dotnet/parser.rs, ECMA-335
   II.23.2) as coded with nom's bit parsers (most significant bit first):
   0xxxxxxx -> 7 bits, 1 byte; 10xxxxxx + 1 byte -> 14 bits; 110xxxxx + 3 bytes
   -> 29 bits; anything else is an error.  var_sint rotates the sign bit out
   of position 0: `if x & 1 != 0 { (x >> 1) - 2^(k-1) } else { x >> 1 }` in i32.
   Definitions only. *)
From Coq Require Import List ZArith Bool Lia.
Import ListNotations.
Local Open Scope Z_scope.

(* raw field and its width in bits: None = error (bad prefix or missing bytes) *)
Definition var_raw (bytes : list Z) : option (Z * Z * nat) :=
  match bytes with
  | b0 :: t =>
      if b0 <? 128 then Some (b0, 7, 1%nat)
      else if b0 <? 192 then
        match t with b1 :: _ => Some ((b0 mod 64) * 256 + b1, 14, 2%nat) | _ => None end
      else if b0 <? 224 then
        match t with
        | b1 :: b2 :: b3 :: _ => Some ((b0 mod 32) * 16777216 + b1 * 65536 + b2 * 256 + b3, 29, 4%nat)
        | _ => None
        end
      else None
  | [] => None
  end.

Definition var_uint (bytes : list Z) : option (Z * nat) :=
  match var_raw bytes with Some (x, _, n) => Some (x, n) | None => None end.

Definition var_sint (bytes : list Z) : option (Z * nat) :=
  match var_raw bytes with
  | Some (x, w, n) => Some (if Z.odd x then x / 2 - 2 ^ (w - 1) else x / 2, n)
  | None => None
  end.

(* encoders (ECMA-335 II.23.2), by width *)
Definition enc_raw (w x : Z) : list Z :=
  if w =? 7 then [x]
  else if w =? 14 then [128 + x / 256; x mod 256]
  else [192 + x / 16777216; (x / 65536) mod 256; (x / 256) mod 256; x mod 256].
Definition enc_uint (x : Z) : list Z :=
  if x <? 128 then enc_raw 7 x else if x <? 16384 then enc_raw 14 x else enc_raw 29 x.
(* signed: rotate left by one inside w bits *)
Definition enc_sint (w n : Z) : list Z :=
  enc_raw w (if n <? 0 then 2 * (n + 2 ^ (w - 1)) + 1 else 2 * n).
