(* C11 - var_uint / var_sint: result ranges (no i32 overflow in the signed
   adjustment), bytes consumed, decode (encode n) = n. *)
From Coq Require Import List ZArith Bool Lia.
From YV Require Import Modules.VarInt.
Import ListNotations.
Local Open Scope Z_scope.

Definition bytes_ok (l : list Z) : Prop := Forall (fun b => 0 <= b < 256) l.

Lemma var_raw_range : forall bytes x w n, bytes_ok bytes -> var_raw bytes = Some (x, w, n) ->
  0 <= x < 2 ^ w /\ (w = 7 \/ w = 14 \/ w = 29) /\ (n <= length bytes)%nat /\ (1 <= n <= 4)%nat.
Proof.
  intros bytes x w n Hok H. unfold var_raw in H.
  destruct bytes as [|b0 t]; [discriminate|]. apply Forall_cons_iff in Hok. destruct Hok as [H0 Ht].
  destruct (b0 <? 128) eqn:E1.
  - inversion H; subst. apply Z.ltb_lt in E1. cbn [length]. change (2 ^ 7) with 128. lia.
  - destruct (b0 <? 192) eqn:E2.
    + destruct t as [|b1 t]; [discriminate|]. apply Forall_cons_iff in Ht. destruct Ht as [H1 _].
      inversion H; subst. pose proof (Z.mod_pos_bound b0 64 ltac:(lia)). cbn [length]. change (2 ^ 14) with 16384. lia.
    + destruct (b0 <? 224) eqn:E3; [|discriminate].
      destruct t as [|b1 [|b2 [|b3 t]]]; try discriminate.
      apply Forall_cons_iff in Ht. destruct Ht as [H1 Ht]. apply Forall_cons_iff in Ht. destruct Ht as [H2 Ht].
      apply Forall_cons_iff in Ht. destruct Ht as [H3 _].
      inversion H; subst. pose proof (Z.mod_pos_bound b0 32 ltac:(lia)). cbn [length]. change (2 ^ 29) with 536870912. lia.
Qed.

(* var_uint < 2^29; var_sint in [-2^28, 2^28): the i32 subtraction cannot overflow *)
Theorem var_int_ranges : forall bytes, bytes_ok bytes ->
  (forall v n, var_uint bytes = Some (v, n) -> 0 <= v < 2 ^ 29 /\ (n <= length bytes)%nat) /\
  (forall v n, var_sint bytes = Some (v, n) -> - 2 ^ 28 <= v < 2 ^ 28 /\ (n <= length bytes)%nat).
Proof.
  intros bytes Hok. split; intros v n H.
  - unfold var_uint in H. destruct (var_raw bytes) as [[[x w] m]|] eqn:R; [|discriminate]. inversion H; subst.
    destruct (var_raw_range _ _ _ _ Hok R) as [Hx [Hw [Hn _]]]. split; [|exact Hn].
    destruct Hw as [-> | [-> | ->]]; [change (2 ^ 7) with 128 in Hx|change (2 ^ 14) with 16384 in Hx|]; change (2 ^ 29) with 536870912 in *; lia.
  - unfold var_sint in H. destruct (var_raw bytes) as [[[x w] m]|] eqn:R; [|discriminate]. inversion H; subst.
    destruct (var_raw_range _ _ _ _ Hok R) as [Hx [Hw [Hn _]]]. split; [|exact Hn].
    change (2 ^ 28) with 268435456.
    destruct Hw as [-> | [-> | ->]]; cbn [Z.sub Z.add Z.opp Z.pos_sub Pos.pred_double];
      [change (2 ^ 7) with 128 in Hx; change (2 ^ 6) with 64|change (2 ^ 14) with 16384 in Hx; change (2 ^ 13) with 8192|
       change (2 ^ 29) with 536870912 in Hx; change (2 ^ 28) with 268435456];
      destruct (Z.odd x); Z.div_mod_to_equations; lia.
Qed.

Lemma var_raw_enc : forall w x rest, (w = 7 \/ w = 14 \/ w = 29) -> 0 <= x < 2 ^ w ->
  var_raw (enc_raw w x ++ rest) = Some (x, w, if w =? 7 then 1%nat else if w =? 14 then 2%nat else 4%nat).
Proof.
  intros w x rest Hw Hx. destruct Hw as [-> | [-> | ->]]; unfold enc_raw; cbn [Z.eqb Pos.eqb app var_raw].
  - change (2 ^ 7) with 128 in Hx. destruct (x <? 128) eqn:E; [reflexivity|apply Z.ltb_ge in E; lia].
  - change (2 ^ 14) with 16384 in Hx.
    assert (0 <= x / 256 < 64) by (Z.div_mod_to_equations; lia).
    destruct (128 + x / 256 <? 128) eqn:E1; [apply Z.ltb_lt in E1; lia|].
    destruct (128 + x / 256 <? 192) eqn:E2; [|apply Z.ltb_ge in E2; lia].
    do 3 f_equal. Z.div_mod_to_equations; lia.
  - change (2 ^ 29) with 536870912 in Hx.
    assert (0 <= x / 16777216 < 32) by (Z.div_mod_to_equations; lia).
    destruct (192 + x / 16777216 <? 128) eqn:E1; [apply Z.ltb_lt in E1; lia|].
    destruct (192 + x / 16777216 <? 192) eqn:E2; [apply Z.ltb_lt in E2; lia|].
    destruct (192 + x / 16777216 <? 224) eqn:E3; [|apply Z.ltb_ge in E3; lia].
    do 3 f_equal. Z.div_mod_to_equations; lia.
Qed.

Theorem var_uint_roundtrip : forall x rest, 0 <= x < 2 ^ 29 ->
  exists n, var_uint (enc_uint x ++ rest) = Some (x, n) /\ n = length (enc_uint x).
Proof.
  intros x rest Hx. unfold var_uint, enc_uint. change (2 ^ 29) with 536870912 in Hx.
  destruct (x <? 128) eqn:E1; [|destruct (x <? 16384) eqn:E2].
  - apply Z.ltb_lt in E1. rewrite var_raw_enc by (auto; change (2 ^ 7) with 128; lia). eexists; split; reflexivity.
  - apply Z.ltb_lt in E2. rewrite var_raw_enc by (auto; change (2 ^ 14) with 16384; lia). eexists; split; reflexivity.
  - rewrite var_raw_enc by (auto; change (2 ^ 29) with 536870912; lia). eexists; split; reflexivity.
Qed.

Theorem var_sint_roundtrip : forall w n rest, (w = 7 \/ w = 14 \/ w = 29) -> - 2 ^ (w - 1) <= n < 2 ^ (w - 1) ->
  exists k, var_sint (enc_sint w n ++ rest) = Some (n, k) /\ k = length (enc_sint w n).
Proof.
  intros w n rest Hw Hn. unfold var_sint, enc_sint.
  set (x := if n <? 0 then 2 * (n + 2 ^ (w - 1)) + 1 else 2 * n).
  assert (P : 2 ^ w = 2 * 2 ^ (w - 1)) by (destruct Hw as [-> | [-> | ->]]; reflexivity).
  assert (Hx : 0 <= x < 2 ^ w) by (subst x; destruct (n <? 0) eqn:E; [apply Z.ltb_lt in E|apply Z.ltb_ge in E]; lia).
  rewrite (var_raw_enc w x rest Hw Hx).
  assert (V : (if Z.odd x then x / 2 - 2 ^ (w - 1) else x / 2) = n).
  { subst x. destruct (n <? 0) eqn:E.
    - rewrite Z.add_comm, Z.odd_add_mul_2. cbn [Z.odd]. replace (1 + 2 * (n + 2 ^ (w - 1))) with (1 + (n + 2 ^ (w - 1)) * 2) by lia.
      rewrite Z.div_add by lia. change (1 / 2) with 0. lia.
    - rewrite Z.odd_mul, Bool.andb_false_l. rewrite Z.mul_comm, Z.div_mul by lia. reflexivity. }
  rewrite V. eexists; split; [reflexivity|].
  destruct Hw as [-> | [-> | ->]]; unfold enc_raw; reflexivity.
Qed.
