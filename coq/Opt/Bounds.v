(* C03 - pruning of the pattern search by file size and file header.
   Model of FilesizeBounds / HeaderConstraint (lib/src/compiler/rules.rs) and of
   IR::filesize_bounds / IR::header_constraints (lib/src/compiler/ir/mod.rs), AS
   WRITTEN; the merge comparisons, the operator arms and the byte extraction
   table come from Gen/BoundsGen.v.  Definitions only. *)
From Coq Require Import List ZArith Bool String Lia.
From YV Require Import Gen.BoundsGen.
Import ListNotations.
Local Open Scope Z_scope.

(* ------------------------------------------------------------ FilesizeBounds *)
Inductive bound := Unb | Incl (z : Z) | Excl (z : Z).
Record fsb := mkFsb { b_start : bound; b_end : bound }.
Definition fsb_default : fsb := mkFsb Unb Unb.

Definition unbounded (b : fsb) : bool :=
  match b_start b, b_end b with Unb, Unb => true | _, _ => false end.

Definition start_ok (s : bound) (v : Z) : bool :=
  match s with Incl a => a <=? v | Excl a => a <? v | Unb => true end.
Definition end_ok (e : bound) (v : Z) : bool :=
  match e with Incl a => v <=? a | Excl a => v <? a | Unb => true end.
Definition contains (b : fsb) (v : Z) : bool := start_ok (b_start b) v && end_ok (b_end b) v.

Definition merge_bound (replace : bool -> bool -> Z -> Z -> bool) (cur new : bound) : bound :=
  match cur, new with
  | Incl c, Incl n => if replace true true c n then new else cur
  | Incl c, Excl n => if replace true false c n then new else cur
  | Excl c, Incl n => if replace false true c n then new else cur
  | Excl c, Excl n => if replace false false c n then new else cur
  | Unb, _ => new
  | _, Unb => cur
  end.
Definition max_start (b : fsb) (n : bound) : fsb := mkFsb (merge_bound max_start_replace (b_start b) n) (b_end b).
Definition min_end (b : fsb) (n : bound) : fsb := mkFsb (b_start b) (merge_bound min_end_replace (b_end b) n).

(* ------------------------------------------------------------ constants *)
(* a finite f64 constant m * 2^e, or an integer constant *)
Inductive fconst := KInt (z : Z) | KFlt (m e : Z).

Definition i64_min : Z := - 2 ^ 63.
Definition i64_max : Z := 2 ^ 63 - 1.
Definition sat64 (z : Z) : Z := Z.max i64_min (Z.min i64_max z).

Definition flt_floor (m e : Z) : Z := if 0 <=? e then m * 2 ^ e else m / 2 ^ (- e).
Definition flt_ceil (m e : Z) : Z := if 0 <=? e then m * 2 ^ e else - ((- m) / 2 ^ (- e)).
Definition flt_is_int (m e : Z) : bool := if 0 <=? e then true else m mod 2 ^ (- e) =? 0.

Definition lower_bound_from_const (c : fconst) (inclusive : bool) : bound :=
  match c with
  | KInt v => if inclusive then Incl v else Excl v
  | KFlt m e => let fl := flt_floor m e in
                if inclusive && flt_is_int m e then Incl (sat64 fl) else Excl (sat64 fl)
  end.
Definition upper_bound_from_const (c : fconst) (inclusive : bool) : bound :=
  match c with
  | KInt v => if inclusive then Incl v else Excl v
  | KFlt m e => let ce := flt_ceil m e in
                if inclusive && flt_is_int m e then Incl (sat64 ce) else Excl (sat64 ce)
  end.

(* ------------------------------------------------------------ HeaderConstraint *)
Inductive hcons := HUnconstrained | HUnsatisfiable | HConstrained (bytes : list Z).

Fixpoint starts_with (pre data : list Z) : bool :=
  match pre, data with
  | [], _ => true
  | p :: pt, d :: dt => (p =? d) && starts_with pt dt
  | _ :: _, [] => false
  end.
Definition is_satisfied (h : hcons) (data : list Z) : bool :=
  match h with HUnconstrained => true | HUnsatisfiable => false | HConstrained b => starts_with b data end.

(* constrained_bytes: BTreeMap<usize,u8> as an association list (no duplicate keys) *)
Definition cmap := list (Z * Z).
Fixpoint cm_get (m : cmap) (k : Z) : option Z :=
  match m with [] => None | (k', v) :: t => if k' =? k then Some v else cm_get t k end.

(* state of the walk: (map, unsatisfiable) *)
Definition hstate := (cmap * bool)%type.
Definition add_constraint (s : hstate) (off v : Z) : hstate :=
  let '(m, unsat) := s in
  if unsat then s
  else match cm_get m off with
       | Some v' => if v' =? v then s else (m, true)
       | None => ((off, v) :: m, false)
       end.

(* the byte selected by one entry of the generated table: ((val as uW >> sh) & 0xff) as u8 *)
Definition extract_byte (val width sh : Z) : Z := ((val mod 2 ^ width) / 2 ^ sh) mod 256.

Fixpoint tbl_get (t : list (string * list (Z * Z * Z))) (name : string) : option (list (Z * Z * Z)) :=
  match t with [] => None | (n, p) :: r => if String.eqb n name then Some p else tbl_get r name end.

(* apply_int_read_constraint: true = the call was recognised *)
Definition apply_int_read (s : hstate) (name : string) (off val : Z) : hstate * bool :=
  if off <? 0 then (s, false)
  else match tbl_get int_read_table name with
       | Some parts => (fold_left (fun st p => let '(add, w, sh) := p in add_constraint st (off + add) (extract_byte val w sh)) parts s, true)
       | None => (s, false)
       end.

(* `$p at 0` with literal bytes: stops at the first conflict *)
Fixpoint add_pattern_bytes (s : hstate) (i : Z) (bs : list Z) : hstate :=
  match bs with
  | [] => s
  | b :: t => let '(m, unsat) := s in
              match cm_get m i with
              | Some v => if v =? b then add_pattern_bytes s (i + 1) t else (m, true)
              | None => add_pattern_bytes ((i, b) :: m, unsat) (i + 1) t
              end
  end.

(* bytes at consecutive offsets 0,1,2,.. *)
Fixpoint prefix_from (m : cmap) (i : Z) (fuel : nat) : list Z :=
  match fuel with
  | O => []
  | S f => match cm_get m i with Some b => b :: prefix_from m (i + 1) f | None => [] end
  end.
Definition finish (s : hstate) : hcons :=
  let '(m, unsat) := s in
  if unsat then HUnsatisfiable
  else match cm_get m 0 with
       | Some _ => HConstrained (prefix_from m 0 (List.length m))
       | None => HUnconstrained
       end.

(* ------------------------------------------------------------ the condition fragment *)
(* what filesize_bounds / header_constraints look at; everything else is opaque *)
Inductive cexp :=
| CAnd (es : list cexp)
| CFs (op : fcmp) (const_left : bool) (k : fconst)        (* filesize OP k   /   k OP filesize *)
| CRead (name : string) (off : Z) (val : Z)               (* name(off) == val  (either order) *)
| CPatAt0 (p : nat) (lit : option (list Z))               (* $p at 0; lit = literal bytes if eligible *)
| COther (n : nat).                                       (* anything else, including `or`, `not` *)

Fixpoint fs_walk (c : cexp) (acc : fsb) : fsb :=
  match c with
  | CAnd es => (fix go (l : list cexp) (a : fsb) : fsb := match l with [] => a | x :: t => go t (fs_walk x a) end) es acc
  | CFs op cleft k =>
      let '(upper, incl) := fs_arm op cleft in
      if upper then min_end acc (upper_bound_from_const k incl)
      else max_start acc (lower_bound_from_const k incl)
  | _ => acc
  end.
Definition filesize_bounds (c : cexp) : fsb := fs_walk c fsb_default.

Fixpoint hc_walk (c : cexp) (s : hstate) : hstate :=
  if snd s then s (* `if unsatisfiable { break }` *)
  else
  match c with
  | CAnd es => (fix go (l : list cexp) (a : hstate) : hstate := match l with [] => a | x :: t => go t (hc_walk x a) end) es s
  | CRead name off val => fst (apply_int_read s name off val)
  | CPatAt0 _ (Some bs) => add_pattern_bytes s 0 bs
  | _ => s
  end.
Definition header_constraints (c : cexp) : hcons := finish (hc_walk c ([], false)).

(* ------------------------------------------------------------ run-time meaning *)
(* integer-read functions: (number of bytes, big endian?, signed?) *)
Definition read_sem (name : string) : option (nat * bool * bool) :=
  (if String.eqb name "uint8" then Some (1%nat, false, false) else
   if String.eqb name "int8" then Some (1%nat, false, true) else
   if String.eqb name "uint8be" then Some (1%nat, true, false) else
   if String.eqb name "int8be" then Some (1%nat, true, true) else
   if String.eqb name "uint16" then Some (2%nat, false, false) else
   if String.eqb name "int16" then Some (2%nat, false, true) else
   if String.eqb name "uint16be" then Some (2%nat, true, false) else
   if String.eqb name "int16be" then Some (2%nat, true, true) else
   if String.eqb name "uint32" then Some (4%nat, false, false) else
   if String.eqb name "int32" then Some (4%nat, false, true) else
   if String.eqb name "uint32be" then Some (4%nat, true, false) else
   if String.eqb name "int32be" then Some (4%nat, true, true) else None)%string.

Fixpoint nth_byte (data : list Z) (i : nat) : option Z :=
  match data, i with
  | [], _ => None
  | d :: _, O => Some d
  | _ :: t, S j => nth_byte t j
  end.
Definition byte_at (data : list Z) (i : Z) : option Z := if i <? 0 then None else nth_byte data (Z.to_nat i).

(* little-endian value of n bytes starting at off *)
Fixpoint le_value (data : list Z) (off : Z) (n : nat) : option Z :=
  match n with
  | O => Some 0
  | S k => match byte_at data off, le_value data (off + 1) k with
           | Some b, Some r => Some (b + 256 * r)
           | _, _ => None
           end
  end.
Fixpoint be_value (data : list Z) (off : Z) (n : nat) (acc : Z) : option Z :=
  match n with
  | O => Some acc
  | S k => match byte_at data off with
           | Some b => be_value data (off + 1) k (acc * 256 + b)
           | None => None
           end
  end.
Definition read_int (name : string) (off : Z) (data : list Z) : option Z :=
  match read_sem name with
  | None => None
  | Some (n, be, signed) =>
      match (if be then be_value data off n 0 else le_value data off n) with
      | None => None
      | Some u => let w := 2 ^ (8 * Z.of_nat n) in
                  Some (if signed && (w / 2 <=? u) then u - w else u)
      end
  end.

(* filesize OP constant at run time: i64 comparison, or f64 comparison after
   converting filesize (exact for filesize <= 2^53) *)
Definition cmp_q (op : fcmp) (a b : Z) : bool :=
  match op with FGt => b <? a | FGe => b <=? a | FLt => a <? b | FLe => a <=? b end.
Definition fs_cmp (op : fcmp) (const_left : bool) (n : Z) (k : fconst) : bool :=
  match k with
  | KInt v => if const_left then cmp_q op v n else cmp_q op n v
  | KFlt m e =>
      (* compare n with m*2^e exactly: scale both by 2^(-e) when e < 0 *)
      let '(a, b) := if 0 <=? e then (n, m * 2 ^ e) else (n * 2 ^ (- e), m) in
      if const_left then cmp_q op b a else cmp_q op a b
  end.

Fixpoint ceval (n : Z) (data : list Z) (other : nat -> bool) (pat0 : nat -> bool) (c : cexp) : bool :=
  match c with
  | CAnd es => forallb (ceval n data other pat0) es
  | CFs op cleft k => fs_cmp op cleft n k
  | CRead name off val => match read_int name off data with Some v => v =? val | None => false end
  | CPatAt0 p _ => pat0 p
  | COther k => other k
  end.

(* ------------------------------------------------------------ pruning at rule-set level *)
(* A rule: the ids of its patterns, the bounds / constraint derived from its
   condition, and its condition as a function of the per-pattern match lists
   and of the verdicts of the earlier rules. *)
Definition mlist := list (Z * Z).
Record prule := mkPRule {
  pr_pats : list nat;
  pr_bounds : fsb;
  pr_hc : hcons;
  pr_eval : (nat -> mlist) -> list bool -> bool }.

Fixpoint verdicts (rules : list prule) (m : nat -> mlist) (prev : list bool) : list bool :=
  match rules with
  | [] => prev
  | r :: t => verdicts t m (prev ++ [pr_eval r m prev])
  end.

(* search_for_patterns: a pattern whose bounds exclude the file size or whose
   header constraint is not satisfied is disabled: it gets no matches *)
Definition pruned (pat_bounds : nat -> fsb) (pat_hc : nat -> hcons) (n : Z) (data : list Z)
                  (m : nat -> mlist) : nat -> mlist :=
  fun p => if contains (pat_bounds p) n && is_satisfied (pat_hc p) data then m p else [].
