(* C03 - proofs about Opt/Bounds.v: the merge of bounds is the intersection,
   the bounds / header constraint derived from a condition are implied by the
   condition, and disabling the patterns they exclude changes no verdict. *)
From Coq Require Import List ZArith Bool String Lia.
From YV Require Import Gen.BoundsGen Opt.Bounds.
Import ListNotations.
Local Open Scope Z_scope.

Section cexp_ind2.
  Variable P : cexp -> Prop.
  Hypothesis Ha : forall es, Forall P es -> P (CAnd es).
  Hypothesis Hf : forall op l k, P (CFs op l k).
  Hypothesis Hr : forall n o v, P (CRead n o v).
  Hypothesis Hp : forall p l, P (CPatAt0 p l).
  Hypothesis Ho : forall n, P (COther n).
  Fixpoint cexp_ind2 (c : cexp) : P c :=
    match c with
    | CAnd es => Ha es ((fix go (l : list cexp) : Forall P l :=
                           match l with [] => Forall_nil P | x :: t => Forall_cons x (cexp_ind2 x) (go t) end) es)
    | CFs op l k => Hf op l k
    | CRead n o v => Hr n o v
    | CPatAt0 p l => Hp p l
    | COther n => Ho n
    end.
End cexp_ind2.

Ltac b2p :=
  repeat match goal with
  | H : (_ <? _) = true |- _ => apply Z.ltb_lt in H
  | H : (_ <? _) = false |- _ => apply Z.ltb_ge in H
  | H : (_ <=? _) = true |- _ => apply Z.leb_le in H
  | H : (_ <=? _) = false |- _ => apply Z.leb_gt in H
  | H : (_ =? _) = true |- _ => apply Z.eqb_eq in H
  | H : (_ =? _) = false |- _ => apply Z.eqb_neq in H
  | H : (_ >? _) = _ |- _ => rewrite Z.gtb_ltb in H
  | H : (_ >=? _) = _ |- _ => rewrite Z.geb_leb in H
  | H : _ && _ = true |- _ => apply andb_true_iff in H; destruct H
  end.
Ltac bgoal :=
  repeat first [ rewrite andb_true_iff | rewrite Z.leb_le | rewrite Z.ltb_lt | rewrite Z.eqb_eq ].

(* ------------------------------------------------------------ merge = intersection *)
Lemma merge_start_spec : forall cur new v,
  start_ok (merge_bound max_start_replace cur new) v = start_ok cur v && start_ok new v.
Proof.
  intros cur new v. apply eq_true_iff_eq.
  destruct cur as [|c|c], new as [|n|n]; cbn [merge_bound start_ok max_start_replace];
    try match goal with |- context [if ?b then _ else _] => destruct b eqn:E end;
    cbn [start_ok]; b2p; bgoal; lia.
Qed.

Lemma merge_end_spec : forall cur new v,
  end_ok (merge_bound min_end_replace cur new) v = end_ok cur v && end_ok new v.
Proof.
  intros cur new v. apply eq_true_iff_eq.
  destruct cur as [|c|c], new as [|n|n]; cbn [merge_bound end_ok min_end_replace];
    try match goal with |- context [if ?b then _ else _] => destruct b eqn:E end;
    cbn [end_ok]; b2p; bgoal; lia.
Qed.

Theorem bounds_merge_spec : forall b x v,
  contains (max_start b x) v = contains b v && start_ok x v /\
  contains (min_end b x) v = contains b v && end_ok x v.
Proof.
  intros b x v. unfold contains, max_start, min_end. cbn [b_start b_end].
  rewrite merge_start_spec, merge_end_spec. split.
  - destruct (start_ok (b_start b) v), (start_ok x v), (end_ok (b_end b) v); reflexivity.
  - destruct (start_ok (b_start b) v), (end_ok x v), (end_ok (b_end b) v); reflexivity.
Qed.

(* ------------------------------------------------------------ bounds from a comparison *)
Lemma pow_pos : forall e, 0 < 2 ^ e \/ 2 ^ e = 0.
Proof. intro e. destruct (Z_lt_le_dec e 0); [right; apply Z.pow_neg_r; lia|left; apply Z.pow_pos_nonneg; lia]. Qed.

Lemma fs_arm_sound : forall op cleft k n,
  0 <= n < i64_max ->
  fs_cmp op cleft n k = true ->
  let '(upper, incl) := fs_arm op cleft in
  if upper then end_ok (upper_bound_from_const k incl) n = true
  else start_ok (lower_bound_from_const k incl) n = true.
Proof.
  intros op cleft k n Hn H. unfold i64_max in Hn.
  destruct k as [v|m e].
  - destruct op, cleft; cbn [fs_arm fs_cmp cmp_q upper_bound_from_const lower_bound_from_const end_ok start_ok] in *; exact H.
  - unfold fs_cmp in H.
    destruct (0 <=? e) eqn:Ee.
    + (* an integer-valued constant *)
      assert (Hfl : flt_floor m e = m * 2 ^ e) by (unfold flt_floor; rewrite Ee; reflexivity).
      assert (Hce : flt_ceil m e = m * 2 ^ e) by (unfold flt_ceil; rewrite Ee; reflexivity).
      assert (Hin : flt_is_int m e = true) by (unfold flt_is_int; rewrite Ee; reflexivity).
      destruct op, cleft; cbn [fs_arm cmp_q upper_bound_from_const lower_bound_from_const] in *;
        rewrite ?Hfl, ?Hce, ?Hin; cbn [andb end_ok start_ok]; unfold sat64, i64_min, i64_max; b2p; bgoal;
        change (2 ^ 63) with 9223372036854775808 in *; generalize dependent (m * 2 ^ e); intros; lia.
    + (* m / 2^(-e) with -e > 0 *)
      b2p. set (P := 2 ^ (- e)) in *.
      assert (HP : 0 < P) by (apply Z.pow_pos_nonneg; lia).
      pose proof (Z.div_mod m P ltac:(lia)) as Dm. pose proof (Z.mod_pos_bound m P HP) as Bm.
      pose proof (Z.div_mod (- m) P ltac:(lia)) as Dn. pose proof (Z.mod_pos_bound (- m) P HP) as Bn.
      assert (Hfl : flt_floor m e = m / P) by (unfold flt_floor; destruct (0 <=? e) eqn:E2; [b2p; lia|reflexivity]).
      assert (Hce : flt_ceil m e = - ((- m) / P)) by (unfold flt_ceil; destruct (0 <=? e) eqn:E2; [b2p; lia|reflexivity]).
      assert (Hin : flt_is_int m e = (m mod P =? 0)) by (unfold flt_is_int; destruct (0 <=? e) eqn:E2; [b2p; lia|reflexivity]).
      assert (Hneg : m mod P = 0 -> (- m) mod P = 0).
      { intro Z0. apply Z.mod_divide in Z0; [|lia]. apply Z.mod_divide; [lia|]. apply Z.divide_opp_r. exact Z0. }
      assert (Hneg2 : (- m) mod P = 0 -> m mod P = 0).
      { intro Z0. apply Z.mod_divide in Z0; [|lia]. apply Z.mod_divide; [lia|]. rewrite <- (Z.opp_involutive m). apply Z.divide_opp_r. exact Z0. }
      destruct op, cleft; cbn [fs_arm cmp_q upper_bound_from_const lower_bound_from_const] in *;
        rewrite ?Hfl, ?Hce, ?Hin; cbn [andb];
        try (destruct (m mod P =? 0) eqn:Ei); cbn [end_ok start_ok]; unfold sat64, i64_min, i64_max; b2p; bgoal;
        try (specialize (Hneg ltac:(assumption)));
        change (2 ^ 63) with 9223372036854775808 in *; clear Hfl Hce Hin;
        generalize dependent (m / P); generalize dependent (m mod P);
        generalize dependent ((- m) / P); generalize dependent ((- m) mod P); intros;
        match goal with
        | |- ?a < Z.max _ (Z.min _ ?x) => assert (a < x) by nia
        | |- ?a <= Z.max _ (Z.min _ ?x) => assert (a <= x) by nia
        | |- Z.max _ (Z.min _ ?x) < ?a => assert (x < a) by nia
        | |- Z.max _ (Z.min _ ?x) <= ?a => assert (x <= a) by nia
        end; lia.
Qed.

Lemma fs_walk_sound : forall n data other pat0, 0 <= n < i64_max ->
  forall c, ceval n data other pat0 c = true ->
  forall acc, contains acc n = true -> contains (fs_walk c acc) n = true.
Proof.
  intros n data other pat0 Hn c.
  induction c as [es IH|op l k|nm o v|p l|k] using cexp_ind2; intros E acc Hacc; cbn [fs_walk]; try exact Hacc.
  - cbn [ceval] in E. revert acc Hacc. induction es as [|x t IHt]; intros acc Hacc; [exact Hacc|].
    cbn [forallb] in E. apply andb_true_iff in E. destruct E as [Ex Et].
    apply Forall_cons_iff in IH. destruct IH as [IHx IHrest].
    apply IHt; [exact IHrest|exact Et|]. apply IHx; assumption.
  - cbn [ceval] in E. pose proof (fs_arm_sound op l k n Hn E) as S.
    destruct (fs_arm op l) as [upper incl]. destruct upper.
    + destruct (bounds_merge_spec acc (upper_bound_from_const k incl) n) as [_ R]. rewrite R, Hacc, S. reflexivity.
    + destruct (bounds_merge_spec acc (lower_bound_from_const k incl) n) as [R _]. rewrite R, Hacc, S. reflexivity.
Qed.

(* if the condition holds for a file of size n then the bounds derived from it contain n *)
Theorem filesize_bounds_sound : forall n data other pat0 c,
  0 <= n < i64_max ->
  ceval n data other pat0 c = true -> contains (filesize_bounds c) n = true.
Proof.
  intros n data other pat0 c Hn E. unfold filesize_bounds.
  apply (fs_walk_sound n data other pat0 Hn c E). reflexivity.
Qed.

(* ------------------------------------------------------------ header constraints *)
Definition bytes_ok (data : list Z) : Prop := Forall (fun b => 0 <= b < 256) data.

(* every recorded byte is the byte of the data at that offset, and no conflict was found *)
Definition good (data : list Z) (s : hstate) : Prop :=
  snd s = false /\ forall k v, cm_get (fst s) k = Some v -> byte_at data k = Some v.

Lemma add_constraint_good : forall data s off v,
  good data s -> byte_at data off = Some v -> good data (add_constraint s off v).
Proof.
  intros data [m u] off v [Hu Hm] Hb. cbn [snd fst] in *. subst u. cbn [add_constraint].
  destruct (cm_get m off) as [v'|] eqn:G.
  - pose proof (Hm off v' G) as Hb'. rewrite Hb in Hb'. inversion Hb'; subst. rewrite Z.eqb_refl. split; auto.
  - split; [reflexivity|]. cbn [fst cm_get]. intros k w. destruct (off =? k) eqn:E.
    + b2p. subst. intro X. inversion X; subst. exact Hb.
    + apply Hm.
Qed.

Lemma nth_byte_range : forall data i b, bytes_ok data -> nth_byte data i = Some b -> 0 <= b < 256.
Proof.
  intros data. induction data as [|d t IH]; intros i b Hok H; [destruct i; discriminate|].
  apply Forall_cons_iff in Hok. destruct Hok as [Hd Ht]. destruct i; cbn [nth_byte] in H.
  - inversion H; subst. exact Hd.
  - eapply IH; eauto.
Qed.
Lemma byte_at_range : forall data i b, bytes_ok data -> byte_at data i = Some b -> 0 <= b < 256.
Proof. intros data i b Hok H. unfold byte_at in H. destruct (i <? 0); [discriminate|]. eapply nth_byte_range; eauto. Qed.

(* the generated extraction table selects, for every recognised function, the
   bytes that the function reads *)
Local Opaque Z.mul Z.add Z.sub Z.pow Z.div Z.modulo Z.leb.
Lemma int_read_table_sound : forall data name parts off val,
  bytes_ok data -> tbl_get int_read_table name = Some parts -> read_int name off data = Some val ->
  Forall (fun p => let '(add, w, sh) := p in byte_at data (off + add) = Some (extract_byte val w sh)) parts.
Proof.
  intros data name parts off val Hok T R.
  unfold int_read_table in T. cbn [tbl_get] in T.
  repeat match type of T with
  | (if String.eqb ?s name then _ else _) = _ =>
      let E := fresh "E" in destruct (String.eqb s name) eqn:E;
      [apply String.eqb_eq in E; subst name; inversion T; subst parts; clear T|clear E]
  end; try discriminate.
  all: unfold read_int in R; cbn [read_sem String.eqb Ascii.eqb Bool.eqb] in R;
       cbn [le_value be_value] in R;
       repeat match type of R with
       | context [byte_at ?d ?o] =>
           let B := fresh "B" in let b := fresh "b" in
           destruct (byte_at d o) as [b|] eqn:B; [pose proof (byte_at_range d o b Hok B)|discriminate]
       end;
       injection R as R; subst val;
       replace (off + 1 + 1) with (off + 2) in * by lia; replace (off + 2 + 1) with (off + 3) in * by lia;
       repeat (apply Forall_cons; [cbv beta iota; rewrite ?Z.add_0_r|]); try apply Forall_nil.
  all: unfold extract_byte;
       change (8 * Z.of_nat 1) with 8; change (8 * Z.of_nat 2) with 16; change (8 * Z.of_nat 4) with 32;
       cbn [andb];
       match goal with |- _ = Some ?x => match goal with H : _ = Some ?y |- _ => replace x with y; [exact H|] end end;
       try match goal with |- context [if ?c then _ else _] => destruct c end;
       change (2 ^ 8) with 256; change (2 ^ 16) with 65536; change (2 ^ 32) with 4294967296;
       change (2 ^ 0) with 1; change (2 ^ 24) with 16777216;
       Z.div_mod_to_equations; lia.
Qed.
Local Transparent Z.mul Z.add Z.sub Z.pow Z.div Z.modulo Z.leb.

Lemma apply_int_read_good : forall data s name off val,
  bytes_ok data -> good data s -> read_int name off data = Some val ->
  good data (fst (apply_int_read s name off val)).
Proof.
  intros data s name off val Hok G R. unfold apply_int_read.
  destruct (off <? 0); [exact G|].
  destruct (tbl_get int_read_table name) as [parts|] eqn:T; [|exact G]. cbn [fst].
  pose proof (int_read_table_sound data name parts off val Hok T R) as F.
  clear T. revert s G. induction parts as [|[[add w] sh] t IH]; intros s G; [exact G|].
  cbn [fold_left]. apply Forall_cons_iff in F. destruct F as [F1 Ft].
  apply IH; [exact Ft|]. apply add_constraint_good; assumption.
Qed.

(* bs occurs in data at offset i *)
Fixpoint agree (data : list Z) (i : Z) (bs : list Z) : Prop :=
  match bs with [] => True | b :: t => byte_at data i = Some b /\ agree data (i + 1) t end.

Lemma add_pattern_bytes_good : forall data bs s i,
  good data s -> agree data i bs -> good data (add_pattern_bytes s i bs).
Proof.
  intros data bs. induction bs as [|b t IH]; intros [m u] i G A; [exact G|].
  destruct A as [Ab At]. destruct G as [Gu Gm]. cbn [snd fst] in *. subst u. cbn [add_pattern_bytes].
  destruct (cm_get m i) as [v|] eqn:E.
  - pose proof (Gm i v E) as X. rewrite Ab in X. inversion X; subst. rewrite Z.eqb_refl.
    apply IH; [split; auto|exact At].
  - apply IH; [|exact At]. split; [reflexivity|]. cbn [fst cm_get]. intros k w.
    destruct (i =? k) eqn:Ek; [b2p; subst; intro X; inversion X; subst; exact Ab|apply Gm].
Qed.

Lemma nth_byte_cons : forall d t i, 0 <= i -> byte_at (d :: t) (i + 1) = byte_at t i.
Proof.
  intros d t i Hi. unfold byte_at.
  destruct (i + 1 <? 0) eqn:E1; [b2p; lia|]. destruct (i <? 0) eqn:E2; [b2p; lia|].
  replace (Z.to_nat (i + 1)) with (S (Z.to_nat i)) by lia. reflexivity.
Qed.

Lemma starts_with_agree : forall bs data i, 0 <= i ->
  starts_with bs (skipn (Z.to_nat i) data) = true -> agree data i bs.
Proof.
  induction bs as [|b t IH]; intros data i Hi H; [exact I|].
  cbn [agree]. destruct (skipn (Z.to_nat i) data) as [|d dt] eqn:Sk; cbn [starts_with] in H; [discriminate|].
  apply andb_true_iff in H. destruct H as [Hb Ht]. apply Z.eqb_eq in Hb. subst d.
  assert (Hnth : forall (l : list Z) k x r, skipn k l = x :: r -> nth_byte l k = Some x /\ skipn (S k) l = r).
  { induction l as [|y l IHl]; intros k x r Hk; destruct k; cbn [skipn] in Hk; try discriminate.
    - inversion Hk; subst. split; reflexivity.
    - cbn [nth_byte]. destruct (IHl k x r Hk) as [A B]. split; [exact A|]. cbn [skipn] in *. exact B. }
  destruct (Hnth data _ _ _ Sk) as [A B]. split.
  - unfold byte_at. destruct (i <? 0) eqn:E; [b2p; lia|exact A].
  - apply IH; [lia|]. replace (Z.to_nat (i + 1)) with (S (Z.to_nat i)) by lia. rewrite B. exact Ht.
Qed.

Lemma agree_starts_with : forall bs data i, 0 <= i ->
  agree data i bs -> starts_with bs (skipn (Z.to_nat i) data) = true.
Proof.
  induction bs as [|b t IH]; intros data i Hi A; [reflexivity|].
  destruct A as [Ab At].
  assert (Hnth : forall (l : list Z) k x, nth_byte l k = Some x -> skipn k l = x :: skipn (S k) l).
  { induction l as [|y l IHl]; intros k x Hk; destruct k; cbn [nth_byte] in Hk; try discriminate.
    - inversion Hk; reflexivity.
    - cbn [skipn]. rewrite (IHl k x Hk). reflexivity. }
  unfold byte_at in Ab. destruct (i <? 0) eqn:E; [discriminate|]. rewrite (Hnth _ _ _ Ab). cbn [starts_with].
  rewrite Z.eqb_refl. cbn [andb]. specialize (IH data (i + 1) ltac:(lia) At).
  replace (Z.to_nat (i + 1)) with (S (Z.to_nat i)) in IH by lia. exact IH.
Qed.

Lemma prefix_agree : forall data m, (forall k v, cm_get m k = Some v -> byte_at data k = Some v) ->
  forall fuel i, agree data i (prefix_from m i fuel).
Proof.
  intros data m Hm fuel. induction fuel as [|f IH]; intros i; cbn [prefix_from]; [exact I|].
  destruct (cm_get m i) as [b|] eqn:E; [|exact I]. split; [apply Hm; exact E|apply IH].
Qed.

Lemma finish_good : forall data s, good data s -> is_satisfied (finish s) data = true.
Proof.
  intros data [m u] [Gu Gm]. cbn [snd fst] in *. subst u. cbn [finish].
  destruct (cm_get m 0); [|reflexivity]. cbn [is_satisfied].
  apply (agree_starts_with _ data 0 ltac:(lia)). apply prefix_agree. exact Gm.
Qed.

Lemma hc_walk_good : forall n data other pat0,
  bytes_ok data ->
  (* a pattern eligible for `$p at 0` constraints that matches at offset 0 begins the data *)
  (forall c p bs, pat0 p = true -> c = CPatAt0 p (Some bs) -> starts_with bs data = true) ->
  forall c, ceval n data other pat0 c = true -> forall s, good data s -> good data (hc_walk c s).
Proof.
  intros n data other pat0 Hok Hpat c.
  induction c as [es IH|op l k|nm o v|p l|k] using cexp_ind2; intros E s G.
  - destruct s as [m u]. destruct G as [Gu Gm]. cbn [snd] in Gu. subst u.
    assert (G : good data (m, false)) by (split; auto). cbn [hc_walk snd].
    cbn [ceval] in E. revert G. generalize (m, false). clear m Gm.
    induction es as [|x t IHt]; intros s G; [exact G|].
    cbn [forallb] in E. apply andb_true_iff in E. destruct E as [Ex Et].
    apply Forall_cons_iff in IH. destruct IH as [IHx IHrest].
    apply IHt; [exact IHrest|exact Et|]. apply IHx; assumption.
  - destruct s as [m u]. cbn [hc_walk snd]. destruct u; exact G.
  - destruct s as [m u]. pose proof G as [Gu _]. cbn [snd] in Gu. subst u. cbn [hc_walk snd].
    cbn [ceval] in E. destruct (read_int nm o data) as [v'|] eqn:R; [|discriminate]. b2p. subst v'.
    apply apply_int_read_good; assumption.
  - destruct s as [m u]. pose proof G as [Gu _]. cbn [snd] in Gu. subst u. cbn [hc_walk snd].
    destruct l as [bs|]; [|exact G]. cbn [ceval] in E.
    apply add_pattern_bytes_good; [exact G|].
    apply (starts_with_agree bs data 0 ltac:(lia)). cbn [Z.to_nat skipn]. apply (Hpat _ p bs E eq_refl).
  - destruct s as [m u]. cbn [hc_walk snd]. destruct u; exact G.
Qed.

(* if the condition holds for the data then the data satisfies the header
   constraint derived from the condition *)
Theorem header_constraint_sound : forall n data other pat0 c,
  bytes_ok data ->
  (forall c' p bs, pat0 p = true -> c' = CPatAt0 p (Some bs) -> starts_with bs data = true) ->
  ceval n data other pat0 c = true -> is_satisfied (header_constraints c) data = true.
Proof.
  intros n data other pat0 c Hok Hpat E. unfold header_constraints. apply finish_good.
  apply (hc_walk_good n data other pat0 Hok Hpat c E). split; [reflexivity|]. intros k v H. discriminate.
Qed.

(* ------------------------------------------------------------ pruning keeps verdicts *)
Section prune.
  Variable n : Z.
  Variable data : list Z.
  Variable pat_bounds : nat -> fsb.
  Variable pat_hc : nat -> hcons.

  (* hypotheses about one rule, made explicit:
     - sound: its condition can only hold if the file passes its bounds and
       header constraint (filesize_bounds_sound / header_constraint_sound);
     - local: its condition looks at the matches of its own patterns only;
     - identity: the bounds / constraint attached to each of its patterns are
       the rule's own (a pattern's identity includes them, so a pattern id is
       shared only by rules with the same bounds and constraint). *)
  Definition rule_ok (r : prule) : Prop :=
    (forall m prev, pr_eval r m prev = true ->
        contains (pr_bounds r) n = true /\ is_satisfied (pr_hc r) data = true) /\
    (forall m m' prev, (forall p, In p (pr_pats r) -> m p = m' p) -> pr_eval r m prev = pr_eval r m' prev) /\
    (forall p, In p (pr_pats r) -> pat_bounds p = pr_bounds r /\ pat_hc p = pr_hc r).

  Lemma rule_same : forall r m prev, rule_ok r ->
    pr_eval r (pruned pat_bounds pat_hc n data m) prev = pr_eval r m prev.
  Proof.
    intros r m prev [Hs [Hl Hi]].
    destruct (contains (pr_bounds r) n && is_satisfied (pr_hc r) data) eqn:C.
    - apply Hl. intros p Hp. unfold pruned. destruct (Hi p Hp) as [-> ->]. rewrite C. reflexivity.
    - destruct (pr_eval r (pruned pat_bounds pat_hc n data m) prev) eqn:E1.
      + destruct (Hs _ _ E1) as [A B]. rewrite A, B in C. discriminate.
      + destruct (pr_eval r m prev) eqn:E2; [|reflexivity].
        destruct (Hs _ _ E2) as [A B]. rewrite A, B in C. discriminate.
  Qed.

  Theorem prune_preserves_verdicts : forall rules m prev,
    Forall rule_ok rules ->
    verdicts rules (pruned pat_bounds pat_hc n data m) prev = verdicts rules m prev.
  Proof.
    induction rules as [|r t IH]; intros m prev H; [reflexivity|].
    apply Forall_cons_iff in H. destruct H as [Hr Ht]. cbn [verdicts].
    rewrite (rule_same r m prev Hr). apply IH. exact Ht.
  Qed.

  (* matches of the patterns of a rule that matches are not touched either *)
  Theorem prune_keeps_reported_matches : forall r m prev p,
    rule_ok r -> pr_eval r m prev = true -> In p (pr_pats r) ->
    pruned pat_bounds pat_hc n data m p = m p.
  Proof.
    intros r m prev p [Hs [_ Hi]] E Hp. destruct (Hs _ _ E) as [A B].
    unfold pruned. destruct (Hi p Hp) as [-> ->]. rewrite A, B. reflexivity.
  Qed.
End prune.

(* ------------------------------------------------------------ non-vacuity *)
Example bounds_example :
  let c := CAnd [CFs FLt false (KInt 1000); CFs FLe true (KFlt 21 (-1)); CRead "uint16" 0 23117;
                 CAnd [CPatAt0 0 (Some [77; 90; 144])]; COther 0] in
  filesize_bounds c = mkFsb (Excl 10) (Excl 1000) /\
  header_constraints c = HConstrained [77; 90; 144] /\
  ceval 100 [77; 90; 144; 0] (fun _ => true) (fun _ => true) c = true /\
  contains (filesize_bounds c) 100 = true /\
  is_satisfied (header_constraints c) [77; 90; 144; 0] = true /\
  header_constraints (CAnd [CRead "uint8" 0 77; CRead "uint16be" 0 65])  = HUnsatisfiable.
Proof. vm_compute. repeat split. Qed.
