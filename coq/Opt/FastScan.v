(* C03 - fast-scan mode.
   Compile time (lib/src/compiler/ir/ast2ir.rs, lib/src/compiler/mod.rs): a
   pattern keeps its fast-scan bit unless some use of it calls
   [disallow_fast_scan]: `$p at/in ..`, `#p`, `@p`, `!p`, or a `for .. of` whose
   body uses `#`, `@`, `!` or an anchored `$`.  The bit of a pattern id shared by
   several rules is cleared if any of them disallows it.  Which syntactic forms
   call [disallow_fast_scan] is GENERATED (Gen/FastScanGen.v); in particular
   `<quantifier> of <pattern set> in (..)` / `.. at <non-constant>` looks at match
   offsets but, on the current tree, does not clear the bit.
   Scan time (lib/src/scanner/context.rs, track_match): in fast-scan mode a
   pattern whose bit is set is added to [disabled_patterns] when its first
   match is tracked; handle_atom_match / verify_anchored_patterns skip disabled
   patterns.  Definitions only. *)
From Coq Require Import List ZArith Bool Lia.
From YV Require Import Gen.FastScanGen.
Import ListNotations.
Local Open Scope Z_scope.

Definition mt := (Z * Z)%type.            (* start, length *)
Definition nonempty {A} (l : list A) : bool := match l with [] => false | _ => true end.

(* rule conditions, as far as patterns are concerned *)
Inductive fcond :=
| FConst (b : bool)
| FBare (p : nat)                               (* $p, also as a member of `N of (..)` / `for .. of` without anchors *)
| FObs (p : nat) (f : list mt -> bool)          (* a use that calls disallow_fast_scan: looks at the match list *)
| FOfAnch (p : nat) (f : list mt -> bool)       (* p in `N of (set) in (a..b)` / `at <non-constant>`: looks at the match list *)
| FRule (r : nat)                               (* reference to an earlier rule *)
| FNot (c : fcond)
| FAnd (a b : fcond)
| FOr (a b : fcond).

(* does the condition contain a use of p that clears the fast-scan bit, as coded? *)
(* ofd: does an anchored `of` clear the bit (generated flag, see elig_cur) *)
Fixpoint disallows (ofd : bool) (c : fcond) (p : nat) : bool :=
  match c with
  | FConst _ | FBare _ | FRule _ => false
  | FObs q _ => Nat.eqb p q
  | FOfAnch q _ => ofd && Nat.eqb p q
  | FNot c => disallows ofd c p
  | FAnd a b | FOr a b => disallows ofd a p || disallows ofd b p
  end.
(* Rules::is_fast_scan(p): no rule disallows it *)
Definition elig (ofd : bool) (rules : list fcond) (p : nat) : bool :=
  forallb (fun c => negb (disallows ofd c p)) rules.
Definition elig_cur := elig of_anchor_disallows_fast_scan.

(* what a sound analysis has to treat as "looks at the match list" *)
Fixpoint observes (c : fcond) (p : nat) : bool :=
  match c with
  | FConst _ | FBare _ | FRule _ => false
  | FObs q _ | FOfAnch q _ => Nat.eqb p q
  | FNot c => observes c p
  | FAnd a b | FOr a b => observes a p || observes b p
  end.

(* guard under which the coded analysis is sound: every pattern whose match
   list is looked at through an anchored `of` is ineligible anyway *)
Definition analysis_covers (ofd : bool) (rules : list fcond) : Prop :=
  forall c p, In c rules -> observes c p = true -> elig ofd rules p = false.

(* ------------------------------------------------------------ tracking *)
(* what a normal scan does, in the order the scanner does it: one event per
   verified hit (an atom hit passed to handle_atom_match, or an anchored
   pattern checked by verify_anchored_patterns) with the matches that the
   verification tracks for it - none, one, or several (a regexp whose backward
   code finds several starts) *)
Definition event := (nat * list mt)%type.

Fixpoint memb (p : nat) (l : list nat) : bool :=
  match l with [] => false | q :: t => Nat.eqb p q || memb p t end.

(* the scan loop: hits of disabled patterns are skipped as a whole
   (handle_atom_match returns early); in fast mode track_match disables an
   eligible pattern as soon as a match of it is tracked, which takes effect
   from the next hit on *)
Fixpoint run (fast : bool) (el : nat -> bool) (evs : list event) (disabled : list nat) : list event :=
  match evs with
  | [] => []
  | (p, ms) :: t =>
      if memb p disabled then run fast el t disabled
      else (p, ms) :: run fast el t (if fast && el p && nonempty ms then p :: disabled else disabled)
  end.

(* matches tracked for p, in tracking order *)
Fixpoint of_pat (p : nat) (evs : list event) : list mt :=
  match evs with
  | [] => []
  | (q, ms) :: t => if Nat.eqb q p then ms ++ of_pat p t else of_pat p t
  end.

(* the matches of the first hit of p that tracks something *)
Fixpoint first_hit (p : nat) (evs : list event) : list mt :=
  match evs with
  | [] => []
  | (q, ms) :: t => if Nat.eqb q p && nonempty ms then ms else first_hit p t
  end.

Definition tracked (fast : bool) (el : nat -> bool) (evs : list event) : nat -> list mt :=
  fun p => of_pat p (run fast el evs []).

(* ------------------------------------------------------------ verdicts *)
Fixpoint feval (m : nat -> list mt) (prev : list bool) (c : fcond) : bool :=
  match c with
  | FConst b => b
  | FBare p => nonempty (m p)
  | FObs p f | FOfAnch p f => f (m p)
  | FRule r => nth r prev false
  | FNot c => negb (feval m prev c)
  | FAnd a b => feval m prev a && feval m prev b
  | FOr a b => feval m prev a || feval m prev b
  end.

Fixpoint fverdicts (rules : list fcond) (m : nat -> list mt) (prev : list bool) : list bool :=
  match rules with
  | [] => prev
  | c :: t => fverdicts t m (prev ++ [feval m prev c])
  end.

Definition scan_verdicts (ofd fast : bool) (rules : list fcond) (evs : list event) : list bool :=
  fverdicts rules (tracked fast (elig ofd rules) evs) [].

(* lowest start among a match list *)
Fixpoint min_start (l : list mt) : option Z :=
  match l with
  | [] => None
  | (s, _) :: t => match min_start t with None => Some s | Some s' => Some (Z.min s s') end
  end.
