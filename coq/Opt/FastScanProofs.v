(* C03 - proofs about Opt/FastScan.v. *)
From Coq Require Import List ZArith Bool Lia.
From YV Require Import Gen.FastScanGen Opt.FastScan.
Import ListNotations.
Local Open Scope Z_scope.

Lemma memb_cons_ne : forall p q l, Nat.eqb p q = false -> memb p (q :: l) = memb p l.
Proof. intros p q l H. cbn [memb]. rewrite H. reflexivity. Qed.

(* what the scan loop tracks for pattern p *)
Lemma run_of_pat : forall fast el evs D p,
  of_pat p (run fast el evs D)
  = if memb p D then [] else if fast && el p then first_hit p evs else of_pat p evs.
Proof.
  intros fast el evs. induction evs as [|[q ms] t IH]; intros D p; cbn [run].
  - cbn [of_pat first_hit]. destruct (memb p D); [reflexivity|]. destruct (fast && el p); reflexivity.
  - destruct (memb q D) eqn:Mq.
    + rewrite IH. destruct (memb p D) eqn:Mp; [reflexivity|].
      assert (Nat.eqb q p = false) as Hne.
      { destruct (Nat.eqb q p) eqn:E; [|reflexivity]. apply Nat.eqb_eq in E. subst. congruence. }
      cbn [of_pat first_hit]. rewrite Hne. reflexivity.
    + cbn [of_pat first_hit]. destruct (Nat.eqb q p) eqn:E.
      * apply Nat.eqb_eq in E. subst q. rewrite IH, Mq. cbn [andb].
        destruct (fast && el p) eqn:Fe.
        -- destruct ms as [|m ms']; cbn [nonempty andb app].
           ++ rewrite Mq. reflexivity.
           ++ cbn [memb]. rewrite Nat.eqb_refl. cbn [orb]. rewrite app_nil_r. reflexivity.
        -- cbn [andb]. rewrite Mq. reflexivity.
      * rewrite IH. assert (Nat.eqb p q = false) as E' by (rewrite Nat.eqb_sym; exact E).
        destruct (fast && el q && nonempty ms); [rewrite (memb_cons_ne p q D E')|]; reflexivity.
Qed.

Lemma tracked_normal : forall el evs p, tracked false el evs p = of_pat p evs.
Proof. intros. unfold tracked. rewrite run_of_pat. reflexivity. Qed.
Lemma tracked_fast : forall el evs p,
  tracked true el evs p = if el p then first_hit p evs else of_pat p evs.
Proof. intros. unfold tracked. rewrite run_of_pat. reflexivity. Qed.

(* the first hit that tracks something is a prefix of everything tracked *)
Lemma first_hit_prefix : forall p evs, exists rest, of_pat p evs = first_hit p evs ++ rest.
Proof.
  intros p evs. induction evs as [|[q ms] t IH]; cbn [of_pat first_hit]; [exists []; reflexivity|].
  destruct (Nat.eqb q p); cbn [andb]; [|exact IH].
  destruct ms as [|m ms']; cbn [nonempty]; [exact IH|]. exists (of_pat p t). reflexivity.
Qed.

Lemma first_hit_nonempty : forall p evs, nonempty (first_hit p evs) = nonempty (of_pat p evs).
Proof.
  intros p evs. induction evs as [|[q ms] t IH]; cbn [of_pat first_hit]; [reflexivity|].
  destruct (Nat.eqb q p); cbn [andb]; [|exact IH].
  destruct ms as [|m ms']; cbn [nonempty app]; [exact IH|reflexivity].
Qed.

(* per pattern: the fast-scan matches are a subset of the normal ones; equal
   for an ineligible pattern; for an eligible pattern exactly the matches of
   the first hit that tracks something - a prefix, in tracking order, of the
   normal ones, containing the first match the scanner tracks *)
Theorem fast_scan_matches_subset_with_first : forall el evs p,
  let N := tracked false el evs p in
  let F := tracked true el evs p in
  incl F N /\
  (el p = false -> F = N) /\
  (el p = true -> F = first_hit p evs /\ exists rest, N = F ++ rest) /\
  (forall m, hd_error N = Some m -> In m F).
Proof.
  intros el evs p N F. subst N F. rewrite tracked_normal, tracked_fast.
  destruct (first_hit_prefix p evs) as [rest Hr].
  destruct (el p).
  - split; [|split; [|split]].
    + intros x H. rewrite Hr. apply in_or_app. left; exact H.
    + discriminate.
    + intros _. split; [reflexivity|exists rest; exact Hr].
    + intros m H. pose proof (first_hit_nonempty p evs) as Hn.
      destruct (first_hit p evs) as [|y l] eqn:E.
      * cbn [nonempty] in Hn. destruct (of_pat p evs); [discriminate H|discriminate Hn].
      * rewrite Hr in H. cbn [app hd_error] in H. inversion H; subst. left; reflexivity.
  - split; [|split; [|split]].
    + intros x H; exact H.
    + reflexivity.
    + discriminate.
    + intros m H. destruct (of_pat p evs); cbn [hd_error] in H; [discriminate|]. inversion H; subst. left; reflexivity.
Qed.

(* if the scanner tracks the matches of p in ascending start order, the match
   kept by fast scan includes the one with the lowest start *)
Fixpoint starts_ascending (l : list mt) : Prop :=
  match l with
  | [] => True
  | (s, _) :: t => (match t with [] => True | (s', _) :: _ => s <= s' end) /\ starts_ascending t
  end.

Lemma min_start_ascending : forall l s len, starts_ascending ((s, len) :: l) -> min_start ((s, len) :: l) = Some s.
Proof.
  induction l as [|[s' len'] t IH]; intros s len H; [reflexivity|].
  destruct H as [Hle Ht]. cbn [min_start] in *. specialize (IH s' len' Ht). cbn [min_start] in IH. rewrite IH. f_equal. lia.
Qed.

Theorem fast_scan_keeps_lowest_if_ordered : forall el evs p,
  starts_ascending (tracked false el evs p) ->
  forall s, min_start (tracked false el evs p) = Some s ->
  exists len, In (s, len) (tracked true el evs p).
Proof.
  intros el evs p Hasc s Hmin.
  destruct (tracked false el evs p) as [|[s0 l0] t] eqn:E; [discriminate|].
  pose proof (eq_trans (eq_sym Hmin) (min_start_ascending t s0 l0 Hasc)) as Hm. inversion Hm; subst s0.
  exists l0. destruct (fast_scan_matches_subset_with_first el evs p) as [_ [_ [_ H]]]. apply H. rewrite E. reflexivity.
Qed.

(* the scanner does NOT always track in ascending start order (alternatives
   whose atoms have different backtrack values): then the match kept by fast
   scan is not the lowest one.  Shape of the witness replayed on the
   implementation: { ( ?? ?? ?? ?? ?? ?? 58 59 5A 57 | 51 52 53 54 ) } on "..QRSTXYZW" *)
Theorem fast_first_is_lowest_refuted :
  exists el evs p s, min_start (tracked false el evs p) = Some s /\
                     forall len, ~ In (s, len) (tracked true el evs p).
Proof.
  exists (fun _ => true), [(0%nat, [(2, 4)]); (0%nat, [(0, 10)])], 0%nat, 0.
  split; [reflexivity|]. intros len H. vm_compute in H. destruct H as [H|[]]. inversion H.
Qed.

(* ------------------------------------------------------------ verdicts *)
Lemma feval_same : forall el evs prev c,
  (forall p, observes c p = true -> el p = false) ->
  feval (tracked true el evs) prev c = feval (tracked false el evs) prev c.
Proof.
  intros el evs prev c. induction c as [b|p|p f|p f|r|c IH|a IHa b IHb|a IHa b IHb]; intros H; cbn [feval].
  - reflexivity.
  - rewrite tracked_fast, tracked_normal. destruct (el p); [apply first_hit_nonempty|reflexivity].
  - rewrite tracked_fast, tracked_normal. rewrite (H p); [reflexivity|]. cbn [observes]. apply Nat.eqb_refl.
  - rewrite tracked_fast, tracked_normal. rewrite (H p); [reflexivity|]. cbn [observes]. apply Nat.eqb_refl.
  - reflexivity.
  - rewrite IH; [reflexivity|]. intros p Hp. apply H. exact Hp.
  - rewrite IHa, IHb; [reflexivity| |]; intros p Hp; apply H; cbn [observes]; rewrite Hp; [apply orb_true_r|reflexivity].
  - rewrite IHa, IHb; [reflexivity| |]; intros p Hp; apply H; cbn [observes]; rewrite Hp; [apply orb_true_r|reflexivity].
Qed.

Lemma fverdicts_same : forall el evs rs prev,
  (forall c p, In c rs -> observes c p = true -> el p = false) ->
  fverdicts rs (tracked true el evs) prev = fverdicts rs (tracked false el evs) prev.
Proof.
  intros el evs rs. induction rs as [|c t IH]; intros prev H; [reflexivity|].
  cbn [fverdicts]. rewrite (feval_same el evs prev c); [|intros p Hp; apply (H c p); [left; reflexivity|exact Hp]].
  apply IH. intros c' p Hin. apply H. right; exact Hin.
Qed.

(* fast-scan mode does not change any verdict, provided the eligibility
   analysis covers every use that looks at a match list *)
Theorem fast_scan_same_verdicts : forall ofd rules evs,
  analysis_covers ofd rules ->
  scan_verdicts ofd true rules evs = scan_verdicts ofd false rules evs.
Proof.
  intros ofd rules evs H. unfold scan_verdicts. apply fverdicts_same. exact H.
Qed.

(* if anchored `of` expressions clear the bit, the analysis covers everything *)
Lemma observes_disallows : forall c p, observes c p = true -> disallows true c p = true.
Proof.
  induction c as [b|q|q f|q f|r|c IH|a IHa b IHb|a IHa b IHb]; intros p H; cbn [observes disallows] in *; try discriminate; auto.
  - apply orb_true_iff in H. apply orb_true_iff. destruct H; [left; apply IHa|right; apply IHb]; assumption.
  - apply orb_true_iff in H. apply orb_true_iff. destruct H; [left; apply IHa|right; apply IHb]; assumption.
Qed.

Lemma covers_when_flag : forall rules, analysis_covers true rules.
Proof.
  intros rules c p Hin Ho. unfold elig. apply not_true_is_false. intro A.
  rewrite forallb_forall in A. specialize (A c Hin). rewrite (observes_disallows c p Ho) in A. discriminate.
Qed.

(* ... and as coded (the bit is left alone) a verdict can change *)
Definition w_rules : list fcond := [FOfAnch 0 (fun l => existsb (fun m => (10 <=? fst m) && (fst m <=? 20)) l)].
Definition w_events : list event := [(0%nat, [(0, 4)]); (0%nat, [(12, 4)])].
Theorem fast_scan_same_verdicts_refuted :
  scan_verdicts false true w_rules w_events = [false] /\ scan_verdicts false false w_rules w_events = [true].
Proof. vm_compute. split; reflexivity. Qed.

(* selection by the generated flag *)
Definition fast_statement (ofd : bool) : Prop :=
  if ofd then forall rules evs, scan_verdicts true true rules evs = scan_verdicts true false rules evs
  else (exists rules evs, scan_verdicts false true rules evs <> scan_verdicts false false rules evs) /\
       (forall rules evs, analysis_covers false rules ->
                          scan_verdicts false true rules evs = scan_verdicts false false rules evs).
Lemma fast_statement_holds : forall ofd, fast_statement ofd.
Proof.
  intros [|]; cbn [fast_statement].
  - intros rules evs. apply fast_scan_same_verdicts. apply covers_when_flag.
  - split.
    + exists w_rules, w_events. destruct fast_scan_same_verdicts_refuted as [-> ->]. discriminate.
    + intros rules evs H. apply fast_scan_same_verdicts. exact H.
Qed.

(* non-vacuity: a rule set for which the guard holds, with a shared pattern
   that one rule counts (ineligible) and another uses bare *)
Example fast_scan_example :
  let rules := [FAnd (FBare 0) (FBare 1); FObs 1 (fun l => Nat.leb 2 (length l)); FOr (FRule 0) (FNot (FBare 2))] in
  let evs := [(1%nat, [(3, 4)]); (0%nat, []); (0%nat, [(5, 2); (7, 2)]); (0%nat, [(9, 2)]); (1%nat, [(20, 4)])] in
  (forall p, In p [0; 1; 2]%nat -> forall c, In c rules -> observes c p = true -> elig false rules p = false) /\
  elig false rules 0 = true /\ elig false rules 1 = false /\
  tracked true (elig false rules) evs 0%nat = [(5, 2); (7, 2)] /\ tracked true (elig false rules) evs 1%nat = [(3, 4); (20, 4)] /\
  scan_verdicts false true rules evs = [true; true; true].
Proof.
  cbn zeta. split.
  - intros p Hp c Hc Ho. cbn [In] in Hp, Hc.
    destruct Hp as [<-|[<-|[<-|[]]]]; destruct Hc as [<-|[<-|[<-|[]]]]; cbn in Ho; try discriminate; reflexivity.
  - vm_compute. repeat split.
Qed.
