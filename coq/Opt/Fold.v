(* C03 - constant folding while the IR is built (lib/src/compiler/ir/mod.rs),
   AS WRITTEN, next to the run-time semantics of the code emitted for the same
   expression (lib/src/compiler/emit.rs).  Definitions only; proofs are in
   FoldProofs.v.

   Source facts modelled (function names refer to ir/mod.rs):
   * [IR::add/sub/mul] call [fold_arithmetic(operands, is_float, |acc,x| acc OP x)]:
     if every operand is [Expr::Const] the operands are converted with
     [v as f64], reduced left to right IN f64, and the integer result is
     accepted iff [folded >= i64::MIN as f64 && folded <= i64::MAX as f64],
     then converted back with [folded as i64] (saturating); otherwise
     [Err(NumberOutOfRange)] (a compile error).
   * [IR::minus] folds [-v]: with [v.wrapping_neg()] when the generated flag
     [minus_wraps] is set, otherwise with the plain i64 negation, which panics
     on i64::MIN when overflow checks are on (the profile the harness uses).
   * [IR::bitwise_not/and/or/xor] fold directly on i64.
   * [IR::shl/shr] fold when both are constant and [rhs >= 0]:
     [if rhs >= 64 {0} else {lhs << rhs}] (resp. [>>], arithmetic).
     A constant negative right operand is a compile error ([shx_check]).
   * comparisons are NOT folded.
   * [IR::not] folds a constant boolean; [IR::and]/[IR::or] drop the operands
     known to be true (false), fold to a constant if none is left or if a
     constant operand is left.
   Run time: i64.add/sub/mul wrap; minus is [0 - x]; shifts are
   [if rhs <s 64 then lhs SHIFT (rhs mod 64) else 0]; an undefined operand makes
   the whole arithmetic expression / comparison / [not] undefined; [and]
   catches undefined and yields false; [or] catches undefined per operand. *)
From Coq Require Import List ZArith Bool Lia.
From YV Require Import Gen.FoldGen.
Import ListNotations.
Local Open Scope Z_scope.

(* ------------------------------------------------------------------ i64 *)
Definition i64_min : Z := - 2 ^ 63.
Definition i64_max : Z := 2 ^ 63 - 1.
Definition in_i64 (z : Z) : bool := (i64_min <=? z) && (z <=? i64_max).
Definition wrap64 (z : Z) : Z := (z + 2 ^ 63) mod 2 ^ 64 - 2 ^ 63.
(* Rust [f64 as i64]: saturating (NaN does not occur: see fold_arith_f64) *)
Definition sat64 (z : Z) : Z := Z.max i64_min (Z.min i64_max z).

(* ------------------------------------------------------------------ f64 *)
(* An integer-valued double is represented by the integer itself.
   [round53 z]: the double nearest to the integer z (round to nearest, ties to
   even, 53 significant bits) - what [z as f64] yields for an i64, and what a
   correctly rounded +,-,* of two integer-valued doubles yields for the exact
   result z, as long as the result is finite. *)
Definition round53 (z : Z) : Z :=
  if Z.abs z <=? 2 ^ 53 then z
  else
    let a := Z.abs z in
    let k := Z.log2 a + 1 - 53 in            (* number of low bits dropped, >= 1 *)
    let q := a / 2 ^ k in
    let r := a mod 2 ^ k in
    let half := 2 ^ (k - 1) in
    let q' := if r <? half then q
              else if half <? r then q + 1
              else if Z.even q then q else q + 1 in
    Z.sgn z * (q' * 2 ^ k).

(* finite doubles are below 2^1024 in absolute value *)
Definition f64_finite (z : Z) : bool := Z.abs z <? 2 ^ 1024.

Inductive aop := OAdd | OSub | OMul.
Definition aop_exact (o : aop) (a b : Z) : Z :=
  match o with OAdd => a + b | OSub => a - b | OMul => a * b end.

(* one step of [.reduce(f)] in f64; None = the accumulator is +-inf or NaN.
   Once non-finite it stays non-finite (inf +-* finite is inf or NaN), and a
   non-finite value never passes the range test. *)
Definition f64_step (o : aop) (acc : option Z) (x : Z) : option Z :=
  match acc with
  | None => None
  | Some a => let r := round53 (aop_exact o a x) in
              if f64_finite r then Some r else None
  end.

(* result of a compile-time evaluation *)
Inductive cres (A : Type) :=
| COk (a : A)
| CErrRange          (* Err(NumberOutOfRange): compile error *)
| CErrNegShift       (* shx_check: constant negative shift count *)
| CPanicNeg.         (* `-v` with v = i64::MIN: overflow panic (overflow checks on) *)
Arguments COk {A} a. Arguments CErrRange {A}. Arguments CErrNegShift {A}. Arguments CPanicNeg {A}.

Definition cbind {A B} (x : cres A) (f : A -> cres B) : cres B :=
  match x with COk a => f a | CErrRange => CErrRange | CErrNegShift => CErrNegShift | CPanicNeg => CPanicNeg end.

(* fold_arithmetic, integer case, as written (through f64).  The two bounds of
   the range test are the GENERATED constants (what `i64::MIN as f64` and
   `i64::MAX as f64` denote, i.e. round53 of the integer named in the source). *)
Definition fold_arith_f64 (o : aop) (vs : list Z) : cres Z :=
  match vs with
  | [] => CErrRange (* unreachable: debug_assert!(!operands.is_empty()) *)
  | v :: rest =>
      match fold_left (f64_step o) (map round53 rest) (Some (round53 v)) with
      | None => CErrRange
      | Some folded =>
          if (round53 range_lo_int <=? folded) && (folded <=? round53 range_hi_int)
          then COk (sat64 folded) else CErrRange
      end
  end.

(* the variant a repaired source would use (checked i64 arithmetic; overflow
   reported as NumberOutOfRange); selected when the translator no longer finds
   f64 in the folding closure *)
Definition chk_step (o : aop) (acc : option Z) (x : Z) : option Z :=
  match acc with
  | None => None
  | Some a => let r := aop_exact o a x in if in_i64 r then Some r else None
  end.
Definition fold_arith_checked (o : aop) (vs : list Z) : cres Z :=
  match vs with
  | [] => CErrRange
  | v :: rest => match fold_left (chk_step o) rest (Some v) with
                 | None => CErrRange | Some r => COk r end
  end.

Definition fold_arith (via_f64 : bool) (o : aop) (vs : list Z) : cres Z :=
  if via_f64 then fold_arith_f64 o vs else fold_arith_checked o vs.

(* does the generated table say that IR::add / sub / mul go through
   fold_arithmetic?  (if not, the operator is simply not folded) *)
Definition aop_folded (o : aop) : bool :=
  match o with OAdd => add_uses_fold_arithmetic | OSub => sub_uses_fold_arithmetic
             | OMul => mul_uses_fold_arithmetic end.

(* ------------------------------------------------------------------ syntax *)
Inductive bop := BAnd2 | BOr2 | BXor2 | BShl | BShr.

Inductive iexp :=
| IConst (z : Z)                       (* integer literal / folded constant, in i64 *)
| IVar (n : nat)                       (* run-time integer (filesize, uintN(..)): may be undefined *)
| IArith (o : aop) (es : list iexp)    (* n-ary + - *, as the parser builds them *)
| INeg (e : iexp)
| IBNot (e : iexp)
| IBin (o : bop) (a b : iexp).

Inductive cmp := CEq | CNe | CLt | CLe | CGt | CGe.

Inductive bexp :=
| BConst (b : bool)
| BVar (n : nat)                       (* run-time boolean ($a, rule reference, ...): may be undefined *)
| BOfInt (e : iexp)                    (* integer where a boolean is expected *)
| BCmp (c : cmp) (a b : iexp)
| BNot (e : bexp)
| BAnd (es : list bexp)
| BOr (es : list bexp).

(* ------------------------------------------------------------------ run time *)
Definition env := nat -> option Z.
Definition benv := nat -> option bool.

Definition obind {A B} (x : option A) (f : A -> option B) : option B :=
  match x with Some a => f a | None => None end.

Fixpoint all_some {A} (l : list (option A)) : option (list A) :=
  match l with
  | [] => Some []
  | x :: t => obind x (fun a => obind (all_some t) (fun t' => Some (a :: t')))
  end.

Definition rt_arith (o : aop) (vs : list Z) : Z :=
  match vs with
  | [] => 0
  | v :: rest => fold_left (fun acc x => wrap64 (aop_exact o acc x)) rest v
  end.

Definition rt_bin (o : bop) (a b : Z) : Z :=
  match o with
  (* wrap64 is the identity on the results of and/or/xor/shr_s of i64 values;
     it is kept so that "the result is an i64" holds by construction *)
  | BAnd2 => wrap64 (Z.land a b)
  | BOr2 => wrap64 (Z.lor a b)
  | BXor2 => wrap64 (Z.lxor a b)
  | BShl => if b <? 64 then wrap64 (Z.shiftl a (b mod 64)) else 0
  | BShr => if b <? 64 then wrap64 (Z.shiftr a (b mod 64)) else 0
  end.

Fixpoint ieval (rho : env) (e : iexp) : option Z :=
  match e with
  | IConst z => Some z
  | IVar n => rho n
  | IArith o es => obind (all_some (map (ieval rho) es)) (fun vs => Some (rt_arith o vs))
  | INeg e => obind (ieval rho e) (fun v => Some (wrap64 (0 - v)))
  | IBNot e => obind (ieval rho e) (fun v => Some (Z.lxor v (-1)))
  | IBin o a b => obind (ieval rho a) (fun va => obind (ieval rho b) (fun vb => Some (rt_bin o va vb)))
  end.

Definition cmp_eval (c : cmp) (a b : Z) : bool :=
  match c with
  | CEq => a =? b | CNe => negb (a =? b) | CLt => a <? b | CLe => a <=? b
  | CGt => b <? a | CGe => b <=? a
  end.

Definition is_true (x : option bool) : bool := match x with Some true => true | _ => false end.

Fixpoint beval (rho : env) (beta : benv) (e : bexp) : option bool :=
  match e with
  | BConst b => Some b
  | BVar n => beta n
  | BOfInt e => obind (ieval rho e) (fun v => Some (negb (v =? 0)))
  | BCmp c a b => obind (ieval rho a) (fun va => obind (ieval rho b) (fun vb => Some (cmp_eval c va vb)))
  | BNot e => obind (beval rho beta e) (fun v => Some (negb v))
  | BAnd es => Some (forallb (fun x => is_true (beval rho beta x)) es)
  | BOr es => Some (existsb (fun x => is_true (beval rho beta x)) es)
  end.

(* verdict of a rule whose condition is e: undefined counts as false *)
Definition verdict (rho : env) (beta : benv) (e : bexp) : bool := is_true (beval rho beta e).

(* ------------------------------------------------------------------ folding *)
Fixpoint call {A} (l : list (cres A)) : cres (list A) :=
  match l with
  | [] => COk []
  | x :: t => cbind x (fun a => cbind (call t) (fun t' => COk (a :: t')))
  end.

Definition as_const (e : iexp) : option Z := match e with IConst z => Some z | _ => None end.

Definition fold_bin (o : bop) (a b : iexp) : cres iexp :=
  match o with
  | BShl | BShr =>
      match as_const b with
      | Some vb =>
          if vb <? 0 then CErrNegShift
          else match as_const a with
               | Some va => COk (IConst (if 64 <=? vb then 0 else
                                           match o with BShl => wrap64 (Z.shiftl va vb) | _ => wrap64 (Z.shiftr va vb) end))
               | None => COk (IBin o a b)
               end
      | None => COk (IBin o a b)
      end
  | _ =>
      match as_const a, as_const b with
      | Some va, Some vb => COk (IConst (rt_bin o va vb))
      | _, _ => COk (IBin o a b)
      end
  end.

Fixpoint ifold (via_f64 : bool) (e : iexp) : cres iexp :=
  match e with
  | IConst z => COk (IConst z)
  | IVar n => COk (IVar n)
  | IArith o es =>
      cbind (call (map (ifold via_f64) es)) (fun es' =>
        match all_some (map as_const es') with
        | Some vs => if aop_folded o
                     then cbind (fold_arith via_f64 o vs) (fun v => COk (IConst v))
                     else COk (IArith o es')
        | None => COk (IArith o es')
        end)
  | INeg e =>
      cbind (ifold via_f64 e) (fun e' =>
        match as_const e' with
        | Some v => if minus_wraps then COk (IConst (wrap64 (0 - v)))       (* v.wrapping_neg() *)
                    else if v =? i64_min then CPanicNeg else COk (IConst (- v))
        | None => COk (INeg e')
        end)
  | IBNot e =>
      cbind (ifold via_f64 e) (fun e' =>
        match as_const e' with
        | Some v => COk (IConst (Z.lnot v))
        | None => COk (IBNot e')
        end)
  | IBin o a b =>
      cbind (ifold via_f64 a) (fun a' => cbind (ifold via_f64 b) (fun b' => fold_bin o a' b'))
  end.

(* type_value().cast_to_bool() is Const for a constant boolean / integer *)
Definition const_bool (e : bexp) : option bool :=
  match e with
  | BConst b => Some b
  | BOfInt (IConst z) => Some (negb (z =? 0))
  | _ => None
  end.
Definition is_constb (e : bexp) : bool := match const_bool e with Some _ => true | None => false end.

Definition fold_and (es : list bexp) : bexp :=
  let kept := filter (fun x => match const_bool x with Some true => false | _ => true end) es in
  match kept with
  | [] => BConst true
  | _ => if existsb is_constb kept then BConst false else BAnd kept
  end.
Definition fold_or (es : list bexp) : bexp :=
  let kept := filter (fun x => match const_bool x with Some false => false | _ => true end) es in
  match kept with
  | [] => BConst false
  | _ => if existsb is_constb kept then BConst true else BOr kept
  end.

Fixpoint bfold (via_f64 : bool) (e : bexp) : cres bexp :=
  match e with
  | BConst b => COk (BConst b)
  | BVar n => COk (BVar n)
  | BOfInt e => cbind (ifold via_f64 e) (fun e' => COk (BOfInt e'))
  | BCmp c a b => cbind (ifold via_f64 a) (fun a' => cbind (ifold via_f64 b) (fun b' => COk (BCmp c a' b')))
  | BNot e => cbind (bfold via_f64 e) (fun e' =>
                match e' with BConst v => COk (BConst (negb v)) | _ => COk (BNot e') end)
  | BAnd es => cbind (call (map (bfold via_f64) es)) (fun es' => COk (fold_and es'))
  | BOr es => cbind (call (map (bfold via_f64) es)) (fun es' => COk (fold_or es'))
  end.

(* the model of the tree as it is: flag from the translator *)
Definition ifold_cur := ifold fold_via_f64.
Definition bfold_cur := bfold fold_via_f64.

(* ------------------------------------------------------------------ guards *)
(* literals are i64 *)
Fixpoint iwf (e : iexp) : bool :=
  match e with
  | IConst z => in_i64 z
  | IVar _ => true
  | IArith _ es => negb (match es with [] => true | _ => false end) && forallb iwf es
  | INeg e | IBNot e => iwf e
  | IBin _ a b => iwf a && iwf b
  end.
Fixpoint bwf (e : bexp) : bool :=
  match e with
  | BConst _ | BVar _ => true
  | BOfInt e => iwf e
  | BCmp _ a b => iwf a && iwf b
  | BNot e => bwf e
  | BAnd es | BOr es => forallb bwf es
  end.
(* the run-time environment yields i64 values *)
Definition env_ok (rho : env) : Prop := forall n v, rho n = Some v -> in_i64 v = true.

(* "small": every constant-only + - * has operands and exact partial results
   of absolute value <= 2^53 (the class on which f64 arithmetic is exact) *)
Definition small (z : Z) : bool := Z.abs z <=? 2 ^ 53.
Fixpoint partials_small (o : aop) (acc : Z) (rest : list Z) : bool :=
  match rest with
  | [] => true
  | x :: t => small x && small (aop_exact o acc x) && partials_small o (aop_exact o acc x) t
  end.
Definition arith_small (o : aop) (vs : list Z) : bool :=
  match vs with [] => true | v :: rest => small v && partials_small o v rest end.

(* all constant-only arithmetic nodes met while folding e are small;
   computed along the fold itself (on the already folded operands) *)
Fixpoint ismall (via_f64 : bool) (e : iexp) : bool :=
  match e with
  | IConst _ | IVar _ => true
  | IArith o es =>
      forallb (ismall via_f64) es &&
      match call (map (ifold via_f64) es) with
      | COk es' => match all_some (map as_const es') with
                   | Some vs => arith_small o vs
                   | None => true
                   end
      | _ => true
      end
  | INeg e | IBNot e => ismall via_f64 e
  | IBin _ a b => ismall via_f64 a && ismall via_f64 b
  end.
Fixpoint bsmall (via_f64 : bool) (e : bexp) : bool :=
  match e with
  | BConst _ | BVar _ => true
  | BOfInt e => ismall via_f64 e
  | BCmp _ a b => ismall via_f64 a && ismall via_f64 b
  | BNot e => bsmall via_f64 e
  | BAnd es | BOr es => forallb (bsmall via_f64) es
  end.
