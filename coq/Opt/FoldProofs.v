(* C03 - proofs about Opt/Fold.v:
   fold_sound is REFUTED for the folding through f64 that the tree performs
   (witnesses: 9007199254740993 + 1 and 0x7fffffffffffffff + 1), proved under
   the guard "operands and exact partial results <= 2^53 in absolute value", and
   proved without guard for checked-i64 folding (the variant selected if the
   translator stops finding f64 in fold_arithmetic). *)
From Coq Require Import List ZArith Bool Lia.
From YV Require Import Gen.FoldGen Opt.Fold.
Import ListNotations.
Local Open Scope Z_scope.

(* ------------------------------------------------------------ induction *)
Section iexp_ind2.
  Variable P : iexp -> Prop.
  Hypothesis Hc : forall z, P (IConst z).
  Hypothesis Hv : forall n, P (IVar n).
  Hypothesis Ha : forall o es, Forall P es -> P (IArith o es).
  Hypothesis Hn : forall e, P e -> P (INeg e).
  Hypothesis Hb : forall e, P e -> P (IBNot e).
  Hypothesis Hbin : forall o a b, P a -> P b -> P (IBin o a b).
  Fixpoint iexp_ind2 (e : iexp) : P e :=
    match e with
    | IConst z => Hc z
    | IVar n => Hv n
    | IArith o es => Ha o es ((fix go (l : list iexp) : Forall P l :=
                                 match l with [] => Forall_nil P | x :: t => Forall_cons x (iexp_ind2 x) (go t) end) es)
    | INeg e => Hn e (iexp_ind2 e)
    | IBNot e => Hb e (iexp_ind2 e)
    | IBin o a b => Hbin o a b (iexp_ind2 a) (iexp_ind2 b)
    end.
End iexp_ind2.

Section bexp_ind2.
  Variable P : bexp -> Prop.
  Hypothesis Hc : forall b, P (BConst b).
  Hypothesis Hv : forall n, P (BVar n).
  Hypothesis Hi : forall e, P (BOfInt e).
  Hypothesis Hcmp : forall c a b, P (BCmp c a b).
  Hypothesis Hn : forall e, P e -> P (BNot e).
  Hypothesis Ha : forall es, Forall P es -> P (BAnd es).
  Hypothesis Ho : forall es, Forall P es -> P (BOr es).
  Fixpoint bexp_ind2 (e : bexp) : P e :=
    match e with
    | BConst b => Hc b
    | BVar n => Hv n
    | BOfInt e => Hi e
    | BCmp c a b => Hcmp c a b
    | BNot e => Hn e (bexp_ind2 e)
    | BAnd es => Ha es ((fix go (l : list bexp) : Forall P l :=
                           match l with [] => Forall_nil P | x :: t => Forall_cons x (bexp_ind2 x) (go t) end) es)
    | BOr es => Ho es ((fix go (l : list bexp) : Forall P l :=
                          match l with [] => Forall_nil P | x :: t => Forall_cons x (bexp_ind2 x) (go t) end) es)
    end.
End bexp_ind2.

(* ------------------------------------------------------------ i64 / f64 facts *)
Lemma in_i64_iff : forall z, in_i64 z = true <-> - 2 ^ 63 <= z <= 2 ^ 63 - 1.
Proof. intro z. unfold in_i64, i64_min, i64_max. rewrite andb_true_iff, !Z.leb_le. tauto. Qed.

Lemma wrap64_id : forall z, in_i64 z = true -> wrap64 z = z.
Proof.
  intros z H. apply in_i64_iff in H. unfold wrap64.
  rewrite Z.mod_small; lia.
Qed.

Lemma wrap64_in : forall z, in_i64 (wrap64 z) = true.
Proof.
  intro z. apply in_i64_iff. unfold wrap64.
  pose proof (Z.mod_pos_bound (z + 2 ^ 63) (2 ^ 64) ltac:(lia)). lia.
Qed.

Lemma small_iff : forall z, small z = true <-> Z.abs z <= 2 ^ 53.
Proof. intro z. unfold small. apply Z.leb_le. Qed.

Lemma small_in_i64 : forall z, small z = true -> in_i64 z = true.
Proof. intros z H. apply small_iff in H. apply in_i64_iff. lia. Qed.

Lemma round53_small : forall z, small z = true -> round53 z = z.
Proof. intros z H. unfold round53. unfold small in H. rewrite H. reflexivity. Qed.

Lemma small_finite : forall z, small z = true -> f64_finite z = true.
Proof.
  intros z H. apply small_iff in H. unfold f64_finite. apply Z.ltb_lt.
  assert (2 ^ 53 < 2 ^ 1024) by (apply Z.pow_lt_mono_r; lia). lia.
Qed.

Lemma sat64_id : forall z, in_i64 z = true -> sat64 z = z.
Proof. intros z H. apply in_i64_iff in H. unfold sat64, i64_min, i64_max. lia. Qed.

Lemma sat64_in : forall z, in_i64 (sat64 z) = true.
Proof. intro z. apply in_i64_iff. unfold sat64, i64_min, i64_max. lia. Qed.

(* what the generated bounds of the range test must satisfy for the guarded
   theorem: re-checked on every run against the regenerated constants *)
Lemma range_covers_small : round53 range_lo_int <= - 2 ^ 53 /\ 2 ^ 53 <= round53 range_hi_int.
Proof. vm_compute. split; discriminate. Qed.

(* ------------------------------------------------------------ fold_arithmetic *)
Lemma f64_partials : forall o rest acc,
  small acc = true -> partials_small o acc rest = true ->
  fold_left (f64_step o) (map round53 rest) (Some acc)
  = Some (fold_left (fun a x => wrap64 (aop_exact o a x)) rest acc)
  /\ small (fold_left (fun a x => wrap64 (aop_exact o a x)) rest acc) = true.
Proof.
  intros o rest. induction rest as [|x t IH]; intros acc Ha Hp; cbn [map fold_left partials_small] in *.
  - split; [reflexivity|exact Ha].
  - apply andb_true_iff in Hp. destruct Hp as [Hp Ht]. apply andb_true_iff in Hp. destruct Hp as [Hx Hr].
    rewrite (round53_small x Hx).
    unfold f64_step at 2. rewrite (round53_small _ Hr), (small_finite _ Hr).
    rewrite (wrap64_id _ (small_in_i64 _ Hr)).
    apply IH; assumption.
Qed.

Lemma fold_arith_f64_small : forall o vs,
  vs <> [] -> arith_small o vs = true -> fold_arith_f64 o vs = COk (rt_arith o vs).
Proof.
  intros o vs Hne Hs. destruct vs as [|v rest]; [congruence|].
  cbn [arith_small] in Hs. apply andb_true_iff in Hs. destruct Hs as [Hv Hp].
  unfold fold_arith_f64, rt_arith. rewrite (round53_small v Hv).
  destruct (f64_partials o rest v Hv Hp) as [E S]. rewrite E.
  pose proof range_covers_small as [Lo Hi]. apply small_iff in S.
  set (r := fold_left (fun a x => wrap64 (aop_exact o a x)) rest v) in *.
  assert (T : (round53 range_lo_int <=? r) && (r <=? round53 range_hi_int) = true).
  { apply andb_true_iff. rewrite !Z.leb_le. lia. }
  rewrite T. rewrite sat64_id; [reflexivity|]. apply in_i64_iff. lia.
Qed.

Lemma chk_partials : forall o rest acc r,
  fold_left (chk_step o) rest (Some acc) = Some r ->
  r = fold_left (fun a x => wrap64 (aop_exact o a x)) rest acc.
Proof.
  intros o rest. induction rest as [|x t IH]; intros acc r H; cbn [fold_left] in *.
  - congruence.
  - unfold chk_step at 2 in H. destruct (in_i64 (aop_exact o acc x)) eqn:E.
    + rewrite (wrap64_id _ E). apply IH. exact H.
    + exfalso. clear -H. induction t as [|y t IHt]; cbn [fold_left] in H; [discriminate|].
      apply IHt. exact H.
Qed.

Lemma fold_arith_checked_sound : forall o vs r,
  fold_arith_checked o vs = COk r -> r = rt_arith o vs.
Proof.
  intros o vs r H. destruct vs as [|v rest]; [discriminate|].
  unfold fold_arith_checked in H. unfold rt_arith.
  destruct (fold_left (chk_step o) rest (Some v)) eqn:E; [|discriminate].
  inversion H; subst. apply (chk_partials o rest v r E).
Qed.

Lemma fold_arith_in : forall via o vs r, fold_arith via o vs = COk r -> Forall (fun v => in_i64 v = true) vs -> in_i64 r = true.
Proof.
  intros via o vs r H Hin. destruct via; unfold fold_arith in H.
  - unfold fold_arith_f64 in H. destruct vs as [|v rest]; [discriminate|].
    destruct (fold_left (f64_step o) (map round53 rest) (Some (round53 v))); [|discriminate].
    destruct ((round53 range_lo_int <=? z) && (z <=? round53 range_hi_int)); [|discriminate].
    inversion H. apply sat64_in.
  - destruct vs as [|v rest]; [discriminate|]. unfold fold_arith_checked in H.
    destruct (fold_left (chk_step o) rest (Some v)) eqn:E; [|discriminate]. inversion H; subst.
    apply Forall_cons_iff in Hin. destruct Hin as [Hv0 Hrest]. clear H. revert v E Hv0. induction rest as [|x t IH]; intros v E Hv; cbn [fold_left] in E.
    + inversion E; subst; assumption.
    + unfold chk_step at 2 in E. destruct (in_i64 (aop_exact o v x)) eqn:Ein.
      * apply Forall_cons_iff in Hrest. destruct Hrest as [_ Ht]. apply (IH Ht _ E Ein).
      * exfalso. clear -E. induction t as [|y t IHt]; cbn [fold_left] in E; [discriminate|]. apply IHt; exact E.
Qed.

(* ------------------------------------------------------------ list plumbing *)
Lemma call_forall2 : forall A B (f : A -> cres B) l l',
  call (map f l) = COk l' -> Forall2 (fun a b => f a = COk b) l l'.
Proof.
  intros A B f l. induction l as [|a t IH]; intros l' H; cbn [map call] in H.
  - inversion H. constructor.
  - destruct (f a) eqn:Ea; cbn [cbind] in H; try discriminate.
    destruct (call (map f t)) eqn:Et; cbn [cbind] in H; try discriminate.
    inversion H; subst. constructor; [exact Ea|apply IH; reflexivity].
Qed.

Lemma all_some_map_const : forall es vs,
  all_some (map as_const es) = Some vs -> es = map IConst vs.
Proof.
  induction es as [|e t IH]; intros vs H; cbn [map all_some] in H.
  - inversion H. reflexivity.
  - destruct e; cbn [as_const obind] in H; try discriminate.
    destruct (all_some (map as_const t)) eqn:Et; cbn [obind] in H; [|discriminate].
    inversion H; subst. cbn [map]. f_equal. apply IH. reflexivity.
Qed.

Lemma all_some_consts : forall rho vs, all_some (map (ieval rho) (map IConst vs)) = Some vs.
Proof.
  intros rho vs. induction vs as [|v t IH]; cbn [map all_some ieval obind]; [reflexivity|].
  rewrite IH. reflexivity.
Qed.


Lemma all_some_map_Forall : forall A B (f : A -> option B) (P : B -> Prop) l vs,
  all_some (map f l) = Some vs -> (forall a v, In a l -> f a = Some v -> P v) -> Forall P vs.
Proof.
  intros A B f P l. induction l as [|a t IH]; intros vs H HP; cbn [map all_some] in H.
  - inversion H. constructor.
  - destruct (f a) eqn:Ea; cbn [obind] in H; [|discriminate].
    destruct (all_some (map f t)) eqn:Et; cbn [obind] in H; [|discriminate]. inversion H; subst.
    constructor; [apply (HP a); [left; reflexivity|exact Ea]|].
    apply IH; [reflexivity|]. intros a0 v Hin. apply HP. right; exact Hin.
Qed.

Lemma all_some_map_nonempty : forall A B (f : A -> option B) l vs,
  all_some (map f l) = Some vs -> l <> [] -> vs <> [].
Proof.
  intros A B f l vs H Hne. destruct l as [|a t]; [congruence|]. cbn [map all_some] in H.
  destruct (f a); cbn [obind] in H; [|discriminate]. destruct (all_some (map f t)); cbn [obind] in H; [|discriminate].
  inversion H. discriminate.
Qed.

Lemma call_map_Forall : forall A B (f : A -> cres B) (P : B -> Prop) l l',
  call (map f l) = COk l' -> (forall a b, In a l -> f a = COk b -> P b) -> Forall P l'.
Proof.
  intros A B f P l. induction l as [|a t IH]; intros l' H HP; cbn [map call] in H.
  - inversion H. constructor.
  - destruct (f a) eqn:Ea; cbn [cbind] in H; try discriminate.
    destruct (call (map f t)) eqn:Et; cbn [cbind] in H; try discriminate. inversion H; subst.
    constructor; [apply (HP a); [left; reflexivity|exact Ea]|].
    apply IH; [reflexivity|]. intros a9 b9 Hin. apply HP. right; exact Hin.
Qed.

Lemma call_map_nonempty : forall A B (f : A -> cres B) l l',
  call (map f l) = COk l' -> l <> [] -> l' <> [].
Proof.
  intros A B f l l' H Hne. destruct l as [|a t]; [congruence|]. cbn [map call] in H.
  destruct (f a); cbn [cbind] in H; try discriminate. destruct (call (map f t)); cbn [cbind] in H; try discriminate.
  inversion H. discriminate.
Qed.

Lemma call_map_ext : forall A B C (f : A -> cres B) (g : B -> C) (h : A -> C) l l',
  call (map f l) = COk l' -> (forall a b, In a l -> f a = COk b -> g b = h a) -> map g l' = map h l.
Proof.
  intros A B C f g h l. induction l as [|a t IH]; intros l' H HP; cbn [map call] in H.
  - inversion H. reflexivity.
  - destruct (f a) eqn:Ea; cbn [cbind] in H; try discriminate.
    destruct (call (map f t)) eqn:Et; cbn [cbind] in H; try discriminate. inversion H; subst.
    cbn [map]. f_equal; [apply (HP a); [left; reflexivity|exact Ea]|].
    apply IH; [reflexivity|]. intros a9 b9 Hin. apply HP. right; exact Hin.
Qed.

Lemma forallb_of_map : forall A (p : A -> bool) l, forallb p l = forallb (fun b => b) (map p l).
Proof. intros A p l. induction l as [|a t IH]; [reflexivity|]. cbn [map forallb]. rewrite IH. reflexivity. Qed.
Lemma existsb_of_map : forall A (p : A -> bool) l, existsb p l = existsb (fun b => b) (map p l).
Proof. intros A p l. induction l as [|a t IH]; [reflexivity|]. cbn [map existsb]. rewrite IH. reflexivity. Qed.

(* ------------------------------------------------------------ well-formedness is kept *)
Lemma rt_arith_in : forall o vs, Forall (fun v => in_i64 v = true) vs -> vs <> [] -> in_i64 (rt_arith o vs) = true.
Proof.
  intros o vs H Hne. destruct vs as [|v rest]; [congruence|]. unfold rt_arith.
  apply Forall_cons_iff in H. destruct H as [Hv0 Hrest]. clear Hne. revert v Hv0. induction rest as [|x t IH]; intros v Hv; cbn [fold_left].
  - exact Hv.
  - apply Forall_cons_iff in Hrest. destruct Hrest as [_ Ht]. apply IH; [assumption|apply wrap64_in].
Qed.

Lemma rt_bin_in : forall o a b, in_i64 (rt_bin o a b) = true.
Proof.
  intros o a b. destruct o; cbn [rt_bin]; try apply wrap64_in;
    destruct (b <? 64); try apply wrap64_in; reflexivity.
Qed.

Lemma lnot_in : forall v, in_i64 v = true -> in_i64 (Z.lnot v) = true.
Proof. intros v H. apply in_i64_iff in H. apply in_i64_iff. unfold Z.lnot. lia. Qed.

Lemma all_some_forall2 : forall A (l : list (option A)) vs, all_some l = Some vs -> Forall2 (fun x v => x = Some v) l vs.
Proof.
  intros A l. induction l as [|x t IH]; intros vs H; cbn [all_some] in H.
  - inversion H. constructor.
  - destruct x; cbn [obind] in H; [|discriminate]. destruct (all_some t); cbn [obind] in H; [|discriminate].
    inversion H; subst. constructor; [reflexivity|apply IH; reflexivity].
Qed.

Lemma ieval_in : forall rho, env_ok rho -> forall e v, iwf e = true -> ieval rho e = Some v -> in_i64 v = true.
Proof.
  intros rho Hrho e. induction e as [z|n|o es IH|e IH|e IH|o a b IHa IHb] using iexp_ind2; intros v W E; cbn [ieval iwf] in *.
  - inversion E; subst. exact W.
  - eapply Hrho; eauto.
  - apply andb_true_iff in W. destruct W as [Wne Wes].
    destruct (all_some (map (ieval rho) es)) as [vs|] eqn:Ev; cbn [obind] in E; [|discriminate].
    inversion E; subst. rewrite forallb_forall in Wes. rewrite Forall_forall in IH. apply rt_arith_in.
    + apply (all_some_map_Forall _ _ _ _ _ _ Ev). intros a v0 Hin Ha. apply (IH a Hin v0 (Wes a Hin) Ha).
    + apply (all_some_map_nonempty _ _ _ _ _ Ev). destruct es; [discriminate|discriminate].
  - destruct (ieval rho e); cbn [obind] in E; [|discriminate]. inversion E. apply wrap64_in.
  - destruct (ieval rho e) eqn:Ee; cbn [obind] in E; [|discriminate]. inversion E. rewrite Z.lxor_m1_r. apply lnot_in. eapply IH; eauto.
  - destruct (ieval rho a); cbn [obind] in E; [|discriminate]. destruct (ieval rho b); cbn [obind] in E; [|discriminate].
    inversion E. apply rt_bin_in.
Qed.

Lemma ifold_wf : forall via e e', iwf e = true -> ifold via e = COk e' -> iwf e' = true.
Proof.
  intros via e. induction e as [z|n|o es IH|e IH|e IH|o a b IHa IHb] using iexp_ind2; intros e' W F; cbn [ifold iwf] in *.
  - inversion F; subst. exact W.
  - inversion F; subst. reflexivity.
  - apply andb_true_iff in W. destruct W as [Wne Wes].
    destruct (call (map (ifold via) es)) as [es'| | |] eqn:Ec; cbn [cbind] in F; try discriminate.
    assert (Wes' : forallb iwf es' = true).
    { rewrite forallb_forall in Wes. rewrite Forall_forall in IH. apply forallb_forall. apply Forall_forall.
      apply (call_map_Forall _ _ _ _ _ _ Ec). intros a b Hin Hab. apply (IH a Hin b (Wes a Hin) Hab). }
    assert (Hne : es' <> []).
    { apply (call_map_nonempty _ _ _ _ _ Ec). destruct es; [discriminate|discriminate]. }
    assert (Wd : iwf (IArith o es') = true).
    { cbn [iwf]. apply andb_true_iff. split; [|exact Wes']. destruct es'; [congruence|reflexivity]. }
    destruct (all_some (map as_const es')) as [vs|] eqn:Ea.
    + destruct (aop_folded o); [|inversion F; subst; exact Wd].
      destruct (fold_arith via o vs) eqn:Ef; cbn [cbind] in F; try discriminate. inversion F; subst. cbn [iwf].
      apply (fold_arith_in via o vs a Ef). apply all_some_map_const in Ea. subst es'.
      clear -Wes'. induction vs; constructor; cbn [map forallb iwf] in Wes'; apply andb_true_iff in Wes'; tauto.
    + inversion F; subst; exact Wd.
  - destruct (ifold via e) as [e1| | |] eqn:Ee; cbn [cbind] in F; try discriminate.
    specialize (IH e1 W eq_refl). destruct e1 as [z|n|o es|e0|e0|o a b]; cbn [as_const] in F.
    2-6: inversion F; subst; exact IH.
    generalize dependent minus_wraps. intros mw F. destruct mw; [inversion F; subst; cbn [iwf]; apply wrap64_in|].
    destruct (z =? i64_min) eqn:Ez; [discriminate|]. inversion F; subst. cbn [iwf] in *.
    apply in_i64_iff in IH. apply Z.eqb_neq in Ez. unfold i64_min in Ez. apply in_i64_iff. lia.
  - destruct (ifold via e) as [e1| | |] eqn:Ee; cbn [cbind] in F; try discriminate.
    specialize (IH e1 W eq_refl). destruct e1; cbn [as_const] in F; try (inversion F; subst; exact IH).
    inversion F; subst. cbn [iwf] in *. apply lnot_in. exact IH.
  - apply andb_true_iff in W. destruct W as [Wa Wb].
    destruct (ifold via a) as [a1| | |] eqn:Ea; cbn [cbind] in F; try discriminate.
    destruct (ifold via b) as [b1| | |] eqn:Eb; cbn [cbind] in F; try discriminate.
    specialize (IHa a1 Wa eq_refl). specialize (IHb b1 Wb eq_refl).
    assert (Wd : iwf (IBin o a1 b1) = true) by (cbn [iwf]; rewrite IHa, IHb; reflexivity).
    unfold fold_bin in F.
    destruct o; destruct (as_const b1) eqn:Cb; destruct (as_const a1) eqn:Ca;
      try (inversion F; subst; first [exact Wd | cbn [iwf]; apply wrap64_in]);
      try (destruct (z <? 0); [discriminate|]; inversion F; subst; first [exact Wd | cbn [iwf]; destruct (64 <=? z); first [reflexivity | apply wrap64_in]]).
Qed.

(* ------------------------------------------------------------ soundness of integer folding *)
Definition isound (via : bool) (e : iexp) : Prop :=
  forall rho e', env_ok rho -> ifold via e = COk e' -> ieval rho e' = ieval rho e.

(* guard for one arithmetic node: what fold_arithmetic returns is the run-time value *)
Definition arith_guard (via : bool) (o : aop) (vs : list Z) : Prop :=
  forall r, fold_arith via o vs = COk r -> r = rt_arith o vs.

Lemma shift_small_mod : forall z, 0 <= z < 64 -> z mod 64 = z.
Proof. intros. apply Z.mod_small. lia. Qed.

Lemma fold_bin_sound : forall rho o a b r, fold_bin o a b = COk r -> ieval rho r = ieval rho (IBin o a b).
Proof.
  intros rho o a b r F. unfold fold_bin in F.
  destruct o.
  1-3: destruct a; cbn [as_const] in F; try (inversion F; subst; reflexivity);
       destruct b; cbn [as_const] in F; try (inversion F; subst; reflexivity).
  all: destruct b; cbn [as_const] in F; try (inversion F; subst; reflexivity);
       destruct (z <? 0) eqn:Ez; [discriminate|];
       destruct a; cbn [as_const] in F; try (inversion F; subst; reflexivity);
       inversion F; subst; cbn [ieval obind rt_bin];
       apply Z.ltb_ge in Ez;
       destruct (64 <=? z) eqn:E64.
  all: try (apply Z.leb_le in E64; assert (z <? 64 = false) as -> by (apply Z.ltb_ge; lia); reflexivity).
  all: apply Z.leb_gt in E64; assert (z <? 64 = true) as -> by (apply Z.ltb_lt; lia);
       rewrite shift_small_mod by lia; reflexivity.
Qed.

Section isound_gen.
  Variable via : bool.
  (* G: the guard under which every arithmetic node folds correctly *)
  Variable G : iexp -> Prop.
  Hypothesis G_arith : forall o es, G (IArith o es) ->
     Forall G es /\
     forall es' vs, call (map (ifold via) es) = COk es' -> all_some (map as_const es') = Some vs ->
                    arith_guard via o vs.
  Hypothesis G_neg : forall e, G (INeg e) -> G e.
  Hypothesis G_bnot : forall e, G (IBNot e) -> G e.
  Hypothesis G_bin : forall o a b, G (IBin o a b) -> G a /\ G b.

  Lemma isound_gen : forall e, iwf e = true -> G e -> isound via e.
  Proof.
    induction e as [z|n|o es IH|e IH|e IH|o a b IHa IHb] using iexp_ind2; intros W HG rho e' Hrho F; cbn [ifold iwf] in *.
    - inversion F; reflexivity.
    - inversion F; reflexivity.
    - apply andb_true_iff in W. destruct W as [Wne Wes].
      destruct (G_arith o es HG) as [Ges Garith].
      destruct (call (map (ifold via) es)) as [es'| | |] eqn:Ec; cbn [cbind] in F; try discriminate.
      assert (Emap : map (ieval rho) es' = map (ieval rho) es).
      { rewrite forallb_forall in Wes. rewrite Forall_forall in IH, Ges.
        apply (call_map_ext _ _ _ _ _ _ _ _ Ec). intros a b Hin Hab.
        apply (IH a Hin (Wes a Hin) (Ges a Hin) rho b Hrho Hab). }
      assert (Ed : ieval rho (IArith o es') = ieval rho (IArith o es)) by (cbn [ieval]; rewrite Emap; reflexivity).
      destruct (all_some (map as_const es')) as [vs|] eqn:Ea; [|inversion F; subst; exact Ed].
      destruct (aop_folded o); [|inversion F; subst; exact Ed].
      destruct (fold_arith via o vs) eqn:Ef; cbn [cbind] in F; try discriminate. inversion F; subst.
      rewrite <- Ed. pose proof (all_some_map_const _ _ Ea) as ->.
      cbn [ieval]. rewrite all_some_consts. cbn [obind]. f_equal.
      apply (Garith _ _ eq_refl Ea). exact Ef.
    - destruct (ifold via e) as [e1| | |] eqn:Ee; cbn [cbind] in F; try discriminate.
      pose proof (IH W (G_neg _ HG) rho e1 Hrho Ee) as S.
      pose proof (ifold_wf via e e1 W Ee) as W1.
      destruct e1 as [z|n|o es|e0|e0|o a b]; cbn [as_const] in F.
      2-6: inversion F; subst; cbn [ieval]; rewrite <- S; reflexivity.
      (* the operand folded to a constant: both variants of IR::minus *)
      generalize dependent minus_wraps. intros mw F. destruct mw.
      + inversion F; subst. cbn [ieval]. rewrite <- S. reflexivity.
      + destruct (z =? i64_min) eqn:Ez; [discriminate|]. inversion F; subst. cbn [ieval]. rewrite <- S. cbn [ieval obind].
        f_equal. cbn [iwf] in W1. apply in_i64_iff in W1. apply Z.eqb_neq in Ez. unfold i64_min in Ez.
        rewrite wrap64_id; [lia|]. apply in_i64_iff. lia.
    - destruct (ifold via e) as [e1| | |] eqn:Ee; cbn [cbind] in F; try discriminate.
      pose proof (IH W (G_bnot _ HG) rho e1 Hrho Ee) as S.
      destruct e1; cbn [as_const] in F; try (inversion F; subst; cbn [ieval]; rewrite <- S; reflexivity).
      inversion F; subst. cbn [ieval]. rewrite <- S. cbn [ieval obind]. rewrite Z.lxor_m1_r. reflexivity.
    - apply andb_true_iff in W. destruct W as [Wa Wb]. destruct (G_bin _ _ _ HG) as [Ga Gb].
      destruct (ifold via a) as [a1| | |] eqn:Ea; cbn [cbind] in F; try discriminate.
      destruct (ifold via b) as [b1| | |] eqn:Eb; cbn [cbind] in F; try discriminate.
      pose proof (IHa Wa Ga rho a1 Hrho Ea) as Sa. pose proof (IHb Wb Gb rho b1 Hrho Eb) as Sb.
      rewrite (fold_bin_sound rho o a1 b1 e' F). cbn [ieval]. rewrite Sa, Sb. reflexivity.
  Qed.
End isound_gen.

(* guard 1: checked folding needs nothing *)
Theorem ifold_sound_checked : forall e, iwf e = true -> isound false e.
Proof.
  intros e W. apply (isound_gen false (fun _ => True)); auto.
  - intros o es _. split; [apply Forall_forall; auto|].
    intros es' vs _ _ r H. apply fold_arith_checked_sound. exact H.
Qed.

(* guard 2: through f64, operands and exact partial results <= 2^53 *)
Theorem ifold_sound_small : forall via e, iwf e = true -> ismall via e = true -> isound via e.
Proof.
  intros via e W S. apply (isound_gen via (fun e => ismall via e = true)); auto.
  - intros o es H. cbn [ismall] in H. apply andb_true_iff in H. destruct H as [H1 H2]. split.
    + apply Forall_forall. rewrite forallb_forall in H1. exact H1.
    + intros es' vs Ec Ea r Hf. rewrite Ec, Ea in H2.
      destruct via; unfold fold_arith in Hf.
      * destruct vs as [|v rest]; [discriminate|].
        rewrite fold_arith_f64_small in Hf by (auto; discriminate). inversion Hf; reflexivity.
      * apply fold_arith_checked_sound; exact Hf.
  - intros o a b H. cbn [ismall] in H. apply andb_true_iff in H. exact H.
Qed.

(* the unguarded theorem does NOT hold for the folding through f64 *)
Definition w_beyond_2_53 : iexp := IArith OAdd [IConst 9007199254740993; IConst 1].
Definition w_i64_overflow : iexp := IArith OAdd [IConst 9223372036854775807; IConst 1].

Lemma w_beyond_2_53_folds : ifold true w_beyond_2_53 = COk (IConst 9007199254740992)
                            /\ ieval (fun _ => None) w_beyond_2_53 = Some 9007199254740994.
Proof. vm_compute. split; reflexivity. Qed.
Lemma w_i64_overflow_folds : ifold true w_i64_overflow = COk (IConst 9223372036854775807)
                             /\ ieval (fun _ => None) w_i64_overflow = Some (-9223372036854775808).
Proof. vm_compute. split; reflexivity. Qed.

Theorem ifold_sound_refuted :
  (iwf w_beyond_2_53 = true /\ ~ isound true w_beyond_2_53) /\
  (iwf w_i64_overflow = true /\ ~ isound true w_i64_overflow).
Proof.
  split; (split; [vm_compute; reflexivity|]); intro S.
  - destruct w_beyond_2_53_folds as [F E].
    specialize (S (fun _ => None) _ ltac:(intros n v H; discriminate) F). rewrite E in S.
    apply (f_equal (fun o => match o with Some z => z =? 9007199254740992 | None => false end)) in S. vm_compute in S. discriminate S.
  - destruct w_i64_overflow_folds as [F E].
    specialize (S (fun _ => None) _ ltac:(intros n v H; discriminate) F). rewrite E in S.
    apply (f_equal (fun o => match o with Some z => z =? 9223372036854775807 | None => false end)) in S. vm_compute in S. discriminate S.
Qed.

(* ------------------------------------------------------------ boolean folding *)
Definition bsound (via : bool) (e : bexp) : Prop :=
  forall rho beta e', env_ok rho -> bfold via e = COk e' -> beval rho beta e' = beval rho beta e.

Lemma const_bool_eval : forall rho beta x b, const_bool x = Some b -> beval rho beta x = Some b.
Proof.
  intros rho beta x b H. destruct x; cbn [const_bool] in H; try discriminate.
  - inversion H; reflexivity.
  - destruct e; try discriminate. inversion H. reflexivity.
Qed.

Lemma fold_and_sound : forall rho beta es,
  beval rho beta (fold_and es) = Some (forallb (fun x => is_true (beval rho beta x)) es).
Proof.
  intros rho beta es. unfold fold_and.
  set (keep := fun x : bexp => match const_bool x with Some true => false | _ => true end).
  assert (E : forallb (fun x => is_true (beval rho beta x)) es
              = forallb (fun x => is_true (beval rho beta x)) (filter keep es)).
  { induction es as [|x t IH]; [reflexivity|]. cbn [forallb filter]. unfold keep at 1.
    destruct (const_bool x) as [[|]|] eqn:C; cbn [forallb]; rewrite IH; try reflexivity.
    rewrite (const_bool_eval rho beta x true C). reflexivity. }
  rewrite E.
  assert (K : forall x, In x (filter keep es) -> is_constb x = true -> is_true (beval rho beta x) = false).
  { intros x Hin Hc. apply filter_In in Hin. destruct Hin as [_ Hk]. unfold keep in Hk. unfold is_constb in Hc.
    destruct (const_bool x) as [[|]|] eqn:C; try discriminate. rewrite (const_bool_eval rho beta x false C). reflexivity. }
  destruct (filter keep es) as [|y l] eqn:El; [reflexivity|].
  destruct (existsb is_constb (y :: l)) eqn:Ex.
  - cbn [beval]. f_equal. symmetry. apply existsb_exists in Ex. destruct Ex as [x [Hin Hc]].
    apply not_true_is_false. intro A. rewrite forallb_forall in A. specialize (A x Hin). rewrite (K x Hin Hc) in A. discriminate.
  - reflexivity.
Qed.

Lemma fold_or_sound : forall rho beta es,
  beval rho beta (fold_or es) = Some (existsb (fun x => is_true (beval rho beta x)) es).
Proof.
  intros rho beta es. unfold fold_or.
  set (keep := fun x : bexp => match const_bool x with Some false => false | _ => true end).
  assert (E : existsb (fun x => is_true (beval rho beta x)) es
              = existsb (fun x => is_true (beval rho beta x)) (filter keep es)).
  { induction es as [|x t IH]; [reflexivity|]. cbn [existsb filter]. unfold keep at 1.
    destruct (const_bool x) as [[|]|] eqn:C; cbn [existsb]; rewrite IH; try reflexivity.
    rewrite (const_bool_eval rho beta x false C). reflexivity. }
  rewrite E.
  assert (K : forall x, In x (filter keep es) -> is_constb x = true -> is_true (beval rho beta x) = true).
  { intros x Hin Hc. apply filter_In in Hin. destruct Hin as [_ Hk]. unfold keep in Hk. unfold is_constb in Hc.
    destruct (const_bool x) as [[|]|] eqn:C; try discriminate. rewrite (const_bool_eval rho beta x true C). reflexivity. }
  destruct (filter keep es) as [|y l] eqn:El; [reflexivity|].
  destruct (existsb is_constb (y :: l)) eqn:Ex.
  - cbn [beval]. f_equal. symmetry. apply existsb_exists in Ex. destruct Ex as [x [Hin Hc]].
    apply existsb_exists. exists x. split; [exact Hin|apply (K x Hin Hc)].
  - reflexivity.
Qed.

(* every integer expression embedded in a boolean expression satisfies Q *)
Fixpoint ball (Q : iexp -> Prop) (e : bexp) : Prop :=
  match e with
  | BConst _ | BVar _ => True
  | BOfInt e => Q e
  | BCmp _ a b => Q a /\ Q b
  | BNot e => ball Q e
  | BAnd es | BOr es => (fix go (l : list bexp) : Prop := match l with [] => True | x :: t => ball Q x /\ go t end) es
  end.

Lemma ball_list : forall Q es,
  (fix go (l : list bexp) : Prop := match l with [] => True | x :: t => ball Q x /\ go t end) es ->
  Forall (ball Q) es.
Proof. intros Q es. induction es as [|x t IH]; intro H; constructor; destruct H; auto. Qed.

Lemma bfold_sound_gen : forall via e,
  ball (fun ie => iwf ie = true /\ isound via ie) e -> bsound via e.
Proof.
  intros via e. induction e as [b|n|ie|c a b|e IH|es IH|es IH] using bexp_ind2; intros HB rho beta e' Hrho F; cbn [bfold ball] in *.
  - inversion F; reflexivity.
  - inversion F; reflexivity.
  - destruct HB as [_ S]. destruct (ifold via ie) as [i1| | |] eqn:Ei; cbn [cbind] in F; try discriminate.
    inversion F; subst. cbn [beval]. rewrite (S rho i1 Hrho Ei). reflexivity.
  - destruct HB as [[_ Sa] [_ Sb]].
    destruct (ifold via a) as [a1| | |] eqn:Ea; cbn [cbind] in F; try discriminate.
    destruct (ifold via b) as [b1| | |] eqn:Eb; cbn [cbind] in F; try discriminate.
    inversion F; subst. cbn [beval]. rewrite (Sa rho a1 Hrho Ea), (Sb rho b1 Hrho Eb). reflexivity.
  - destruct (bfold via e) as [e1| | |] eqn:Ee; cbn [cbind] in F; try discriminate.
    pose proof (IH HB rho beta e1 Hrho Ee) as S.
    destruct e1; inversion F; subst; cbn [beval]; rewrite <- S; reflexivity.
  - destruct (call (map (bfold via) es)) as [es'| | |] eqn:Ec; cbn [cbind] in F; try discriminate.
    inversion F; subst. rewrite fold_and_sound. cbn [beval]. f_equal.
    apply ball_list in HB. rewrite Forall_forall in IH, HB.
    rewrite (forallb_of_map _ _ es'), (forallb_of_map _ _ es). f_equal.
    apply (call_map_ext _ _ _ _ _ _ _ _ Ec). intros a b Hin Hab.
    rewrite (IH a Hin (HB a Hin) rho beta b Hrho Hab). reflexivity.
  - destruct (call (map (bfold via) es)) as [es'| | |] eqn:Ec; cbn [cbind] in F; try discriminate.
    inversion F; subst. rewrite fold_or_sound. cbn [beval]. f_equal.
    apply ball_list in HB. rewrite Forall_forall in IH, HB.
    rewrite (existsb_of_map _ _ es'), (existsb_of_map _ _ es). f_equal.
    apply (call_map_ext _ _ _ _ _ _ _ _ Ec). intros a b Hin Hab.
    rewrite (IH a Hin (HB a Hin) rho beta b Hrho Hab). reflexivity.
Qed.

Lemma ball_of_bool : forall (P : iexp -> bool) (Q : iexp -> Prop),
  (forall ie, P ie = true -> Q ie) ->
  forall e,
  (fix chk (e : bexp) : bool :=
     match e with
     | BConst _ | BVar _ => true
     | BOfInt e => P e
     | BCmp _ a b => P a && P b
     | BNot e => chk e
     | BAnd es | BOr es => forallb chk es
     end) e = true -> ball Q e.
Proof.
  intros P Q HPQ e. induction e as [b|n|ie|c a b|e IH|es IH|es IH] using bexp_ind2; intro H; cbn [ball]; auto.
  - apply andb_true_iff in H. destruct H; split; auto.
  - induction es as [|x t IHt]; [exact I|]. cbn [forallb] in H. apply andb_true_iff in H. destruct H as [Hx Ht].
    inversion IH; subst. split; [apply H1; exact Hx|apply IHt; assumption].
  - induction es as [|x t IHt]; [exact I|]. cbn [forallb] in H. apply andb_true_iff in H. destruct H as [Hx Ht].
    inversion IH; subst. split; [apply H1; exact Hx|apply IHt; assumption].
Qed.

(* the full statement: folding a condition does not change its value *)
Theorem bfold_sound_small : forall via e, bwf e = true -> bsmall via e = true -> bsound via e.
Proof.
  intros via e W S. apply bfold_sound_gen.
  apply (ball_of_bool (fun ie => iwf ie && ismall via ie)).
  - intros ie H. apply andb_true_iff in H. destruct H as [H1 H2]. split; [exact H1|apply ifold_sound_small; assumption].
  - revert W S. induction e as [b|n|ie|c a b|e IH|es IH|es IH] using bexp_ind2; intros W S; cbn [bwf bsmall] in *; auto.
    + rewrite W, S. reflexivity.
    + apply andb_true_iff in W. apply andb_true_iff in S. destruct W as [-> ->]. destruct S as [-> ->]. reflexivity.
    + induction es as [|x t IHt]; [reflexivity|]. cbn [forallb] in *.
      apply andb_true_iff in W. apply andb_true_iff in S. destruct W, S. inversion IH; subst.
      apply andb_true_iff. split; [apply H5; assumption|apply IHt; assumption].
    + induction es as [|x t IHt]; [reflexivity|]. cbn [forallb] in *.
      apply andb_true_iff in W. apply andb_true_iff in S. destruct W, S. inversion IH; subst.
      apply andb_true_iff. split; [apply H5; assumption|apply IHt; assumption].
Qed.

Theorem bfold_sound_checked : forall e, bwf e = true -> bsound false e.
Proof.
  intros e W. apply bfold_sound_gen.
  apply (ball_of_bool iwf).
  - intros ie H. split; [exact H|apply ifold_sound_checked; exact H].
  - exact W.
Qed.

(* verdict-level refutation: the rule `9007199254740993 + 1 == 9007199254740994`
   is false once folded through f64 and true at run time *)
Definition w_rule : bexp := BCmp CEq w_beyond_2_53 (IConst 9007199254740994).
Theorem bfold_sound_refuted :
  exists e e', bwf e = true /\ bfold true e = COk e' /\
    verdict (fun _ => None) (fun _ => None) e' <> verdict (fun _ => None) (fun _ => None) e.
Proof.
  exists w_rule. eexists. split; [vm_compute; reflexivity|]. split; [vm_compute; reflexivity|].
  vm_compute. discriminate.
Qed.

(* selection by the generated flag: what holds for the tree as it is *)
Definition fold_statement (via : bool) : Prop :=
  if via
  then (exists e, iwf e = true /\ ~ isound true e) /\ (forall e, bwf e = true -> bsmall true e = true -> bsound true e)
  else forall e, bwf e = true -> bsound false e.
Lemma fold_statement_holds : forall via, fold_statement via.
Proof.
  intros [|]; cbn [fold_statement].
  - split; [exists w_beyond_2_53; apply ifold_sound_refuted|apply bfold_sound_small].
  - apply bfold_sound_checked.
Qed.

(* non-vacuity of the guarded theorem: a small condition that really folds *)
Example fold_small_example :
  let e := BAnd [BCmp CEq (IArith OMul [IConst 1024; IConst 1024; IArith OSub [IConst 10; IConst 3]]) (IConst 7340032);
                 BOr [BConst false; BVar 0]; BNot (BConst false)] in
  bwf e = true /\ bsmall true e = true /\
  bfold true e = COk (BAnd [BCmp CEq (IConst 7340032) (IConst 7340032); BOr [BVar 0]]).
Proof. vm_compute. repeat split. Qed.
