(* C03 - two more condition optimisations, as coded.

   (1) Grouping of regexps (ast2ir.rs or_expr_from_ast): the operands
   `x matches /re/` of one `or` are put in buckets by a key computed from the
   left operand x; a bucket with two or more operands becomes ONE MatchesMany
   node evaluated on the left operand of the FIRST member of the bucket.
   (2) Hoisting (ir/mod.rs hoisting, Expr::shift_vars): when a loop invariant
   is moved out of a loop it gets a variable slot below the loop's own
   variables; every variable at or above that slot, owned by any node inside
   the loop, is displaced by shift_vars.  Which Expr variants own variables and
   which have an arm in shift_vars is generated (Gen/HoistGen.v).
   Definitions only. *)
From Coq Require Import List ZArith Bool String.
From YV Require Import Gen.HoistGen.
Import ListNotations.
Local Open Scope Z_scope.

(* ------------------------------------------------------------ regexp sets *)
Record mop := mkMop { m_key : Z; m_lhs : nat; m_re : nat }.     (* key, left operand, regexp *)
(* truth of "left operand l matches regexp r" in the scan at hand (undefined = false under `or`) *)
Definition mtruth := nat -> nat -> bool.

Definition or_ungrouped (mt : mtruth) (ops : list mop) : bool :=
  existsb (fun o => mt (m_lhs o) (m_re o)) ops.

Definition bucket (ops : list mop) (k : Z) : list mop := filter (fun o => m_key o =? k) ops.
(* the left operand a member is evaluated on *)
Definition eval_lhs (ops : list mop) (o : mop) : nat :=
  match bucket ops (m_key o) with
  | first :: _ :: _ => m_lhs first
  | _ => m_lhs o
  end.
Definition or_grouped (mt : mtruth) (ops : list mop) : bool :=
  existsb (fun o => mt (eval_lhs ops o) (m_re o)) ops.

(* ------------------------------------------------------------ variable slots *)
Definition shift_slot (from amount slot : Z) : Z := if from <=? slot then slot + amount else slot.

(* nodes of a loop body with the slots they own; shifted? = the node's variant
   has an arm in shift_vars *)
Definition shift_node (shifted : bool) (from amount : Z) (slots : list Z) : list Z :=
  if shifted then map (shift_slot from amount) slots else slots.

Definition variant_shifted (v : string) : bool := existsb (String.eqb v) shift_vars_arms.
Definition shift_vars_complete : bool := forallb variant_shifted var_owning_variants.

(* quantifier expressions that the traversal does not reach: none since 21a3d45e (before, the `Percentage`
   one: finding C03:hoisting:verdict-differs:percentage-quantifier) *)
Definition quantifier_untraversed : list string :=
  filter (fun v => negb (existsb (String.eqb v) quantifier_traversed_variants)) quantifier_expr_variants.
Definition quantifier_traversal_ok : bool :=
  match quantifier_untraversed with [] => true | _ => false end.
