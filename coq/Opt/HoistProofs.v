(* C03 - grouping of regexps is sound when the key separates different left
   operands; displacing variables keeps them apart when every owner is shifted. *)
From Coq Require Import List ZArith Bool String Lia.
From YV Require Import Gen.HoistGen Opt.Hoist.
Import ListNotations.
Local Open Scope Z_scope.

Lemma bucket_in : forall ops o, In o ops -> In o (bucket ops (m_key o)).
Proof. intros ops o H. unfold bucket. apply filter_In. split; [exact H|apply Z.eqb_refl]. Qed.

Lemma bucket_key : forall ops k x, In x (bucket ops k) -> m_key x = k /\ In x ops.
Proof. intros ops k x H. unfold bucket in H. apply filter_In in H. destruct H as [A B]. apply Z.eqb_eq in B. auto. Qed.

(* the key is sound: operands with the same key behave as the same left operand *)
Definition key_sound (mt : mtruth) (ops : list mop) : Prop :=
  forall a b, In a ops -> In b ops -> m_key a = m_key b -> forall r, mt (m_lhs a) r = mt (m_lhs b) r.

Theorem grouping_sound : forall mt ops, key_sound mt ops -> or_grouped mt ops = or_ungrouped mt ops.
Proof.
  intros mt ops K. unfold or_grouped, or_ungrouped.
  assert (E : forall o, In o ops -> mt (eval_lhs ops o) (m_re o) = mt (m_lhs o) (m_re o)).
  { intros o Ho. unfold eval_lhs. destruct (bucket ops (m_key o)) as [|f [|s t]] eqn:B; try reflexivity.
    assert (Hf : In f (bucket ops (m_key o))) by (rewrite B; left; reflexivity).
    destruct (bucket_key _ _ _ Hf) as [Kf If]. apply (K f o If Ho Kf). }
  induction ops as [|x t IH]; [reflexivity|].
  assert (G : forall l, (forall o, In o l -> mt (eval_lhs (x :: t) o) (m_re o) = mt (m_lhs o) (m_re o)) ->
              existsb (fun o => mt (eval_lhs (x :: t) o) (m_re o)) l = existsb (fun o => mt (m_lhs o) (m_re o)) l).
  { induction l as [|y l IHl]; intros Hl; [reflexivity|]. cbn [existsb]. rewrite (Hl y (or_introl eq_refl)). f_equal.
    apply IHl. intros o Ho. apply Hl. right; exact Ho. }
  apply G. exact E.
Qed.

(* a key that does not separate left operands changes the verdict: two plain
   identifiers with key 0, only the second one matches *)
Theorem grouping_unsound_without_key :
  exists mt ops, or_ungrouped mt ops = true /\ or_grouped mt ops = false.
Proof.
  exists (fun l r => Nat.eqb l 1 && Nat.eqb r 1), [mkMop 0 0 0; mkMop 0 1 1]. split; reflexivity.
Qed.

(* ------------------------------------------------------------ slots *)
Lemma shift_slot_inj : forall from k a b, 0 <= k -> shift_slot from k a = shift_slot from k b -> a = b.
Proof. intros from k a b Hk. unfold shift_slot. destruct (from <=? a) eqn:A, (from <=? b) eqn:B; intros H; try lia;
  apply Z.leb_le in A || apply Z.leb_gt in A; apply Z.leb_le in B || apply Z.leb_gt in B; lia. Qed.

Lemma shift_slot_hole : forall from k a, 0 < k -> ~ (from <= shift_slot from k a < from + k).
Proof. intros from k a Hk. unfold shift_slot. destruct (from <=? a) eqn:A; [apply Z.leb_le in A|apply Z.leb_gt in A]; lia. Qed.

(* when every owner is shifted, distinct variables stay distinct and none of
   them lands in the slots handed to the hoisted values *)
Theorem shift_all_keeps_apart : forall from k (nodes : list (list Z)), 0 < k ->
  let all := List.concat (map (shift_node true from k) nodes) in
  (NoDup (List.concat nodes) -> NoDup all) /\ forall s, In s all -> ~ (from <= s < from + k).
Proof.
  intros from k nodes Hk all. subst all.
  assert (E : List.concat (map (shift_node true from k) nodes) = map (shift_slot from k) (List.concat nodes)).
  { induction nodes as [|n t IH]; [reflexivity|]. cbn [map List.concat shift_node]. rewrite map_app, IH. reflexivity. }
  rewrite E. clear E. split.
  - intro H. induction H as [|x l Hx Hl IH]; [constructor|]. cbn [map]. constructor; [|exact IH].
    intro Hin. apply in_map_iff in Hin. destruct Hin as [y [Ey Hy]]. apply shift_slot_inj in Ey; [|lia]. subst. contradiction.
  - intros s Hs. apply in_map_iff in Hs. destruct Hs as [y [<- _]]. apply shift_slot_hole. exact Hk.
Qed.

(* an owner that is not shifted keeps a slot that now belongs to someone else *)
Theorem unshifted_owner_collides :
  exists from k nodes, NoDup (List.concat nodes) /\
    ~ NoDup (shift_node true from k (nth 0 nodes []) ++ shift_node false from k (nth 1 nodes [])).
Proof.
  exists 2, 1, [[2]; [3]]. split; [repeat constructor; cbn; intuition congruence|].
  cbn. intro H. inversion H as [|x l Hx _]; subst. apply Hx. left; reflexivity.
Qed.

(* every variable-owning Expr variant has an arm in shift_vars (generated lists) *)
Theorem shift_vars_covers_owners : shift_vars_complete = true.
Proof. vm_compute. reflexivity. Qed.

(* dfs_common pushes the expression of every quantifier that has one *)
Theorem quantifier_exprs_traversed :
  forall v, In v quantifier_expr_variants -> In v quantifier_traversed_variants.
Proof.
  assert (H : quantifier_traversal_ok = true) by (vm_compute; reflexivity).
  unfold quantifier_traversal_ok in H.
  destruct quantifier_untraversed as [|u us] eqn:U; [|discriminate H].
  intros v Hv. destruct (existsb (String.eqb v) quantifier_traversed_variants) eqn:E.
  - apply existsb_exists in E. destruct E as [x [Hx Ex]]. apply String.eqb_eq in Ex. subst. exact Hx.
  - exfalso. assert (I : In v quantifier_untraversed).
    { unfold quantifier_untraversed. apply filter_In. split; [exact Hv|]. rewrite E. reflexivity. }
    rewrite U in I. exact I.
Qed.
