(* Correspondence cases for C03 (written by harness/src/bin/c03.rs).
   check_case = K: the models of Opt/Fold.v, Opt/Bounds.v, Opt/FastScan.v
   recompute what the implementation produced;
   spec_case = S: the property (same verdicts / matches whichever optimisation
   is in effect) evaluated on the implementation's own output. *)
From Coq Require Import List ZArith Bool String.
From YV Require Import Gen.FoldGen Opt.Fold Gen.BoundsGen Opt.Bounds Gen.FastScanGen Opt.FastScan Gen.HoistGen Opt.Hoist.
Import ListNotations.
Local Open Scope Z_scope.

Inductive cstat := SOk | SErr | SPanic.
Definition cstat_eqb (a b : cstat) : bool :=
  match a, b with SOk, SOk | SErr, SErr | SPanic, SPanic => true | _, _ => false end.

(* one scan of a fold case: environment + verdict of the folded source (A) and
   of the source whose constants are hidden from the compiler (B) *)
Record frun := mkFRun { fr_rho : list (option Z); fr_beta : list (option bool); fr_a : bool; fr_b : bool }.

(* one scan of a bounds case: file size, data, verdict of the rule, verdict of
   its twin `not not (cond)` (no bounds are derived through `not`) *)
Record brun := mkBRun { br_n : Z; br_data : list Z; br_main : bool; br_twin : bool }.

(* dump of one scan configuration: fast-scan?, verdict per rule, matches per
   pattern id (only patterns of matching rules are reported) *)
Record sdump := mkSDump { sd_fast : bool; sd_verdicts : list bool; sd_matches : list (nat * list mt) }.

Inductive case :=
| KFold (e : bexp) (compA compB : cstat) (runs : list frun)
| KR53 (v r : Z)                                  (* (v as f64) as integer *)
| KF64 (o : aop) (a b : Z) (r : option Z)         (* (a as f64) OP (b as f64); None = not finite *)
| KBounds (c : cexp) (has_obs : bool) (ob : fsb) (oh : hcons) (runs : list brun)
| KScan (rules : list fcond) (bits : list bool) (fixed_len : list bool) (dumps : list sdump)
(* an `or` of `x matches /re/` operands: per operand the identity of its left
   operand (the key a sound grouping must respect), the verdict of the operand
   evaluated alone (same bindings), and the verdict of the whole `or` *)
| KReSet (lhs_ids : list nat) (alone : list bool) (verdict : bool) (scan_errors : nat)
(* a condition with loops, compiled without / with condition_optimization: verdict per buffer *)
| KHoist (unoptimised optimised : list bool) (scan_errors : nat).

(* ------------------------------------------------------------ K *)
Definition lookup {A} (l : list (option A)) : nat -> option A := fun n => nth n l None.

Definition fold_k (e : bexp) (compA compB : cstat) (runs : list frun) : bool :=
  cstat_eqb compB SOk &&
  match bfold_cur e with
  | COk e' => cstat_eqb compA SOk &&
              forallb (fun r => Bool.eqb (verdict (lookup (fr_rho r)) (lookup (fr_beta r)) e') (fr_a r)) runs
  | CErrRange | CErrNegShift => cstat_eqb compA SErr
  | CPanicNeg => cstat_eqb compA SPanic
  end &&
  forallb (fun r => Bool.eqb (verdict (lookup (fr_rho r)) (lookup (fr_beta r)) e) (fr_b r)) runs.

Definition bound_eqb (a b : bound) : bool :=
  match a, b with
  | Unb, Unb => true | Incl x, Incl y | Excl x, Excl y => x =? y | _, _ => false end.
Definition fsb_eqb (a b : fsb) : bool := bound_eqb (b_start a) (b_start b) && bound_eqb (b_end a) (b_end b).
Fixpoint zlist_eqb (a b : list Z) : bool :=
  match a, b with [], [] => true | x :: a', y :: b' => (x =? y) && zlist_eqb a' b' | _, _ => false end.
Definition hcons_eqb (a b : hcons) : bool :=
  match a, b with
  | HUnconstrained, HUnconstrained | HUnsatisfiable, HUnsatisfiable => true
  | HConstrained x, HConstrained y => zlist_eqb x y
  | _, _ => false
  end.

Definition bounds_k (c : cexp) (has_obs : bool) (ob : fsb) (oh : hcons) (runs : list brun) : bool :=
  (negb has_obs || (fsb_eqb (filesize_bounds c) ob && hcons_eqb (header_constraints c) oh)) &&
  (* the model's bounds / constraint are implied by the pruning-independent verdict *)
  forallb (fun r => negb (br_twin r) ||
                    (contains (filesize_bounds c) (br_n r) && is_satisfied (header_constraints c) (br_data r))) runs.

Definition mt_eqb (a b : mt) : bool := (fst a =? fst b) && (snd a =? snd b).
Fixpoint mts_eqb (a b : list mt) : bool :=
  match a, b with [], [] => true | x :: a', y :: b' => mt_eqb x y && mts_eqb a' b' | _, _ => false end.
Definition has_mt (fixed : bool) (m : mt) (l : list mt) : bool :=
  existsb (fun x => (fst x =? fst m) && (negb fixed || (snd x =? snd m))) l.
Fixpoint assoc {A} (l : list (nat * A)) (p : nat) : option A :=
  match l with [] => None | (q, v) :: t => if Nat.eqb p q then Some v else assoc t p end.

(* fast-scan dump F against the normal dump N, per pattern reported in both:
   ineligible: equal; eligible: the matches of one verified hit - some iff N
   has some, all taken from N *)
Definition fast_k_pattern (el fixed : bool) (N F : list mt) : bool :=
  if el then Bool.eqb (nonempty F) (nonempty N) && forallb (fun m => has_mt fixed m N) F
  else mts_eqb F N.

Definition scan_k (rules : list fcond) (bits fixed_len : list bool) (dumps : list sdump) : bool :=
  (* eligibility as the compiler computed it = the model's *)
  forallb (fun p => Bool.eqb (elig_cur rules p) (nth p bits false)) (seq 0 (List.length bits)) &&
  match dumps with
  | [] => true
  | base :: rest =>
      forallb (fun d =>
        negb (sd_fast d) ||
        forallb (fun pf => let '(p, F) := pf in
                   match assoc (sd_matches base) p with
                   | Some N => fast_k_pattern (nth p bits false) (nth p fixed_len false) N F
                   | None => true
                   end) (sd_matches d)) rest
  end.

Definition check_case (k : case) : bool :=
  match k with
  | KFold e ca cb runs => fold_k e ca cb runs
  | KR53 v r => round53 v =? r
  | KF64 o a b r =>
      match f64_step o (Some (round53 a)) (round53 b), r with
      | Some x, Some y => x =? y
      | None, None => true
      | _, _ => false
      end
  | KBounds c h ob oh runs => bounds_k c h ob oh runs
  | KScan rules bits fl dumps => scan_k rules bits fl dumps
  | KReSet ids alone v _ =>
      (* the grouping model with the identity of the left operand as key; regexp i is the one of operand i *)
      let ops := map (fun il => mkMop (Z.of_nat (snd il)) (snd il) (fst il)) (combine (seq 0 (List.length ids)) ids) in
      let mt := fun l r => Nat.eqb l (nth r ids 0%nat) && nth r alone false in
      Bool.eqb (or_grouped mt ops) v
  | KHoist _ _ _ => true
  end.

(* ------------------------------------------------------------ S *)
Fixpoint blist_eqb (a b : list bool) : bool :=
  match a, b with [] , [] => true | x :: a', y :: b' => Bool.eqb x y && blist_eqb a' b' | _, _ => false end.
Fixpoint mdump_eqb (a b : list (nat * list mt)) : bool :=
  match a, b with
  | [], [] => true
  | (p, x) :: a', (q, y) :: b' => Nat.eqb p q && mts_eqb x y && mdump_eqb a' b'
  | _, _ => false
  end.

(* S for a fast-scan dump: per pattern reported in both dumps, a subset of the
   normal matches that contains the first (lowest) one when there is one *)
Definition fast_s_pattern (fixed : bool) (N F : list mt) : bool :=
  forallb (fun m => has_mt fixed m N) F &&
  match N with [] => true | m0 :: _ => has_mt fixed m0 F end.

Definition scan_s (fixed_len : list bool) (dumps : list sdump) : bool :=
  match dumps with
  | [] => true
  | base :: rest =>
      forallb (fun d =>
        blist_eqb (sd_verdicts d) (sd_verdicts base) &&
        if sd_fast d
        then forallb (fun pf => let '(p, F) := pf in
                        match assoc (sd_matches base) p with
                        | Some N => fast_s_pattern (nth p fixed_len false) N F
                        | None => true
                        end) (sd_matches d)
        else mdump_eqb (sd_matches d) (sd_matches base)) rest
  end.

Definition spec_case (k : case) : bool :=
  match k with
  | KFold e ca cb runs =>
      (* a source accepted in one form and rejected in the other is not a verdict difference *)
      negb (cstat_eqb ca SOk && cstat_eqb cb SOk) || forallb (fun r => Bool.eqb (fr_a r) (fr_b r)) runs
  | KR53 _ _ | KF64 _ _ _ _ => true
  | KBounds c h ob oh runs =>
      forallb (fun r => Bool.eqb (br_main r) (br_twin r) &&
                        (negb h || negb (br_twin r) || (contains ob (br_n r) && is_satisfied oh (br_data r)))) runs
  | KScan _ _ fl dumps => scan_s fl dumps
  | KReSet _ alone v e => Nat.eqb e 0 && Bool.eqb v (existsb (fun b => b) alone)
  | KHoist u o e => Nat.eqb e 0 && blist_eqb u o
  end.
