(* Executable model of the yara-x parser engine (C10, shared with C09).

   Source modelled (read side by side with this file):
     parser/src/parser/mod.rs          ParserImpl: next(), bump, bookmark/restore/remove, begin, end,
                                       recover, trivia, expect_d, begin_alt/alt/end_alt, opt, not,
                                       if_next, cond, n_or_more, then, cached, flush_errors,
                                       handle_errors, top_level_item
     parser/src/parser/token_stream.rs TokenStream: next_token, peek_token, bookmark, restore, remove
     parser/src/cst/syntax_stream.rs   SyntaxStream: pop, push_token, push_error, begin, end,
                                       end_with_error, bookmark, truncate, remove_bookmark

   What is NOT modelled: the text of error messages (an Error event is its span only), the
   tokenizer (the token list is an input; tokens are lexed once and never re-lexed, so the
   hex-mode switches cannot change what the combinators see: enter_hex_*_mode are no-ops here),
   TokenStream::purge (memory management), the `logging` feature.

   Definitions only; proofs are in MachineProofs.v. *)
From Coq Require Import List NArith Bool Arith.
Import ListNotations.
Local Open Scope N_scope.

(* ------------------------------------------------------------------ data *)

(* a token as the tokenizer produced it: TokenId (as a number) and span *)
Record tok := mkTok { t_id : N; t_lo : N; t_hi : N }.

(* cst::Event; kinds are SyntaxKind discriminants; Error carries only its span *)
Inductive event :=
| EBegin (k lo hi : N)
| EEnd (k lo hi : N)
| EToken (k lo hi : N)
| EError (lo hi : N).

(* parser::State without StartOfInput/EndOfInput (those belong to the iterator wrapper) *)
Inductive pstate := OK | Failure | OutOfFuel.

(* what the engine needs to know about kinds and token ids *)
Record config := mkConfig {
  kind_tid : N -> option N;     (* SyntaxKind::token_id (None = unreachable!()) *)
  tok_kind : N -> N;            (* From<&Token> for SyntaxKind *)
  is_trivia : N -> bool;        (* Token::is_trivia, on token ids *)
  k_error : N;                  (* SyntaxKind::ERROR *)
  k_source_file : N             (* SyntaxKind::SOURCE_FILE *)
}.

(* the combinator DSL, deep embedding.  A method chain `a.b.c` is PSeq [a;b;c];
   `begin(K) .. end()` is PNode K [..]. *)
Inductive prog (nt : Type) :=
| PExpect (ts : list N)                   (* expect / expect_d (the description only affects messages) *)
| PSeq (ps : list (prog nt))
| PNode (k : N) (body : prog nt)          (* begin(k) body end() *)
| POpt (p : prog nt)
| PNot (p : prog nt)
| PIfNext (ts : list N) (p : prog nt)
| PNOrMore (n : nat) (p : prog nt)        (* zero_or_more = 0, one_or_more = 1 *)
| PLoop (p : prog nt)                     (* the `loop { .. }` of n_or_more (internal) *)
| PThen (p : prog nt)
| PAlt (alts : list (prog nt))            (* begin_alt .alt(..)* end_alt *)
| PCached (k : N) (p : prog nt)
| PRecover (ts : list N)
| PCall (n : nt)                          (* p.some_nonterminal() *)
| PEnterHexPattern
| PEnterHexJump.
Arguments PExpect {nt}. Arguments PSeq {nt}. Arguments PNode {nt}. Arguments POpt {nt}.
Arguments PNot {nt}. Arguments PIfNext {nt}. Arguments PNOrMore {nt}. Arguments PLoop {nt}.
Arguments PThen {nt}. Arguments PAlt {nt}. Arguments PCached {nt}. Arguments PRecover {nt}.
Arguments PCall {nt}. Arguments PEnterHexPattern {nt}. Arguments PEnterHexJump {nt}.

(* cond(ts, p) = if_next(ts, |p| p.expect(ts).then(p)) ; opt_expect(ts) = opt(|p| p.expect(ts)) *)
Definition PCond {nt} (ts : list N) (p : prog nt) : prog nt := PIfNext ts (PSeq [PExpect ts; PThen p]).
Definition POptExpect {nt} (ts : list N) : prog nt := POpt (PExpect ts).

(* ------------------------------------------------------------------ state *)

(* TokenStream + SyntaxStream: everything the losslessness argument is about *)
Record core := mkCore {
  cur : nat;                 (* TokenStream::current_token *)
  evs : list event;          (* SyntaxStream::events, front first *)
  opens : list nat;          (* SyntaxStream::open_begins, back last *)
  nbm : nat;                 (* SyntaxStream::num_bookmarks *)
  tbm : list nat;            (* TokenStream::bookmarks (kept sorted) *)
  last_span : N * N;         (* SyntaxStream::last_token_span *)
  panic : bool }.            (* an assert!/expect()/unwrap()/index of the engine would have fired *)

Definition c_set_cur (v : nat) (c : core) : core := mkCore v (evs c) (opens c) (nbm c) (tbm c) (last_span c) (panic c).
Definition c_set_evs (v : list event) (c : core) : core := mkCore (cur c) v (opens c) (nbm c) (tbm c) (last_span c) (panic c).
Definition c_set_opens (v : list nat) (c : core) : core := mkCore (cur c) (evs c) v (nbm c) (tbm c) (last_span c) (panic c).
Definition c_set_nbm (v : nat) (c : core) : core := mkCore (cur c) (evs c) (opens c) v (tbm c) (last_span c) (panic c).
Definition c_set_tbm (v : list nat) (c : core) : core := mkCore (cur c) (evs c) (opens c) (nbm c) v (last_span c) (panic c).
Definition c_set_last_span (v : N * N) (c : core) : core := mkCore (cur c) (evs c) (opens c) (nbm c) (tbm c) v (panic c).
Definition c_set_panic (v : bool) (c : core) : core := mkCore (cur c) (evs c) (opens c) (nbm c) (tbm c) (last_span c) v.

Record st := mkSt {
  co : core;
  state : pstate;
  opt_depth : nat;
  not_depth : nat;
  exp_err : option (N * N);    (* expected_token_errors: only the entry with the largest start matters *)
  unexp_err : option (N * N);  (* unexpected_token_errors: idem *)
  pending : list (N * N);      (* pending_errors (spans) *)
  cache : list (nat * N);
  fuel : N;                    (* the parser's own `fuel` field *)
  hazard : bool;               (* ghost: a Begin/End span was computed from a last_token_span that
                                  truncate() had reset although tokens were already emitted *)
  stuck : bool }.              (* the interpreter's recursion fuel ran out (not a parser state) *)

Definition set_co (v : core) (s : st) : st := mkSt v (state s) (opt_depth s) (not_depth s) (exp_err s) (unexp_err s) (pending s) (cache s) (fuel s) (hazard s) (stuck s).
Definition set_state (v : pstate) (s : st) : st := mkSt (co s) v (opt_depth s) (not_depth s) (exp_err s) (unexp_err s) (pending s) (cache s) (fuel s) (hazard s) (stuck s).
Definition set_opt_depth (v : nat) (s : st) : st := mkSt (co s) (state s) v (not_depth s) (exp_err s) (unexp_err s) (pending s) (cache s) (fuel s) (hazard s) (stuck s).
Definition set_not_depth (v : nat) (s : st) : st := mkSt (co s) (state s) (opt_depth s) v (exp_err s) (unexp_err s) (pending s) (cache s) (fuel s) (hazard s) (stuck s).
Definition set_exp_err (v : option (N * N)) (s : st) : st := mkSt (co s) (state s) (opt_depth s) (not_depth s) v (unexp_err s) (pending s) (cache s) (fuel s) (hazard s) (stuck s).
Definition set_unexp_err (v : option (N * N)) (s : st) : st := mkSt (co s) (state s) (opt_depth s) (not_depth s) (exp_err s) v (pending s) (cache s) (fuel s) (hazard s) (stuck s).
Definition set_pending (v : list (N * N)) (s : st) : st := mkSt (co s) (state s) (opt_depth s) (not_depth s) (exp_err s) (unexp_err s) v (cache s) (fuel s) (hazard s) (stuck s).
Definition set_cache (v : list (nat * N)) (s : st) : st := mkSt (co s) (state s) (opt_depth s) (not_depth s) (exp_err s) (unexp_err s) (pending s) v (fuel s) (hazard s) (stuck s).
Definition set_fuel (v : N) (s : st) : st := mkSt (co s) (state s) (opt_depth s) (not_depth s) (exp_err s) (unexp_err s) (pending s) (cache s) v (hazard s) (stuck s).
Definition set_hazard (v : bool) (s : st) : st := mkSt (co s) (state s) (opt_depth s) (not_depth s) (exp_err s) (unexp_err s) (pending s) (cache s) (fuel s) v (stuck s).
Definition set_stuck (v : bool) (s : st) : st := mkSt (co s) (state s) (opt_depth s) (not_depth s) (exp_err s) (unexp_err s) (pending s) (cache s) (fuel s) (hazard s) v.

Definition on_core (f : core -> core) (s : st) : st := set_co (f (co s)) s.

Definition span_eqb (a b : N * N) : bool := (fst a =? fst b) && (snd a =? snd b).

(* ------------------------------------------------------------------ engine *)
Section Engine.
Variable cfg : config.
Variable toks : list tok.      (* every token the tokenizer produces for the source, in order *)
Variable src_len : N.          (* tokens.source().len() *)

(* end offset of the last token before index c (0 when c = 0): where the CST "is" after c tokens *)
Definition pos_at (c : nat) : N :=
  match c with O => 0 | S c' => match nth_error toks c' with Some t => t_hi t | None => 0 end end.

(* ---- SyntaxStream ---- *)
Definition c_push (e : event) (c : core) : core := c_set_evs (evs c ++ [e]) c.

(* push_token *)
Definition c_push_token (k lo hi : N) (c : core) : core :=
  c_set_last_span (lo, hi) (c_push (EToken k lo hi) c).

(* begin *)
Definition c_begin (k : N) (c : core) : core :=
  let le := snd (last_span c) in
  c_set_opens (opens c ++ [length (evs c)]) (c_push (EBegin k le le) c).

Fixpoint upd_nth {A} (n : nat) (x : A) (l : list A) : list A :=
  match l, n with
  | [], _ => []
  | _ :: t, O => x :: t
  | h :: t, S n' => h :: upd_nth n' x t
  end.

Definition last_opt {A} (l : list A) : option A :=
  match rev l with [] => None | x :: _ => Some x end.

(* end: patches the Begin at the back of open_begins and pushes the End *)
Definition c_end (c : core) : core :=
  match last_opt (opens c) with
  | None => c_set_panic true c                       (* "`End` without a corresponding `Begin`" *)
  | Some idx =>
    match nth_error (evs c) idx with
    | Some (EBegin k lo _) =>
        let hi := snd (last_span c) in
        c_set_opens (removelast (opens c))
          (c_set_evs (upd_nth idx (EBegin k lo hi) (evs c) ++ [EEnd k lo hi]) c)
    | _ => c_set_panic true c                        (* unreachable!() / index out of bounds *)
    end
  end.

(* end_with_error: an empty node is removed, otherwise it becomes an ERROR node *)
Definition c_end_with_error (c : core) : core :=
  match last_opt (opens c) with
  | None => c_set_panic true c
  | Some idx =>
    if Nat.eqb (S idx) (length (evs c)) then
      c_set_opens (removelast (opens c)) (c_set_evs (removelast (evs c)) c)
    else
    match nth_error (evs c) idx with
    | Some (EBegin _ lo _) =>
        let hi := snd (last_span c) in
        c_set_opens (removelast (opens c))
          (c_set_evs (upd_nth idx (EBegin (k_error cfg) lo hi) (evs c) ++ [EEnd (k_error cfg) lo hi]) c)
    | _ => c_set_panic true c
    end
  end.

(* span of the last Token event, Span::default() when there is none *)
Fixpoint last_token_span_of (es : list event) (d : N * N) : N * N :=
  match es with
  | [] => d
  | EToken _ lo hi :: r => last_token_span_of r (lo, hi)
  | _ :: r => last_token_span_of r d
  end.

(* truncate(bookmark) *)
Definition c_truncate (n : nat) (c : core) : core :=
  if Nat.ltb (length (evs c)) n then c_set_panic true c else
  let es := firstn n (evs c) in
  c_set_last_span (last_token_span_of es (0, 0)) (c_set_evs es c).

(* ---- TokenStream ---- *)
Fixpoint insert_sorted (x : nat) (l : list nat) : list nat :=
  match l with
  | [] => [x]
  | y :: t => if Nat.leb x y then x :: l else y :: insert_sorted x t
  end.
Fixpoint remove_first (x : nat) (l : list nat) : option (list nat) :=
  match l with
  | [] => None
  | y :: t => if Nat.eqb x y then Some t else
              match remove_first x t with Some t' => Some (y :: t') | None => None end
  end.

(* ---- ParserImpl::bookmark / restore_bookmark / remove_bookmark ---- *)
Definition bookmark_of (c : core) : nat * nat := (cur c, length (evs c)).
Definition c_bookmark (c : core) : core :=
  c_set_tbm (insert_sorted (cur c) (tbm c)) (c_set_nbm (S (nbm c)) c).
Definition c_restore (bk : nat * nat) (c : core) : core :=
  c_truncate (snd bk) (c_set_cur (fst bk) c).
Definition c_remove_bookmark (bk : nat * nat) (c : core) : core :=
  match remove_first (fst bk) (tbm c) with
  | None => c_set_panic true c                       (* "trying to remove a non-existing bookmark" *)
  | Some l =>
    if Nat.ltb (length (evs c)) (snd bk) then c_set_panic true c else
    match nbm c with
    | O => c_set_panic true c                        (* "dropping a bookmark twice" *)
    | S n => c_set_nbm n (c_set_tbm l c)
    end
  end.

(* ---- ParserImpl::bump: next_token + push_token(token.into(), span) ---- *)
Definition c_bump_tok (t : tok) (c : core) : core :=
  c_push_token (tok_kind cfg (t_id t)) (t_lo t) (t_hi t) (c_set_cur (S (cur c)) c).
Definition c_bump (c : core) : core :=
  match nth_error toks (cur c) with Some t => c_bump_tok t c | None => c end.

(* the loop of trivia(): bump while the next token is trivia. [l] is the rest of the input. *)
Fixpoint c_bump_trivia (l : list tok) (c : core) : core :=
  match l with
  | t :: l' => if is_trivia cfg (t_id t) then c_bump_trivia l' (c_bump_tok t c) else c
  | [] => c
  end.
Definition c_trivia (c : core) : core := c_bump_trivia (skipn (cur c) toks) c.

Definition c_peek_non_trivia (c : core) : option tok :=
  find (fun t => negb (is_trivia cfg (t_id t))) (skipn (cur c) toks).

(* ---- state helpers ---- *)
Definition failed (s : st) : bool := match state s with OK => false | _ => true end.
Definition is_oof (s : st) : bool := match state s with OutOfFuel => true | _ => false end.
(* set_state: the state is sticky once OutOfFuel *)
Definition set_state_g (v : pstate) (s : st) : st := if is_oof s then s else set_state v s.

Definition trivia (s : st) : st := if failed s then s else on_core c_trivia s.

(* TokenSet::contains: the first kind of the set whose token id is the token's *)
Definition opt_N_eqb (a b : option N) : bool :=
  match a, b with Some x, Some y => x =? y | None, None => true | _, _ => false end.
Definition ts_contains (ts : list N) (t : tok) : option N :=
  find (fun k => opt_N_eqb (kind_tid cfg k) (Some (t_id t))) ts.
Definition in_set (ts : list N) (t : tok) : bool :=
  match ts_contains ts t with Some _ => true | None => false end.

(* expected_token_errors / unexpected_token_errors: handle_errors only uses the entry with
   the largest span start (max_by_key keeps the last maximum; entries with equal starts are
   the same token, so they are the same entry) *)
Definition max_span (old : option (N * N)) (sp : N * N) : option (N * N) :=
  match old with
  | None => Some sp
  | Some o => if fst o <=? fst sp then Some sp else Some o
  end.
Definition add_exp (sp : N * N) (s : st) : st := set_exp_err (max_span (exp_err s) sp) s.
Definition add_unexp (sp : N * N) (s : st) : st := set_unexp_err (max_span (unexp_err s) sp) s.

(* handle_errors: both maps are drained; the chosen span is queued unless already pending *)
Definition handle_errors (s : st) : st :=
  let e := exp_err s in
  let u := unexp_err s in
  let s := set_unexp_err None (set_exp_err None s) in
  let chosen :=
    match e, u with
    | Some e', Some u' => if fst e' <? fst u' then Some u' else Some e'
    | None, Some u' => Some u'
    | Some e', None => Some e'
    | None, None => None
    end in
  match chosen with
  | None => s
  | Some sp => if existsb (span_eqb sp) (pending s) then s else set_pending (pending s ++ [sp]) s
  end.

(* flush_errors *)
Definition flush_errors (s : st) : st :=
  set_pending [] (on_core (fun c => c_set_evs (evs c ++ map (fun sp => EError (fst sp) (snd sp)) (pending s)) c) s).

(* does the span a Begin/End is about to record differ from where the stream really is? *)
Definition hazard_now (c : core) : bool := negb (snd (last_span c) =? pos_at (cur c)).
Definition note_hazard (s : st) : st := set_hazard (hazard s || hazard_now (co s)) s.

(* ---- begin / end ---- *)
Definition p_begin (k : N) (s : st) : st :=
  let s := trivia s in
  let s := if fuel s =? 0 then set_state OutOfFuel s else set_fuel (fuel s - 1) s in
  on_core (c_begin k) (note_hazard s).

(* end_with_error on an empty node records no span *)
Definition ewe_empty (c : core) : bool :=
  match last_opt (opens c) with Some idx => Nat.eqb (S idx) (length (evs c)) | None => false end.

Definition p_end (s : st) : st :=
  if failed s then
    let s := if Nat.eqb (opt_depth s) 0 then handle_errors s else s in
    on_core c_end_with_error (if ewe_empty (co s) then s else note_hazard s)
  else on_core c_end (note_hazard s).

(* ---- expect_d ---- *)
Definition p_expect (ts : list N) (s : st) : st :=
  if failed s then s else
  let '(sp, m) :=
    match c_peek_non_trivia (co s) with
    | None => ((src_len, src_len), None)
    | Some t => ((t_lo t, t_hi t), ts_contains ts t)
    end in
  let s :=
    match not_depth s, m with
    | S _, Some _ => add_unexp sp s
    | O, None => add_exp sp s
    | _, _ => s
    end in
  match m with
  | Some k =>
      let s := trivia s in
      match nth_error toks (cur (co s)) with
      | Some t => on_core (fun c => c_push_token k (t_lo t) (t_hi t) (c_set_cur (S (cur c)) c)) s
      | None => on_core (c_set_panic true) s            (* next_token().unwrap() *)
      end
  | None => set_state_g Failure s
  end.

(* the `while let Some(token) = self.peek_non_trivia() { if stop { break } self.trivia(); self.bump(); }`
   loops of recover() and top_level_item(); n bounds the iterations (each one bumps a token) *)
Fixpoint skip_until (stop : tok -> bool) (n : nat) (s : st) : st :=
  match n with
  | O => s
  | S n' =>
    match c_peek_non_trivia (co s) with
    | None => s
    | Some t => if stop t then s else skip_until stop n' (on_core c_bump (trivia s))
    end
  end.

(* ---- recover ---- *)
Definition p_recover (ts : list N) (s : st) : st :=
  if is_oof s then s else
  let was_ok := negb (failed s) in
  let s := set_state_g OK s in
  match c_peek_non_trivia (co s) with
  | None => s
  | Some t =>
    let inset := in_set ts t in
    let s := if (match pending s with [] => true | _ => false end) && negb inset
             then add_exp (t_lo t, t_hi t) s else s in
    let s := if negb was_ok || negb inset then handle_errors s else s in
    if inset then s else
    let s := trivia s in
    let s := p_begin (k_error cfg) s in
    let s := on_core c_bump s in
    let s := skip_until (in_set ts) (length toks) s in
    p_end s
  end.

(* ---- the interpreter ---- *)
Section Run.
Variable nt : Type.
Variable g : nt -> prog nt.

Definition inc_opt (s : st) : st := set_opt_depth (S (opt_depth s)) s.
Definition dec_opt (s : st) : st :=
  match opt_depth s with O => on_core (c_set_panic true) s | S n => set_opt_depth n s end.
Definition inc_not (s : st) : st := set_not_depth (S (not_depth s)) s.
Definition dec_not (s : st) : st :=
  match not_depth s with O => on_core (c_set_panic true) s | S n => set_not_depth n s end.

(* one `.alt(p)` of an Alt whose bookmark is bk; m = Alt::matched *)
Definition alt_step (r : prog nt -> st -> st) (bk : nat * nat) (acc : st * bool) (p : prog nt) : st * bool :=
  let '(s, m) := acc in
  if failed s then (s, m) else
  if m then (s, m) else
  let s := dec_opt (r p (inc_opt (trivia s))) in
  match state s with
  | OK => (s, true)
  | Failure => (on_core (c_restore bk) (set_state_g OK s), false)
  | OutOfFuel => (s, false)
  end.

Fixpoint run (f : nat) (p : prog nt) (s : st) {struct f} : st :=
  match f with
  | O => set_stuck true s
  | S f' =>
    match p with
    | PExpect ts => p_expect ts s
    | PSeq ps => fold_left (fun s p => run f' p s) ps s
    | PNode k body => p_end (run f' body (p_begin k s))
    | POpt q =>
        if failed s then s else
        let bk := bookmark_of (co s) in
        let s := on_core c_bookmark s in
        let s := dec_opt (run f' q (inc_opt (trivia s))) in
        let s := match state s with
                 | Failure => on_core (c_restore bk) (set_state_g OK s)
                 | _ => s end in
        on_core (c_remove_bookmark bk) s
    | PNot q =>
        if failed s then s else
        let bk := bookmark_of (co s) in
        let s := on_core c_bookmark s in
        let s := dec_not (run f' q (inc_not (trivia s))) in
        let s := set_state (match state s with OK => Failure | Failure => OK | OutOfFuel => OutOfFuel end) s in
        on_core (c_remove_bookmark bk) (on_core (c_restore bk) s)
    | PIfNext ts q =>
        if failed s then s else
        match c_peek_non_trivia (co s) with
        | None => s
        | Some t => if in_set ts t then run f' q (trivia s) else add_exp (t_lo t, t_hi t) s
        end
    | PNOrMore n q =>
        if failed s then s else
        match n with
        | O => run f' (PLoop q) s
        | S n' => let s := run f' q (trivia s) in
                  if failed s then s else run f' (PNOrMore n' q) s
        end
    | PLoop q =>
        let bk := bookmark_of (co s) in
        let s := on_core c_bookmark s in
        let s := dec_opt (run f' q (inc_opt (trivia s))) in
        if failed s then
          on_core (c_remove_bookmark bk) (on_core (c_restore bk) (set_state_g OK s))
        else run f' (PLoop q) (on_core (c_remove_bookmark bk) s)
    | PThen q => if failed s then s else run f' q (trivia s)
    | PAlt alts =>
        let bk := bookmark_of (co s) in
        let s := on_core c_bookmark s in
        let '(s, m) := fold_left (alt_step (run f') bk) alts (s, false) in
        let s := on_core (c_remove_bookmark bk) s in
        set_state_g (if m then OK else Failure) s
    | PCached k q =>
        if failed s then s else
        let start := cur (co s) in
        if existsb (fun e => Nat.eqb (fst e) start && (snd e =? k)) (cache s) then set_state_g Failure s else
        let s := run f' q s in
        match state s with Failure => set_cache ((start, k) :: cache s) s | _ => s end
    | PRecover ts => p_recover ts s
    | PCall n => run f' (g n) s
    | PEnterHexPattern => s
    | PEnterHexJump => s
    end
  end.

(* ---- top_level_item: the one irregular grammar function, a primitive.
   dispatch: first-token id -> nonterminal (import_stmt / include_stmt / rule_decl);
   stop: the token ids at which the error branch stops skipping *)
Variable dispatch : list (N * nt).
Variable stop_ids : list N.

Definition dispatch_of (t : tok) : option nt :=
  match find (fun e => fst e =? t_id t) dispatch with Some e => Some (snd e) | None => None end.

Definition top_level_item (f : nat) (s : st) : st :=
  match nth_error toks (cur (co s)) with
  | None => set_state_g Failure s
  | Some t =>
    match dispatch_of t with
    | Some n => run f (PCall n) s
    | None =>
      let s := on_core (c_push (EError (t_lo t) (t_hi t))) s in
      let s := on_core (c_begin (k_error cfg)) (note_hazard s) in
      let s := skip_until (fun t => existsb (N.eqb (t_id t)) stop_ids) (length toks) s in
      let s := on_core c_end (note_hazard s) in
      set_state_g Failure s
    end
  end.

(* ---- Iterator::next for ParserImpl, unrolled: the events between Begin/End SOURCE_FILE.
   Each round parses one top-level item into an empty deque and pops everything (pop asserts
   that no bookmark is active and no Begin is open). A round that yields no event ends the
   stream, as does OutOfFuel or the end of the tokens. *)
Definition init_core : core := mkCore 0 [] [] 0 [] (0, 0) false.
Definition init_state (fuel0 : N) : st := mkSt init_core OK 0 0 None None [] [] fuel0 false false.

Definition pop_all (s : st) : st :=
  let c := co s in
  let bad := negb (Nat.eqb (nbm c) 0) || negb (match opens c with [] => true | _ => false end) in
  on_core (fun c => c_set_panic (panic c || bad) (c_set_evs [] c)) s.

(* why the rounds stopped *)
Inductive exit_reason :=
| Finished        (* has_more() = false: every token was consumed *)
| FuelExhausted   (* state = OutOfFuel: the remaining tokens are NOT emitted *)
| EmptyRound      (* a round produced no event: pop() = None ends the stream *)
| Stuck.          (* the model's own round bound ran out (not a parser behaviour) *)

Fixpoint items (n f : nat) (s : st) (out : list event) : st * list event * exit_reason :=
  match n with
  | O => (set_stuck true s, out, Stuck)
  | S n' =>
    if is_oof s then (s, out, FuelExhausted) else
    if Nat.leb (length toks) (cur (co s)) then (s, out, Finished) else
    let s := trivia s in
    let s := top_level_item f s in
    let s := flush_errors s in
    let s := set_state_g OK (set_cache [] s) in
    let es := evs (co s) in
    let s := pop_all s in
    match es with
    | [] => (s, out, EmptyRound)
    | _ => items n' f s (out ++ es)
    end
  end.

Record result := mkResult { r_body : list event; r_final : st; r_exit : exit_reason }.

(* n: bound on the number of top-level rounds; f: recursion fuel of each round *)
Definition parse (n f : nat) (fuel0 : N) : result :=
  let '(s, out, e) := items n f (init_state fuel0) [] in mkResult out s e.

Definition full_events (r : result) : list event :=
  EBegin (k_source_file cfg) 0 src_len :: r_body r ++ [EEnd (k_source_file cfg) 0 src_len].

End Run.

(* ------------------------------------------------------------------ specification *)

(* does Token event (k,lo,hi) stand for token t? its span is t's and its kind is one of the
   kinds that t's id can be given (From<&Token>, or a TokenSet member with that token id) *)
Definition tok_matches (k lo hi : N) (t : tok) : bool :=
  (lo =? t_lo t) && (hi =? t_hi t) &&
  (opt_N_eqb (kind_tid cfg k) (Some (t_id t)) || (k =? tok_kind cfg (t_id t))).

(* One pass over an event list: stk = the Begins still open (kind, span), c = number of
   tokens seen so far.
     - the i-th Token event is the i-th token of [toks] (nothing lost, duplicated, reordered);
     - every End closes the innermost open Begin and carries the same kind and span;
     - strict: a node's span starts where the previous token ended and ends where its last
       token ended (so it is the hull of its tokens, or empty at that position). *)
Fixpoint chk (strict : bool) (es : list event) (stk : list (N * N * N)) (c : nat) : option (list (N * N * N) * nat) :=
  match es with
  | [] => Some (stk, c)
  | EBegin k lo hi :: r =>
      if strict && negb (lo =? pos_at c) then None else chk strict r ((k, lo, hi) :: stk) c
  | EEnd k lo hi :: r =>
      match stk with
      | (k', lo', hi') :: stk' =>
          if (k =? k') && (lo =? lo') && (hi =? hi') && (negb strict || (hi =? pos_at c))
          then chk strict r stk' c else None
      | [] => None
      end
  | EToken k lo hi :: r =>
      match nth_error toks c with
      | Some t => if tok_matches k lo hi t then chk strict r stk (S c) else None
      | None => None
      end
  | EError _ _ :: r => chk strict r stk c
  end.

(* the token list tiles [0, src_len): contiguous, non-empty, ordered, in bounds *)
Fixpoint tiles (p : N) (l : list tok) : bool :=
  match l with
  | [] => p =? src_len
  | t :: r => (t_lo t =? p) && (t_lo t <? t_hi t) && tiles (t_hi t) r
  end.

End Engine.
