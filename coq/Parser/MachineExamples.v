(* Concrete runs of the model parser (vm_compute): non-vacuity of the theorems of
   MachineProofs.v, the out-of-fuel behaviour, and a witness that node spans are NOT exact for
   every grammar (the guard [hazard = false] of node_spans_exact is needed). *)
From Coq Require Import List NArith Bool Arith.
From YV Require Import Parser.Machine Parser.MachineProofs Gen.Grammar.
Import ListNotations.
Local Open Scope N_scope.

(* `rule a{condition:true}rule b{condition:true}` : two rules, no trivia in between *)
Definition ex_toks : list tok :=
  [mkTok T.RULE_KW 0 4; mkTok T.WHITESPACE 4 5; mkTok T.IDENT 5 6; mkTok T.L_BRACE 6 7;
   mkTok T.CONDITION_KW 7 16; mkTok T.COLON 16 17; mkTok T.TRUE_KW 17 21; mkTok T.R_BRACE 21 22;
   mkTok T.RULE_KW 22 26; mkTok T.WHITESPACE 26 27; mkTok T.IDENT 27 28; mkTok T.L_BRACE 28 29;
   mkTok T.CONDITION_KW 29 38; mkTok T.COLON 38 39; mkTok T.TRUE_KW 39 43; mkTok T.R_BRACE 43 44].

Example real_grammar_run :
  let r := yara_parse ex_toks 44 20 400 parser_fuel in
  r_exit r = Finished /\ cur (co (r_final r)) = 16%nat /\ hazard (r_final r) = false /\
  tiles 44 0 ex_toks = true /\
  chk yara_cfg ex_toks true (full_events yara_cfg 44 r) [] 0 = Some ([], 16%nat) /\
  length (filter (fun e => match e with EBegin k _ _ => k =? K.RULE_DECL | _ => false end) (r_body r)) = 2%nat.
Proof. vm_compute. repeat split. Qed.

(* with 5 units of fuel the parser stops inside the first rule: OutOfFuel, the stream ends,
   the tokens after the cursor are not emitted *)
Example out_of_fuel_example :
  let r := yara_parse ex_toks 44 20 400 5 in
  r_exit r = FuelExhausted /\ state (r_final r) = OutOfFuel /\
  (cur (co (r_final r)) < length ex_toks)%nat /\
  length (tok_events (r_body r)) = cur (co (r_final r)).
Proof. vm_compute. repeat split; repeat constructor. Qed.

(* A grammar for which a node span is wrong.  Two one-byte tokens `a` `a`, each a top-level
   item  X := begin(7) opt(expect(never)) [ begin(8) expect(a) end ] end.
   In the second round the deque is empty; the failed opt() truncates to a point with no Token
   event, truncate() resets last_token_span to 0..0, and begin(8) records start 0 instead of 1. *)
Definition w_cfg : config :=
  mkConfig (fun k => if k =? 10 then Some 0 else None) (fun _ => 10) (fun _ => false) 1 2.
Definition w_toks : list tok := [mkTok 0 0 1; mkTok 0 1 2].
Definition w_g (_ : unit) : prog unit :=
  PNode 7 (PSeq [POpt (PExpect [99]); PNode 8 (PExpect [10])]).
Definition w_run : result := parse w_cfg w_toks 2 unit w_g [(0, tt)] [] 10 50 1000.

Lemma node_spans_exact_all_grammars_refuted :
  r_exit w_run = Finished /\ hazard (r_final w_run) = true /\
  chk w_cfg w_toks false (r_body w_run) [] 0 = Some ([], 2%nat) /\
  chk w_cfg w_toks true (r_body w_run) [] 0 = None /\
  In (EBegin 8 0 2) (r_body w_run).
Proof. vm_compute. repeat split. do 6 right. left. reflexivity. Qed.

(* The parser's fuel is per file and never replenished, and when it runs out the rest of the source
   is not emitted (MachineProofs.out_of_fuel_truncates).  A plain list of one-line rules takes about
   22 units per rule, so the budget below is what lets sources of hundreds of megabytes through;
   lowering it in the source makes this obligation fail and has to be reviewed. *)
Lemma parser_fuel_budget : (100000000 <=? parser_fuel)%N = true.
Proof. vm_compute. reflexivity. Qed.
