(* Proofs about the parser engine model (Parser/Machine.v): for EVERY grammar built from the
   combinators, every token list, every parser fuel and every recursion bound, the events the
   engine emits contain exactly the consumed tokens in order, Begin/End are properly nested,
   no assert of the engine fires, and (when no span was computed from a reset
   last_token_span) every node span is the hull of its tokens. *)
From Coq Require Import List NArith Bool Arith Lia.
From YV Require Import Parser.Machine.
Import ListNotations.

Ltac sc := cbn [co state opt_depth not_depth exp_err unexp_err pending cache fuel hazard stuck
                cur evs opens nbm tbm last_span panic
                set_co set_state set_opt_depth set_not_depth set_exp_err set_unexp_err set_pending
                set_cache set_fuel set_hazard set_stuck
                c_set_cur c_set_evs c_set_opens c_set_nbm c_set_tbm c_set_last_span c_set_panic
                on_core fst snd] in *.

(* ------------------------------------------------------------------ list facts *)
Lemma last_opt_snoc : forall A (l : list A) x, last_opt (l ++ [x]) = Some x.
Proof. intros. unfold last_opt. rewrite rev_app_distr. reflexivity. Qed.

Lemma upd_nth_app : forall A (a : list A) x y d, upd_nth (length a) x (a ++ y :: d) = a ++ x :: d.
Proof. induction a; intros; cbn; [reflexivity|]. now rewrite IHa. Qed.

Lemma nth_error_app_mid : forall A (a : list A) y d, nth_error (a ++ y :: d) (length a) = Some y.
Proof. intros. rewrite nth_error_app2 by lia. now rewrite Nat.sub_diag. Qed.

Lemma firstn_app_exact : forall A (a d : list A), firstn (length a) (a ++ d) = a.
Proof. intros. rewrite firstn_app, Nat.sub_diag, firstn_all. cbn. apply app_nil_r. Qed.

Lemma skipn_cons_nth : forall A (l : list A) n x r,
  skipn n l = x :: r -> nth_error l n = Some x /\ skipn (S n) l = r.
Proof.
  induction l; intros n x r H.
  - destruct n; discriminate.
  - destruct n; cbn in *.
    + inversion H; subst. split; reflexivity.
    + apply IHl in H. exact H.
Qed.

Lemma remove_insert : forall x l, remove_first x (insert_sorted x l) = Some l.
Proof.
  induction l; cbn.
  - now rewrite Nat.eqb_refl.
  - destruct (Nat.leb x a) eqn:E; cbn.
    + now rewrite Nat.eqb_refl.
    + apply Nat.leb_gt in E. destruct (Nat.eqb x a) eqn:E2.
      * apply Nat.eqb_eq in E2. lia.
      * now rewrite IHl.
Qed.

(* ------------------------------------------------------------------ the engine *)
Section Proofs.
Variable cfg : config.
Variable toks : list tok.
Variable src_len : N.
Variable strict : bool.

Notation chk := (chk cfg toks strict).

Definition CHK (d : list event) (c c' : nat) : Prop :=
  forall stk, chk d stk c = Some (stk, c').

Lemma chk_app : forall a b stk c,
  chk (a ++ b) stk c = match chk a stk c with Some (stk', c') => chk b stk' c' | None => None end.
Proof.
  induction a as [|e a IH]; intros; cbn [app Machine.chk]; [reflexivity|].
  destruct e.
  - destruct (strict && negb (lo =? pos_at toks c)%N); [reflexivity|apply IH].
  - destruct stk as [|[[k' lo'] hi'] stk']; [reflexivity|].
    destruct ((k =? k')%N && (lo =? lo')%N && (hi =? hi')%N && (negb strict || (hi =? pos_at toks c)%N)); [apply IH|reflexivity].
  - destruct (nth_error toks c); [|reflexivity].
    destruct (tok_matches cfg k lo hi t); [apply IH|reflexivity].
  - apply IH.
Qed.

Lemma CHK_nil : forall c, CHK [] c c.
Proof. intros c stk. reflexivity. Qed.

Lemma CHK_app : forall d1 d2 c c1 c2, CHK d1 c c1 -> CHK d2 c1 c2 -> CHK (d1 ++ d2) c c2.
Proof. intros d1 d2 c c1 c2 H1 H2 stk. rewrite chk_app, H1. apply H2. Qed.

Lemma CHK_nil_inv : forall c c', CHK [] c c' -> c = c'.
Proof. intros c c' H. specialize (H []). cbn in H. now inversion H. Qed.

Lemma CHK_error : forall l h c, CHK [EError l h] c c.
Proof. intros l h c stk. reflexivity. Qed.

Lemma CHK_errors : forall (sps : list (N * N)) c, CHK (map (fun sp => EError (fst sp) (snd sp)) sps) c c.
Proof. induction sps; intros c stk; cbn; [reflexivity|]. apply IHsps. Qed.

Lemma CHK_token : forall k lo hi t c,
  nth_error toks c = Some t -> tok_matches cfg k lo hi t = true -> CHK [EToken k lo hi] c (S c).
Proof. intros k lo hi t c H1 H2 stk. cbn. now rewrite H1, H2. Qed.

Lemma CHK_node : forall k lo hi d c c',
  CHK d c c' -> (strict = true -> lo = pos_at toks c /\ hi = pos_at toks c') ->
  CHK (EBegin k lo hi :: d ++ [EEnd k lo hi]) c c'.
Proof.
  intros k lo hi d c c' H HS stk. cbn [Machine.chk].
  assert (E1 : strict && negb (lo =? pos_at toks c)%N = false).
  { destruct strict; [|reflexivity]. destruct (HS eq_refl) as [-> _]. now rewrite N.eqb_refl. }
  rewrite E1, chk_app, H. cbn [Machine.chk].
  rewrite !N.eqb_refl. cbn [andb].
  assert (E2 : negb strict || (hi =? pos_at toks c')%N = true).
  { destruct strict; [|reflexivity]. destruct (HS eq_refl) as [_ ->]. now rewrite N.eqb_refl. }
  now rewrite E2.
Qed.

(* ---- frame relation on the stream state: b extends a by a well-formed block d *)
Record FRc (a b : core) : Prop := mkFRc {
  frc_evs : exists d, evs b = evs a ++ d /\ CHK d (cur a) (cur b);
  frc_opens : opens b = opens a;
  frc_nbm : nbm b = nbm a;
  frc_tbm : tbm b = tbm a;
  frc_panic : panic b = panic a }.

Lemma FRc_refl : forall a, FRc a a.
Proof. intros a. constructor; try reflexivity. exists []. split; [now rewrite app_nil_r|apply CHK_nil]. Qed.

Lemma FRc_trans : forall a b c, FRc a b -> FRc b c -> FRc a c.
Proof.
  intros a b c [[d1 [E1 C1]] O1 N1 T1 P1] [[d2 [E2 C2]] O2 N2 T2 P2].
  constructor; try congruence.
  exists (d1 ++ d2). split; [rewrite E2, E1; apply app_assoc_reverse|eapply CHK_app; eauto].
Qed.

(* extend by events that consume tokens c .. c' *)
Lemma FRc_push : forall a d c',
  CHK d (cur a) c' -> FRc a (c_set_cur c' (c_set_evs (evs a ++ d) a)).
Proof. intros. constructor; sc; try reflexivity. exists d. split; [reflexivity|assumption]. Qed.

Lemma tok_matches_bump : forall t, tok_matches cfg (tok_kind cfg (t_id t)) (t_lo t) (t_hi t) t = true.
Proof. intros. unfold tok_matches. rewrite !N.eqb_refl. cbn. apply orb_true_r. Qed.

Lemma tok_matches_set : forall k t,
  kind_tid cfg k = Some (t_id t) -> tok_matches cfg k (t_lo t) (t_hi t) t = true.
Proof. intros k t H. unfold tok_matches. rewrite !N.eqb_refl, H. cbn. now rewrite N.eqb_refl. Qed.

Lemma FRc_push_token : forall a k t,
  nth_error toks (cur a) = Some t -> tok_matches cfg k (t_lo t) (t_hi t) t = true ->
  FRc a (c_push_token k (t_lo t) (t_hi t) (c_set_cur (S (cur a)) a)).
Proof.
  intros a k t H M. unfold c_push_token, c_push. constructor; sc; try reflexivity.
  exists [EToken k (t_lo t) (t_hi t)]. split; [reflexivity|]. eapply CHK_token; eauto.
Qed.

Lemma FRc_bump_tok : forall a t, nth_error toks (cur a) = Some t -> FRc a (c_bump_tok cfg t a).
Proof. intros. unfold c_bump_tok. apply FRc_push_token; [assumption|apply tok_matches_bump]. Qed.

Lemma FRc_bump : forall a, FRc a (c_bump cfg toks a).
Proof.
  intros a. unfold c_bump. destruct (nth_error toks (cur a)) eqn:E; [now apply FRc_bump_tok|apply FRc_refl].
Qed.

Lemma FRc_bump_trivia : forall l a, skipn (cur a) toks = l -> FRc a (c_bump_trivia cfg l a).
Proof.
  induction l as [|t l IH]; intros a H; cbn [c_bump_trivia]; [apply FRc_refl|].
  destruct (is_trivia cfg (t_id t)); [|apply FRc_refl].
  apply skipn_cons_nth in H. destruct H as [Hn Hs].
  eapply FRc_trans; [apply FRc_bump_tok; eassumption|].
  apply IH. unfold c_bump_tok, c_push_token, c_push. sc. exact Hs.
Qed.

Lemma FRc_trivia : forall a, FRc a (c_trivia cfg toks a).
Proof. intros. unfold c_trivia. now apply FRc_bump_trivia. Qed.

(* after trivia() the cursor is at the token peek_non_trivia() returned *)
Lemma bump_trivia_find : forall l a t, skipn (cur a) toks = l ->
  find (fun t => negb (is_trivia cfg (t_id t))) l = Some t ->
  nth_error toks (cur (c_bump_trivia cfg l a)) = Some t.
Proof.
  induction l as [|x l IH]; intros a t H F; cbn in F; [discriminate|].
  apply skipn_cons_nth in H. destruct H as [Hn Hs]. cbn [c_bump_trivia].
  destruct (is_trivia cfg (t_id x)); cbn in F.
  - apply IH; [|assumption]. unfold c_bump_tok, c_push_token, c_push. sc. exact Hs.
  - inversion F; subst. exact Hn.
Qed.

Lemma FRc_push_error : forall a l h, FRc a (c_push (EError l h) a).
Proof.
  intros. unfold c_push. constructor; sc; try reflexivity.
  exists [EError l h]. split; [reflexivity|apply CHK_error].
Qed.

(* ---- bookmarks *)
Lemma FRc_restore : forall a b, FRc a b -> FRc a (c_restore (bookmark_of a) b).
Proof.
  intros a b [[d [E C]] O Nb T P]. unfold c_restore, c_truncate, bookmark_of. sc.
  rewrite E. rewrite app_length.
  replace (Nat.ltb (length (evs a) + length d) (length (evs a))) with false
    by (symmetry; apply Nat.ltb_ge; lia).
  rewrite firstn_app_exact. constructor; sc; try assumption; try reflexivity.
  exists []. split; [now rewrite app_nil_r|apply CHK_nil].
Qed.

Lemma bookmark_of_bookmark : forall a, bookmark_of (c_bookmark a) = bookmark_of a.
Proof. reflexivity. Qed.

Lemma FRc_remove_bookmark : forall a b,
  FRc (c_bookmark a) b -> FRc a (c_remove_bookmark (bookmark_of a) b).
Proof.
  intros a b [[d [E C]] O Nb T P]. unfold c_remove_bookmark, bookmark_of, c_bookmark in *. sc.
  rewrite T, remove_insert, E, app_length.
  replace (Nat.ltb (length (evs a) + length d) (length (evs a))) with false
    by (symmetry; apply Nat.ltb_ge; lia).
  rewrite Nb. constructor; sc; try assumption; try reflexivity.
  exists d. split; [exact E|exact C].
Qed.

(* ---- begin / end *)
Lemma FRc_end : forall k a b,
  FRc (c_begin k a) b ->
  (strict = true -> snd (last_span a) = pos_at toks (cur a) /\ snd (last_span b) = pos_at toks (cur b)) ->
  FRc a (c_end b).
Proof.
  intros k a b [[d [E C]] O Nb T P] HS. unfold c_begin, c_push in *. sc.
  unfold c_end. rewrite O, last_opt_snoc, E, <- app_assoc. cbn [app].
  rewrite nth_error_app_mid, upd_nth_app, removelast_last.
  constructor; sc; try assumption; try reflexivity.
  eexists. split; [rewrite <- app_assoc; cbn [app]; reflexivity|].
  apply CHK_node; [exact C|]. intros Hs. destruct (HS Hs) as [S1 S2]. split; assumption.
Qed.

Lemma FRc_end_with_error : forall k a b,
  FRc (c_begin k a) b ->
  (strict = true -> ewe_empty b = false ->
     snd (last_span a) = pos_at toks (cur a) /\ snd (last_span b) = pos_at toks (cur b)) ->
  FRc a (c_end_with_error cfg b).
Proof.
  intros k a b [[d [E C]] O Nb T P] HS. unfold c_begin, c_push in *. sc.
  assert (Ee : ewe_empty b = Nat.eqb (S (length (evs a))) (length (evs a) + S (length d))).
  { unfold ewe_empty. rewrite O, last_opt_snoc, E, <- app_assoc, app_length. reflexivity. }
  unfold c_end_with_error. rewrite O, last_opt_snoc, E.
  rewrite <- app_assoc. cbn [app]. rewrite app_length. cbn [length].
  destruct (Nat.eqb (S (length (evs a))) (length (evs a) + S (length d))) eqn:Eq.
  - (* empty node: removed *)
    apply Nat.eqb_eq in Eq. assert (d = []) by (destruct d; [reflexivity|cbn [length] in Eq; lia]). subst d.
    rewrite removelast_last, removelast_last.
    apply CHK_nil_inv in C. constructor; sc; try assumption; try reflexivity.
    exists []. split; [now rewrite app_nil_r|]. rewrite <- C. apply CHK_nil.
  - rewrite nth_error_app_mid, upd_nth_app, removelast_last.
    constructor; sc; try assumption; try reflexivity.
    eexists. split; [rewrite <- app_assoc; cbn [app]; reflexivity|].
    apply CHK_node; [exact C|]. intros Hs. destruct (HS Hs Ee) as [S1 S2]. split; assumption.
Qed.

(* ------------------------------------------------------------------ state level *)
Definition Hz (s : st) : Prop := strict = true -> hazard s = false.

Record FR (s s' : st) : Prop := mkFR {
  fr_mono : hazard s = true -> hazard s' = true;
  fr_opt : opt_depth s' = opt_depth s;
  fr_not : not_depth s' = not_depth s;
  fr_core : Hz s' -> FRc (co s) (co s') }.

Lemma FR_refl : forall s, FR s s.
Proof. intros. constructor; auto. intros _. apply FRc_refl. Qed.

Lemma Hz_back : forall s s', FR s s' -> Hz s' -> Hz s.
Proof.
  intros s s' F H Hs. destruct (hazard s) eqn:E; [|reflexivity].
  pose proof (fr_mono _ _ F E) as E'. rewrite (H Hs) in E'. discriminate.
Qed.

Lemma FR_trans : forall a b c, FR a b -> FR b c -> FR a c.
Proof.
  intros a b c F1 F2. constructor.
  - intros H. apply (fr_mono _ _ F2). now apply (fr_mono _ _ F1).
  - rewrite (fr_opt _ _ F2). apply (fr_opt _ _ F1).
  - rewrite (fr_not _ _ F2). apply (fr_not _ _ F1).
  - intros H. eapply FRc_trans; [apply (fr_core _ _ F1); eapply Hz_back; eauto|now apply (fr_core _ _ F2)].
Qed.

(* states that agree on everything the frame relation looks at *)
Definition same (s s' : st) : Prop :=
  co s' = co s /\ hazard s' = hazard s /\ opt_depth s' = opt_depth s /\ not_depth s' = not_depth s.

Lemma same_refl : forall s, same s s. Proof. repeat split. Qed.
Lemma same_trans : forall a b c, same a b -> same b c -> same a c.
Proof. intros a b c (A1 & A2 & A3 & A4) (B1 & B2 & B3 & B4). repeat split; congruence. Qed.

Lemma FR_same : forall s s', same s s' -> FR s s'.
Proof.
  intros s s' (A1 & A2 & A3 & A4). constructor; try assumption.
  - now rewrite A2.
  - intros _. rewrite A1. apply FRc_refl.
Qed.

Lemma FR_same_r : forall a b b', FR a b -> same b b' -> FR a b'.
Proof. intros. eapply FR_trans; [eassumption|now apply FR_same]. Qed.
Lemma FR_same_l : forall a a' b, same a a' -> FR a' b -> FR a b.
Proof. intros. eapply FR_trans; [apply FR_same; eassumption|assumption]. Qed.

Lemma same_set_state : forall v s, same s (set_state v s). Proof. repeat split. Qed.
Lemma same_set_state_g : forall v s, same s (set_state_g v s).
Proof. intros. unfold set_state_g. destruct (is_oof s); repeat split. Qed.
Lemma same_add_exp : forall sp s, same s (add_exp sp s). Proof. repeat split. Qed.
Lemma same_add_unexp : forall sp s, same s (add_unexp sp s). Proof. repeat split. Qed.
Lemma same_set_cache : forall v s, same s (set_cache v s). Proof. repeat split. Qed.
Lemma same_set_fuel : forall v s, same s (set_fuel v s). Proof. repeat split. Qed.
Lemma same_set_stuck : forall v s, same s (set_stuck v s). Proof. repeat split. Qed.
Lemma same_set_pending : forall v s, same s (set_pending v s). Proof. repeat split. Qed.
Lemma same_handle_errors : forall s, same s (handle_errors s).
Proof.
  intros. unfold handle_errors.
  destruct (exp_err s) as [e|], (unexp_err s) as [u|]; sc;
    try (destruct (fst e <? fst u)%N);
    try match goal with |- context [existsb ?f ?l] => destruct (existsb f l) end; repeat split.
Qed.

(* lift a core-level step *)
Lemma FR_on_core : forall f s, FRc (co s) (f (co s)) -> FR s (on_core f s).
Proof. intros f s H. constructor; sc; auto. Qed.

Lemma FR_trivia : forall s, FR s (trivia cfg toks s).
Proof.
  intros. unfold trivia. destruct (failed s); [apply FR_refl|]. apply FR_on_core, FRc_trivia.
Qed.

Lemma FR_bump : forall s, FR s (on_core (c_bump cfg toks) s).
Proof. intros. apply FR_on_core, FRc_bump. Qed.

Lemma FR_skip_until : forall stop n s, FR s (skip_until cfg toks stop n s).
Proof.
  induction n; intros s; cbn [skip_until]; [apply FR_refl|].
  destruct (c_peek_non_trivia cfg toks (co s)); [|apply FR_refl].
  destruct (stop t); [apply FR_refl|].
  eapply FR_trans; [|apply IHn]. eapply FR_trans; [apply FR_trivia|apply FR_bump].
Qed.

Lemma FR_flush_errors : forall s, FR s (flush_errors s).
Proof.
  intros. unfold flush_errors. eapply FR_same_r; [|apply same_set_pending].
  apply FR_on_core. constructor; sc; try reflexivity.
  eexists. split; [reflexivity|apply CHK_errors].
Qed.

(* ---- expect *)
Lemma FR_expect : forall ts s, FR s (p_expect cfg toks src_len ts s).
Proof.
  intros ts s. unfold p_expect. destruct (failed s) eqn:Ef; [apply FR_refl|].
  destruct (c_peek_non_trivia cfg toks (co s)) as [t|] eqn:Ep.
  - destruct (ts_contains cfg ts t) as [k|] eqn:Ec.
    + (* matched *)
      set (s1 := match not_depth s with O => s | S _ => add_unexp (t_lo t, t_hi t) s end).
      assert (S1 : same s s1) by (unfold s1; destruct (not_depth s); [apply same_refl|apply same_add_unexp]).
      assert (F1 : failed s1 = false) by (unfold s1; destruct (not_depth s); assumption).
      replace (match not_depth s with
               | O => match Some k with Some _ => s | None => add_exp (t_lo t, t_hi t) s end
               | S _ => match Some k with Some _ => add_unexp (t_lo t, t_hi t) s | None => s end
               end) with s1 by (unfold s1; destruct (not_depth s); reflexivity).
      eapply FR_same_l; [exact S1|].
      assert (Hn : nth_error toks (cur (co (trivia cfg toks s1))) = Some t).
      { unfold trivia. rewrite F1. sc. unfold c_trivia. apply bump_trivia_find; [reflexivity|].
        destruct S1 as [-> _]. exact Ep. }
      rewrite Hn. eapply FR_trans; [apply FR_trivia|].
      apply FR_on_core. apply FRc_push_token; [exact Hn|].
      apply tok_matches_set. unfold ts_contains in Ec. apply find_some in Ec. destruct Ec as [_ Ec].
      unfold opt_N_eqb in Ec. destruct (kind_tid cfg k); [|discriminate]. apply N.eqb_eq in Ec. now subst.
    + destruct (not_depth s); (eapply FR_same_r; [|apply same_set_state_g]); apply FR_same;
        try apply same_add_exp; apply same_refl.
  - destruct (not_depth s); (eapply FR_same_r; [|apply same_set_state_g]); apply FR_same;
      try apply same_add_exp; apply same_refl.
Qed.

(* ---- begin ... end *)
Lemma same_note_hazard_core : forall s, co (note_hazard toks s) = co s. Proof. reflexivity. Qed.

Lemma p_end_depths : forall s, opt_depth (p_end cfg toks s) = opt_depth s /\ not_depth (p_end cfg toks s) = not_depth s.
Proof.
  intros. unfold p_end.
  destruct (failed s); [|split; reflexivity].
  destruct (Nat.eqb (opt_depth s) 0).
  - destruct (same_handle_errors s) as (_ & _ & O & Nn).
    destruct (ewe_empty (co (handle_errors s))); split; sc; assumption.
  - destruct (ewe_empty (co s)); split; reflexivity.
Qed.

Lemma FR_node : forall k s s2,
  FR (p_begin cfg toks k s) s2 -> FR s (p_end cfg toks s2).
Proof.
  intros k s s2 F.
  (* the state on which c_begin ran *)
  set (s1 := let s := trivia cfg toks s in if (fuel s =? 0)%N then set_state OutOfFuel s else set_fuel (fuel s - 1) s) in *.
  assert (F01 : FR s s1).
  { unfold s1. eapply FR_same_r; [apply FR_trivia|].
    destruct (fuel (trivia cfg toks s) =? 0)%N; [apply same_set_state|apply same_set_fuel]. }
  assert (Eb : p_begin cfg toks k s = on_core (c_begin k) (note_hazard toks s1)) by reflexivity.
  rewrite Eb in F. clear Eb.
  (* the state on which c_end / c_end_with_error runs *)
  set (s3 := if failed s2 then (if Nat.eqb (opt_depth s2) 0 then handle_errors s2 else s2) else s2).
  assert (S23 : same s2 s3).
  { unfold s3. destruct (failed s2); [|apply same_refl].
    destruct (Nat.eqb (opt_depth s2) 0); [apply same_handle_errors|apply same_refl]. }
  assert (F13 : FR (on_core (c_begin k) (note_hazard toks s1)) s3) by (eapply FR_same_r; eauto).
  destruct S23 as (C23 & H23 & O23 & N23).
  constructor.
  - (* hazard is monotone *)
    intros H. apply (fr_mono _ _ F01) in H.
    assert (H3 : hazard s3 = true).
    { apply (fr_mono _ _ F13). sc. unfold note_hazard. sc. now rewrite H. }
    unfold p_end. fold s3.
    destruct (failed s2).
    + replace (if Nat.eqb (opt_depth s2) 0 then handle_errors s2 else s2) with s3 by (unfold s3; reflexivity).
      destruct (ewe_empty (co s3)); sc; [assumption|]. unfold note_hazard. sc. now rewrite H3.
    + sc. unfold note_hazard. sc. replace s2 with s3 by reflexivity. now rewrite H3.
  - rewrite (proj1 (p_end_depths s2)), (fr_opt _ _ F). sc. apply (fr_opt _ _ F01).
  - rewrite (proj2 (p_end_depths s2)), (fr_not _ _ F). sc. apply (fr_not _ _ F01).
  - intros Hf. unfold p_end in *. destruct (failed s2) eqn:Ef.
    + replace (if Nat.eqb (opt_depth s2) 0 then handle_errors s2 else s2) with s3 in * by (unfold s3; reflexivity).
      destruct (ewe_empty (co s3)) eqn:Ee.
      * (* removed *)
        assert (H3 : Hz s3) by (intros Hs; specialize (Hf Hs); sc; exact Hf).
        pose proof (fr_core _ _ F13 H3) as Fc. sc.
        assert (H1 : Hz s1).
        { intros Hs. pose proof (Hz_back _ _ F13 H3 Hs) as Hh. sc. unfold note_hazard in Hh. sc.
          apply orb_false_iff in Hh. tauto. }
        eapply FRc_trans; [apply (fr_core _ _ F01 H1)|].
        sc. eapply FRc_end_with_error; [exact Fc|]. intros _ Hne. congruence.
      * assert (H3 : Hz s3 /\ (strict = true -> hazard_now toks (co s3) = false)).
        { split; intros Hs; specialize (Hf Hs); sc; unfold note_hazard in Hf; sc;
            apply orb_false_iff in Hf; tauto. }
        destruct H3 as [H3 H3n].
        pose proof (fr_core _ _ F13 H3) as Fc. sc.
        assert (H1 : Hz s1 /\ (strict = true -> hazard_now toks (co s1) = false)).
        { split; intros Hs; pose proof (Hz_back _ _ F13 H3 Hs) as Hh; sc; unfold note_hazard in Hh; sc;
            apply orb_false_iff in Hh; tauto. }
        destruct H1 as [H1 H1n].
        eapply FRc_trans; [apply (fr_core _ _ F01 H1)|].
        sc. eapply FRc_end_with_error; [exact Fc|]. intros Hs _.
        specialize (H1n Hs). specialize (H3n Hs). unfold hazard_now in *.
        apply negb_false_iff in H1n, H3n. apply N.eqb_eq in H1n, H3n. split; assumption.
    + replace s2 with s3 in * by reflexivity.
      assert (H3 : Hz s3 /\ (strict = true -> hazard_now toks (co s3) = false)).
      { split; intros Hs; specialize (Hf Hs); sc; unfold note_hazard in Hf; sc;
          apply orb_false_iff in Hf; tauto. }
      destruct H3 as [H3 H3n].
      pose proof (fr_core _ _ F13 H3) as Fc. sc.
      assert (H1 : Hz s1 /\ (strict = true -> hazard_now toks (co s1) = false)).
      { split; intros Hs; pose proof (Hz_back _ _ F13 H3 Hs) as Hh; sc; unfold note_hazard in Hh; sc;
          apply orb_false_iff in Hh; tauto. }
      destruct H1 as [H1 H1n].
      eapply FRc_trans; [apply (fr_core _ _ F01 H1)|].
      sc. eapply FRc_end; [exact Fc|]. intros Hs.
      specialize (H1n Hs). specialize (H3n Hs). unfold hazard_now in *.
      apply negb_false_iff in H1n, H3n. apply N.eqb_eq in H1n, H3n. split; assumption.
Qed.

(* ---- recover *)
Lemma FR_recover : forall ts s, FR s (p_recover cfg toks ts s).
Proof.
  intros ts s. unfold p_recover. destruct (is_oof s); [apply FR_refl|].
  set (s1 := set_state_g OK s).
  assert (S1 : same s s1) by apply same_set_state_g.
  destruct (c_peek_non_trivia cfg toks (co s1)) as [t|]; [|now apply FR_same].
  set (s2 := if (match pending s1 with [] => true | _ => false end) && negb (in_set cfg ts t)
             then add_exp (t_lo t, t_hi t) s1 else s1).
  assert (S2 : same s1 s2).
  { unfold s2. destruct ((match pending s1 with [] => true | _ => false end) && negb (in_set cfg ts t));
      [apply same_add_exp|apply same_refl]. }
  set (s3 := if negb (negb (failed s)) || negb (in_set cfg ts t) then handle_errors s2 else s2).
  assert (S3 : same s2 s3).
  { unfold s3. destruct (negb (negb (failed s)) || negb (in_set cfg ts t)); [apply same_handle_errors|apply same_refl]. }
  assert (S03 : same s s3) by (eapply same_trans; [eassumption|]; eapply same_trans; eassumption).
  destruct (in_set cfg ts t); [now apply FR_same|].
  eapply FR_same_l; [exact S03|].
  eapply FR_trans; [apply FR_trivia|].
  eapply FR_node. eapply FR_trans; [apply FR_bump|apply FR_skip_until].
Qed.

(* ---- bookmarks, state level *)
Lemma FR_restore_only : forall sb s2,
  FR sb s2 -> FR sb (on_core (c_restore (bookmark_of (co sb))) s2).
Proof.
  intros sb s2 F. constructor; sc.
  - apply (fr_mono _ _ F).
  - apply (fr_opt _ _ F).
  - apply (fr_not _ _ F).
  - intros H. apply FRc_restore. apply (fr_core _ _ F). exact H.
Qed.

Lemma FR_bookmark_keep : forall s s2,
  FR (on_core c_bookmark s) s2 -> FR s (on_core (c_remove_bookmark (bookmark_of (co s))) s2).
Proof.
  intros s s2 F. constructor; sc.
  - apply (fr_mono _ _ F).
  - apply (fr_opt _ _ F).
  - apply (fr_not _ _ F).
  - intros H. apply FRc_remove_bookmark. apply (fr_core _ _ F). exact H.
Qed.

Lemma FR_opt_wrap : forall s0 s1, FR (inc_opt s0) s1 -> FR s0 (dec_opt s1).
Proof.
  intros s0 s1 F. pose proof (fr_opt _ _ F) as O. unfold inc_opt in O. sc.
  unfold dec_opt. rewrite O. constructor; sc.
  - apply (fr_mono _ _ F).
  - reflexivity.
  - apply (fr_not _ _ F).
  - intros H. apply (fr_core _ _ F). exact H.
Qed.

Lemma FR_not_wrap : forall s0 s1, FR (inc_not s0) s1 -> FR s0 (dec_not s1).
Proof.
  intros s0 s1 F. pose proof (fr_not _ _ F) as O. unfold inc_not in O. sc.
  unfold dec_not. rewrite O. constructor; sc.
  - apply (fr_mono _ _ F).
  - apply (fr_opt _ _ F).
  - reflexivity.
  - intros H. apply (fr_core _ _ F). exact H.
Qed.

(* ------------------------------------------------------------------ the interpreter *)
Section RunProofs.
Variable nt : Type.
Variable g : nt -> prog nt.

Lemma FR_seq : forall (r : prog nt -> st -> st), (forall p s, FR s (r p s)) ->
  forall ps s, FR s (fold_left (fun s p => r p s) ps s).
Proof.
  intros r H. induction ps as [|p ps IH]; intros s; cbn [fold_left]; [apply FR_refl|].
  eapply FR_trans; [apply H|apply IH].
Qed.

Lemma FR_alt_step : forall (r : prog nt -> st -> st) sb, (forall p s, FR s (r p s)) ->
  forall acc p, FR sb (fst acc) ->
  FR sb (fst (alt_step cfg toks nt r (bookmark_of (co sb)) acc p)).
Proof.
  intros r sb H [s m] p F. cbn [fst] in F. unfold alt_step.
  destruct (failed s); [exact F|]. destruct m; [exact F|].
  set (s1 := dec_opt (r p (inc_opt (trivia cfg toks s)))).
  assert (F1 : FR s s1).
  { eapply FR_trans; [apply FR_trivia|]. apply FR_opt_wrap. apply H. }
  destruct (state s1); cbn [fst].
  - eapply FR_trans; eassumption.
  - apply FR_restore_only. eapply FR_same_r; [|apply same_set_state_g]. eapply FR_trans; eassumption.
  - eapply FR_trans; eassumption.
Qed.

Lemma FR_alt_fold : forall (r : prog nt -> st -> st) sb, (forall p s, FR s (r p s)) ->
  forall alts acc, FR sb (fst acc) ->
  FR sb (fst (fold_left (alt_step cfg toks nt r (bookmark_of (co sb))) alts acc)).
Proof.
  intros r sb H. induction alts as [|p alts IH]; intros acc F; cbn [fold_left]; [exact F|].
  apply IH. now apply FR_alt_step.
Qed.

Theorem run_FR : forall f p s, FR s (run cfg toks src_len nt g f p s).
Proof.
  induction f as [|f IH]; intros p s; cbn [run].
  - apply FR_same, same_set_stuck.
  - destruct p.
    + (* PExpect *) apply FR_expect.
    + (* PSeq *) apply FR_seq. intros; apply IH.
    + (* PNode *) eapply FR_node. apply IH.
    + (* POpt *)
      destruct (failed s); [apply FR_refl|].
      set (sb := on_core c_bookmark s).
      set (s1 := dec_opt (run cfg toks src_len nt g f p (inc_opt (trivia cfg toks sb)))).
      assert (F1 : FR sb s1).
      { eapply FR_trans; [apply FR_trivia|]. apply FR_opt_wrap, IH. }
      apply FR_bookmark_keep. fold sb.
      destruct (state s1); try exact F1.
      change (bookmark_of (co s)) with (bookmark_of (co sb)).
      apply FR_restore_only. eapply FR_same_r; [exact F1|apply same_set_state_g].
    + (* PNot *)
      destruct (failed s); [apply FR_refl|].
      set (sb := on_core c_bookmark s).
      set (s1 := dec_not (run cfg toks src_len nt g f p (inc_not (trivia cfg toks sb)))).
      assert (F1 : FR sb s1).
      { eapply FR_trans; [apply FR_trivia|]. apply FR_not_wrap, IH. }
      apply FR_bookmark_keep. fold sb.
      change (bookmark_of (co s)) with (bookmark_of (co sb)).
      apply FR_restore_only. eapply FR_same_r; [exact F1|apply same_set_state].
    + (* PIfNext *)
      destruct (failed s); [apply FR_refl|].
      destruct (c_peek_non_trivia cfg toks (co s)); [|apply FR_refl].
      destruct (in_set cfg ts t).
      * eapply FR_trans; [apply FR_trivia|apply IH].
      * apply FR_same, same_add_exp.
    + (* PNOrMore *)
      destruct (failed s); [apply FR_refl|].
      destruct n.
      * apply IH.
      * set (s1 := run cfg toks src_len nt g f p (trivia cfg toks s)).
        assert (F1 : FR s s1) by (eapply FR_trans; [apply FR_trivia|apply IH]).
        destruct (failed s1); [exact F1|]. eapply FR_trans; [exact F1|apply IH].
    + (* PLoop *)
      set (sb := on_core c_bookmark s).
      set (s1 := dec_opt (run cfg toks src_len nt g f p (inc_opt (trivia cfg toks sb)))).
      assert (F1 : FR sb s1).
      { eapply FR_trans; [apply FR_trivia|]. apply FR_opt_wrap, IH. }
      destruct (failed s1).
      * apply FR_bookmark_keep. fold sb.
        change (bookmark_of (co s)) with (bookmark_of (co sb)).
        apply FR_restore_only. eapply FR_same_r; [exact F1|apply same_set_state_g].
      * eapply FR_trans; [|apply IH]. apply FR_bookmark_keep. exact F1.
    + (* PThen *)
      destruct (failed s); [apply FR_refl|]. eapply FR_trans; [apply FR_trivia|apply IH].
    + (* PAlt *)
      set (sb := on_core c_bookmark s).
      change (bookmark_of (co s)) with (bookmark_of (co sb)).
      pose proof (FR_alt_fold (run cfg toks src_len nt g f) sb (IH) alts (sb, false) (FR_refl sb)) as F.
      destruct (fold_left (alt_step cfg toks nt (run cfg toks src_len nt g f) (bookmark_of (co sb))) alts (sb, false)) as [s1 m].
      cbn [fst] in F. eapply FR_same_r; [|apply same_set_state_g].
      change (bookmark_of (co sb)) with (bookmark_of (co s)). apply FR_bookmark_keep. exact F.
    + (* PCached *)
      destruct (failed s); [apply FR_refl|].
      destruct (existsb _ (cache s)); [apply FR_same, same_set_state_g|].
      set (s1 := run cfg toks src_len nt g f p s).
      assert (F1 : FR s s1) by apply IH.
      destruct (state s1); try exact F1. eapply FR_same_r; [exact F1|apply same_set_cache].
    + (* PRecover *) apply FR_recover.
    + (* PCall *) apply IH.
    + apply FR_refl.
    + apply FR_refl.
Qed.

(* ---- top_level_item and the rounds of Iterator::next *)
Variable dispatch : list (N * nt).
Variable stop_ids : list N.

Lemma FR_top_level_item : forall f s,
  FR s (top_level_item cfg toks src_len nt g dispatch stop_ids f s).
Proof.
  intros f s. unfold top_level_item.
  destruct (nth_error toks (cur (co s))) as [t|]; [|apply FR_same, same_set_state_g].
  destruct (dispatch_of nt dispatch t); [apply run_FR|].
  eapply FR_same_r; [|apply same_set_state_g].
  eapply FR_trans with (b := on_core (c_push (EError (t_lo t) (t_hi t))) s); [apply FR_on_core, FRc_push_error|].
  (* output.begin(ERROR) .. output.end(): FR_node needs p_begin/p_end; redo it directly *)
  set (s1 := on_core (c_push (EError (t_lo t) (t_hi t))) s).
  set (sb := on_core (c_begin (k_error cfg)) (note_hazard toks s1)).
  set (s2 := skip_until cfg toks (fun t0 => existsb (N.eqb (t_id t0)) stop_ids) (length toks) sb).
  assert (F2 : FR sb s2) by apply FR_skip_until.
  constructor; sc.
  - intros H.
    assert (Hb : hazard sb = true) by (unfold sb, note_hazard; sc; rewrite H; reflexivity).
    pose proof (fr_mono _ _ F2 Hb) as H2. unfold note_hazard. sc. now rewrite H2.
  - unfold note_hazard. sc. rewrite (fr_opt _ _ F2). reflexivity.
  - unfold note_hazard. sc. rewrite (fr_not _ _ F2). reflexivity.
  - intros Hf.
    assert (H2 : Hz s2 /\ (strict = true -> hazard_now toks (co s2) = false)).
    { split; intros Hs; specialize (Hf Hs); sc; unfold note_hazard in Hf; sc; apply orb_false_iff in Hf; tauto. }
    destruct H2 as [H2 H2n].
    pose proof (fr_core _ _ F2 H2) as Fc.
    assert (H1n : strict = true -> hazard_now toks (co s1) = false).
    { intros Hs. pose proof (Hz_back _ _ F2 H2 Hs) as Hh. unfold sb, note_hazard in Hh. sc.
      apply orb_false_iff in Hh. tauto. }
    unfold sb in Fc. sc. eapply FRc_end; [exact Fc|].
    intros Hs. specialize (H1n Hs). specialize (H2n Hs). unfold hazard_now in *.
    apply negb_false_iff in H1n, H2n. apply N.eqb_eq in H1n, H2n. split; assumption.
Qed.

(* the deque is empty, nothing is open, no bookmark is active, nothing panicked *)
Definition Inv0 (s : st) : Prop :=
  evs (co s) = [] /\ opens (co s) = [] /\ nbm (co s) = 0 /\ panic (co s) = false.

Lemma items_sound : forall n f s out,
  let '(s', out', _) := items cfg toks src_len nt g dispatch stop_ids n f s out in
  (hazard s = true -> hazard s' = true) /\
  ((Hz s -> Inv0 s /\ CHK out 0 (cur (co s))) -> Hz s' -> Inv0 s' /\ CHK out' 0 (cur (co s'))).
Proof.
  induction n as [|n IH]; intros f s out; cbn [items].
  - split; [auto|]. intros H Hf. apply H. exact Hf.
  - destruct (is_oof s); [split; auto|].
    destruct (Nat.leb (length toks) (cur (co s))); [split; auto|].
    set (s4 := set_state_g OK (set_cache [] (flush_errors
                 (top_level_item cfg toks src_len nt g dispatch stop_ids f (trivia cfg toks s))))).
    assert (F : FR s s4).
    { unfold s4. eapply FR_same_r; [|apply same_set_state_g]. eapply FR_same_r; [|apply same_set_cache].
      eapply FR_trans; [apply FR_trivia|]. eapply FR_trans; [apply FR_top_level_item|apply FR_flush_errors]. }
    assert (P5 : (Hz s -> Inv0 s /\ CHK out 0 (cur (co s))) -> Hz (pop_all s4) ->
                 Inv0 (pop_all s4) /\ CHK (out ++ evs (co s4)) 0 (cur (co (pop_all s4)))).
    { intros Hp H5. assert (H4 : Hz s4) by exact H5.
      destruct (Hp (Hz_back _ _ F H4)) as [(I1 & I2 & I3 & I4) C0].
      destruct (fr_core _ _ F H4) as [[d [E C]] O Nb T P].
      rewrite I1 in E. cbn [app] in E.
      unfold pop_all, Inv0. sc. rewrite O, I2, Nb, I3, P, I4. cbn.
      repeat split. rewrite E. eapply CHK_app; eassumption. }
    assert (M5 : hazard s = true -> hazard (pop_all s4) = true) by (intros H; apply (fr_mono _ _ F H)).
    destruct (evs (co s4)) as [|e es] eqn:Ee.
    + split; [exact M5|]. intros Hp H5. destruct (P5 Hp H5) as [I C]. split; [exact I|].
      rewrite app_nil_r in C. exact C.
    + specialize (IH f (pop_all s4) (out ++ e :: es)).
      destruct (items cfg toks src_len nt g dispatch stop_ids n f (pop_all s4) (out ++ e :: es)) as [[s' out'] ex].
      destruct IH as [M IH]. split; [intros H; apply M, M5, H|].
      intros Hp Hf. apply IH; [|exact Hf]. intros H5. apply P5; assumption.
Qed.

Lemma items_exit : forall n f s out,
  let '(s', _, ex) := items cfg toks src_len nt g dispatch stop_ids n f s out in
  (ex = Finished -> length toks <= cur (co s') /\ is_oof s' = false) /\
  (ex = FuelExhausted -> is_oof s' = true) /\
  (ex = Stuck -> stuck s' = true).
Proof.
  induction n as [|n IH]; intros f s out; cbn [items].
  - repeat split; intros; try discriminate.
  - destruct (is_oof s) eqn:Eo; [repeat split; intros; try discriminate; assumption|].
    destruct (Nat.leb (length toks) (cur (co s))) eqn:El.
    { repeat split; intros; try discriminate; try assumption. now apply Nat.leb_le. }
    match goal with |- context [match evs (co ?x) with _ => _ end] => destruct (evs (co x)) end.
    + repeat split; intros; discriminate.
    + apply IH.
Qed.

End RunProofs.

(* ---- what a successful check says, in plain terms *)
Fixpoint tok_events (es : list event) : list (N * N * N) :=
  match es with
  | [] => []
  | EToken k lo hi :: r => (k, lo, hi) :: tok_events r
  | _ :: r => tok_events r
  end.

Definition ev_is (e : N * N * N) (t : tok) : Prop :=
  let '(k, lo, hi) := e in tok_matches cfg k lo hi t = true.

Lemma firstn_S_nth : forall A (l : list A) n x, nth_error l n = Some x -> firstn (S n) l = firstn n l ++ [x].
Proof.
  induction l; intros n x H; destruct n; cbn in *; try discriminate.
  - now inversion H.
  - f_equal. now apply IHl.
Qed.

Lemma chk_tokens : forall es stk c stk' c',
  chk es stk c = Some (stk', c') ->
  exists l, firstn c' toks = firstn c toks ++ l /\ Forall2 ev_is (tok_events es) l.
Proof.
  induction es as [|e es IH]; intros stk c stk' c' H; cbn [Machine.chk tok_events] in *.
  - inversion H; subst. exists []. split; [now rewrite app_nil_r|constructor].
  - destruct e.
    + destruct (strict && negb (lo =? pos_at toks c)%N); [discriminate|]. eapply IH; eauto.
    + destruct stk as [|[[k' lo'] hi'] stk0]; [discriminate|].
      destruct ((k =? k')%N && (lo =? lo')%N && (hi =? hi')%N && (negb strict || (hi =? pos_at toks c)%N)); [|discriminate].
      eapply IH; eauto.
    + destruct (nth_error toks c) as [t|] eqn:En; [|discriminate].
      destruct (tok_matches cfg k lo hi t) eqn:Em; [|discriminate].
      destruct (IH _ _ _ _ H) as [l [E F]].
      exists (t :: l). split.
      * rewrite E, (firstn_S_nth _ _ _ _ En), <- app_assoc. reflexivity.
      * constructor; [exact Em|exact F].
    + eapply IH; eauto.
Qed.

Lemma chk_cursor : forall es stk c stk' c',
  chk es stk c = Some (stk', c') -> c <= length toks -> c <= c' <= length toks.
Proof.
  induction es as [|e es IH]; intros stk c stk' c' H L; cbn [Machine.chk] in *.
  - inversion H; subst. lia.
  - destruct e.
    + destruct (strict && negb (lo =? pos_at toks c)%N); [discriminate|]. eapply IH; eauto.
    + destruct stk as [|[[k' lo'] hi'] stk0]; [discriminate|].
      destruct ((k =? k')%N && (lo =? lo')%N && (hi =? hi')%N && (negb strict || (hi =? pos_at toks c)%N)); [|discriminate].
      eapply IH; eauto.
    + destruct (nth_error toks c) as [t|] eqn:En; [|discriminate].
      destruct (tok_matches cfg k lo hi t); [|discriminate].
      assert (c < length toks) by (apply nth_error_Some; congruence).
      apply IH in H; lia.
    + eapply IH; eauto.
Qed.

(* the cursor never moves backwards across a frame *)
Lemma FR_cur_le : forall s s', FR s s' -> Hz s' -> cur (co s) <= length toks ->
  cur (co s) <= cur (co s') <= length toks.
Proof.
  intros s s' F H L. destruct (fr_core _ _ F H) as [[d [_ C]] _ _ _ _].
  apply (chk_cursor d [] _ _ _ (C [])). exact L.
Qed.

End Proofs.

(* ================================================================== main theorems *)

(* For ALL grammars built from the combinators (g, the dispatch table and the stop set are
   arbitrary), all token lists, all parser fuel values and all recursion bounds:
   the events between Begin/End SOURCE_FILE pass the structural check from cursor 0 to the final
   cursor with an empty stack (exact tokens in order; properly nested Begin/End with equal
   kind and span); the deque is empty, no Begin is open, no bookmark is active and no assert of
   the engine fired.  With strict = true (node spans are token hulls) the same holds whenever
   the run recorded no span from a reset last_token_span. *)
Theorem parse_sound : forall cfg toks src_len strict nt (g : nt -> prog nt) dispatch stop_ids n f fuel0,
  let r := parse cfg toks src_len nt g dispatch stop_ids n f fuel0 in
  (strict = true -> hazard (r_final r) = false) ->
  (forall stk, chk cfg toks strict (r_body r) stk 0 = Some (stk, cur (co (r_final r)))) /\
  evs (co (r_final r)) = [] /\ opens (co (r_final r)) = [] /\ nbm (co (r_final r)) = 0 /\
  panic (co (r_final r)) = false.
Proof.
  intros cfg toks src_len strict nt g dispatch stop_ids n f fuel0. unfold parse.
  pose proof (items_sound cfg toks src_len strict nt g dispatch stop_ids n f (init_state fuel0) []) as H.
  destruct (items cfg toks src_len nt g dispatch stop_ids n f (init_state fuel0) []) as [[s out] ex].
  cbn [r_body r_final]. destruct H as [_ H]. intros Hz'.
  destruct H as [(I1 & I2 & I3 & I4) C]; [|exact Hz'|].
  - intros _. split; [repeat split|apply CHK_nil].
  - split; [apply C|]. tauto.
Qed.

(* ... in particular, unconditionally: *)
Theorem lossless_balanced : forall cfg toks src_len nt (g : nt -> prog nt) dispatch stop_ids n f fuel0,
  let r := parse cfg toks src_len nt g dispatch stop_ids n f fuel0 in
  chk cfg toks false (r_body r) [] 0 = Some ([], cur (co (r_final r))) /\
  Forall2 (ev_is cfg) (tok_events (r_body r)) (firstn (cur (co (r_final r))) toks) /\
  cur (co (r_final r)) <= length toks /\
  panic (co (r_final r)) = false.
Proof.
  intros. destruct (parse_sound cfg toks src_len false nt g dispatch stop_ids n f fuel0) as (C & _ & _ & _ & P);
    [discriminate|]. fold r in C, P. specialize (C []).
  split; [exact C|]. split; [|split; [|exact P]].
  - destruct (chk_tokens _ _ _ _ _ _ _ _ C) as [l [E F]]. cbn [firstn app] in E. now rewrite E.
  - apply (chk_cursor _ _ _ _ _ _ _ _ C). lia.
Qed.

(* node spans: when no Begin/End span was computed from a reset last_token_span, every node's
   span runs from the end of the token before its Begin to the end of its last token *)
Theorem node_spans_exact : forall cfg toks src_len nt (g : nt -> prog nt) dispatch stop_ids n f fuel0,
  let r := parse cfg toks src_len nt g dispatch stop_ids n f fuel0 in
  hazard (r_final r) = false ->
  chk cfg toks true (r_body r) [] 0 = Some ([], cur (co (r_final r))).
Proof.
  intros. apply (parse_sound cfg toks src_len true nt g dispatch stop_ids n f fuel0). intros _. exact H.
Qed.

(* completeness: unless the parser ran out of fuel (or a round yielded nothing, or the model's
   round bound was hit), every token is consumed, hence emitted *)
Theorem parse_complete : forall cfg toks src_len nt (g : nt -> prog nt) dispatch stop_ids n f fuel0,
  let r := parse cfg toks src_len nt g dispatch stop_ids n f fuel0 in
  r_exit r = Finished ->
  cur (co (r_final r)) = length toks /\
  Forall2 (ev_is cfg) (tok_events (r_body r)) toks.
Proof.
  intros cfg toks src_len nt g dispatch stop_ids n f fuel0 r Hx.
  destruct (lossless_balanced cfg toks src_len nt g dispatch stop_ids n f fuel0) as (_ & F & L & _).
  fold r in F, L.
  assert (G : length toks <= cur (co (r_final r))).
  { unfold r, parse in *.
    pose proof (items_exit cfg toks src_len nt g dispatch stop_ids n f (init_state fuel0) []) as E.
    destruct (items cfg toks src_len nt g dispatch stop_ids n f (init_state fuel0) []) as [[s out] ex].
    cbn [r_exit r_final] in *. destruct E as [E _]. apply E. exact Hx. }
  assert (cur (co (r_final r)) = length toks) by lia. split; [assumption|].
  rewrite H, firstn_all in F. exact F.
Qed.

(* out of fuel: the stream stops; what was emitted is still exactly a prefix of the tokens *)
Theorem out_of_fuel_truncates : forall cfg toks src_len nt (g : nt -> prog nt) dispatch stop_ids n f fuel0,
  let r := parse cfg toks src_len nt g dispatch stop_ids n f fuel0 in
  r_exit r = FuelExhausted ->
  state (r_final r) = OutOfFuel /\
  Forall2 (ev_is cfg) (tok_events (r_body r)) (firstn (cur (co (r_final r))) toks).
Proof.
  intros cfg toks src_len nt g dispatch stop_ids n f fuel0 r Hx.
  destruct (lossless_balanced cfg toks src_len nt g dispatch stop_ids n f fuel0) as (_ & F & _ & _).
  split; [|exact F].
  unfold r, parse in *.
  pose proof (items_exit cfg toks src_len nt g dispatch stop_ids n f (init_state fuel0) []) as E.
  destruct (items cfg toks src_len nt g dispatch stop_ids n f (init_state fuel0) []) as [[s out] ex].
  cbn [r_exit r_final] in *. destruct E as (_ & E & _). specialize (E Hx).
  unfold is_oof in E. destruct (state s); try discriminate. reflexivity.
Qed.

(* the complete stream, Begin/End SOURCE_FILE included: when the rounds finished and the token
   list tiles the source, the whole stream passes the check (strict: if no hazard) and the
   SOURCE_FILE node spans the whole source *)
Lemma tiles_end : forall src_len l p, tiles src_len p l = true -> fold_left (fun _ t => t_hi t) l p = src_len.
Proof.
  induction l as [|t l IH]; intros p H; cbn [tiles fold_left] in *.
  - now apply N.eqb_eq in H.
  - apply andb_true_iff in H. destruct H as [_ H]. now apply IH.
Qed.

Lemma pos_at_end : forall toks, pos_at toks (length toks) = fold_left (fun _ t => t_hi t) toks 0%N.
Proof.
  intros toks. destruct toks as [|x l] using rev_ind; [reflexivity|].
  rewrite app_length, Nat.add_1_r. cbn [pos_at length]. rewrite nth_error_app_mid.
  rewrite fold_left_app. reflexivity.
Qed.

Theorem full_stream_sound : forall cfg toks src_len strict nt (g : nt -> prog nt) dispatch stop_ids n f fuel0,
  let r := parse cfg toks src_len nt g dispatch stop_ids n f fuel0 in
  r_exit r = Finished -> tiles src_len 0 toks = true ->
  (strict = true -> hazard (r_final r) = false) ->
  chk cfg toks strict (full_events cfg src_len r) [] 0 = Some ([], length toks).
Proof.
  intros cfg toks src_len strict nt g dispatch stop_ids n f fuel0 r Hx Ht Hz'.
  destruct (parse_sound cfg toks src_len strict nt g dispatch stop_ids n f fuel0 Hz') as (C & _).
  destruct (parse_complete cfg toks src_len nt g dispatch stop_ids n f fuel0 Hx) as [Hc _].
  fold r in C, Hc. unfold full_events. cbn [Machine.chk pos_at].
  rewrite N.eqb_refl. cbn [negb]. rewrite andb_false_r.
  rewrite chk_app, C. cbn [Machine.chk]. rewrite !N.eqb_refl. cbn [andb].
  rewrite Hc, pos_at_end, (tiles_end _ _ _ Ht), N.eqb_refl, orb_true_r. reflexivity.
Qed.

(* top_level_progress: when the token at the cursor starts no top-level item, the error branch
   of top_level_item consumes at least that token (so the rounds of next() cannot loop on it) *)
Lemma skipn_nth_cons : forall A (l : list A) n x, nth_error l n = Some x -> skipn n l = x :: skipn (S n) l.
Proof.
  induction l; intros n x H; destruct n; cbn in *; try discriminate.
  - now inversion H.
  - now apply IHl.
Qed.

Lemma cur_c_end : forall c, cur (c_end c) = cur c.
Proof.
  intros c. unfold c_end. destruct (last_opt (opens c)); [|reflexivity].
  destruct (nth_error (evs c) n) as [[| | |]|]; reflexivity.
Qed.

Theorem top_level_progress : forall cfg toks src_len nt (g : nt -> prog nt) dispatch stop_ids f s t,
  nth_error toks (cur (co s)) = Some t ->
  dispatch_of nt dispatch t = None ->
  is_trivia cfg (t_id t) = false ->
  existsb (N.eqb (t_id t)) stop_ids = false ->
  cur (co s) < cur (co (top_level_item cfg toks src_len nt g dispatch stop_ids f s)).
Proof.
  intros cfg toks src_len nt g dispatch stop_ids f s t Hn Hd Ht Hs.
  unfold top_level_item. rewrite Hn, Hd.
  set (s1 := on_core (c_push (EError (t_lo t) (t_hi t))) s).
  set (sb := on_core (c_begin (k_error cfg)) (note_hazard toks s1)).
  assert (Cb : cur (co sb) = cur (co s)) by reflexivity.
  assert (Llt : cur (co s) < length toks) by (apply nth_error_Some; congruence).
  destruct (length toks) as [|n] eqn:El; [lia|].
  cbn [skip_until].
  assert (Pk : c_peek_non_trivia cfg toks (co sb) = Some t).
  { unfold c_peek_non_trivia. rewrite Cb, (skipn_nth_cons _ _ _ _ Hn). cbn [find]. now rewrite Ht. }
  rewrite Pk, Hs.
  set (s2 := on_core (c_bump cfg toks) (trivia cfg toks sb)).
  assert (C2 : cur (co s2) = S (cur (co s))).
  { unfold s2. assert (Tq : cur (co (trivia cfg toks sb)) = cur (co s)).
    { unfold trivia. destruct (failed sb); [exact Cb|]. cbn [on_core set_co co].
      unfold c_trivia. rewrite Cb, (skipn_nth_cons _ _ _ _ Hn). cbn [c_bump_trivia]. rewrite Ht. exact Cb. }
    cbn [on_core set_co co]. unfold c_bump. rewrite Tq, Hn.
    unfold c_bump_tok, c_push_token, c_push. sc. now rewrite Tq. }
  set (s3 := skip_until cfg toks (fun t0 => existsb (N.eqb (t_id t0)) stop_ids) n s2).
  assert (F : FR cfg toks false s2 s3) by apply FR_skip_until.
  assert (L2 : cur (co s2) <= length toks) by (rewrite C2, El; lia).
  assert (Hz3 : Hz false s3) by (intros H; discriminate).
  destruct (FR_cur_le cfg toks false _ _ F Hz3 L2) as [M _].
  assert (E : cur (co (set_state_g Failure (on_core c_end (note_hazard toks s3)))) = cur (co s3)).
  { unfold set_state_g. destruct (is_oof _); cbn [on_core set_co co set_state note_hazard set_hazard]; apply cur_c_end. }
  rewrite E. lia.
Qed.
