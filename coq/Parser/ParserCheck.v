(* Correspondence (K) and specification (S) cases for C10.

   The harness writes, per source text: the raw event stream of ParserImpl (Parser used as
   an iterator), the public CSTStream events (after cst::error_merger), the tokens of the
   CST with the positions the implementation reports, and the spans found in the AST.
   [check_case] re-runs the MODEL parser with the GENERATED grammar on the token list and
   compares event for event; [spec_case] evaluates the property on the implementation's own
   output only. *)
From Coq Require Import List NArith Bool Arith.
From YV Require Import Parser.Machine Parser.Position Gen.Grammar.
Import ListNotations.
Local Open Scope N_scope.

(* short constructor names keep the case files small *)
Notation EB := EBegin (only parsing).
Notation EE := EEnd (only parsing).
Notation ET := EToken (only parsing).
Notation ER := EError (only parsing).

Definition event_eqb (a b : event) : bool :=
  match a, b with
  | EBegin k l h, EBegin k' l' h' => (k =? k') && (l =? l') && (h =? h')
  | EEnd k l h, EEnd k' l' h' => (k =? k') && (l =? l') && (h =? h')
  | EToken k l h, EToken k' l' h' => (k =? k') && (l =? l') && (h =? h')
  | EError l h, EError l' h' => (l =? l') && (h =? h')
  | _, _ => false
  end.
Fixpoint events_eqb (a b : list event) : bool :=
  match a, b with
  | [], [] => true
  | x :: a', y :: b' => event_eqb x y && events_eqb a' b'
  | _, _ => false
  end.

(* ---- the token list behind an event stream.  A Token event's kind is either
   From<&Token>(token) (bump) or a member of a TokenSet with token_id() = the token's id
   (expect); both determine the id (gen_grammar.py checks that the two tables agree). *)
Definition tids : list N := map N.of_nat (seq 0 (N.to_nat num_tids)).
Definition tid_of_kind (k : N) : N :=
  match kind_tid k with
  | Some t => t
  | None => match find (fun t => tok_kind t =? k) tids with Some t => t | None => T.UNKNOWN end
  end.
Fixpoint toks_of_events (es : list event) : list tok :=
  match es with
  | [] => []
  | EToken k lo hi :: r => mkTok (tid_of_kind k) lo hi :: toks_of_events r
  | _ :: r => toks_of_events r
  end.

(* ---- cst::error_merger::ErrorMerger as a list function (one buffer, absolute indices) *)
Definition ev_span (e : event) : N * N :=
  match e with EBegin _ l h | EEnd _ l h | EToken _ l h | EError l h => (l, h) end.
Fixpoint merge_errors (es : list event) (out : list event) (opens : list nat) : list event :=
  match es with
  | [] => out
  | EBegin k lo hi :: r =>
      if k =? K.ERROR then merge_errors r (out ++ [EBegin k lo hi]) (length out :: opens)
      else merge_errors r (out ++ [EBegin k lo hi]) opens
  | EEnd k lo hi :: r =>
      if k =? K.ERROR then
        match opens with
        | [] => out ++ [EError 4294967295 4294967295]     (* open_begins.last().unwrap() *)
        | top :: opens' =>
          let '(blo, bhi) := match nth_error out top with Some e => ev_span e | None => (0, 0) end in
          match r with
          | EBegin k2 lo2 hi2 :: r' =>
              if k2 =? K.ERROR
              then merge_errors r' (upd_nth top (EBegin K.ERROR blo hi2) out) opens
              else merge_errors r (out ++ [EEnd K.ERROR blo bhi]) opens'
          | _ => merge_errors r (out ++ [EEnd K.ERROR blo bhi]) opens'
          end
        end
      else merge_errors r (out ++ [EEnd k lo hi]) opens
  | e :: r => merge_errors r (out ++ [e]) opens
  end.

(* ---- observations about one CST token *)
Record tobs := mkTObs {
  o_class : N;                 (* 0 NEWLINE, 1 COMMENT, 2 other *)
  o_text : list N;             (* scalar values of Token::text() *)
  o_lo : N; o_hi : N;          (* Token::span() *)
  o_sp8 : N * N; o_sp16 : N * N; o_sp32 : N * N;   (* start_pos::<Utf8/16/32> (line, column) *)
  o_ep8 : N * N; o_ep16 : N * N; o_ep32 : N * N;   (* end_pos *)
  o_at_off : option nat;       (* index of token_at_offset(span.start) *)
  o_at8 : option nat; o_at16 : option nat; o_at32 : option nat   (* token_at_position(start_pos) *)
}.

(* a node of the AST: parent (itself for a top-level node), whether it has a span field of its own
   (otherwise lo..hi is the hull of its children), the span, whether it lies on character boundaries,
   whether the text at the span is the identifier / literal the node holds, the previous sibling, and
   whether the node has to lie inside its parent's own span *)
Record anode := mkAN {
  an_parent : nat; an_own : bool; an_lo : N; an_hi : N; an_bnd : bool; an_text : bool;
  an_prev : option nat; an_cover : bool }.

Record case := mkCase {
  c_model : bool;                    (* false for inputs of thousands of tokens: the model parser is not
                                        re-run (too slow under vm_compute); K then evaluates the CONCLUSIONS
                                        of the theorems on the real raw stream instead (strict check) *)
  c_len : N;                         (* source length in bytes *)
  c_raw : option (list event);       (* Parser::new(src) iterated; None = it panicked *)
  c_cst : option (list event);       (* CSTStream::from(Parser::new(src)); None = it panicked *)
  c_texts_ok : bool;                 (* the token texts (source[span]) concatenate to the source *)
  c_root_text_ok : bool;             (* CST::root().text() == source (true when no CST: invalid UTF-8) *)
  c_toks : option (list tobs);       (* tokens of the CST in order; None = try_into_cst Err (invalid UTF-8 token) *)
  c_ast : option (list (N * N));     (* spans found in AST::from(Parser); None = it panicked *)
  c_ast_nodes : list anode;          (* every node of the AST (structs / enum variants of its Debug rendering), preorder *)
  c_valid_utf8 : bool;               (* the source is valid UTF-8 *)
  c_cst_built : bool;                (* Parser::try_into_cst returned Ok *)
  c_big : option (N * N * N * N * N)
    (* Some for the one source of megabytes that is parsed on every run (tens of thousands of one-line
       rules; its events are not written out): (bytes covered by the token spans, contiguous from 0;
       number of rules in the source; RULE_DECL nodes in the CST; rules in the AST; errors in the AST) *)
}.

Definition ptok_of (o : tobs) : ptok :=
  mkPTok (match o_class o with 0 => TNewline | 1 => TComment | _ => TOther end) (o_text o).

Definition pair_eqb (a b : N * N) : bool := (fst a =? fst b) && (snd a =? snd b).
Definition onat_eqb (a b : option nat) : bool :=
  match a, b with Some x, Some y => Nat.eqb x y | None, None => true | _, _ => false end.

Definition strip_outer (es : list event) : option (list event) :=
  match es with
  | EBegin k lo hi :: r =>
      match rev r with
      | EEnd k' lo' hi' :: m => if (k =? K.SOURCE_FILE) && (k' =? K.SOURCE_FILE) then Some (rev m) else None
      | _ => None
      end
  | _ => None
  end.

(* positions: the model applied to the observed token texts gives the observed answers *)
Definition positions_match (os : list tobs) : bool :=
  let l := map ptok_of os in
  wf_ptoks l &&        (* hypothesis of token_at_own_offset / token_at_own_position *)
  forallb (fun io =>
    let '(i, o) := io in
    pair_eqb (start_pos_at Utf8 l i) (o_sp8 o) && pair_eqb (start_pos_at Utf16 l i) (o_sp16 o) &&
    pair_eqb (start_pos_at Utf32 l i) (o_sp32 o) &&
    pair_eqb (end_pos Utf8 l i) (o_ep8 o) && pair_eqb (end_pos Utf16 l i) (o_ep16 o) &&
    pair_eqb (end_pos Utf32 l i) (o_ep32 o) &&
    (offset_at l i =? o_lo o) &&
    onat_eqb (token_at_offset l (o_lo o)) (o_at_off o) &&
    onat_eqb (token_at_position Utf8 l (o_sp8 o)) (o_at8 o) &&
    onat_eqb (token_at_position Utf16 l (o_sp16 o)) (o_at16 o) &&
    onat_eqb (token_at_position Utf32 l (o_sp32 o)) (o_at32 o))
  (combine (seq 0 (length os)) os).

Definition model_fuel (n : nat) : nat := 4096 + 96 * n.

(* K *)
Definition check_model (c : case) (raw : list event) : bool :=
    let toks := toks_of_events raw in
    let n := length toks in
    let r := yara_parse toks (c_len c) (S n) (model_fuel n) parser_fuel in
    let fin := r_final r in
    events_eqb (full_events yara_cfg (c_len c) r) raw &&
    negb (stuck fin) && negb (panic (co fin)) && negb (hazard fin) &&
    match r_exit r with Finished => true | _ => false end.

(* what lossless_balanced / node_spans_exact / full_stream_sound conclude, on the real stream *)
Definition check_conclusions (c : case) (raw : list event) : bool :=
    let toks := toks_of_events raw in
    match chk yara_cfg toks true raw [] 0 with
    | Some ([], n) => Nat.eqb n (length toks)
    | _ => false
    end &&
    match raw with EBegin k lo hi :: _ => (k =? K.SOURCE_FILE) && (lo =? 0) && (hi =? c_len c) | _ => false end.

(* the large valid source: every byte is in a token, every rule is in the CST and in the AST *)
Definition big_ok (len : N) (b : N * N * N * N * N) : bool :=
  let '(covered, rules, cst_rules, ast_rules, ast_errors) := b in
  (covered =? len) && (cst_rules =? rules) && (ast_rules =? rules) && (ast_errors =? 0).

Definition check_case (c : case) : bool :=
  match c_big c with Some _ => true | None =>
  match c_raw c with
  | None => false
  | Some raw =>
    (if c_model c then check_model c raw else check_conclusions c raw) &&
    match c_cst c with
    | Some cst => events_eqb (merge_errors raw [] []) cst
    | None => false
    end &&
    match c_toks c with Some os => positions_match os | None => true end
  end end.

(* every AST node: span ordered, inside the source, on character boundaries, holding the text the node
   says; covered by its parent's span; after its previous sibling *)
Definition ast_nodes_ok (len : N) (l : list anode) : bool :=
  let dflt := mkAN 0 false 0 0 true true None false in
  forallb (fun ia =>
    let '(i, a) := ia in
    (an_lo a <=? an_hi a) && (an_hi a <=? len) && an_bnd a && an_text a &&
    (let p := nth (an_parent a) l dflt in
     negb (an_cover a) || Nat.eqb (an_parent a) i || negb (an_own p) || ((an_lo p <=? an_lo a) && (an_hi a <=? an_hi p))) &&
    match an_prev a with
    | Some j => an_hi (nth j l dflt) <=? an_lo a
    | None => true
    end)
  (combine (seq 0 (length l)) l).

(* S: the property, on what the implementation returned *)
Definition spans_in_bounds (len : N) (es : list event) : bool :=
  forallb (fun e => let '(l, h) := ev_span e in (l <=? h) && (h <=? len)) es.

Definition spec_case (c : case) : bool :=
  match c_big c with Some b => big_ok (c_len c) b && c_texts_ok c && c_root_text_ok c | None =>
  match c_cst c with
  | None => false                                    (* the parser must not panic *)
  | Some es =>
    match strip_outer es with
    | None => false
    | Some body =>
      let toks := toks_of_events body in
      (* Begin/End properly nested with equal kind and span; Token events in order *)
      match chk yara_cfg toks false body [] 0 with
      | Some ([], n) => Nat.eqb n (length toks)
      | _ => false
      end &&
      (* token spans contiguous, ordered, non-empty, from 0 to the end of the source *)
      tiles (c_len c) 0 toks &&
      spans_in_bounds (c_len c) es
    end
  end &&
  c_texts_ok c && c_root_text_ok c &&
  match c_toks c with
  | None => true
  | Some os =>
    (* looking up a token's own offset / own position returns that token *)
    forallb (fun io => let '(i, o) := io in
       onat_eqb (o_at_off o) (Some i) && onat_eqb (o_at8 o) (Some i) &&
       onat_eqb (o_at16 o) (Some i) && onat_eqb (o_at32 o) (Some i))
      (combine (seq 0 (length os)) os)
  end &&
  match c_ast c with
  | None => false                                    (* building the AST must not panic *)
  | Some spans => forallb (fun sp => (fst sp <=? snd sp) && (snd sp <=? c_len c)) spans
  end &&
  ast_nodes_ok (c_len c) (c_ast_nodes c) &&
  (* a source that is valid UTF-8 has a CST (no token ends inside a character) *)
  (negb (c_valid_utf8 c) || c_cst_built c) end.
