(* Model of cst::Token::{start_pos,end_pos}, cst::Node::{token_at_position,token_at_offset}
   (parser/src/cst/mod.rs) over the token list of a CST, for the three column encodings.

   A token is its class (NEWLINE / COMMENT / anything else: the only distinction the
   position code makes, by SyntaxKind) and its text as a list of Unicode scalar values.
   Definitions only; proofs in PositionProofs.v. *)
From Coq Require Import List NArith Bool Arith.
Import ListNotations.
Local Open Scope N_scope.

Inductive tclass := TNewline | TComment | TOther.
Record ptok := mkPTok { p_class : tclass; p_text : list N }.

Inductive enc := Utf8 | Utf16 | Utf32.

(* code units of one scalar value: str::len / encode_utf16().count() / chars().count() *)
Definition char_len (e : enc) (c : N) : N :=
  match e with
  | Utf8 => if c <? 128 then 1 else if c <? 2048 then 2 else if c <? 65536 then 3 else 4
  | Utf16 => if c <? 65536 then 1 else 2
  | Utf32 => 1
  end.
Definition text_len (e : enc) (s : list N) : N := fold_right (fun c a => char_len e c + a) 0 s.
Definition tok_len (e : enc) (t : ptok) : N := text_len e (p_text t).

Definition NL : N := 10.
(* text.chars().filter(|c| *c == '\n').count() *)
Definition nl_count (s : list N) : N := fold_right (fun c a => if c =? NL then 1 + a else a) 0 s.
(* match text.rfind('\n') { Some(i) => &text[i+1..], None => text } *)
Definition last_line (s : list N) : list N :=
  rev (fold_left (fun acc c => if c =? NL then [] else c :: acc) s []).

(* Token::start_pos: walk the previous tokens from the nearest one backwards.
   [before] = the tokens before this one, nearest first. State = (line, column). *)
Definition start_step (e : enc) (acc : N * N) (t : ptok) : N * N :=
  let '(line, col) := acc in
  match p_class t with
  | TNewline => (line + 1, col)
  | TComment =>
      ((line + nl_count (p_text t)),
       if line =? 0 then col + text_len e (last_line (p_text t)) else col)
  | TOther => (line, if line =? 0 then col + tok_len e t else col)
  end.
Definition start_pos (e : enc) (before_rev : list ptok) : N * N :=
  fold_left (start_step e) before_rev (0, 0).
(* position of the i-th token of l *)
Definition start_pos_at (e : enc) (l : list ptok) (i : nat) : N * N :=
  start_pos e (rev (firstn i l)).

(* Token::end_pos *)
Definition end_pos (e : enc) (l : list ptok) (i : nat) : N * N :=
  let '(line, col) := start_pos_at e l i in
  match nth_error l i with
  | None => (line, col)
  | Some t =>
      if nl_count (p_text t) =? 0 then (line, col + tok_len e t)
      else (line + nl_count (p_text t), text_len e (last_line (p_text t)))
  end.

(* Node::token_at_position on the root: forward walk with (line, col); returns the index *)
Fixpoint tap (e : enc) (pl pc : N) (l : list ptok) (idx : nat) (line col : N) : option nat :=
  match l with
  | [] => None
  | t :: r =>
    let tl := tok_len e t in
    if (pl =? line) && (col <=? pc) && (pc <? col + tl) then Some idx else
    match p_class t with
    | TNewline =>
        let line := line + 1 in
        if pl <? line then None else tap e pl pc r (S idx) line 0
    | TComment =>
        let nls := nl_count (p_text t) in
        let line := line + nls in
        if pl <? line then Some idx else
        let col := (if 0 <? nls then 0 else col) + text_len e (last_line (p_text t)) in
        if (line =? pl) && (pc <? col) then Some idx else
        if pl <? line then None else tap e pl pc r (S idx) line col
    | TOther =>
        if pl <? line then None else tap e pl pc r (S idx) line (col + tl)
    end
  end.
Definition token_at_position (e : enc) (l : list ptok) (p : N * N) : option nat :=
  tap e (fst p) (snd p) l 0 0 0.

(* byte offset of the i-th token: tokens are laid out back to back from offset 0 *)
Definition offset_at (l : list ptok) (i : nat) : N :=
  fold_right (fun t a => tok_len Utf8 t + a) 0 (firstn i l).

(* Node::token_at_offset on the root: None outside [0, len); otherwise the token containing
   the offset, the right one at a boundary (rowan's right_biased) *)
Fixpoint tao (off : N) (l : list ptok) (idx : nat) (start : N) : option nat :=
  match l with
  | [] => None
  | t :: r =>
    let e := start + tok_len Utf8 t in
    if (start <=? off) && (off <? e) then Some idx else tao off r (S idx) e
  end.
Definition token_at_offset (l : list ptok) (off : N) : option nat := tao off l 0 0.

(* what the theorems need: no token has empty text *)
Definition wf_ptoks (l : list ptok) : bool :=
  forallb (fun t => match p_text t with [] => false | _ => true end) l.
