(* Proofs about Parser/Position.v: looking up a token's own offset, or its own start
   position in any of the three encodings, returns that token -- for every token list whose
   tokens have non-empty text. *)
From Coq Require Import List NArith Bool Arith Lia.
From YV Require Import Parser.Position.
Import ListNotations.
Local Open Scope N_scope.

Lemma char_len_pos : forall e c, 0 < char_len e c.
Proof.
  intros e c. unfold char_len. destruct e.
  - destruct (c <? 128); [lia|]. destruct (c <? 2048); [lia|]. destruct (c <? 65536); lia.
  - destruct (c <? 65536); lia.
  - lia.
Qed.

Lemma tok_len_pos : forall e t, p_text t <> [] -> 0 < tok_len e t.
Proof.
  intros e t H. unfold tok_len. destruct (p_text t) as [|c s]; [congruence|].
  cbn [text_len fold_right]. pose proof (char_len_pos e c). fold (text_len e s). lia.
Qed.

Lemma wf_cons : forall t l, wf_ptoks (t :: l) = true -> p_text t <> [] /\ wf_ptoks l = true.
Proof.
  intros t l H. unfold wf_ptoks in *. cbn [forallb] in H. apply andb_true_iff in H. destruct H as [H1 H2].
  split; [|exact H2]. destruct (p_text t); [discriminate|congruence].
Qed.

(* ------------------------------------------------------------------ offsets *)
Lemma tao_own : forall l i idx start, wf_ptoks l = true -> (i < length l)%nat ->
  tao (start + offset_at l i) l idx start = Some (idx + i)%nat.
Proof.
  induction l as [|t r IH]; intros i idx start W L; [cbn in L; lia|].
  apply wf_cons in W. destruct W as [Wt Wr].
  pose proof (tok_len_pos Utf8 t Wt) as P.
  destruct i as [|i]; cbn [tao].
  - unfold offset_at. cbn [firstn fold_right].
    replace ((start <=? start + 0) && (start + 0 <? start + tok_len Utf8 t)) with true.
    + f_equal. lia.
    + symmetry. apply andb_true_iff. split; [apply N.leb_le; lia|apply N.ltb_lt; lia].
  - unfold offset_at. cbn [firstn fold_right]. fold (offset_at r i).
    replace ((start <=? start + (tok_len Utf8 t + offset_at r i)) &&
             (start + (tok_len Utf8 t + offset_at r i) <? start + tok_len Utf8 t)) with false.
    + replace (start + (tok_len Utf8 t + offset_at r i)) with ((start + tok_len Utf8 t) + offset_at r i) by lia.
      rewrite IH; [f_equal; lia|exact Wr|cbn in L; lia].
    + symmetry. apply andb_false_iff. right. apply N.ltb_ge. lia.
Qed.

Theorem token_at_own_offset : forall l i, wf_ptoks l = true -> (i < length l)%nat ->
  token_at_offset l (offset_at l i) = Some i.
Proof.
  intros l i W L. unfold token_at_offset.
  replace (offset_at l i) with (0 + offset_at l i) by lia. rewrite tao_own; auto.
Qed.

(* ------------------------------------------------------------------ positions *)

(* the (line, column) bookkeeping of token_at_position, one token forward *)
Definition fwd (e : enc) (acc : N * N) (t : ptok) : N * N :=
  let '(line, col) := acc in
  match p_class t with
  | TNewline => (line + 1, 0)
  | TComment =>
      let nls := nl_count (p_text t) in
      (line + nls, (if 0 <? nls then 0 else col) + text_len e (last_line (p_text t)))
  | TOther => (line, col + tok_len e t)
  end.

Lemma fold_left_rev_right : forall e pre,
  start_pos e (rev pre) = fold_right (fun t acc => start_step e acc t) (0, 0) pre.
Proof. intros. unfold start_pos. rewrite <- fold_left_rev_right. now rewrite rev_involutive. Qed.

(* walking backwards from a token and walking forwards from the start agree *)
Lemma fwd_bwd : forall e rest l0 c0,
  fold_left (fwd e) rest (l0, c0) =
  let b := fold_right (fun t acc => start_step e acc t) (0, 0) rest in
  (l0 + fst b, if fst b =? 0 then c0 + snd b else snd b).
Proof.
  induction rest as [|t rest IH]; intros l0 c0.
  - cbn. f_equal; lia.
  - cbn [fold_left fold_right].
    destruct (fold_right (fun t acc => start_step e acc t) (0, 0) rest) as [bl bc] eqn:B.
    unfold fwd at 2. unfold start_step. cbn zeta.
    destruct (p_class t).
    + rewrite IH. cbv zeta. cbn [fst snd].
      replace (bl + 1 =? 0) with false by (symmetry; apply N.eqb_neq; lia).
      f_equal; [lia|]. destruct (bl =? 0); lia.
    + rewrite IH. cbv zeta. cbn [fst snd].
      destruct (bl =? 0) eqn:E0.
      * apply N.eqb_eq in E0. subst bl.
        destruct (0 <? nl_count (p_text t)) eqn:En.
        -- apply N.ltb_lt in En.
           replace (0 + nl_count (p_text t) =? 0) with false by (symmetry; apply N.eqb_neq; lia).
           f_equal; lia.
        -- apply N.ltb_ge in En. assert (nl_count (p_text t) = 0) by lia.
           rewrite H. cbn [N.add N.eqb]. f_equal; lia.
      * apply N.eqb_neq in E0.
        replace (bl + nl_count (p_text t) =? 0) with false by (symmetry; apply N.eqb_neq; lia).
        f_equal. lia.
    + rewrite IH. cbv zeta. cbn [fst snd]. f_equal. destruct (bl =? 0); lia.
Qed.

Lemma start_pos_fwd : forall e l i,
  start_pos_at e l i = fold_left (fwd e) (firstn i l) (0, 0).
Proof.
  intros. unfold start_pos_at. rewrite fold_left_rev_right, fwd_bwd.
  destruct (fold_right (fun t acc => start_step e acc t) (0, 0) (firstn i l)) as [bl bc].
  cbn [fst snd]. f_equal. destruct (bl =? 0); lia.
Qed.

(* lines never decrease; on the same line columns never decrease *)
Lemma fwd_mono : forall e xs l1 c1,
  let p := fold_left (fwd e) xs (l1, c1) in l1 <= fst p /\ (fst p = l1 -> c1 <= snd p).
Proof.
  induction xs as [|t xs IH]; intros l1 c1; cbn [fold_left].
  - cbn. split; lia.
  - set (s1 := fwd e (l1, c1) t).
    assert (S1 : l1 <= fst s1 /\ (fst s1 = l1 -> c1 <= snd s1)).
    { unfold s1, fwd. destruct (p_class t); cbn [fst snd].
      + split; [lia|intros; lia].
      + split; [lia|]. intros Hq. assert (H : nl_count (p_text t) = 0) by lia. rewrite H. cbn [N.ltb N.compare]. lia.
      + split; [lia|intros; lia]. }
    destruct (IH (fst s1) (snd s1)) as [A B]. rewrite <- surjective_pairing in A, B.
    destruct S1 as [S1a S1b]. split; [lia|]. intros Hq.
    assert (H : fst s1 = l1) by lia. specialize (S1b H).
    assert (H2 : fst (fold_left (fwd e) xs s1) = fst s1) by lia. specialize (B H2). lia.
Qed.

Lemma last_line_no_nl_aux : forall s acc,
  nl_count s = 0 -> fold_left (fun acc c => if c =? NL then [] else c :: acc) s acc = rev s ++ acc.
Proof.
  induction s as [|c s IH]; intros acc H; cbn [fold_left rev]; [reflexivity|].
  cbn [nl_count fold_right] in H. fold (nl_count s) in H.
  destruct (c =? NL); [lia|]. rewrite IH by exact H. now rewrite <- app_assoc.
Qed.

Lemma last_line_no_nl : forall s, nl_count s = 0 -> last_line s = s.
Proof.
  intros s H. unfold last_line. rewrite last_line_no_nl_aux by exact H.
  rewrite app_nil_r. apply rev_involutive.
Qed.

Lemma tap_own : forall e l i idx line col, wf_ptoks l = true -> (i < length l)%nat ->
  let p := fold_left (fwd e) (firstn i l) (line, col) in
  tap e (fst p) (snd p) l idx line col = Some (idx + i)%nat.
Proof.
  induction l as [|t r IH]; intros i idx line col W L; [cbn in L; lia|].
  apply wf_cons in W. destruct W as [Wt Wr].
  pose proof (tok_len_pos e t Wt) as P.
  destruct i as [|i].
  - cbn [firstn fold_left fst snd tap].
    replace ((line =? line) && (col <=? col) && (col <? col + tok_len e t)) with true.
    + f_equal. lia.
    + symmetry. rewrite N.eqb_refl. cbn [andb]. apply andb_true_iff.
      split; [apply N.leb_le; lia|apply N.ltb_lt; lia].
  - cbn [firstn fold_left].
    set (s1 := fwd e (line, col) t).
    destruct (fwd_mono e (firstn i r) (fst s1) (snd s1)) as [M1 M2].
    rewrite <- surjective_pairing in M1, M2.
    assert (L' : (i < length r)%nat) by (cbn in L; lia).
    specialize (IH i (S idx) (fst s1) (snd s1) Wr L').
    rewrite <- surjective_pairing in IH.
    set (p := fold_left (fwd e) (firstn i r) s1) in *.
    replace (idx + S i)%nat with (S idx + i)%nat by lia.
    cbn [tap]. unfold s1, fwd in *. destruct (p_class t); cbn [fst snd] in *.
    + (* NEWLINE *)
      replace (fst p =? line) with false by (symmetry; apply N.eqb_neq; lia). cbn [andb].
      replace (fst p <? line + 1) with false by (symmetry; apply N.ltb_ge; lia).
      exact IH.
    + (* COMMENT *)
      set (nls := nl_count (p_text t)) in *.
      assert (First : (fst p =? line) && (col <=? snd p) && (snd p <? col + tok_len e t) = false).
      { destruct (fst p =? line) eqn:E1; [|reflexivity]. apply N.eqb_eq in E1.
        assert (nls = 0) by lia.
        assert (Hq : fst p = line + nls) by lia. specialize (M2 Hq).
        rewrite H in M2. cbn [N.ltb N.compare] in M2.
        unfold nls in H. rewrite (last_line_no_nl _ H) in M2. fold (tok_len e t) in M2.
        cbn [andb]. apply andb_false_iff. right. apply N.ltb_ge. lia. }
      rewrite First.
      replace (fst p <? line + nls) with false by (symmetry; apply N.ltb_ge; lia).
      replace ((line + nls =? fst p) &&
               (snd p <? (if 0 <? nls then 0 else col) + text_len e (last_line (p_text t)))) with false.
      * exact IH.
      * symmetry. destruct (line + nls =? fst p) eqn:E2; [|reflexivity]. apply N.eqb_eq in E2.
        cbn [andb]. apply N.ltb_ge. apply M2. lia.
    + (* other *)
      replace ((fst p =? line) && (col <=? snd p) && (snd p <? col + tok_len e t)) with false.
      * replace (fst p <? line) with false by (symmetry; apply N.ltb_ge; lia). exact IH.
      * symmetry. destruct (fst p =? line) eqn:E1; [|reflexivity]. apply N.eqb_eq in E1.
        cbn [andb]. apply andb_false_iff. right. apply N.ltb_ge. specialize (M2 E1). lia.
Qed.

Theorem token_at_own_position : forall e l i, wf_ptoks l = true -> (i < length l)%nat ->
  token_at_position e l (start_pos_at e l i) = Some i.
Proof.
  intros e l i W L. unfold token_at_position. rewrite start_pos_fwd.
  apply (tap_own e l i 0%nat 0 0 W L).
Qed.

(* non-vacuity: a list with a multi-line comment, a newline, a 4-byte and a 3-byte character *)
Example position_example :
  let l := [mkPTok TOther [114; 117]; mkPTok TComment [47; 42; 10; 42; 47]; mkPTok TOther [128512];
            mkPTok TNewline [10]; mkPTok TOther [8364; 97]] in
  wf_ptoks l = true /\
  map (start_pos_at Utf8 l) [0; 1; 2; 3; 4]%nat = [(0, 0); (0, 2); (1, 2); (1, 6); (2, 0)] /\
  map (start_pos_at Utf16 l) [2; 3]%nat = [(1, 2); (1, 4)] /\
  map (start_pos_at Utf32 l) [2; 3]%nat = [(1, 2); (1, 3)] /\
  map (fun i => token_at_position Utf16 l (start_pos_at Utf16 l i)) [0; 1; 2; 3; 4]%nat
    = [Some 0; Some 1; Some 2; Some 3; Some 4]%nat.
Proof. vm_compute. repeat split. Qed.
