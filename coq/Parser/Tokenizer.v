(* Model of the hand-written wrapper around the three logos lexers
   (parser/src/tokenizer/mod.rs: Tokenizer::{next_token, enter_hex_pattern_mode,
   enter_hex_jump_mode, unexpected_token}).

   The lexers themselves are ABSTRACT: [lex m rem] is one `next()` of the mode-m lexer on the
   remaining input [rem]: None at the end of the input, otherwise a token id or an error
   together with the length of the span it consumed.  logos lexers have no look-behind, so
   what they do at an absolute position depends only on the bytes from there on; K checks the
   contract [lex_ok] on every call the real tokenizer makes (hook verif_lex).

   State = (mode, lexer_starting_pos, lexer.span()).  The restart offsets and the spans of the
   two pseudo tokens are parameters ([tcfg]) regenerated from the source (Gen/TokenizerGen.v).
   Definitions only; proofs in TokenizerProofs.v. *)
From Coq Require Import List NArith Bool Arith.
From YV Require Import Base.Utf8.
Import ListNotations.

Inductive mode := MNormal | MHexPattern | MHexJump.
Inductive lexres := LTok (id : N) | LErr.
(* the calls the parser makes on the tokenizer *)
Inductive op := ONext | OEnterHexPattern | OEnterHexJump.

Record ttok := mkTTok { tt_id : N; tt_lo : nat; tt_hi : nat }.

Record tcfg := mkTcfg {
  err_restart_at_start : bool;      (* on a lexer error in hex modes: lexer_starting_pos += lexer.span().start *)
  enter_restart_at_end : bool;      (* enter_hex_*_mode: lexer_starting_pos += lexer.span().end *)
  invalid_covers_lexer_span : bool; (* INVALID_UTF8(Span::from(lexer.span())) (false: start..start+1) *)
  unknown_bumps : bool;             (* lexer.bump(unexpected.len().saturating_sub(lexer.span().len())) *)
  unknown_covers_ws_char : bool;    (* an empty prefix (the text starts with a whitespace character the lexer
                                       does not know) is replaced by that whole character *)
  id_invalid_utf8 : N;
  id_unknown : N }.

Record tstate := mkTState {
  t_mode : mode;
  t_lsp : nat;                      (* lexer_starting_pos *)
  t_s : nat; t_e : nat }.           (* lexer.span(), relative to lexer_starting_pos *)

Definition init_tstate : tstate := mkTState MNormal 0 0 0.
(* absolute offset of the next byte to be lexed *)
Definition tcur (st : tstate) : nat := t_lsp st + t_e st.

(* ---- the UTF-8 chunk logic of unexpected_token ---- *)
(* length of the valid part of the first Utf8Chunk *)
Definition valid_prefix_len (rem : list N) : nat :=
  match validate rem 0 with
  | None => length rem
  | Some (v, _) => Nat.min (N.to_nat v) (length rem)
  end.

(* char::is_whitespace (Unicode White_Space) *)
Definition is_ws_cp (c : N) : bool :=
  (between 9 c 13 || (c =? 32) || (c =? 133) || (c =? 160) || (c =? 5760) || between 8192 c 8202 ||
   (c =? 8232) || (c =? 8233) || (c =? 8239) || (c =? 8287) || (c =? 12288))%N.

Definition decode_cp (w : nat) (l : list N) : N :=
  let b := fun i => nth i l 128%N in
  match w with
  | 1%nat => b 0%nat
  | 2%nat => ((b 0%nat - 192) * 64 + (b 1%nat - 128))%N
  | 3%nat => ((b 0%nat - 224) * 4096 + (b 1%nat - 128) * 64 + (b 2%nat - 128))%N
  | _ => ((b 0%nat - 240) * 262144 + (b 1%nat - 128) * 4096 + (b 2%nat - 128) * 64 + (b 3%nat - 128))%N
  end.

(* bytes before the first whitespace character of a valid UTF-8 string:
   s.split(char::is_whitespace).next().unwrap().len() *)
Fixpoint ws_scan (fuel : nat) (l : list N) (acc : nat) : nat :=
  match fuel with
  | O => acc
  | S f =>
    match l with
    | [] => acc
    | b0 :: _ =>
      match width b0 with
      | O => acc
      | w => if is_ws_cp (decode_cp w l) then acc else ws_scan f (skipn w l) (acc + w)
      end
    end
  end.
Definition ws_prefix_len (l : list N) : nat := Nat.min (ws_scan (length l) l 0) (length l).

Section Wrapper.
Variable cfg : tcfg.
Variable lex : mode -> list N -> option (lexres * nat).
Variable src : list N.

(* the contract of the abstract lexers *)
Definition lex_ok : Prop := forall m rem,
  match lex m rem with
  | None => rem = []
  | Some (_, n) => 1 <= n <= length rem
  end.

(* logos::Lexer::next: the new span starts where the previous one ended *)
Definition lexer_next (st : tstate) : option lexres * tstate :=
  match lex (t_mode st) (skipn (tcur st) src) with
  | None => (None, mkTState (t_mode st) (t_lsp st) (t_e st) (t_e st))
  | Some (r, n) => (Some r, mkTState (t_mode st) (t_lsp st) (t_e st) (t_e st + n))
  end.

Definition tok_of (id : N) (st : tstate) : ttok := mkTTok id (t_lsp st + t_s st) (t_lsp st + t_e st).

(* self.mode = Mode::X(Logos::lexer(&self.source[self.lexer_starting_pos..])) *)
Definition restart (m : mode) (at_end : bool) (st : tstate) : tstate :=
  mkTState m (t_lsp st + (if at_end then t_e st else t_s st)) 0 0.

(* unexpected_token (normal mode, after the lexer reported an error with span t_s..t_e) *)
Definition unexpected_token (st : tstate) : ttok * tstate :=
  let rem := skipn (t_lsp st + t_s st) src in
  let v := valid_prefix_len rem in
  match v with
  | O =>
      (if invalid_covers_lexer_span cfg then tok_of (id_invalid_utf8 cfg) st
       else mkTTok (id_invalid_utf8 cfg) (t_lsp st + t_s st) (t_lsp st + t_s st + 1), st)
  | _ =>
      let u := ws_prefix_len (firstn v rem) in
      let u := match u with
               | O => if unknown_covers_ws_char cfg
                      then Nat.min (match rem with b0 :: _ => width b0 | [] => O end) v else O
               | _ => u end in
      let st' := if unknown_bumps cfg
                 then mkTState (t_mode st) (t_lsp st) (t_s st) (t_e st + (u - (t_e st - t_s st)))
                 else st in
      (tok_of (id_unknown cfg) st', st')
  end.

Definition next_normal (st : tstate) : option ttok * tstate :=
  match lexer_next st with
  | (None, st') => (None, st')
  | (Some (LTok id), st') => (Some (tok_of id st'), st')
  | (Some LErr, st') => let '(t, st'') := unexpected_token st' in (Some t, st'')
  end.

(* an error in hex pattern mode: back to normal mode, the same bytes are lexed again *)
Definition next_hex_pattern (st : tstate) : option ttok * tstate :=
  match lexer_next st with
  | (None, st') => (None, st')
  | (Some (LTok id), st') => (Some (tok_of id st'), st')
  | (Some LErr, st') => next_normal (restart MNormal (negb (err_restart_at_start cfg)) st')
  end.

(* an error in hex jump mode: back to hex pattern mode *)
Definition next_hex_jump (st : tstate) : option ttok * tstate :=
  match lexer_next st with
  | (None, st') => (None, st')
  | (Some (LTok id), st') => (Some (tok_of id st'), st')
  | (Some LErr, st') => next_hex_pattern (restart MHexPattern (negb (err_restart_at_start cfg)) st')
  end.

Definition next_token (st : tstate) : option ttok * tstate :=
  match t_mode st with
  | MNormal => next_normal st
  | MHexPattern => next_hex_pattern st
  | MHexJump => next_hex_jump st
  end.

Definition enter_hex_pattern_mode (st : tstate) : tstate :=
  match t_mode st with MHexPattern => st | _ => restart MHexPattern (enter_restart_at_end cfg) st end.
Definition enter_hex_jump_mode (st : tstate) : tstate :=
  match t_mode st with MHexJump => st | _ => restart MHexJump (enter_restart_at_end cfg) st end.

(* any interleaving of calls; ended = some next_token returned None *)
Fixpoint run_ops (ops : list op) (st : tstate) (ended : bool) : list ttok * tstate * bool :=
  match ops with
  | [] => ([], st, ended)
  | ONext :: r =>
      let '(t, st') := next_token st in
      let '(ts, st'', e) := run_ops r st' (ended || match t with None => true | Some _ => false end) in
      (match t with Some t => t :: ts | None => ts end, st'', e)
  | OEnterHexPattern :: r => run_ops r (enter_hex_pattern_mode st) ended
  | OEnterHexJump :: r => run_ops r (enter_hex_jump_mode st) ended
  end.

End Wrapper.

(* token spans non-empty, contiguous and ordered from p to q *)
Fixpoint chain (p : nat) (l : list ttok) (q : nat) : Prop :=
  match l with
  | [] => p = q
  | t :: r => tt_lo t = p /\ tt_lo t < tt_hi t /\ chain (tt_hi t) r q
  end.
Fixpoint chain_b (p : nat) (l : list ttok) (q : nat) : bool :=
  match l with
  | [] => Nat.eqb p q
  | t :: r => Nat.eqb (tt_lo t) p && Nat.ltb (tt_lo t) (tt_hi t) && chain_b (tt_hi t) r q
  end.
