(* Correspondence (K) and specification (S) cases for the tokenizer wrapper (C10).

   Per source the harness records: the bytes; the calls the real parser made on the real
   Tokenizer (hook verif_take_ops); the answers of the three real logos lexers (hook
   verif_lex) at every token boundary, in every mode; the Token events of the real parser.
   [check_case]: the recorded answers satisfy the lexer contract, and the MODEL wrapper
   (Parser/Tokenizer.v, with the generated configuration) driven by the same calls, with the
   real lexers as oracle, returns the real token list, token for token.
   [spec_case]: the real tokens tile the source. *)
From Coq Require Import List NArith Bool Arith.
From YV Require Import Parser.Machine Parser.Tokenizer Gen.Grammar Gen.TokenizerGen Parser.ParserCheck.
Import ListNotations.
Local Open Scope N_scope.

Record case := mkCase {
  c_src : list N;
  c_ops : list N;                                   (* 0 next_token, 1 enter_hex_pattern_mode, 2 enter_hex_jump_mode *)
  c_table : list (N * N * option (option N * N * N)); (* (mode, offset, verif_lex answer) *)
  c_toks : list (N * N * N)                          (* (SyntaxKind, start, end) of the real Token events *)
}.

Definition mode_of (m : N) : mode := match m with 0 => MNormal | 1 => MHexPattern | _ => MHexJump end.
Definition mode_num (m : mode) : N := match m with MNormal => 0 | MHexPattern => 1 | MHexJump => 2 end.
Definition op_of (o : N) : op := match o with 0 => ONext | 1 => OEnterHexPattern | _ => OEnterHexJump end.

(* the real lexers as an oracle; an offset the harness did not record makes the run fail *)
Definition table_lex (c : case) (m : mode) (rem : list N) : option (lexres * nat) :=
  let off := N.of_nat (length (c_src c) - length rem) in
  match find (fun e => (fst (fst e) =? mode_num m) && (snd (fst e) =? off)) (c_table c) with
  | Some (_, None) => None
  | Some (_, Some (Some id, _, e)) => Some (LTok id, N.to_nat e)
  | Some (_, Some (None, _, e)) => Some (LErr, N.to_nat e)
  | None => Some (LTok 65535, 1%nat)
  end.

(* lex_ok on the recorded answers: end of input exactly at the end; otherwise a non-empty span
   that starts at the lexer's start and stays inside the input *)
Definition contract_ok (c : case) : bool :=
  let len := N.of_nat (length (c_src c)) in
  forallb (fun e =>
    let off := snd (fst e) in
    match snd e with
    | None => off =? len
    | Some (_, s, e') => (off <? len) && (s =? 0) && (1 <=? e') && (off + e' <=? len)
    end) (c_table c).

Fixpoint ttoks_eqb (a : list ttok) (b : list (N * N * N)) : bool :=
  match a, b with
  | [], [] => true
  | t :: a', (k, lo, hi) :: b' =>
      (tt_id t =? tid_of_kind k) && (N.of_nat (tt_lo t) =? lo) && (N.of_nat (tt_hi t) =? hi) && ttoks_eqb a' b'
  | _, _ => false
  end.

Definition check_case (c : case) : bool :=
  contract_ok c &&
  let '(ts, st, ended) := run_ops yara_tcfg (table_lex c) (c_src c) (map op_of (c_ops c)) init_tstate false in
  ttoks_eqb ts (c_toks c) &&
  (* the parser stops asking only at the end of the input *)
  ended && Nat.eqb (tcur st) (length (c_src c)).

Definition spec_case (c : case) : bool :=
  chain_b 0 (map (fun t => let '(k, lo, hi) := t in mkTTok k (N.to_nat lo) (N.to_nat hi)) (c_toks c)) (length (c_src c)).
