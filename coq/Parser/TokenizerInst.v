(* The tokenizer theorem for the configuration regenerated from parser/src/tokenizer/mod.rs.
   [yara_tcfg_good] stops checking when the source restarts a lexer at the wrong offset or gives
   INVALID_UTF8 a span shorter than what the lexer consumed (tiling does not depend on whether
   UNKNOWN is bumped to the valid prefix; K compares that token for token). *)
From Coq Require Import List NArith Bool Arith.
From YV Require Import Parser.Tokenizer Parser.TokenizerProofs Gen.Grammar Gen.TokenizerGen.
Import ListNotations.

Lemma yara_tcfg_good : good_tcfg yara_tcfg.
Proof. repeat split; reflexivity. Qed.

Theorem yara_tokens_tile_source : forall lex src ops,
  lex_ok lex ->
  let '(ts, st, ended) := run_ops yara_tcfg lex src ops init_tstate false in
  chain 0 ts (tcur st) /\ tcur st <= length src /\ (ended = true -> chain 0 ts (length src)).
Proof. intros lex src ops H. exact (tokens_tile_source yara_tcfg lex src ops yara_tcfg_good H). Qed.
