(* tokens_tile_source: whatever the lexers answer (within their contract) and however the
   parser interleaves next_token / enter_hex_pattern_mode / enter_hex_jump_mode, the tokens
   the wrapper returns are non-empty, contiguous and ordered, start at offset 0, never pass the
   end of the input, and reach it when next_token reports the end: no byte is lost or
   duplicated. *)
From Coq Require Import List NArith Bool Arith Lia.
From YV Require Import Base.Utf8 Parser.Tokenizer.
Import ListNotations.

Lemma valid_prefix_len_le : forall rem, valid_prefix_len rem <= length rem.
Proof.
  intros. unfold valid_prefix_len. destruct (validate rem 0) as [[v el]|]; [apply Nat.le_min_r|lia].
Qed.
Lemma ws_prefix_len_le : forall l, ws_prefix_len l <= length l.
Proof. intros. unfold ws_prefix_len. apply Nat.le_min_r. Qed.

Lemma skipn_nil_ge : forall A (l : list A) n, skipn n l = [] -> length l <= n.
Proof.
  induction l; intros n H; [cbn; lia|]. destruct n; [discriminate|]. cbn in *. apply IHl in H. lia.
Qed.

Section Proofs.
Variable cfg : tcfg.
Variable lex : mode -> list N -> option (lexres * nat).
Variable src : list N.
Hypothesis Hlex : lex_ok lex.
(* the facts about the source the theorem needs (Gen/TokenizerGen.v must say so) *)
Hypothesis Herr : err_restart_at_start cfg = true.
Hypothesis Henter : enter_restart_at_end cfg = true.
Hypothesis Hinv : invalid_covers_lexer_span cfg = true.

Notation len := (length src).

(* what one call of the lexer does *)
Lemma lexer_next_spec : forall st, tcur st <= len ->
  match lexer_next lex src st with
  | (None, st') => tcur st = len /\ tcur st' = tcur st /\ t_mode st' = t_mode st
  | (Some _, st') => t_lsp st' = t_lsp st /\ t_lsp st' + t_s st' = tcur st /\ t_s st' < t_e st' /\
                     tcur st' <= len /\ t_mode st' = t_mode st
  end.
Proof.
  intros st L. unfold lexer_next. pose proof (Hlex (t_mode st) (skipn (tcur st) src)) as C.
  destruct (lex (t_mode st) (skipn (tcur st) src)) as [[r n]|].
  - rewrite skipn_length in C. unfold tcur in *. cbn. repeat split; lia.
  - apply skipn_nil_ge in C. unfold tcur in *. cbn. repeat split; lia.
Qed.

(* result of one next_token *)
Definition step_ok (st : tstate) (r : option ttok * tstate) : Prop :=
  let '(ot, st') := r in
  tcur st' <= len /\
  match ot with
  | Some t => tt_lo t = tcur st /\ tt_hi t = tcur st' /\ tt_lo t < tt_hi t
  | None => tcur st' = tcur st /\ tcur st = len
  end.

Lemma unexpected_token_ok : forall st0 st, 
  t_lsp st + t_s st = tcur st0 -> t_s st < t_e st -> tcur st <= len ->
  step_ok st0 (let '(t, st') := unexpected_token cfg src st in (Some t, st')).
Proof.
  intros st0 st A B C. unfold unexpected_token.
  pose proof (valid_prefix_len_le (skipn (t_lsp st + t_s st) src)) as V.
  rewrite skipn_length in V.
  destruct (valid_prefix_len (skipn (t_lsp st + t_s st) src)) as [|v] eqn:Ev.
  - rewrite Hinv. unfold step_ok, tok_of, tcur in *. cbn. repeat split; lia.
  - pose proof (ws_prefix_len_le (firstn (S v) (skipn (t_lsp st + t_s st) src))) as U.
    rewrite firstn_length, skipn_length in U.
    assert (U' : ws_prefix_len (firstn (S v) (skipn (t_lsp st + t_s st) src)) <= length src - (t_lsp st + t_s st))
      by (eapply Nat.le_trans; [exact U|apply Nat.le_min_r]).
    set (u0 := ws_prefix_len (firstn (S v) (skipn (t_lsp st + t_s st) src))) in *.
    set (w := Nat.min (match skipn (t_lsp st + t_s st) src with b0 :: _ => width b0 | [] => 0 end) (S v)).
    assert (W : w <= length src - (t_lsp st + t_s st)) by (unfold w; eapply Nat.le_trans; [apply Nat.le_min_r|exact V]).
    set (u := match u0 with 0 => if unknown_covers_ws_char cfg then w else 0 | S _ => u0 end).
    assert (Hu : u <= length src - (t_lsp st + t_s st)).
    { unfold u. destruct u0; [destruct (unknown_covers_ws_char cfg); lia|exact U']. }
    clearbody u. clear U U' W.
    destruct (unknown_bumps cfg); unfold step_ok, tok_of, tcur in *; cbn; repeat split; lia.
Qed.

Lemma next_normal_ok : forall st, tcur st <= len -> step_ok st (next_normal cfg lex src st).
Proof.
  intros st L. unfold next_normal. pose proof (lexer_next_spec st L) as S.
  destruct (lexer_next lex src st) as [[[id|]|] st'].
  - destruct S as (A & B & C & D & _). unfold step_ok, tok_of, tcur in *. cbn. repeat split; lia.
  - destruct S as (A & B & C & D & _). apply unexpected_token_ok; assumption.
  - destruct S as (A & B & _). unfold step_ok. repeat split; lia.
Qed.

(* after an error the other lexer starts at the same byte *)
Lemma restart_start_cur : forall m st st0,
  t_lsp st + t_s st = tcur st0 -> tcur (restart m false st) = tcur st0.
Proof. intros. unfold restart, tcur in *. cbn. lia. Qed.

Lemma step_ok_from : forall st0 st1 r, tcur st1 = tcur st0 -> step_ok st1 r -> step_ok st0 r.
Proof. intros st0 st1 [ot st'] E H. unfold step_ok in *. rewrite E in H. exact H. Qed.

Lemma next_hex_pattern_ok : forall st, tcur st <= len -> step_ok st (next_hex_pattern cfg lex src st).
Proof.
  intros st L. unfold next_hex_pattern. pose proof (lexer_next_spec st L) as S.
  destruct (lexer_next lex src st) as [[[id|]|] st'].
  - destruct S as (A & B & C & D & _). unfold step_ok, tok_of, tcur in *. cbn. repeat split; lia.
  - destruct S as (A & B & C & D & _). rewrite Herr. cbn [negb].
    pose proof (restart_start_cur MNormal st' st B) as R.
    eapply step_ok_from; [exact R|]. apply next_normal_ok. lia.
  - destruct S as (A & B & _). unfold step_ok. repeat split; lia.
Qed.

Lemma next_hex_jump_ok : forall st, tcur st <= len -> step_ok st (next_hex_jump cfg lex src st).
Proof.
  intros st L. unfold next_hex_jump. pose proof (lexer_next_spec st L) as S.
  destruct (lexer_next lex src st) as [[[id|]|] st'].
  - destruct S as (A & B & C & D & _). unfold step_ok, tok_of, tcur in *. cbn. repeat split; lia.
  - destruct S as (A & B & C & D & _). rewrite Herr. cbn [negb].
    pose proof (restart_start_cur MHexPattern st' st B) as R.
    eapply step_ok_from; [exact R|]. apply next_hex_pattern_ok. lia.
  - destruct S as (A & B & _). unfold step_ok. repeat split; lia.
Qed.

Lemma next_token_ok : forall st, tcur st <= len -> step_ok st (next_token cfg lex src st).
Proof.
  intros st L. unfold next_token. destruct (t_mode st);
    [apply next_normal_ok|apply next_hex_pattern_ok|apply next_hex_jump_ok]; exact L.
Qed.

Lemma enter_hex_pattern_cur : forall st, tcur (enter_hex_pattern_mode cfg st) = tcur st.
Proof. intros. unfold enter_hex_pattern_mode. rewrite Henter. destruct (t_mode st); unfold restart, tcur; cbn; lia. Qed.
Lemma enter_hex_jump_cur : forall st, tcur (enter_hex_jump_mode cfg st) = tcur st.
Proof. intros. unfold enter_hex_jump_mode. rewrite Henter. destruct (t_mode st); unfold restart, tcur; cbn; lia. Qed.

Lemma run_ops_tile : forall ops st ended,
  tcur st <= len -> (ended = true -> tcur st = len) ->
  let '(ts, st', e) := run_ops cfg lex src ops st ended in
  chain (tcur st) ts (tcur st') /\ tcur st' <= len /\ (e = true -> tcur st' = len).
Proof.
  induction ops as [|o ops IH]; intros st ended L E; cbn [run_ops].
  - cbn. auto.
  - destruct o.
    + pose proof (next_token_ok st L) as S.
      destruct (next_token cfg lex src st) as [ot st1]. unfold step_ok in S. destruct S as [L1 S].
      specialize (IH st1 (ended || match ot with None => true | Some _ => false end) L1).
      destruct (run_ops cfg lex src ops st1 (ended || match ot with None => true | Some _ => false end)) as [[ts st2] e].
      destruct ot as [t|].
      * destruct S as (S1 & S2 & S3). destruct IH as (C & L2 & E2).
        { rewrite orb_false_r. intros H. specialize (E H). lia. }
        cbn [chain]. rewrite S2 in *. repeat split; auto.
      * destruct S as (S1 & S2). destruct IH as (C & L2 & E2); [intros _; lia|].
        rewrite <- S1. auto.
    + specialize (IH (enter_hex_pattern_mode cfg st) ended).
      rewrite enter_hex_pattern_cur in IH. apply IH; assumption.
    + specialize (IH (enter_hex_jump_mode cfg st) ended).
      rewrite enter_hex_jump_cur in IH. apply IH; assumption.
Qed.

Theorem tokens_tile_source_gen : forall ops,
  let '(ts, st, ended) := run_ops cfg lex src ops init_tstate false in
  chain 0 ts (tcur st) /\ tcur st <= len /\ (ended = true -> chain 0 ts len).
Proof.
  intros ops. pose proof (run_ops_tile ops init_tstate false) as H.
  destruct (run_ops cfg lex src ops init_tstate false) as [[ts st] e].
  destruct H as (C & L & E); [cbn; lia|discriminate|].
  change (tcur init_tstate) with 0 in C. repeat split; auto.
  intros He. rewrite <- (E He). exact C.
Qed.

End Proofs.

(* ---- the statement for the configuration the current source has ---- *)
Definition good_tcfg (c : tcfg) : Prop :=
  err_restart_at_start c = true /\ enter_restart_at_end c = true /\
  invalid_covers_lexer_span c = true.      (* with or without the bump of UNKNOWN *)

Theorem tokens_tile_source : forall cfg lex src ops,
  good_tcfg cfg -> lex_ok lex ->
  let '(ts, st, ended) := run_ops cfg lex src ops init_tstate false in
  chain 0 ts (tcur st) /\ tcur st <= length src /\ (ended = true -> chain 0 ts (length src)).
Proof.
  intros cfg lex src ops (A & B & C) H.
  exact (tokens_tile_source_gen cfg lex src H A B C ops).
Qed.

(* ---- the old code (INVALID_UTF8 = start..start+1) does not tile: bytes e2 80 61, a lexer
   whose error span for the truncated Unicode space is 2 bytes long (what logos does) ---- *)
Definition w_lex (m : mode) (rem : list N) : option (lexres * nat) :=
  match rem with
  | [] => None
  | 226%N :: 128%N :: _ => Some (LErr, 2)
  | _ => Some (LTok 52%N, 1)
  end.
Lemma w_lex_ok : lex_ok w_lex.
Proof.
  intros m rem. unfold w_lex. destruct rem as [|b r]; [reflexivity|].
  destruct (N.eq_dec b 226) as [->|Hb].
  - destruct r as [|b2 r]; [cbn; lia|]. destruct (N.eq_dec b2 128) as [->|Hb2]; [cbn; lia|].
    assert (match b2 with 128%N => Some (LErr, 2) | _ => Some (LTok 52%N, 1) end = Some (LTok 52%N, 1)) as ->.
    { destruct b2 as [|p]; [reflexivity|]. repeat (destruct p as [p|p|]; try reflexivity). congruence. }
    cbn. lia.
  - assert (match b with 226%N => match r with 128%N :: _ => Some (LErr, 2) | _ => Some (LTok 52%N, 1) end
                       | _ => Some (LTok 52%N, 1) end = Some (LTok 52%N, 1)) as ->.
    { destruct b as [|p]; [reflexivity|]. repeat (destruct p as [p|p|]; try reflexivity). congruence. }
    cbn. lia.
Qed.

Definition old_tcfg : tcfg := mkTcfg true true false true false 80 81.
Definition new_tcfg : tcfg := mkTcfg true true true true false 80 81.

Lemma tokens_tile_source_old_code_refuted :
  let '(ts, st, ended) := run_ops old_tcfg w_lex [226; 128; 97]%N [ONext; ONext; ONext] init_tstate false in
  ended = true /\ ts = [mkTTok 80 0 1; mkTTok 52 2 3] /\ chain_b 0 ts 3 = false.
Proof. vm_compute. repeat split. Qed.

Example tokens_tile_source_new_code :
  let '(ts, st, ended) := run_ops new_tcfg w_lex [226; 128; 97]%N [ONext; ONext; ONext] init_tstate false in
  ended = true /\ ts = [mkTTok 80 0 2; mkTTok 52 2 3] /\ chain_b 0 ts 3 = true.
Proof. vm_compute. repeat split. Qed.
