(* Architecture level (A) for the literal family: what the compiler produces
   for a text pattern (sub-patterns and atoms) and what a correct set of atoms
   is.

   subpat / atom mirror lib/src/compiler: SubPattern::{Literal, LiteralWithMask,
   Xor, Base64, Base64Wide, CustomBase64, CustomBase64Wide} with the bytes of
   the literal pool inlined, SubPatternFlags restricted to the bits that the
   verification functions read, and Atom {bytes, backtrack, exact}.  The real
   values come from the hook Rules::verif_c01_dump() (K stream d).

   compile_text is a model of Compiler::c_literal_pattern; sp_match is the
   reference meaning of one sub-pattern (which offsets it matches, with which
   end and key), written with the primitives of Modifiers.v; atoms_ok is the
   boolean condition on the atoms of a sub-pattern under which the scan
   pipeline (Pipeline.v) finds exactly sp_match (PipelineProofs.v).
   Definitions only. *)
From Coq Require Import List NArith Bool Arith.
From YV Require Import Pat.Syntax Pat.Sem Pat.Matcher Pat.Modifiers Pat.Base64.
Import ListNotations.
Local Open Scope N_scope.

Record spflags := mkF { f_wide : bool; f_nocase : bool; f_fwl : bool; f_fwr : bool }.

Inductive spkind :=
| KLiteral (lit : bytes) (anchored : option nat)
| KMasked (lit mask : bytes)
| KXor (lit : bytes)
| KBase64 (lit : bytes) (padding : nat) (alpha : alphabet) (wide : bool)
| KOther.                         (* regexps and chain pieces: not modelled here *)

Record subpat := mkSP { sp_kind : spkind; sp_flags : spflags }.

Record atom := mkAtom { a_sp : nat; a_bytes : bytes; a_bt : nat; a_exact : bool }.

(* ---- verify_full_word (context.rs), left and right sides separately ------ *)
Definition fw_left_b (wide : bool) (key : N) (d : bytes) (s : nat) : bool :=
  if wide then negb (match s with S (S p) => zero_at_b key d (S p) && alnum_at_b key d p | _ => false end)
  else negb (match s with S p => alnum_at_b key d p | O => false end).
Definition fw_right_b (wide : bool) (key : N) (d : bytes) (e : nat) : bool :=
  if wide then negb (zero_at_b key d (S e) && alnum_at_b key d e)
  else negb (alnum_at_b key d e).
Definition verify_full_word (fl : spflags) (key : N) (d : bytes) (s e : nat) : bool :=
  (negb (f_fwl fl) || fw_left_b (f_wide fl) key d s) &&
  (negb (f_fwr fl) || fw_right_b (f_wide fl) key d e).

(* ---- the meaning of one sub-pattern -------------------------------------- *)
Fixpoint masked_prefix_b (lit mask d : bytes) : bool :=
  match lit, mask, d with
  | [], _, _ => true
  | x :: l, m :: ms, y :: d' => (N.land y m =? x) && masked_prefix_b l ms d'
  | _, _, _ => false
  end.

Definition in_xor_range (xr : N * N) (k : N) : bool := (fst xr <=? k) && (k <=? snd xr).

(* the window decoded by verify_base64 for a core found at s: the delta table of
   context.rs (9 entries: padding x encoded length mod 4) written with the
   functions of Modifiers.v *)
Definition b64_delta (padding : nat) : nat := core_start padding.
Definition b64_decode_len (padding n : nat) : nat := enc_len (padding + n + (3 - (padding + n) mod 3) mod 3).
Definition b64_match_len (padding n : nat) : nat := core_len padding n.

(* does sp match at offset s of d?  Some (end, key) *)
Definition sp_match (sp : subpat) (xr : N * N) (d : bytes) (s : nat) : option (nat * option N) :=
  let fl := sp_flags sp in
  match sp_kind sp with
  | KLiteral lit anchored =>
      let e := (s + length lit)%nat in
      if (match anchored with Some o => Nat.eqb o s | None => true end) &&
         Nat.leb e (length d) && prefix_b (byte_eq (f_nocase fl) 0) lit (skipn s d) &&
         verify_full_word fl 0 d s e
      then Some (e, None) else None
  | KMasked lit mask =>
      let e := (s + length lit)%nat in
      if Nat.leb e (length d) && masked_prefix_b lit mask (skipn s d) && verify_full_word fl 0 d s e
      then Some (e, None) else None
  | KXor lit =>
      match lit, nth_error d s with
      | x :: _, Some y =>
          let k := N.lxor y x in
          let e := (s + length lit)%nat in
          if in_xor_range xr k && Nat.leb e (length d) &&
             prefix_b (byte_eq false k) lit (skipn s d) && verify_full_word fl k d s e
          then Some (e, Some k) else None
      | _, _ => None
      end
  | KBase64 lit padding alpha wide =>
      (* the specification of Modifiers.v for this alignment and encoding; the
         number of bytes covered after the text is whatever makes the window decode *)
      let len := (b64_match_len padding (length lit) * unit_of wide)%nat in
      if existsb (fun ylen => b64_occ_at alpha wide lit padding ylen d s len) [0; 1; 2]%nat
      then Some ((s + len)%nat, None) else None
  | KOther => None
  end.

(* every match of sp in d, ascending offsets: (start, end, key) *)
Definition sp_ref (sp : subpat) (xr : N * N) (d : bytes) : list (nat * nat * option N) :=
  flat_map (fun s => match sp_match sp xr d s with Some (e, k) => [(s, e, k)] | None => [] end)
           (seq 0 (S (length d))).

(* ---- Compiler::c_literal_pattern ----------------------------------------- *)
Definition alpha_of (a : alphabet) : alphabet := a.

Definition compile_main (m : tmods) (main : bytes) (wide : bool) : list subpat :=
  let fw := tm_fullword m in
  let fl := mkF wide false fw fw in
  match tm_xor m with
  | Some _ => [mkSP (KXor main) fl]
  | None =>
      if tm_nocase m then [mkSP (KLiteral main None) (mkF wide true fw fw)]
      else if has_b64 m then
        (match tm_b64 m with
         | Some a => map (fun p => mkSP (KBase64 main p a false) (mkF false false false false)) [2; 1; 0]%nat
         | None => []
         end) ++
        (match tm_b64wide m with
         | Some a => map (fun p => mkSP (KBase64 main p a true) (mkF false false false false)) [2; 1; 0]%nat
         | None => []
         end)
      else [mkSP (KLiteral main None) fl]
  end.

(* wide first, then ascii; `wide` alone gives only the wide form *)
Definition compile_text (text : bytes) (m : tmods) : list subpat :=
  (if tm_wide m then compile_main m (widen text) true else []) ++
  (if tm_wide m && negb (tm_ascii m) then [] else compile_main m text false).

Definition xor_range_of (m : tmods) : N * N :=
  match tm_xor m with Some r => r | None => (0, 0) end.

(* ---- atoms_ok ------------------------------------------------------------ *)
Fixpoint bytes_eqb (a b : bytes) : bool :=
  match a, b with
  | [], [] => true
  | x :: a', y :: b' => (x =? y) && bytes_eqb a' b'
  | _, _ => false
  end.

Definition slice (l : bytes) (from len : nat) : bytes := firstn len (skipn from l).

(* all spellings of s under ASCII case folding *)
Fixpoint case_variants (s : bytes) : list bytes :=
  match s with
  | [] => [[]]
  | b :: t =>
      let r := case_variants t in
      if is_upper b || is_lower b then map (cons b) r ++ map (cons (swapcase b)) r
      else map (cons b) r
  end.

(* all byte strings v with v[i] land mask[i] = lit[i] *)
Definition byte_variants (x m : N) : list N :=
  filter (fun y => N.land y m =? x) (map N.of_nat (seq 0 256)).
Fixpoint mask_variants (lit mask : bytes) : list bytes :=
  match lit, mask with
  | x :: l, m :: ms =>
      let rest := mask_variants l ms in
      flat_map (fun y => map (cons y) rest) (byte_variants x m)
  | _, _ => [[]]
  end.

(* existsb that stops at the first hit (vm_compute evaluates both arguments of
   orb, so List.existsb always walks the whole list) *)
Fixpoint existsb_lazy {A} (f : A -> bool) (l : list A) : bool :=
  match l with [] => false | a :: t => if f a then true else existsb_lazy f t end.

Definition has_atom (atoms : list atom) (bt : nat) (v : bytes) : bool :=
  existsb_lazy (fun a => if Nat.eqb (a_bt a) bt then bytes_eqb (a_bytes a) v else false) atoms.

Definition N_range_list (lo hi : N) : list N := N_range lo hi.

(* the atoms of ONE sub-pattern.
   soundness part  : what every atom must satisfy (an exact atom is trusted
                     without verification; a xor atom determines the key);
   completeness part: some range (backtrack, length) of the literal is covered
                     by atoms in every spelling the sub-pattern accepts. *)
Definition atoms_ok (sp : subpat) (xr : N * N) (atoms : list atom) : bool :=
  let fl := sp_flags sp in
  match sp_kind sp with
  | KLiteral lit None =>
      forallb (fun a => negb (a_exact a) ||
                        (Nat.eqb (a_bt a) 0 && Nat.eqb (length (a_bytes a)) (length lit) &&
                         prefix_b (byte_eq (f_nocase fl) 0) lit (a_bytes a))) atoms &&
      existsb_lazy (fun a0 =>
        let bt := a_bt a0 in let len := length (a_bytes a0) in
        Nat.leb 1 len && Nat.leb (bt + len) (length lit) &&
        forallb (has_atom atoms bt)
                (if f_nocase fl then case_variants (slice lit bt len) else [slice lit bt len])) atoms
  | KLiteral lit (Some _) => match atoms with [] => true | _ => false end
  | KMasked lit mask =>
      Nat.eqb (length lit) (length mask) &&
      forallb (fun a => negb (a_exact a) ||
                        (Nat.eqb (a_bt a) 0 && Nat.eqb (length (a_bytes a)) (length lit) &&
                         masked_prefix_b lit mask (a_bytes a))) atoms &&
      existsb_lazy (fun a0 =>
        let bt := a_bt a0 in let len := length (a_bytes a0) in
        Nat.leb 1 len && Nat.leb (bt + len) (length lit) &&
        forallb (has_atom atoms bt) (mask_variants (slice lit bt len) (slice mask bt len))) atoms
  | KXor lit =>
      forallb (fun a => negb (a_exact a) &&
                        match a_bytes a, nth_error lit (a_bt a) with
                        | y :: _, Some x => in_xor_range xr (N.lxor y x)
                        | _, _ => false
                        end) atoms &&
      existsb_lazy (fun a0 =>
        let bt := a_bt a0 in let len := length (a_bytes a0) in
        Nat.leb 1 len && Nat.leb (bt + len) (length lit) &&
        forallb (fun k => has_atom atoms bt (map (fun x => N.lxor x k) (slice lit bt len)))
                (N_range_list (fst xr) (snd xr))) atoms
  | KBase64 lit padding alpha wide =>
      (* one inexact atom taken from the neighbour-independent part of the encoding *)
      let core := slice (b64_encode alpha (repeat 88 padding ++ lit)) (core_start padding)
                        (core_len padding (length lit)) in
      let core := if wide then widen core else core in
      forallb (fun a => negb (a_exact a)) atoms &&
      existsb_lazy (fun a0 =>
        let bt := a_bt a0 in let len := length (a_bytes a0) in
        Nat.leb 1 len && Nat.leb (bt + len) (length core) &&
        bytes_eqb (a_bytes a0) (slice core bt len)) atoms
  | KOther => true
  end.
