(* S <-> A for text patterns without base64: an offset is a genuine occurrence
   of the pattern (Modifiers.genuine, the specification written from the
   documentation) exactly when one of the sub-patterns the compiler produces
   for it (Atoms.compile_text, the model of c_literal_pattern that K stream (d)
   compares with the real dump) matches there (Atoms.sp_match). *)
From Coq Require Import List NArith Bool Arith Lia.
From YV Require Import Pat.Syntax Pat.Sem Pat.Matcher Pat.Modifiers Pat.ModifiersProofs Pat.Base64 Pat.Atoms.
Import ListNotations.

Lemma fullword_lr : forall w k d s e, fullword_b w k d s e = fw_left_b w k d s && fw_right_b w k d e.
Proof. intros [|] k d s e; reflexivity. Qed.

Lemma vfw_fullword : forall w nc fw k d s e,
  verify_full_word (mkF w nc fw fw) k d s e = (negb fw || fullword_b w k d s e).
Proof.
  intros w nc [|] k d s e; unfold verify_full_word; cbn [f_fwl f_fwr f_wide negb orb]; [|reflexivity].
  rewrite fullword_lr. reflexivity.
Qed.

Lemma occurs_b_prefix : forall eq v d s,
  occurs_b eq v d s = true <-> (prefix_b eq v (skipn s d) = true /\ s <= length d).
Proof. intros. unfold occurs_b. rewrite andb_true_iff, Nat.leb_le. tauto. Qed.

Lemma prefix_len_bound : forall eq v d s, prefix_b eq v (skipn s d) = true -> s <= length d ->
  s + length v <= length d.
Proof.
  intros eq v d s H Hs. assert (length v <= length (skipn s d)).
  { clear Hs. revert H. generalize (skipn s d). induction v as [|x v IH]; intros l H; cbn [length]; [lia|].
    destruct l as [|y l]; [discriminate|]. cbn [prefix_b] in H. apply andb_true_iff in H. apply proj2, IH in H. cbn [length]. lia. }
  rewrite skipn_length in H0. lia.
Qed.

Lemma skipn_head_nth : forall (l : bytes) k y rest, skipn k l = y :: rest -> nth_error l k = Some y.
Proof.
  intros l k. revert l. induction k as [|k IH]; intros l y rest H.
  - destruct l; [discriminate|]. cbn [skipn] in H. inversion H. reflexivity.
  - destruct l as [|x l]; [discriminate|]. cbn [skipn nth_error] in *. eapply IH. exact H.
Qed.

(* one ascii/wide form of the text, as compile_main compiles it *)
Section Main.
  Variable m : tmods.
  Variable d : bytes.
  Hypothesis Hnob64 : has_b64 m = false.
  Hypothesis Hexcl : tm_xor m = None \/ tm_nocase m = false.

  Lemma compile_main_spec : forall main w s len key, main <> [] ->
    ((exists sp, In sp (compile_main m main w) /\ sp_match sp (xor_range_of m) d s = Some (s + len, key)) <->
     (exists k, key_in_range (tm_xor m) k /\ key = key_report (tm_xor m) k /\ len = length main /\
                occurs_b (byte_eq (tm_nocase m) k) main d s = true /\
                (negb (tm_fullword m) || fullword_b w k d s (s + len)) = true)).
  Proof.
    intros main w s len key Hne. unfold compile_main.
    destruct (tm_xor m) as [[lo hi]|] eqn:X.
    - (* xor *)
      assert (Hnc : tm_nocase m = false) by (destruct Hexcl as [H|H]; [discriminate|exact H]).
      rewrite Hnc. unfold xor_range_of. rewrite X. split.
      + intros [sp [[<-|[]] H]]. unfold sp_match in H. cbn [sp_kind sp_flags] in H.
        destruct main as [|x t]; [congruence|]. set (main := x :: t) in *.
        destruct (nth_error d s) as [y|] eqn:Ed; [|discriminate].
        destruct (in_xor_range (lo, hi) (N.lxor y x) && Nat.leb (s + length main) (length d) &&
                  prefix_b (byte_eq false (N.lxor y x)) main (skipn s d) &&
                  verify_full_word (mkF w false (tm_fullword m) (tm_fullword m)) (N.lxor y x) d s (s + length main)) eqn:C;
          [|discriminate].
        inversion H; subst. rewrite !andb_true_iff in C. destruct C as [[[C1 C2] C3] C4].
        apply Nat.leb_le in C2. unfold in_xor_range in C1. cbn [fst snd] in C1. apply andb_true_iff in C1.
        destruct C1 as [R1 R2]. apply N.leb_le in R1, R2.
        assert (Hlen : len = length main) by (unfold main in *; cbn [length] in *; lia).
        exists (N.lxor y x). cbn [key_in_range key_report].
        split; [split; assumption|]. split; [reflexivity|]. split; [exact Hlen|]. split.
        * apply occurs_b_prefix. split; [exact C3|lia].
        * rewrite vfw_fullword in C4. exact C4.
      + intros [k [[R1 R2] [-> [-> [Hocc Hfw]]]]]. cbn [key_report].
        apply occurs_b_prefix in Hocc. destruct Hocc as [Hp Hs].
        pose proof (prefix_len_bound _ _ _ _ Hp Hs) as Hb.
        exists (mkSP (KXor main) (mkF w false (tm_fullword m) (tm_fullword m))). split; [left; reflexivity|].
        unfold sp_match. cbn [sp_kind sp_flags].
        destruct main as [|x t]; [congruence|]. set (main := x :: t) in *.
        destruct (skipn s d) as [|y rest] eqn:Esk; [discriminate|].
        assert (Ed : nth_error d s = Some y) by (eapply skipn_head_nth; exact Esk).
        rewrite Ed.
        assert (Hk : N.lxor y x = k).
        { assert (Hp' := Hp). unfold main in Hp'. cbn [prefix_b] in Hp'. apply andb_true_iff in Hp'. destruct Hp' as [H1 _].
          unfold byte_eq in H1. cbn [andb] in H1. rewrite orb_false_r in H1. apply N.eqb_eq in H1.
          symmetry. apply lxor_key. exact H1. }
        rewrite Hk. unfold in_xor_range. cbn [fst snd].
        replace (lo <=? k)%N with true by (symmetry; apply N.leb_le; exact R1).
        replace (k <=? hi)%N with true by (symmetry; apply N.leb_le; exact R2).
        replace (Nat.leb (s + length main) (length d)) with true by (symmetry; apply Nat.leb_le; exact Hb).
        rewrite Hp, vfw_fullword, Hfw. reflexivity.
    - (* no xor: the key is 0 and nothing is reported *)
      unfold xor_range_of. rewrite X.
      assert (Hlit : forall nc,
        sp_match (mkSP (KLiteral main None) (mkF w nc (tm_fullword m) (tm_fullword m))) (0, 0)%N d s = Some (s + len, key) <->
        (key = None /\ len = length main /\ occurs_b (byte_eq nc 0) main d s = true /\
         (negb (tm_fullword m) || fullword_b w 0 d s (s + len)) = true)).
      { intro nc. unfold sp_match. cbn [sp_kind sp_flags f_nocase andb]. rewrite vfw_fullword.
        destruct (Nat.leb (s + length main) (length d)) eqn:B; cbn [andb].
        - apply Nat.leb_le in B.
          destruct (prefix_b (byte_eq nc 0) main (skipn s d)) eqn:P; cbn [andb].
          + destruct (negb (tm_fullword m) || fullword_b w 0 d s (s + length main)) eqn:V.
            * split.
              -- intro H. inversion H. assert (len = length main) by lia. subst len. repeat split; try assumption.
                 apply occurs_b_prefix. split; [exact P|lia].
              -- intros [-> [-> _]]. reflexivity.
            * split; [discriminate|]. intros [_ [-> [_ H]]]. congruence.
          + split; [discriminate|]. intros [_ [_ [H _]]]. apply occurs_b_prefix in H. destruct H. congruence.
        - apply Nat.leb_gt in B. split; [discriminate|]. intros [_ [_ [H _]]]. apply occurs_b_prefix in H.
          destruct H as [Hp Hs]. pose proof (prefix_len_bound _ _ _ _ Hp Hs). lia. }
      assert (Hsingle : forall nc,
        (exists sp, In sp [mkSP (KLiteral main None) (mkF w nc (tm_fullword m) (tm_fullword m))] /\
                    sp_match sp (0, 0)%N d s = Some (s + len, key)) <->
        (exists k, k = 0%N /\ key = None /\ len = length main /\ occurs_b (byte_eq nc k) main d s = true /\
                   (negb (tm_fullword m) || fullword_b w k d s (s + len)) = true)).
      { intro nc. split.
        - intros [sp [[<-|[]] H]]. apply Hlit in H. exists 0%N. tauto.
        - intros [k [-> H]]. eexists. split; [left; reflexivity|]. apply Hlit. exact H. }
      cbn [key_in_range key_report]. rewrite Hnob64.
      destruct (tm_nocase m); apply Hsingle.
  Qed.
End Main.

Lemma widen_nonempty : forall t, t <> [] -> widen t <> [].
Proof. intros [|x t] H; [congruence|discriminate]. Qed.

(* the compiled sub-patterns match exactly at the genuine occurrences *)
Theorem compile_text_spec : forall text m d s len key,
  text <> [] -> has_b64 m = false -> (tm_xor m = None \/ tm_nocase m = false) ->
  (genuine (PText text m) d s len key <->
   exists sp, In sp (compile_text text m) /\ sp_match sp (xor_range_of m) d s = Some (s + len, key)).
Proof.
  intros text m d s len key Hne Hb Hx. cbn [genuine]. rewrite Hb.
  rewrite <- text_occ_b_spec. unfold text_occ_b, compile_text.
  assert (Hone : forall w, vbytes w text <> []) by (intros [|]; cbn [vbytes]; [apply widen_nonempty|]; exact Hne).
  (* one form *)
  assert (Hform : forall w,
    (exists sp, In sp (compile_main m (vbytes w text) w) /\ sp_match sp (xor_range_of m) d s = Some (s + len, key)) <->
    (key_in_range_b (tm_xor m) (key_of_report key) && opt_N_eqb key (key_report (tm_xor m) (key_of_report key)) &&
     (Nat.eqb len (length (vbytes w text)) && occurs_b (byte_eq (tm_nocase m) (key_of_report key)) (vbytes w text) d s &&
      (negb (tm_fullword m) || fullword_b w (key_of_report key) d s (s + len)))) = true).
  { intro w. rewrite (compile_main_spec m d Hb Hx _ w s len key (Hone w)).
    rewrite !andb_true_iff, key_in_range_b_spec, opt_N_eqb_spec, Nat.eqb_eq. split.
    - intros [k [Hk [Hrep [Hl [Ho Hf]]]]].
      assert (Ek : key_of_report key = k) by (rewrite Hrep; apply key_of_report_report; exact Hk).
      rewrite Ek. tauto.
    - intros [[Hk Hrep] [[Hl Ho] Hf]]. exists (key_of_report key). tauto. }
  rewrite andb_true_iff, existsb_exists. unfold variants.
  destruct (tm_wide m) eqn:W; destruct (tm_ascii m) eqn:A; cbn [negb andb app].
  - (* ascii wide *)
    split.
    + intros [Hk [w [Hw H]]]. destruct Hw as [<-|[<-|[]]].
      * destruct (proj2 (Hform true)) as [sp [Hin Hm]]; [rewrite Hk; exact H|].
        exists sp. split; [apply in_app_iff; left; exact Hin|exact Hm].
      * destruct (proj2 (Hform false)) as [sp [Hin Hm]]; [rewrite Hk; exact H|].
        exists sp. split; [apply in_app_iff; right; exact Hin|exact Hm].
    + intros [sp [Hin Hm]]. apply in_app_iff in Hin. destruct Hin as [Hin|Hin].
      * assert (H := proj1 (Hform true) (ex_intro _ sp (conj Hin Hm))). apply andb_true_iff in H.
        split; [tauto|]. exists true. split; [left; reflexivity|tauto].
      * assert (H := proj1 (Hform false) (ex_intro _ sp (conj Hin Hm))). apply andb_true_iff in H.
        split; [tauto|]. exists false. split; [right; left; reflexivity|tauto].
  - (* wide only *)
    rewrite app_nil_r. split.
    + intros [Hk [w [[<-|[]] H]]]. apply (proj2 (Hform true)). rewrite Hk. exact H.
    + intros H. apply (proj1 (Hform true)) in H. apply andb_true_iff in H. split; [tauto|].
      exists true. split; [left; reflexivity|tauto].
  - (* ascii *)
    split.
    + intros [Hk [w [[<-|[]] H]]]. apply (proj2 (Hform false)). rewrite Hk. exact H.
    + intros H. apply (proj1 (Hform false)) in H. apply andb_true_iff in H. split; [tauto|].
      exists false. split; [left; reflexivity|tauto].
  - split.
    + intros [Hk [w [[<-|[]] H]]]. apply (proj2 (Hform false)). rewrite Hk. exact H.
    + intros H. apply (proj1 (Hform false)) in H. apply andb_true_iff in H. split; [tauto|].
      exists false. split; [left; reflexivity|tauto].
Qed.
