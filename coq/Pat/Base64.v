(* Base64 without padding: the encoder that matches Modifiers.b64_decode
   (definitions only; the theorems are in Base64Proofs.v). *)
From Coq Require Import List NArith Bool Arith.
From YV Require Import Pat.Syntax Pat.Modifiers.
Import ListNotations.
Local Open Scope N_scope.

Definition alphabet_ok (a : alphabet) : Prop := length a = 64%nat /\ NoDup a.
Definition bytes_ok (x : bytes) : Prop := Forall (fun b => b < 256) x.

Definition sext (a : alphabet) (v : N) : N := nth (N.to_nat v) a 0.

Fixpoint enc_sextets (x : bytes) : list N :=
  match x with
  | [] => []
  | [b0] => [b0 / 4; (b0 mod 4) * 16]
  | [b0; b1] => [b0 / 4; (b0 mod 4) * 16 + b1 / 16; (b1 mod 16) * 4]
  | b0 :: b1 :: b2 :: t =>
      b0 / 4 :: ((b0 mod 4) * 16 + b1 / 16) :: ((b1 mod 16) * 4 + b2 / 64) :: (b2 mod 64) :: enc_sextets t
  end.

Definition b64_encode (a : alphabet) (x : bytes) : list N := map (sext a) (enc_sextets x).

(* the standard alphabet is one *)
Definition std_alphabet : alphabet :=
  [65;66;67;68;69;70;71;72;73;74;75;76;77;78;79;80;81;82;83;84;85;86;87;88;89;90;
   97;98;99;100;101;102;103;104;105;106;107;108;109;110;111;112;113;114;115;116;117;118;119;120;121;122;
   48;49;50;51;52;53;54;55;56;57;43;47].

