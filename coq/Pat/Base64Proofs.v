(* Base64 (no padding), the encoder matching Modifiers.b64_decode:
     b64_decode_encode     : decode (encode x) = x
     b64_encode_length     : |encode x| = ceil(8|x|/6)
     b64_occurrence_genuine: if the data contains, at ws, the encoding of
        x ++ text ++ y with |x| = p <= 2 and a whole number of 3-byte groups,
        then the specification (Modifiers.b64_occ_at) holds at the computed
        offset ws + core_start p with length core_len p |text|. *)
From Coq Require Import List NArith ZArith Bool Arith Lia.
From YV Require Import Pat.Syntax Pat.Sem Pat.Matcher Pat.Modifiers Pat.ModifiersProofs Pat.Base64.
Import ListNotations.
Local Open Scope N_scope.

(* x / k and x mod k (k a literal) replaced by fresh q, r with x = k*q + r, r < k *)
Ltac dm_on x k :=
  let q := fresh "q" in let r := fresh "r" in
  pose proof (N.div_mod x k ltac:(lia)); pose proof (N.mod_upper_bound x k ltac:(lia));
  set (q := x / k) in *; set (r := x mod k) in *; clearbody q r.
Ltac dm1 :=
  match goal with
  | |- context [N.div ?x ?k] => dm_on x k
  | |- context [N.modulo ?x ?k] => dm_on x k
  | H : context [N.div ?x ?k] |- _ => dm_on x k
  | H : context [N.modulo ?x ?k] |- _ => dm_on x k
  end.
Ltac nlia := repeat dm1; lia.

(* induction three bytes at a time *)
Lemma list_ind3 : forall (P : bytes -> Prop),
  P [] -> (forall a, P [a]) -> (forall a b, P [a; b]) ->
  (forall a b c t, P t -> P (a :: b :: c :: t)) -> forall l, P l.
Proof.
  intros P H0 H1 H2 H3.
  fix IH 1. intros [|a [|b [|c t]]]; [exact H0|apply H1|apply H2|apply H3; apply IH].
Qed.

Lemma index_of_nth : forall (a : list N) (i : nat) (k : N), NoDup a -> (i < length a)%nat ->
  index_of (nth i a 0) a k = Some (k + N.of_nat i).
Proof.
  induction a as [|x t IH]; intros i k Hnd Hi; cbn [length] in Hi; [lia|].
  inversion Hnd as [|x0 t0 Hnotin Hnd']; subst. destruct i as [|i]; cbn [nth index_of].
  - rewrite N.eqb_refl. f_equal. lia.
  - destruct (x =? nth i t 0) eqn:E.
    + apply N.eqb_eq in E. exfalso. apply Hnotin. rewrite E. apply nth_In. lia.
    + rewrite IH by (assumption || lia). f_equal. lia.
Qed.

Lemma sextets_sext : forall a l, alphabet_ok a -> Forall (fun v => v < 64) l ->
  sextets a (map (sext a) l) = Some l.
Proof.
  intros a l [Hlen Hnd] Hl. induction Hl as [|v t Hv Ht IH]; cbn [map sextets]; [reflexivity|].
  unfold sext at 1. rewrite index_of_nth by (assumption || lia). rewrite IH. f_equal. f_equal. lia.
Qed.

Lemma enc_sextets_small : forall x, bytes_ok x -> Forall (fun v => v < 64) (enc_sextets x).
Proof.
  induction x as [|a|a b|a b c t IH] using list_ind3; intro H; cbn [enc_sextets].
  - constructor.
  - inversion H; subst. constructor; [nlia|]. constructor; [nlia|]. constructor.
  - inversion H as [|? ? Ha H']; subst. inversion H'; subst.
    constructor; [nlia|]. constructor; [nlia|]. constructor; [nlia|]. constructor.
  - inversion H as [|? ? Ha H']; subst. inversion H' as [|? ? Hb H'']; subst. inversion H'' as [|? ? Hc Ht]; subst.
    constructor; [nlia|]. constructor; [nlia|]. constructor; [nlia|]. constructor; [nlia|]. apply IH. exact Ht.
Qed.

Lemma unsextets_enc : forall x, bytes_ok x -> unsextets (enc_sextets x) = Some x.
Proof.
  induction x as [|a|a b|a b c t IH] using list_ind3; intro H.
  - reflexivity.
  - inversion H; subst. cbn [enc_sextets unsextets]. f_equal. f_equal. nlia.
  - inversion H as [|? ? Ha H']; subst. inversion H'; subst. cbn [enc_sextets unsextets].
    f_equal. f_equal; [nlia|]. f_equal. nlia.
  - inversion H as [|? ? Ha H']; subst. inversion H' as [|? ? Hb H'']; subst. inversion H'' as [|? ? Hc Ht]; subst.
    cbn [enc_sextets]. cbn [unsextets]. rewrite (IH Ht).
    f_equal. f_equal; [nlia|]. f_equal; [nlia|]. f_equal. nlia.
Qed.

Theorem b64_decode_encode : forall a x, alphabet_ok a -> bytes_ok x ->
  b64_decode a (b64_encode a x) = Some x.
Proof.
  intros a x Ha Hx. unfold b64_decode, b64_encode.
  rewrite sextets_sext by (assumption || apply enc_sextets_small; assumption).
  apply unsextets_enc. exact Hx.
Qed.

Lemma enc_sextets_length : forall x, length (enc_sextets x) = enc_len (length x).
Proof.
  induction x as [|a|a b|a b c t IH] using list_ind3; try reflexivity.
  cbn [enc_sextets length]. rewrite IH. unfold enc_len.
  replace ((S (S (S (length t))) * 8 + 5)%nat) with ((length t * 8 + 5) + 4 * 6)%nat by lia.
  rewrite Nat.div_add by lia. lia.
Qed.

Theorem b64_encode_length : forall a x, length (b64_encode a x) = enc_len (length x).
Proof. intros. unfold b64_encode. rewrite map_length. apply enc_sextets_length. Qed.

Lemma NoDup_by_memb : forall l : list N,
  (fix nd (l : list N) : bool :=
     match l with [] => true | x :: t => negb (existsb (N.eqb x) t) && nd t end) l = true -> NoDup l.
Proof.
  induction l as [|x t IH]; intro H; [constructor|].
  apply andb_true_iff in H. destruct H as [H1 H2]. constructor; [|apply IH; exact H2].
  intro Hin. apply negb_true_iff in H1. assert (existsb (N.eqb x) t = true).
  { apply existsb_exists. exists x. split; [exact Hin|apply N.eqb_refl]. } congruence.
Qed.

Example std_alphabet_ok : alphabet_ok std_alphabet.
Proof. split; [reflexivity|]. apply NoDup_by_memb. vm_compute. reflexivity. Qed.

(* the documented example: "This program cannot" -> VGhpcyBwcm9ncmFtIGNhbm5vdA, and
   its neighbour-independent part is the first permutation listed in text_patterns.md *)
Example doc_example :
  let t := [84;104;105;115;32;112;114;111;103;114;97;109;32;99;97;110;110;111;116] in
  firstn (core_len 0 (length t)) (skipn (core_start 0) (b64_encode std_alphabet t)) =
  [86;71;104;112;99;121;66;119;99;109;57;110;99;109;70;116;73;71;78;104;98;109;53;118;100].
Proof. vm_compute. reflexivity. Qed.

Lemma prefix_b_eqb_app : forall t rest, prefix_b N.eqb t (t ++ rest) = true.
Proof.
  induction t as [|x t IH]; intro rest; cbn [prefix_b app]; [reflexivity|].
  rewrite N.eqb_refl, IH. reflexivity.
Qed.

(* An encoded occurrence is genuine at the computed offset (ascii encoding). *)
Theorem b64_occurrence_genuine : forall a x t y pre post d,
  alphabet_ok a -> bytes_ok (x ++ t ++ y) ->
  (length x <= 2)%nat -> (length y <= 2)%nat -> t <> [] ->
  ((length x + length t + length y) mod 3 = 0)%nat ->
  d = pre ++ b64_encode a (x ++ t ++ y) ++ post ->
  b64_occ_at a false t (length x) (length y) d
             (length pre + core_start (length x)) (core_len (length x) (length t)) = true.
Proof.
  intros a x t y pre post d Ha Hb Hx Hy Ht Hmod ->.
  set (p := length x). set (n := length t). set (q := length y).
  set (E := b64_encode a (x ++ t ++ y)).
  assert (HE : length E = enc_len (p + n + q)).
  { unfold E. rewrite b64_encode_length, !app_length. fold p n q. f_equal. lia. }
  assert (Hn : (1 <= n)%nat) by (unfold n; destruct t; [congruence|cbn [length]; lia]).
  (* the core lies inside the encoding *)
  assert (Hcore : (core_start p + core_len p n <= enc_len (p + n + q))%nat).
  { unfold core_len, core_start, enc_len.
    assert ((p * 8 + 5) / 6 <= ((p + n) * 8 + 5) / 6)%nat by (apply Nat.div_le_mono; lia).
    assert (((p + n) * 8 + 5) / 6 <= ((p + n + q) * 8 + 5) / 6)%nat by (apply Nat.div_le_mono; lia).
    destruct (Nat.eqb ((p + n) mod 3) 0); lia. }
  unfold b64_occ_at. fold n. cbn [unit_of]. rewrite !Nat.mul_1_r.
  rewrite !andb_true_iff. repeat split.
  - apply Nat.leb_le. lia.
  - apply Nat.eqb_eq. reflexivity.
  - apply Nat.leb_le. rewrite !app_length. fold E. lia.
  - replace (length pre + core_start p - core_start p)%nat with (length pre) by lia.
    unfold window.
    rewrite skipn_app, skipn_all, Nat.sub_diag. cbn [app skipn].
    fold E. rewrite firstn_app, <- HE, firstn_all, Nat.sub_diag. cbn [firstn]. rewrite app_nil_r.
    rewrite Nat.eqb_refl. unfold E. rewrite b64_decode_encode by assumption.
    rewrite !app_length. fold p n q. replace (p + (n + q))%nat with (p + n + q)%nat by lia.
    rewrite Nat.eqb_refl. cbn [andb].
    unfold p. rewrite skipn_app, skipn_all, Nat.sub_diag. cbn [app skipn]. apply prefix_b_eqb_app.
Qed.
