(* Block scanning (C14): matches of blocks::Scanner as the merge of the
   per-block matches rebased by the block's base.

   [scan_one] is the pattern search on ONE block taken alone (what
   ScanContext::search_for_patterns does with base 0); the block scanner runs
   the same search on each block, rebases every match by the block's base
   (Match::rebase at the three call sites in handle_atom_match /
   verify_anchored_patterns), clears the unconfirmed chain matches between
   blocks and adds the match to the pattern's MatchList, which keeps one
   match per start offset. *)
From Coq Require Import List NArith Bool.
From YV Require Import Gen.ScanState.
Import ListNotations.
Local Open Scope N_scope.

(* (start, length, xor key + 1 or 0) *)
Definition mtch := (N * N * N)%type.
Definition m_start (m : mtch) : N := fst (fst m).
Definition m_len (m : mtch) : N := snd (fst m).
Definition rebase (base : N) (m : mtch) : mtch := (m_start m + base, m_len m, snd m).

(* MatchList::add: sorted by start, one entry per start.  Which of two
   matches with the same start survives depends on the pattern kind and on
   the insertion path; [keep] decides (any function: the theorems hold for all). *)
Fixpoint add (keep : mtch -> mtch -> mtch) (m : mtch) (l : list mtch) : list mtch :=
  match l with
  | [] => [m]
  | x :: r => if m_start m <? m_start x then m :: l
              else if m_start m =? m_start x then keep x m :: r
              else x :: add keep m r
  end.

Definition add_all (keep : mtch -> mtch -> mtch) (ms : list mtch) (l : list mtch) : list mtch :=
  fold_left (fun acc m => add keep m acc) ms l.

(* one block: search it alone, rebase, add *)
Definition scan_block (keep : mtch -> mtch -> mtch) (scan_one : list N -> list mtch)
                      (acc : list mtch) (b : N * list N) : list mtch :=
  add_all keep (map (rebase (fst b)) (scan_one (snd b))) acc.

Definition scan_blocks (keep : mtch -> mtch -> mtch) (scan_one : list N -> list mtch)
                       (blocks : list (N * list N)) : list mtch :=
  fold_left (scan_block keep scan_one) blocks [].

(* the matches scanning each block on its own reports, shifted *)
Definition shifted (scan_one : list N -> list mtch) (blocks : list (N * list N)) : list mtch :=
  flat_map (fun b => map (rebase (fst b)) (scan_one (snd b))) blocks.

Definition starts (l : list mtch) : list N := map m_start l.

(* [keep] returns one of its arguments *)
Definition selects (keep : mtch -> mtch -> mtch) : Prop := forall a b, keep a b = a \/ keep a b = b.

(* ---- patterns anchored at a fixed offset (`$a at N` as the only use) ----
   verify_anchored_patterns checks the literal at N - base inside every block;
   what happens when the block's base is past N is GENERATED from the source
   (overflowing_sub + skip, or a subtraction that saturates at 0). *)
Definition slice (f : list N) (a b : N) : list N := firstn (N.to_nat (b - a)) (skipn (N.to_nat a) f).
Fixpoint bytes_eqb (a b : list N) : bool :=
  match a, b with [], [] => true | x :: a', y :: b' => (x =? y) && bytes_eqb a' b' | _, _ => false end.

Definition anchored_rel (n base : N) : option N :=
  if anchored_skips_block_past_offset then (if base <=? n then Some (n - base) else None)
  else Some (n - base).

(* matches of the literal [lit] anchored at absolute offset [n] found in the block (base, len) of [file] *)
Definition anchored_block (file : list N) (n : N) (lit : list N) (b : N * N) : list mtch :=
  let len := N.of_nat (length lit) in
  match anchored_rel n (fst b) with
  | Some r => if (r + len <=? snd b) && bytes_eqb (slice file (fst b + r) (fst b + r + len)) lit
              then [(fst b + r, len, 0)] else []
  | None => []
  end.

Definition anchored_scan (keep : mtch -> mtch -> mtch) (file : list N) (n : N) (lit : list N) (blocks : list (N * N)) : list mtch :=
  fold_left (fun acc b => add_all keep (anchored_block file n lit b) acc) blocks [].
