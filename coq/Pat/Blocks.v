(* Block scanning (C14): matches of blocks::Scanner as the merge of the
   per-block matches rebased by the block's base.

   [scan_one] is the pattern search on ONE block taken alone (what
   ScanContext::search_for_patterns does with base 0); the block scanner runs
   the same search on each block, rebases every match by the block's base
   (Match::rebase at the three call sites in handle_atom_match /
   verify_anchored_patterns), clears the unconfirmed chain matches between
   blocks and adds the match to the pattern's MatchList, which keeps one
   match per start offset. *)
From Coq Require Import List NArith Bool.
From YV Require Import Gen.ScanState.
Import ListNotations.
Local Open Scope N_scope.

(* (start, length, xor key + 1 or 0) *)
Definition mtch := (N * N * N)%type.
Definition m_start (m : mtch) : N := fst (fst m).
Definition m_len (m : mtch) : N := snd (fst m).
Definition rebase (base : N) (m : mtch) : mtch := (m_start m + base, m_len m, snd m).

(* MatchList::add: sorted by start, one entry per start.  Which of two
   matches with the same start survives depends on the pattern kind and on
   the insertion path; [keep] decides (any function: the theorems hold for all). *)
Fixpoint add (keep : mtch -> mtch -> mtch) (m : mtch) (l : list mtch) : list mtch :=
  match l with
  | [] => [m]
  | x :: r => if m_start m <? m_start x then m :: l
              else if m_start m =? m_start x then keep x m :: r
              else x :: add keep m r
  end.

Definition add_all (keep : mtch -> mtch -> mtch) (ms : list mtch) (l : list mtch) : list mtch :=
  fold_left (fun acc m => add keep m acc) ms l.

(* one block: search it alone, rebase, add *)
Definition scan_block (keep : mtch -> mtch -> mtch) (scan_one : list N -> list mtch)
                      (acc : list mtch) (b : N * list N) : list mtch :=
  add_all keep (map (rebase (fst b)) (scan_one (snd b))) acc.

Definition scan_blocks (keep : mtch -> mtch -> mtch) (scan_one : list N -> list mtch)
                       (blocks : list (N * list N)) : list mtch :=
  fold_left (scan_block keep scan_one) blocks [].

(* the matches scanning each block on its own reports, shifted *)
Definition shifted (scan_one : list N -> list mtch) (blocks : list (N * list N)) : list mtch :=
  flat_map (fun b => map (rebase (fst b)) (scan_one (snd b))) blocks.

Definition starts (l : list mtch) : list N := map m_start l.

(* [keep] returns one of its arguments *)
Definition selects (keep : mtch -> mtch -> mtch) : Prop := forall a b, keep a b = a \/ keep a b = b.

(* ---- patterns anchored at a fixed offset (`$a at N` as the only use) ----
   verify_anchored_patterns checks the literal at N - base inside every block;
   what happens when the block's base is past N is GENERATED from the source
   (overflowing_sub + skip, or a subtraction that saturates at 0). *)
Definition slice (f : list N) (a b : N) : list N := firstn (N.to_nat (b - a)) (skipn (N.to_nat a) f).
Fixpoint bytes_eqb (a b : list N) : bool :=
  match a, b with [], [] => true | x :: a', y :: b' => (x =? y) && bytes_eqb a' b' | _, _ => false end.

Definition anchored_rel (n base : N) : option N :=
  if anchored_skips_block_past_offset then (if base <=? n then Some (n - base) else None)
  else Some (n - base).

(* matches of the literal [lit] anchored at absolute offset [n] found in the block (base, len) of [file] *)
Definition anchored_block (file : list N) (n : N) (lit : list N) (b : N * N) : list mtch :=
  let len := N.of_nat (length lit) in
  match anchored_rel n (fst b) with
  | Some r => if (r + len <=? snd b) && bytes_eqb (slice file (fst b + r) (fst b + r + len)) lit
              then [(fst b + r, len, 0)] else []
  | None => []
  end.

Definition anchored_scan (keep : mtch -> mtch -> mtch) (file : list N) (n : N) (lit : list N) (blocks : list (N * N)) : list mtch :=
  fold_left (fun acc b => add_all keep (anchored_block file n lit b) acc) blocks [].

(* ---- MatchList::add with the base of the block, and the snippets ----
   A listed match is (base, start, end).  add_b follows MatchList::add arm by
   arm; whether the two same-start arms move the base is GENERATED
   (ml_tail_arm_moves_base, ml_search_arm_moves_base). *)
Definition bmatch := (N * N * N)%type.
Definition b_base (m : bmatch) : N := fst (fst m).
Definition b_start (m : bmatch) : N := snd (fst m).
Definition b_end (m : bmatch) : N := snd m.

Fixpoint add_b (replace : bool) (m : bmatch) (l : list bmatch) : list bmatch :=
  match l with
  | [] => [m]                                        (* None => push *)
  | x :: r =>
      if b_start m <? b_start x then m :: l          (* Err(index) => insert *)
      else if b_start m =? b_start x then
        match r with
        | [] =>                                      (* same start as the LAST match: replaced (GENERATED: only when longer) *)
            [if replace && (if ml_tail_arm_only_if_longer then b_end x <? b_end m else true)
             then ((if ml_tail_arm_moves_base then b_base m else b_base x), b_start x, b_end m) else x]
        | _ =>                                       (* found by the binary search: replaced when longer *)
            (if replace && (b_end x <? b_end m)
             then ((if ml_search_arm_moves_base then b_base m else b_base x), b_start x, b_end m) else x) :: r
        end
      else x :: add_b replace m r                    (* push at the end / keep searching *)
  end.

(* snippets: (offset where the snippet starts, length) *)
Definition snippet := (N * N)%type.
Definition covers (s : snippet) (m : bmatch) : bool := (fst s <=? b_start m) && (b_end m <=? fst s + snd s).

(* Entry::Occupied => replaced when longer; Entry::Vacant => inserted *)
Fixpoint put_snippet (s : snippet) (l : list snippet) : list snippet :=
  match l with
  | [] => [s]
  | x :: r => if fst x =? fst s then (if snd x <? snd s then s else x) :: r else x :: put_snippet s r
  end.

(* blocks::Scanner::scan after the search of block (base, len): a snippet for
   every listed match that belongs to the block *)
Definition collect_snippets (ctx : N) (blk : N * N) (ms : list bmatch) (snips : list snippet) : list snippet :=
  fold_left (fun acc m =>
    if (b_base m =? fst blk) && (if snippet_filter_checks_end then b_end m <=? fst blk + snd blk else true)
    then let cs := N.max (b_start m - ctx) (fst blk) in
         let ce := N.min (b_end m + ctx) (fst blk + snd blk) in
         put_snippet (cs, ce - cs) acc
    else acc) ms snips.

(* one block: the matches found in it (absolute ranges, replace flag) are added, then snippets are collected *)
Definition scan_block_b (ctx : N) (st : list bmatch * list snippet) (b : (N * N) * list (N * N * bool))
  : list bmatch * list snippet :=
  let blk := fst b in
  let ms := fold_left (fun acc f => add_b (snd f) (fst blk, fst (fst f), snd (fst f)) acc) (snd b) (fst st) in
  (ms, collect_snippets ctx blk ms (snd st)).

Definition scan_blocks_b (ctx : N) (bs : list ((N * N) * list (N * N * bool))) : list bmatch * list snippet :=
  fold_left (scan_block_b ctx) bs ([], []).

(* the matches reported for a block lie inside it *)
Definition found_in_block (b : (N * N) * list (N * N * bool)) : Prop :=
  forall f, In f (snd b) -> fst (fst b) <= fst (fst f) /\ fst (fst f) <= snd (fst f) /\ snd (fst f) <= fst (fst b) + snd (fst b).

(* ---- header constraints in block mode ----
   A rule `$a at 0 and ...` (text literal) makes the compiler attach the header
   constraint "the data starts with $a's bytes" to the rule's patterns;
   search_for_patterns disables those patterns (for the rest of the sequence)
   when a block does not satisfy it.  Which blocks are consulted is GENERATED
   (header_pruning_only_at_base_zero, header_pruning_requires_covering_block). *)
Definition hdr_unsatisfied (file hdr : list N) (b : N * N) : bool :=
  negb ((N.of_nat (length hdr) <=? snd b) && bytes_eqb (slice file (fst b) (fst b + N.of_nat (length hdr))) hdr).

(* the block is taken as evidence that the rule cannot match *)
Definition hdr_evidence (file hdr : list N) (b : N * N) : bool :=
  (if header_pruning_only_at_base_zero then fst b =? 0 else true) &&
  (if header_pruning_requires_covering_block then N.of_nat (length hdr) <=? snd b else true) &&
  hdr_unsatisfied file hdr b.

(* per block, in delivery order: is the block searched for the rule's patterns?
   (the check of a block precedes its own search; once disabled, disabled until the next reset) *)
Fixpoint live_blocks (file hdr : list N) (disabled : bool) (bs : list (N * N)) : list bool :=
  match bs with
  | [] => []
  | b :: r => let d := disabled || hdr_evidence file hdr b in negb d :: live_blocks file hdr d r
  end.
