(* Correspondence cases for C14.  A case holds a virtual file, the blocks
   (slices of it, in delivery order), the matches yara_x::Scanner reports for
   every block scanned alone, and what blocks::Scanner reported for the whole
   sequence (matches with their data and context windows, and the verdicts of
   rules using at / in / #).
   [check_case] (K): the block scanner's match lists are what the model
   [scan_blocks] computes from the per-block results (for one of the
   same-start policies), sorted with one match per start; per-block matches
   lie inside their block.
   [spec_case] (S): the union property on the implementation's own outputs. *)
From Coq Require Import List NArith Bool.
From YV Require Import Pat.Blocks Gen.ScanState Scanner.State.
Import ListNotations.
Local Open Scope N_scope.

Inductive dkind := DAt (k : N) | DIn (lo hi : N) | DCountGe (n : N).

(* a reported match: (match, data(), data_with_context().0, start of the match inside the window) *)
Definition rmatch := (mtch * list N * list N * N)%type.
Definition rm_m (r : rmatch) : mtch := fst (fst (fst r)).

Record case := mkCase {
  c_file : list N;
  c_ctx : N;
  c_blocks : list (N * N);                 (* (base, length) *)
  c_per_block : list (list (list mtch));   (* per block, per pattern *)
  c_block_res : list (list rmatch);        (* per pattern *)
  c_derived : list (N * dkind * bool);     (* (pattern, kind, verdict of the rule in block mode) *)
  (* whole-file cases only: (history, notion, "is it defined in block mode?") with
     history 0 = block scanner created on a fresh thread, 1 = converted from a Scanner that scanned a file,
     2 = fresh block scanner after another scanner scanned a file on this thread;
     notion 0 = filesize, 1 = uintN readers, 2 = hash functions, 3 = module fields, 4 = math on data,
     5 = items of a module's array of structures *)
  c_whole : list (N * N * bool);
  (* rules `$a at n or ...`: (n, the literal, did the rule match?, the matches reported for $a) *)
  c_anchored : list (N * list N * bool * list rmatch);
  (* MatchList::add driven directly (hook): the calls (base, start, end, replace_if_longer) and the final list (base, start, end) *)
  c_ml : list (list (N * N * N * bool) * list (N * N * N));
  (* rules `$a <where> and $b`: (kind, n, $a's literal, index j of the plain rule with $b's pattern,
     did the rule match?, starts of the matches reported for $b); kind 0: `$a at 0` (header constraint),
     1: `$a at n`, 2: `$a in (0..n)` *)
  c_hdr : list (N * N * list N * N * bool * list N) }.

Definition mtch_eqb (a b : mtch) : bool :=
  (m_start a =? m_start b) && (m_len a =? m_len b) && (snd a =? snd b).
Fixpoint list_eqb {A} (e : A -> A -> bool) (a b : list A) : bool :=
  match a, b with [], [] => true | x :: a', y :: b' => e x y && list_eqb e a' b' | _, _ => false end.

(* per-pattern shifted matches of all blocks, in delivery order *)
Definition shifted_of (k : case) (p : nat) : list mtch :=
  flat_map (fun bm => map (rebase (fst (fst bm))) (nth p (snd bm) [])) (combine (c_blocks k) (c_per_block k)).

Definition keep_old (a b : mtch) : mtch := a.
Definition keep_new (a b : mtch) : mtch := b.
Definition keep_longer (a b : mtch) : mtch := if m_len a <? m_len b then b else a.

Definition model_of (keep : mtch -> mtch -> mtch) (k : case) (p : nat) : list mtch :=
  fold_left (fun acc bm => add_all keep (map (rebase (fst (fst bm))) (nth p (snd bm) [])) acc)
            (combine (c_blocks k) (c_per_block k)) [].

Definition npat (k : case) : nat := length (c_block_res k).

Definition within_ok (k : case) : bool :=
  forallb (fun bm => forallb (fun ms => forallb (fun m => m_start m + m_len m <=? snd (fst bm)) ms) (snd bm))
          (combine (c_blocks k) (c_per_block k)).

(* what the state model of C04 says about whole-file notions in block mode *)
Definition R_w : rules_env := mkRules (fun _ => true) (fun _ => 0).
Definition eff_w : cell -> N := fun c => match c with CTL _ => 9 | _ => 0 end.
Definition whole_history (h : N) : list op :=
  match h with
  | 0 => [OIntoBlocks]
  | 1 => [OScan 5 eff_w Complete; OIntoBlocks]
  | _ => [OOther eff_w; OIntoBlocks]
  end.
Definition whole_model (h notion : N) : bool :=
  let st := probe_block R_w 3 (run R_w (whole_history h) fresh) in
  match notion with
  | 0 => negb (st CGFilesize =? fresh CGFilesize)
  | 2 => negb (st (CTL tl_hash_MD5_CACHE) =? 0)
  | 3 | 5 => negb (st CRootModules =? fresh CRootModules)     (* module fields; items of module struct arrays *)
  | _ => false     (* readers of the scanned data find none in block mode (ScanContext::scanned_data) *)
  end.

(* what verify_anchored_patterns (GENERATED anchor rule) finds for an anchored literal *)
Definition anchored_k_ok (k : case) (a : N * list N * bool * list rmatch) : bool :=
  let '(n, lit, matched, res) := a in
  negb matched ||
  (let obs := map rm_m res in
   list_eqb mtch_eqb obs (anchored_scan keep_new (c_file k) n lit (c_blocks k))).

Definition bm_eqb (a b : bmatch) : bool :=
  (b_base a =? b_base b) && (b_start a =? b_start b) && (b_end a =? b_end b).
Definition ml_ok (x : list (N * N * N * bool) * list (N * N * N)) : bool :=
  let model := fold_left (fun acc a => let '(b, s, e, r) := a in add_b r (b, s, e) acc) (fst x) [] in
  list_eqb bm_eqb (snd x) model.

Fixpoint sorted_starts (l : list mtch) : bool :=
  match l with
  | a :: ((b :: _) as t) => (m_start a <? m_start b) && sorted_starts t
  | _ => true
  end.

(* is the literal at absolute offset p, inside one of the given blocks? *)
Definition lit_at (k : case) (lit : list N) (bs : list (N * N)) (p : N) : bool :=
  let len := N.of_nat (length lit) in
  existsb (fun b => (fst b <=? p) && (p + len <=? fst b + snd b)) bs && bytes_eqb (slice (c_file k) p (p + len)) lit.

Definition a_holds (k : case) (kind n : N) (lit : list N) (bs : list (N * N)) : bool :=
  match kind with
  | 0 => lit_at k lit bs 0
  | 1 => lit_at k lit bs n
  | _ => existsb (lit_at k lit bs) (map N.of_nat (seq 0 (Datatypes.S (N.to_nat n))))
  end.

Fixpoint select {A} (l : list A) (keep : list bool) : list A :=
  match l, keep with x :: l', b :: k' => if b then x :: select l' k' else select l' k' | _, _ => [] end.

(* the starts of $b's matches coming from the selected blocks *)
Definition b_starts (k : case) (j : nat) (live : list bool) : list N :=
  let bm := select (combine (c_blocks k) (c_per_block k)) live in
  map m_start (fold_left (fun acc x => add_all keep_longer (map (rebase (fst (fst x))) (nth j (snd x) [])) acc) bm []).

Definition hdr_ok (model : bool) (k : case) (h : N * N * list N * N * bool * list N) : bool :=
  let '(kind, n, lit, j, verdict, starts_obs) := h in
  let live := if model && (kind =? 0) then live_blocks (c_file k) lit false (c_blocks k)
              else map (fun _ => true) (c_blocks k) in
  let bs := select (c_blocks k) live in
  let bst := b_starts k (N.to_nat j) live in
  let expected := a_holds k kind n lit bs && negb (match bst with [] => true | _ => false end) in
  Bool.eqb verdict expected && (negb verdict || list_eqb N.eqb starts_obs bst).

Definition check_case (k : case) : bool :=
  forallb (hdr_ok true k) (c_hdr k) &&
  forallb ml_ok (c_ml k) &&
  forallb (anchored_k_ok k) (c_anchored k) &&
  forallb (fun w => let '(h, notion, defined) := w in Bool.eqb defined (whole_model h notion)) (c_whole k) &&
  Nat.eqb (length (c_blocks k)) (length (c_per_block k)) && within_ok k &&
  (* what blocks_union states for every same-start policy: the reported list is strictly ascending
     by start, every reported match is a shifted per-block match, and the starts are exactly the
     starts of the model (the exact MatchList::add behaviour, position dependent, is compared
     call by call in [ml_ok]) *)
  forallb (fun p =>
    let obs := map rm_m (nth p (c_block_res k) []) in
    let model := model_of keep_longer k p in
    sorted_starts obs && forallb (fun m => existsb (mtch_eqb m) (shifted_of k p)) obs &&
    list_eqb N.eqb (map m_start obs) (map m_start model))
    (seq 0 (npat k)).

Definition mem (m : mtch) (l : list mtch) : bool := existsb (mtch_eqb m) l.

Definition data_ok (k : case) (r : rmatch) : bool :=
  let m := rm_m r in
  list_eqb N.eqb (snd (fst (fst r))) (slice (c_file k) (m_start m) (m_start m + m_len m)).

(* the context window holds the file's bytes around the match: it contains
   the match, reaches at most c_ctx bytes to each side, and lies inside a
   delivered block that contains the match (how much of the available context
   is returned is not specified: snippets of neighbouring matches are shared) *)
Definition ctx_ok (k : case) (r : rmatch) : bool :=
  let m := rm_m r in
  let s := m_start m in let e := m_start m + m_len m in
  let rel := snd r in
  let w := snd (fst r) in
  let ws := s - rel in
  let we := ws + N.of_nat (length w) in
  (rel <=? s) && (rel <=? c_ctx k) && (e <=? we) && (we <=? e + c_ctx k) &&
  list_eqb N.eqb w (slice (c_file k) ws we) &&
  existsb (fun b => (fst b <=? ws) && (we <=? fst b + snd b)) (c_blocks k).

Definition derived_ok (k : case) (d : N * dkind * bool) : bool :=
  let '(p, kind, verdict) := d in
  let ms := map rm_m (nth (N.to_nat p) (c_block_res k) []) in
  Bool.eqb verdict
    match kind with
    | DAt a => existsb (fun m => m_start m =? a) ms
    | DIn lo hi => existsb (fun m => (lo <=? m_start m) && (m_start m <=? hi)) ms
    | DCountGe n => n <=? N.of_nat (length ms)
    end.

(* a pattern anchored at absolute offset n is reported exactly when the
   literal is at n inside a delivered block, and nowhere else *)
Definition anchored_s_ok (k : case) (a : N * list N * bool * list rmatch) : bool :=
  let '(n, lit, matched, res) := a in
  negb matched ||
  (let len := N.of_nat (length lit) in
   let present := existsb (fun b => (fst b <=? n) && (n + len <=? fst b + snd b)) (c_blocks k)
                  && bytes_eqb (slice (c_file k) n (n + len)) lit in
   if present
   then match res with [r] => mtch_eqb (rm_m r) (n, len, 0) && data_ok k r && ctx_ok k r | _ => false end
   else match res with [] => true | _ => false end).

Definition spec_case (k : case) : bool :=
  (* `$a at 0 / at n / in (0..n) and $b`: the rule matches exactly when $a is where it must be inside a delivered
     block and $b occurs in some block; whatever pruning the conditions allow must not change that *)
  forallb (hdr_ok false k) (c_hdr k) &&
  forallb (anchored_s_ok k) (c_anchored k) &&
  forallb (fun p =>
    let res := nth p (c_block_res k) [] in
    let sh := shifted_of k p in
    (* no invented match, none spanning two blocks *)
    forallb (fun r => mem (rm_m r) sh) res &&
    (* none lost *)
    forallb (fun m => existsb (fun r => m_start (rm_m r) =? m_start m) res) sh &&
    (* bytes returned are the block's bytes at that range; window clipped to the block *)
    forallb (data_ok k) res && forallb (ctx_ok k) res)
    (seq 0 (npat k)) &&
  (* at / in / # see absolute offsets *)
  forallb (derived_ok k) (c_derived k) &&
  (* whole-file notions are undefined in block mode *)
  forallb (fun w => negb (snd w)) (c_whole k).
