(* C14 with a concrete per-block search for the literal family: the scan
   pipeline of Pat/Pipeline.v (handle_atom_match + PatternMatches::add; the
   architecture model of C01) run in block mode.

   In block mode ScanContext::search_for_patterns receives (base, data): every
   match that handle_atom_match yields for the block's data is rebased by the
   block's base (Match::new(range).rebase(base) at every call site in
   handle_atom_match) before it reaches PatternMatches::add.  Definitions only. *)
From Coq Require Import List NArith Bool Arith.
From YV Require Import Pat.Syntax Pat.MatchList Pat.Atoms Pat.Pipeline Pat.Blocks.
Import ListNotations.
Local Open Scope N_scope.

(* Match::rebase on the record used by the pipeline model *)
Definition shift_m (b : N) (m : MatchList.mtch) : MatchList.mtch :=
  mkM (MatchList.m_start m + b) (MatchList.m_end m + b) (MatchList.m_key m).

(* sub-patterns that are not anchored at a fixed offset (those are verified by
   verify_anchored_patterns, modelled by Blocks.anchored_scan) *)
Definition unanchored (sp : subpat) : bool :=
  match sp_kind sp with KLiteral _ (Some _) => false | _ => true end.

(* the pipeline on the block (base, d): the matches found in d, rebased, then added
   ([rf]: the replace_if_longer flag the pipeline passes to PatternMatches::add) *)
Definition scan_pipeline_at (rf : bool) (base : N) (sps : list subpat) (atoms : list atom) (hits : list hit) (d : bytes) : match_list :=
  run_adds (map (fun r => (shift_m base (mtch_of r), rf))
                (flat_map (fun h => opt_list (handle_hit sps atoms d h)) hits)).

(* the pipeline of Pat/Pipeline.v, with the flag made explicit *)
Definition scan_pipeline_rf (rf : bool) (sps : list subpat) (atoms : list atom) (hits : list hit) (d : bytes) : match_list :=
  run_adds (map (fun r => (mtch_of r, rf))
                (flat_map (fun sp => opt_list (verify_anchored sp d)) sps ++
                 flat_map (fun h => opt_list (handle_hit sps atoms d h)) hits)).

(* the matches as Blocks.v sees them: (start, length, xor key + 1 or 0) *)
Definition to_blk (m : MatchList.mtch) : Blocks.mtch :=
  (MatchList.m_start m, MatchList.m_end m - MatchList.m_start m,
   match MatchList.m_key m with Some k => k + 1 | None => 0 end).

(* the concrete per-block search of the literal family: the pipeline on the
   block alone, fed with every occurrence of every atom *)
Definition scan_one_literal (sps : list subpat) (atoms : list atom) (d : list N) : list Blocks.mtch :=
  map to_blk (scan_pipeline sps atoms (all_hits atoms d) d).
