(* Offset translation for the literal-family pipeline and the instantiation of
   blocks_union with a concrete per-block search. *)
From Coq Require Import List NArith Bool Arith Lia.
From YV Require Import Pat.Syntax Pat.MatchList Pat.Atoms Pat.Pipeline Pat.Blocks Pat.BlocksProofs Pat.BlocksPipeline.
Import ListNotations.
Local Open Scope N_scope.

Local Notation ms := MatchList.m_start.
Local Notation me := MatchList.m_end.

Lemma shift_start b m : ms (shift_m b m) = ms m + b. Proof. reflexivity. Qed.
Lemma shift_end b m : me (shift_m b m) = me m + b. Proof. reflexivity. Qed.

Lemma last_opt_map b l : last_opt (map (shift_m b) l) = option_map (shift_m b) (last_opt l).
Proof.
  induction l as [|x t IH]; [reflexivity|]. destruct t as [|y t']; [reflexivity|].
  change (map (shift_m b) (x :: y :: t')) with (shift_m b x :: map (shift_m b) (y :: t')).
  cbn [last_opt]. cbn [last_opt map] in IH. exact IH.
Qed.

Lemma map_at_map b i f g l :
  (forall x, g (shift_m b x) = shift_m b (f x)) ->
  map_at i g (map (shift_m b) l) = map (shift_m b) (map_at i f l).
Proof.
  intros H. revert i. induction l as [|x t IH]; intros i; destruct i; cbn; try reflexivity.
  - rewrite H. reflexivity.
  - rewrite IH. reflexivity.
Qed.

Lemma insert_at_map b i m l :
  insert_at i (shift_m b m) (map (shift_m b) l) = map (shift_m b) (insert_at i m l).
Proof.
  revert i. induction l as [|x t IH]; intros i; destruct i; cbn; try reflexivity.
  rewrite IH. reflexivity.
Qed.

Lemma search_map b l off : ml_search (map (shift_m b) l) (off + b) = ml_search l off.
Proof.
  induction l as [|x t IH]; [reflexivity|]. cbn [map ml_search]. rewrite shift_start.
  assert (E1 : (off + b <=? ms x + b) = (off <=? ms x)).
  { destruct (off <=? ms x) eqn:A; [apply N.leb_le in A; apply N.leb_le; lia|apply N.leb_gt in A; apply N.leb_gt; lia]. }
  assert (E2 : (ms x + b =? off + b) = (ms x =? off)).
  { destruct (ms x =? off) eqn:A; [apply N.eqb_eq in A; apply N.eqb_eq; lia|apply N.eqb_neq in A; apply N.eqb_neq; lia]. }
  rewrite E1, E2, IH. reflexivity.
Qed.

Lemma ltb_shift a c b : (a + b <? c + b) = (a <? c).
Proof. destruct (a <? c) eqn:A; [apply N.ltb_lt in A; apply N.ltb_lt; lia|apply N.ltb_ge in A; apply N.ltb_ge; lia]. Qed.

(* MatchList::add commutes with Match::rebase: the list only compares offsets with each other *)
Lemma ml_add_shift b l m r :
  ml_add (map (shift_m b) l) (shift_m b m) r = (map (shift_m b) (fst (ml_add l m r)), snd (ml_add l m r)).
Proof.
  unfold ml_add. rewrite last_opt_map. destruct (last_opt l) as [last|]; cbn [option_map].
  - rewrite !shift_start.
    assert (E1 : (ms last + b <? ms m + b) = (ms last <? ms m)).
    { destruct (ms last <? ms m) eqn:A; [apply N.ltb_lt in A; apply N.ltb_lt; lia|apply N.ltb_ge in A; apply N.ltb_ge; lia]. }
    assert (E2 : (ms m + b =? ms last + b) = (ms m =? ms last)).
    { destruct (ms m =? ms last) eqn:A; [apply N.eqb_eq in A; apply N.eqb_eq; lia|apply N.eqb_neq in A; apply N.eqb_neq; lia]. }
    rewrite E1, E2. destruct (ms last <? ms m).
    + cbn [fst snd]. rewrite map_app. reflexivity.
    + destruct (ms m =? ms last).
      * (* the `same start as the last match` arm, whether or not it compares the ends *)
        cbn [fst snd]. rewrite ?map_length.
        repeat match goal with |- context [me (shift_m b ?x)] => rewrite (shift_end b x) end.
        rewrite ?ltb_shift.
        destruct r; cbn [andb]; try reflexivity;
        try (match goal with |- context [if (?a <? ?c) then _ else _] => destruct (a <? c) end; try reflexivity);
        (rewrite (map_at_map b _ (fun x => set_end x (me m))); [reflexivity|intros x; reflexivity]).
      * rewrite search_map. destruct (ml_search l (ms m)) as [[|] i].
        -- destruct r; cbn [fst snd]; [|reflexivity].
           rewrite (map_at_map b _ (fun ex => if me ex <? me m then set_end ex (me m) else ex)); [reflexivity|].
           intros x. rewrite !shift_end.
           assert (E3 : (me x + b <? me m + b) = (me x <? me m)).
           { destruct (me x <? me m) eqn:A; [apply N.ltb_lt in A; apply N.ltb_lt; lia|apply N.ltb_ge in A; apply N.ltb_ge; lia]. }
           rewrite E3. destruct (me x <? me m); reflexivity.
        -- cbn [fst snd]. rewrite insert_at_map. reflexivity.
  - cbn [fst snd]. rewrite map_app. reflexivity.
Qed.

Lemma run_adds_shift b ops :
  run_adds (map (fun o => (shift_m b (fst o), snd o)) ops) = map (shift_m b) (run_adds ops).
Proof.
  unfold run_adds.
  assert (G : forall acc, fold_left (fun l (o : MatchList.mtch * bool) => fst (ml_add l (fst o) (snd o)))
                                    (map (fun o => (shift_m b (fst o), snd o)) ops) (map (shift_m b) acc)
                          = map (shift_m b) (fold_left (fun l (o : MatchList.mtch * bool) => fst (ml_add l (fst o) (snd o))) ops acc)).
  { induction ops as [|o t IH]; intros acc; [reflexivity|]. cbn [map fold_left fst snd].
    rewrite ml_add_shift. cbn [fst]. apply IH. }
  exact (G []).
Qed.

Lemma no_anchored_matches sps d : forallb unanchored sps = true ->
  flat_map (fun sp => opt_list (verify_anchored sp d)) sps = [].
Proof.
  induction sps as [|sp t IH]; intros H; [reflexivity|]. cbn [forallb] in H. apply andb_true_iff in H. destruct H as [U H].
  cbn [flat_map]. rewrite (IH H). unfold verify_anchored, unanchored in *.
  destruct (sp_kind sp) as [lit [off|]| | | |]; try discriminate U; reflexivity.
Qed.

(* C14, literal family: the pipeline run on a block delivered at base b yields
   exactly the matches of the pipeline run on the block alone, shifted by b -
   for every list of sub-patterns (not anchored at a fixed offset), atoms, hit
   order, block content and replace_if_longer flag *)
Theorem pipeline_offset_translation_rf : forall rf base sps atoms hits d,
  forallb unanchored sps = true ->
  scan_pipeline_at rf base sps atoms hits d = map (shift_m base) (scan_pipeline_rf rf sps atoms hits d).
Proof.
  intros rf base sps atoms hits d U. unfold scan_pipeline_at, scan_pipeline_rf.
  rewrite (no_anchored_matches sps d U). cbn [app].
  rewrite <- (run_adds_shift base). rewrite map_map. reflexivity.
Qed.

(* the pipeline model of C01 is the one above for the flag it passes *)
Lemma scan_pipeline_flag : exists rf, forall sps atoms hits d,
  scan_pipeline sps atoms hits d = scan_pipeline_rf rf sps atoms hits d.
Proof. first [exists false; intros; reflexivity | exists true; intros; reflexivity]. Qed.

Theorem pipeline_offset_translation : exists rf, forall base sps atoms hits d,
  forallb unanchored sps = true ->
  scan_pipeline_at rf base sps atoms hits d = map (shift_m base) (scan_pipeline sps atoms hits d).
Proof.
  destruct scan_pipeline_flag as [rf F]. exists rf. intros base sps atoms hits d U.
  rewrite F. apply pipeline_offset_translation_rf, U.
Qed.

Lemma to_blk_shift b m : to_blk (shift_m b m) = Blocks.rebase b (to_blk m).
Proof.
  unfold to_blk, Blocks.rebase, Blocks.m_start, Blocks.m_len. cbn.
  f_equal. f_equal. lia.
Qed.

(* ... so what the block scanner adds for the block (base, d) is scan_one_literal d rebased *)
Corollary block_pipeline_is_scan_one_rebased : exists rf, forall base sps atoms d,
  forallb unanchored sps = true ->
  map to_blk (scan_pipeline_at rf base sps atoms (all_hits atoms d) d)
  = map (Blocks.rebase base) (scan_one_literal sps atoms d).
Proof.
  destruct pipeline_offset_translation as [rf T]. exists rf. intros base sps atoms d U. rewrite T by exact U.
  unfold scan_one_literal. rewrite !map_map. apply map_ext. intros m. apply to_blk_shift.
Qed.

(* blocks_union instantiated with the concrete per-block search of the literal family *)
Theorem blocks_union_literal_family : forall keep sps atoms blocks, selects keep ->
  (forall x, In x (scan_blocks keep (scan_one_literal sps atoms) blocks) -> In x (shifted (scan_one_literal sps atoms) blocks)) /\
  (forall s, In s (starts (scan_blocks keep (scan_one_literal sps atoms) blocks)) <->
             In s (starts (shifted (scan_one_literal sps atoms) blocks))).
Proof. intros keep sps atoms blocks K. exact (blocks_union keep (scan_one_literal sps atoms) blocks K). Qed.

(* the literal "abc" (atom = the literal itself) in the block "xabcabc" delivered at base 100 *)
Example pipeline_translation_example :
  let fl := mkF false false false false in
  let sps := [mkSP (KLiteral [97; 98; 99] None) fl] in
  let atoms := [mkAtom 0 [97; 98; 99] 0 false] in
  let d := [120; 97; 98; 99; 97; 98; 99] in
  forallb unanchored sps = true /\
  map to_blk (scan_pipeline_at true 100 sps atoms (all_hits atoms d) d) = [(101, 3, 0); (104, 3, 0)] /\
  scan_one_literal sps atoms d = [(1, 3, 0); (4, 3, 0)].
Proof. vm_compute. repeat split. Qed.
