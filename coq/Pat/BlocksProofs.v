From Coq Require Import List NArith Bool Lia.
From YV Require Import Gen.ScanState Pat.Blocks.
Import ListNotations.
Local Open Scope N_scope.

Lemma add_in : forall keep m l x, selects keep -> In x (add keep m l) -> x = m \/ In x l.
Proof.
  intros keep m l x K. induction l as [|y r IH]; cbn; intros H.
  - destruct H as [H|[]]. left. symmetry. exact H.
  - destruct (m_start m <? m_start y).
    + destruct H as [H|H]; [left; symmetry; exact H|right; exact H].
    + destruct (m_start m =? m_start y).
      * destruct H as [H|H]; [|right; right; exact H].
        destruct (K y m) as [E|E]; rewrite E in H; [right; left; exact H|left; symmetry; exact H].
      * destruct H as [H|H]; [right; left; exact H|].
        destruct (IH H) as [E|E]; [left; exact E|right; right; exact E].
Qed.

Lemma add_starts : forall keep m l s, selects keep ->
  (In s (starts (add keep m l)) <-> s = m_start m \/ In s (starts l)).
Proof.
  intros keep m l s K. induction l as [|y r IH]; cbn.
  - split; intros [H|[]]; left; symmetry; exact H.
  - destruct (m_start m <? m_start y) eqn:L; cbn.
    + split; intros H; [destruct H as [H|H]; [left; symmetry; exact H|right; exact H]
                       |destruct H as [H|H]; [left; symmetry; exact H|right; exact H]].
    + destruct (m_start m =? m_start y) eqn:E; cbn.
      * apply N.eqb_eq in E.
        assert (Sk : m_start (keep y m) = m_start y) by (destruct (K y m) as [X|X]; rewrite X; congruence).
        rewrite Sk. split; intros H.
        -- destruct H as [H|H]; [right; left; exact H|right; right; exact H].
        -- destruct H as [H|[H|H]]; [left; congruence|left; exact H|right; exact H].
      * rewrite IH. tauto.
Qed.

Lemma add_all_in : forall keep ms l x, selects keep -> In x (add_all keep ms l) -> In x ms \/ In x l.
Proof.
  intros keep ms. induction ms as [|m r IH]; intros l x K H; cbn in *.
  - right. exact H.
  - destruct (IH _ _ K H) as [A|A]; [left; right; exact A|].
    destruct (add_in _ _ _ _ K A) as [B|B]; [left; left; symmetry; exact B|right; exact B].
Qed.

Lemma add_all_starts : forall keep ms l s, selects keep ->
  (In s (starts (add_all keep ms l)) <-> In s (starts ms) \/ In s (starts l)).
Proof.
  intros keep ms. induction ms as [|m r IH]; intros l s K.
  - cbn. tauto.
  - change (add_all keep (m :: r) l) with (add_all keep r (add keep m l)).
    rewrite IH by exact K. rewrite add_starts by exact K. cbn. intuition.
Qed.

Lemma scan_blocks_gen_in : forall keep scan_one blocks acc x, selects keep ->
  In x (fold_left (scan_block keep scan_one) blocks acc) -> In x (shifted scan_one blocks) \/ In x acc.
Proof.
  intros keep scan_one blocks. induction blocks as [|b r IH]; intros acc x K H; cbn in *.
  - right. exact H.
  - destruct (IH _ _ K H) as [A|A].
    + left. apply in_or_app. right. exact A.
    + unfold scan_block in A. destruct (add_all_in _ _ _ _ K A) as [B|B].
      * left. apply in_or_app. left. exact B.
      * right. exact B.
Qed.

Lemma scan_blocks_gen_starts : forall keep scan_one blocks acc s, selects keep ->
  (In s (starts (fold_left (scan_block keep scan_one) blocks acc)) <->
   In s (starts (shifted scan_one blocks)) \/ In s (starts acc)).
Proof.
  intros keep scan_one blocks. induction blocks as [|b r IH]; intros acc s K.
  - cbn. tauto.
  - cbn [fold_left]. rewrite IH by exact K. unfold scan_block. rewrite add_all_starts by exact K.
    cbn [shifted flat_map]. unfold starts. rewrite map_app. rewrite in_app_iff. tauto.
Qed.

(* C14: every match the block scanner reports is a match of some block
   scanned on its own, shifted by that block's base (none invented, none
   spanning two blocks), and every such match is represented (none lost):
   the start offsets coincide exactly.  For any order of the blocks, gaps,
   overlaps, empty and repeated blocks, and any per-block search function. *)
Theorem blocks_union : forall keep scan_one blocks, selects keep ->
  (forall x, In x (scan_blocks keep scan_one blocks) -> In x (shifted scan_one blocks)) /\
  (forall s, In s (starts (scan_blocks keep scan_one blocks)) <-> In s (starts (shifted scan_one blocks))).
Proof.
  intros keep scan_one blocks K. split.
  - intros x H. destruct (scan_blocks_gen_in _ _ _ _ _ K H) as [A|[]]. exact A.
  - intros s. unfold scan_blocks. rewrite scan_blocks_gen_starts by exact K. cbn. tauto.
Qed.

(* a reported match lies inside one block, if the per-block search only
   reports matches inside the data it was given (checked on every per-block
   result by the harness) *)
Definition within (scan_one : list N -> list mtch) : Prop :=
  forall d m, In m (scan_one d) -> m_start m + m_len m <= N.of_nat (length d).

Theorem no_cross_block_match : forall keep scan_one blocks, selects keep -> within scan_one ->
  forall x, In x (scan_blocks keep scan_one blocks) ->
    exists b, In b blocks /\ fst b <= m_start x /\ m_start x + m_len x <= fst b + N.of_nat (length (snd b)).
Proof.
  intros keep scan_one blocks K W x H.
  apply (proj1 (blocks_union keep scan_one blocks K)) in H. unfold shifted in H.
  apply in_flat_map in H. destruct H as (b & Hb & Hx). apply in_map_iff in Hx. destruct Hx as (m & E & Hm).
  exists b. split; [exact Hb|]. subst x. specialize (W _ _ Hm). unfold rebase, m_start, m_len in *. cbn. lia.
Qed.

(* with one match per start in the union (no two blocks report different
   matches at the same absolute offset: always the case without overlaps)
   the block scanner reports exactly the union *)
Theorem blocks_union_exact : forall keep scan_one blocks, selects keep ->
  (forall a b, In a (shifted scan_one blocks) -> In b (shifted scan_one blocks) -> m_start a = m_start b -> a = b) ->
  forall x, In x (shifted scan_one blocks) -> In x (scan_blocks keep scan_one blocks).
Proof.
  intros keep scan_one blocks K U x H.
  destruct (blocks_union keep scan_one blocks K) as [A B].
  assert (Sx : In (m_start x) (starts (scan_blocks keep scan_one blocks))).
  { apply B. unfold starts. apply in_map. exact H. }
  unfold starts in Sx. apply in_map_iff in Sx. destruct Sx as (y & E & Hy).
  assert (y = x) by (apply U; [apply A; exact Hy|exact H|exact E]). subst y. exact Hy.
Qed.

(* a pattern anchored at absolute offset n only matches at n, inside a block
   that contains [n, n + len) (GENERATED: the block is skipped when its base
   is past the anchor) *)
Theorem anchored_only_at_offset : forall file n lit b m,
  In m (anchored_block file n lit b) ->
  m_start m = n /\ fst b <= n /\ n + N.of_nat (length lit) <= fst b + snd b.
Proof.
  intros file n lit b m H. unfold anchored_block, anchored_rel in H.
  change anchored_skips_block_past_offset with true in H. cbv iota in H.
  destruct (fst b <=? n) eqn:L; [|contradiction].
  apply N.leb_le in L.
  destruct ((n - fst b + N.of_nat (length lit) <=? snd b) &&
            bytes_eqb (slice file (fst b + (n - fst b)) (fst b + (n - fst b) + N.of_nat (length lit))) lit) eqn:C; [|contradiction].
  destruct H as [H|[]]. subst m. apply andb_true_iff in C. destruct C as [C _]. apply N.leb_le in C.
  unfold m_start. cbn. repeat split; lia.
Qed.

Theorem anchored_scan_only_at_offset : forall keep file n lit blocks m, selects keep ->
  In m (anchored_scan keep file n lit blocks) ->
  m_start m = n /\ exists b, In b blocks /\ fst b <= n /\ n + N.of_nat (length lit) <= fst b + snd b.
Proof.
  intros keep file n lit blocks m K. unfold anchored_scan.
  assert (G : forall acc, (forall x, In x acc -> m_start x = n /\ exists b, In b blocks /\ fst b <= n /\ n + N.of_nat (length lit) <= fst b + snd b) ->
              forall bl, incl bl blocks ->
              In m (fold_left (fun acc b => add_all keep (anchored_block file n lit b) acc) bl acc) ->
              m_start m = n /\ exists b, In b blocks /\ fst b <= n /\ n + N.of_nat (length lit) <= fst b + snd b).
  { intros acc Hacc bl. revert acc Hacc. induction bl as [|b r IH]; intros acc Hacc I H; cbn in H.
    - apply Hacc, H.
    - apply (IH (add_all keep (anchored_block file n lit b) acc)); [|intros x Hx; apply I; right; exact Hx|exact H].
      intros x Hx. destruct (add_all_in _ _ _ _ K Hx) as [A|A]; [|apply Hacc, A].
      destruct (anchored_only_at_offset _ _ _ _ _ A) as (E0 & L1 & L2). split; [exact E0|].
      exists b. split; [apply I; left; reflexivity|split; assumption]. }
  intros H. apply (G [] (fun x F => match F with end) blocks (incl_refl _) H).
Qed.

Example blocks_example :
  let keep := fun a b : mtch => if m_len a <? m_len b then b else a in
  let scan_one := fun d : list N => match d with [1; 2; 3] => [(0, 2, 0); (1, 2, 0)] | [2; 3] => [(0, 2, 0)] | _ => [] end in
  scan_blocks keep scan_one [(10, [2; 3]); (0, [1; 2; 3]); (5, []); (9, [1; 2; 3])] = [(0, 2, 0); (1, 2, 0); (9, 2, 0); (10, 2, 0)].
Proof. vm_compute. reflexivity. Qed.
