From Coq Require Import List NArith Bool Lia.
From YV Require Import Gen.ScanState Pat.Blocks.
Import ListNotations.
Local Open Scope N_scope.

Lemma add_in : forall keep m l x, selects keep -> In x (add keep m l) -> x = m \/ In x l.
Proof.
  intros keep m l x K. induction l as [|y r IH]; cbn; intros H.
  - destruct H as [H|[]]. left. symmetry. exact H.
  - destruct (m_start m <? m_start y).
    + destruct H as [H|H]; [left; symmetry; exact H|right; exact H].
    + destruct (m_start m =? m_start y).
      * destruct H as [H|H]; [|right; right; exact H].
        destruct (K y m) as [E|E]; rewrite E in H; [right; left; exact H|left; symmetry; exact H].
      * destruct H as [H|H]; [right; left; exact H|].
        destruct (IH H) as [E|E]; [left; exact E|right; right; exact E].
Qed.

Lemma add_starts : forall keep m l s, selects keep ->
  (In s (starts (add keep m l)) <-> s = m_start m \/ In s (starts l)).
Proof.
  intros keep m l s K. induction l as [|y r IH]; cbn.
  - split; intros [H|[]]; left; symmetry; exact H.
  - destruct (m_start m <? m_start y) eqn:L; cbn.
    + split; intros H; [destruct H as [H|H]; [left; symmetry; exact H|right; exact H]
                       |destruct H as [H|H]; [left; symmetry; exact H|right; exact H]].
    + destruct (m_start m =? m_start y) eqn:E; cbn.
      * apply N.eqb_eq in E.
        assert (Sk : m_start (keep y m) = m_start y) by (destruct (K y m) as [X|X]; rewrite X; congruence).
        rewrite Sk. split; intros H.
        -- destruct H as [H|H]; [right; left; exact H|right; right; exact H].
        -- destruct H as [H|[H|H]]; [left; congruence|left; exact H|right; exact H].
      * rewrite IH. tauto.
Qed.

Lemma add_all_in : forall keep ms l x, selects keep -> In x (add_all keep ms l) -> In x ms \/ In x l.
Proof.
  intros keep ms. induction ms as [|m r IH]; intros l x K H; cbn in *.
  - right. exact H.
  - destruct (IH _ _ K H) as [A|A]; [left; right; exact A|].
    destruct (add_in _ _ _ _ K A) as [B|B]; [left; left; symmetry; exact B|right; exact B].
Qed.

Lemma add_all_starts : forall keep ms l s, selects keep ->
  (In s (starts (add_all keep ms l)) <-> In s (starts ms) \/ In s (starts l)).
Proof.
  intros keep ms. induction ms as [|m r IH]; intros l s K.
  - cbn. tauto.
  - change (add_all keep (m :: r) l) with (add_all keep r (add keep m l)).
    rewrite IH by exact K. rewrite add_starts by exact K. cbn. intuition.
Qed.

Lemma scan_blocks_gen_in : forall keep scan_one blocks acc x, selects keep ->
  In x (fold_left (scan_block keep scan_one) blocks acc) -> In x (shifted scan_one blocks) \/ In x acc.
Proof.
  intros keep scan_one blocks. induction blocks as [|b r IH]; intros acc x K H; cbn in *.
  - right. exact H.
  - destruct (IH _ _ K H) as [A|A].
    + left. apply in_or_app. right. exact A.
    + unfold scan_block in A. destruct (add_all_in _ _ _ _ K A) as [B|B].
      * left. apply in_or_app. left. exact B.
      * right. exact B.
Qed.

Lemma scan_blocks_gen_starts : forall keep scan_one blocks acc s, selects keep ->
  (In s (starts (fold_left (scan_block keep scan_one) blocks acc)) <->
   In s (starts (shifted scan_one blocks)) \/ In s (starts acc)).
Proof.
  intros keep scan_one blocks. induction blocks as [|b r IH]; intros acc s K.
  - cbn. tauto.
  - cbn [fold_left]. rewrite IH by exact K. unfold scan_block. rewrite add_all_starts by exact K.
    cbn [shifted flat_map]. unfold starts. rewrite map_app. rewrite in_app_iff. tauto.
Qed.

(* C14: every match the block scanner reports is a match of some block
   scanned on its own, shifted by that block's base (none invented, none
   spanning two blocks), and every such match is represented (none lost):
   the start offsets coincide exactly.  For any order of the blocks, gaps,
   overlaps, empty and repeated blocks, and any per-block search function. *)
Theorem blocks_union : forall keep scan_one blocks, selects keep ->
  (forall x, In x (scan_blocks keep scan_one blocks) -> In x (shifted scan_one blocks)) /\
  (forall s, In s (starts (scan_blocks keep scan_one blocks)) <-> In s (starts (shifted scan_one blocks))).
Proof.
  intros keep scan_one blocks K. split.
  - intros x H. destruct (scan_blocks_gen_in _ _ _ _ _ K H) as [A|[]]. exact A.
  - intros s. unfold scan_blocks. rewrite scan_blocks_gen_starts by exact K. cbn. tauto.
Qed.

(* a reported match lies inside one block, if the per-block search only
   reports matches inside the data it was given (checked on every per-block
   result by the harness) *)
Definition within (scan_one : list N -> list mtch) : Prop :=
  forall d m, In m (scan_one d) -> m_start m + m_len m <= N.of_nat (length d).

Theorem no_cross_block_match : forall keep scan_one blocks, selects keep -> within scan_one ->
  forall x, In x (scan_blocks keep scan_one blocks) ->
    exists b, In b blocks /\ fst b <= m_start x /\ m_start x + m_len x <= fst b + N.of_nat (length (snd b)).
Proof.
  intros keep scan_one blocks K W x H.
  apply (proj1 (blocks_union keep scan_one blocks K)) in H. unfold shifted in H.
  apply in_flat_map in H. destruct H as (b & Hb & Hx). apply in_map_iff in Hx. destruct Hx as (m & E & Hm).
  exists b. split; [exact Hb|]. subst x. specialize (W _ _ Hm). unfold rebase, m_start, m_len in *. cbn. lia.
Qed.

(* with one match per start in the union (no two blocks report different
   matches at the same absolute offset: always the case without overlaps)
   the block scanner reports exactly the union *)
Theorem blocks_union_exact : forall keep scan_one blocks, selects keep ->
  (forall a b, In a (shifted scan_one blocks) -> In b (shifted scan_one blocks) -> m_start a = m_start b -> a = b) ->
  forall x, In x (shifted scan_one blocks) -> In x (scan_blocks keep scan_one blocks).
Proof.
  intros keep scan_one blocks K U x H.
  destruct (blocks_union keep scan_one blocks K) as [A B].
  assert (Sx : In (m_start x) (starts (scan_blocks keep scan_one blocks))).
  { apply B. unfold starts. apply in_map. exact H. }
  unfold starts in Sx. apply in_map_iff in Sx. destruct Sx as (y & E & Hy).
  assert (y = x) by (apply U; [apply A; exact Hy|exact H|exact E]). subst y. exact Hy.
Qed.

(* a pattern anchored at absolute offset n only matches at n, inside a block
   that contains [n, n + len) (GENERATED: the block is skipped when its base
   is past the anchor) *)
Theorem anchored_only_at_offset : forall file n lit b m,
  In m (anchored_block file n lit b) ->
  m_start m = n /\ fst b <= n /\ n + N.of_nat (length lit) <= fst b + snd b.
Proof.
  intros file n lit b m H. unfold anchored_block, anchored_rel in H.
  change anchored_skips_block_past_offset with true in H. cbv iota in H.
  destruct (fst b <=? n) eqn:L; [|contradiction].
  apply N.leb_le in L.
  destruct ((n - fst b + N.of_nat (length lit) <=? snd b) &&
            bytes_eqb (slice file (fst b + (n - fst b)) (fst b + (n - fst b) + N.of_nat (length lit))) lit) eqn:C; [|contradiction].
  destruct H as [H|[]]. subst m. apply andb_true_iff in C. destruct C as [C _]. apply N.leb_le in C.
  unfold m_start. cbn. repeat split; lia.
Qed.

Theorem anchored_scan_only_at_offset : forall keep file n lit blocks m, selects keep ->
  In m (anchored_scan keep file n lit blocks) ->
  m_start m = n /\ exists b, In b blocks /\ fst b <= n /\ n + N.of_nat (length lit) <= fst b + snd b.
Proof.
  intros keep file n lit blocks m K. unfold anchored_scan.
  assert (G : forall acc, (forall x, In x acc -> m_start x = n /\ exists b, In b blocks /\ fst b <= n /\ n + N.of_nat (length lit) <= fst b + snd b) ->
              forall bl, incl bl blocks ->
              In m (fold_left (fun acc b => add_all keep (anchored_block file n lit b) acc) bl acc) ->
              m_start m = n /\ exists b, In b blocks /\ fst b <= n /\ n + N.of_nat (length lit) <= fst b + snd b).
  { intros acc Hacc bl. revert acc Hacc. induction bl as [|b r IH]; intros acc Hacc I H; cbn in H.
    - apply Hacc, H.
    - apply (IH (add_all keep (anchored_block file n lit b) acc)); [|intros x Hx; apply I; right; exact Hx|exact H].
      intros x Hx. destruct (add_all_in _ _ _ _ K Hx) as [A|A]; [|apply Hacc, A].
      destruct (anchored_only_at_offset _ _ _ _ _ A) as (E0 & L1 & L2). split; [exact E0|].
      exists b. split; [apply I; left; reflexivity|split; assumption]. }
  intros H. apply (G [] (fun x F => match F with end) blocks (incl_refl _) H).
Qed.

(* ---- MatchList::add with bases, snippets ---- *)
Lemma bmatch_eta : forall m : bmatch, (b_base m, b_start m, b_end m) = m.
Proof. intros [[a b] c]. reflexivity. Qed.

(* GENERATED: both same-start arms move the base together with the end, so the
   listed match is always one of the matches that were added, as a whole *)
Lemma add_b_in : forall r m l x, In x (add_b r m l) -> x = m \/ In x l.
Proof.
  intros r m l. induction l as [|y t IH]; intros x H; cbn [add_b] in H.
  - destruct H as [H|[]]. left. symmetry. exact H.
  - destruct (b_start m <? b_start y).
    + destruct H as [H|H]; [left; symmetry; exact H|right; exact H].
    + destruct (b_start m =? b_start y) eqn:E.
      * apply N.eqb_eq in E.
        change ml_tail_arm_moves_base with true in H. change ml_search_arm_moves_base with true in H. cbv iota in H.
        destruct t as [|z t'].
        -- destruct H as [H|[]].
           destruct (r && (if ml_tail_arm_only_if_longer then b_end y <? b_end m else true)); [|right; left; exact H].
           left. rewrite <- H, <- E. apply bmatch_eta.
        -- destruct H as [H|H]; [|right; right; exact H].
           destruct (r && (b_end y <? b_end m)); [|right; left; exact H].
           left. rewrite <- H, <- E. apply bmatch_eta.
      * destruct H as [H|H]; [right; left; exact H|].
        destruct (IH _ H) as [A|A]; [left; exact A|right; right; exact A].
Qed.

Definition in_block (blk : N * N) (m : bmatch) : Prop :=
  b_base m = fst blk /\ fst blk <= b_start m /\ b_start m <= b_end m /\ b_end m <= fst blk + snd blk.

Lemma fold_add_b_in : forall (blk : N * N) (fs : list (N * N * bool)) ms x,
  In x (fold_left (fun acc f => add_b (snd f) (fst blk, fst (fst f), snd (fst f)) acc) fs ms) ->
  In x ms \/ exists f : N * N * bool, In f fs /\ x = (fst blk, fst (fst f), snd (fst f)).
Proof.
  intros blk fs. induction fs as [|f r IH]; intros ms x H; cbn [fold_left] in H.
  - left. exact H.
  - destruct (IH _ _ H) as [A|(g & G & E)].
    + destruct (add_b_in _ _ _ _ A) as [B|B]; [right; exists f; split; [left; reflexivity|exact B]|left; exact B].
    + right. exists g. split; [right; exact G|exact E].
Qed.

Lemma put_snippet_mono : forall s l s0, In s0 l ->
  exists s1, In s1 (put_snippet s l) /\ fst s1 = fst s0 /\ snd s0 <= snd s1.
Proof.
  intros s l. induction l as [|x r IH]; intros s0 H; [contradiction|]. cbn [put_snippet].
  destruct (fst x =? fst s) eqn:E.
  - destruct H as [H|H].
    + subst s0. destruct (snd x <? snd s) eqn:L.
      * exists s. apply N.eqb_eq in E. apply N.ltb_lt in L. split; [left; reflexivity|split; [symmetry; exact E|lia]].
      * exists x. split; [left; reflexivity|split; [reflexivity|lia]].
    + exists s0. split; [right; exact H|split; [reflexivity|lia]].
  - destruct H as [H|H].
    + subst s0. exists x. split; [left; reflexivity|split; [reflexivity|lia]].
    + destruct (IH _ H) as (s1 & A & B & C). exists s1. split; [right; exact A|split; assumption].
Qed.

Lemma put_snippet_has : forall s l, exists s1, In s1 (put_snippet s l) /\ fst s1 = fst s /\ snd s <= snd s1.
Proof.
  intros s l. induction l as [|x r IH]; cbn [put_snippet].
  - exists s. split; [left; reflexivity|split; [reflexivity|lia]].
  - destruct (fst x =? fst s) eqn:E.
    + destruct (snd x <? snd s) eqn:L.
      * exists s. split; [left; reflexivity|split; [reflexivity|lia]].
      * exists x. apply N.eqb_eq in E. apply N.ltb_ge in L. split; [left; reflexivity|split; [exact E|exact L]].
    + destruct IH as (s1 & A & B & C). exists s1. split; [right; exact A|split; assumption].
Qed.

Lemma covers_mono : forall s0 s1 m, covers s0 m = true -> fst s1 = fst s0 -> snd s0 <= snd s1 -> covers s1 m = true.
Proof.
  intros s0 s1 m C E L. unfold covers in *. apply andb_true_iff in C. destruct C as [A B].
  apply N.leb_le in A, B. apply andb_true_iff. split; apply N.leb_le; lia.
Qed.

Lemma collect_mono : forall ctx blk ms snips s0, In s0 snips ->
  exists s1, In s1 (collect_snippets ctx blk ms snips) /\ fst s1 = fst s0 /\ snd s0 <= snd s1.
Proof.
  intros ctx blk ms. unfold collect_snippets. induction ms as [|m r IH]; intros snips s0 H; cbn [fold_left].
  - exists s0. split; [exact H|split; [reflexivity|lia]].
  - match goal with |- context [fold_left ?f r ?acc] => set (acc0 := acc) end.
    assert (M : exists s1, In s1 acc0 /\ fst s1 = fst s0 /\ snd s0 <= snd s1).
    { unfold acc0. destruct ((b_base m =? fst blk) && _).
      - apply put_snippet_mono, H.
      - exists s0. split; [exact H|split; [reflexivity|lia]]. }
    destruct M as (s1 & A & B & C). destruct (IH _ _ A) as (s2 & D & E & F).
    exists s2. split; [exact D|split; [congruence|lia]].
Qed.

Lemma collect_covers : forall ctx blk ms snips m, In m ms -> in_block blk m ->
  exists s, In s (collect_snippets ctx blk ms snips) /\ covers s m = true.
Proof.
  intros ctx blk ms. unfold collect_snippets. induction ms as [|x r IH]; intros snips m H B; [contradiction|].
  cbn [fold_left]. destruct H as [H|H].
  - subst x. destruct B as (B1 & B2 & B3 & B4).
    assert (C : (b_base m =? fst blk) && (if snippet_filter_checks_end then b_end m <=? fst blk + snd blk else true) = true).
    { apply andb_true_iff. split; [apply N.eqb_eq; exact B1|]. destruct snippet_filter_checks_end; [apply N.leb_le; exact B4|reflexivity]. }
    rewrite C.
    set (cs := N.max (b_start m - ctx) (fst blk)). set (ce := N.min (b_end m + ctx) (fst blk + snd blk)).
    destruct (put_snippet_has (cs, ce - cs) snips) as (s1 & A1 & A2 & A3).
    destruct (collect_mono ctx blk r _ _ A1) as (s2 & D & E & F). unfold collect_snippets in D.
    exists s2. split; [exact D|]. unfold covers. cbn in A2, A3. apply andb_true_iff. split; apply N.leb_le; unfold cs, ce in *; lia.
  - apply IH; assumption.
Qed.

(* C14: after any sequence of blocks (any order, overlaps), every listed match
   is, as a whole, a match found in one of the blocks (its recorded base is the
   base of a block that contains the whole range), and a snippet that covers it
   has been stored: Match::data() finds its bytes *)
Theorem listed_matches_have_block_and_data : forall ctx bs,
  (forall b, In b bs -> found_in_block b) ->
  forall m, In m (fst (scan_blocks_b ctx bs)) ->
    (exists b, In b bs /\ in_block (fst b) m) /\
    (exists s, In s (snd (scan_blocks_b ctx bs)) /\ covers s m = true).
Proof.
  intros ctx bs F. unfold scan_blocks_b.
  assert (G : forall st,
    (forall m, In m (fst st) -> (exists b, In b bs /\ in_block (fst b) m) /\ (exists s, In s (snd st) /\ covers s m = true)) ->
    forall l, incl l bs ->
    forall m, In m (fst (fold_left (scan_block_b ctx) l st)) ->
      (exists b, In b bs /\ in_block (fst b) m) /\
      (exists s, In s (snd (fold_left (scan_block_b ctx) l st)) /\ covers s m = true)).
  { intros st Hst l. revert st Hst. induction l as [|b r IH]; intros st Hst I m H; cbn [fold_left] in *.
    - apply Hst, H.
    - apply (IH (scan_block_b ctx st b)); [|intros x Hx; apply I; right; exact Hx|exact H].
      clear H m. intros m H. unfold scan_block_b in *. cbn [fst snd] in *.
      set (ms := fold_left (fun acc f => add_b (snd f) (fst (fst b), fst (fst f), snd (fst f)) acc) (snd b) (fst st)) in *.
      destruct (fold_add_b_in (fst b) (snd b) (fst st) m H) as [A|(f & Ff & E)].
      + destruct (Hst _ A) as [P (s & S1 & S2)]. split; [exact P|].
        destruct (collect_mono ctx (fst b) ms (snd st) s S1) as (s1 & D & E & L).
        exists s1. split; [exact D|]. eapply covers_mono; eassumption.
      + assert (Bb : In b bs) by (apply I; left; reflexivity).
        assert (IB : in_block (fst b) m).
        { destruct (F b Bb f Ff) as (X1 & X2 & X3). subst m. unfold in_block, b_base, b_start, b_end. cbn. repeat split; assumption. }
        split; [exists b; split; assumption|].
        apply collect_covers; assumption. }
  intros m H. apply (G ([], []) (fun m (K : In m []) => match K with end) bs (incl_refl _) m H).
Qed.

Example add_b_example :
  (* /abc+/ : blocks (10,"abc") (20,"abc") (8,"..abccc"): the match at 10 found again, longer, by the binary-search arm *)
  scan_blocks_b 0 [((10, 3), [(10, 13, true)]); ((20, 3), [(20, 23, true)]); ((8, 7), [(10, 15, true)])]
  = ([(8, 10, 15); (20, 20, 23)], [(10, 5); (20, 3)]).
Proof. vm_compute. reflexivity. Qed.

(* ---- header constraints ---- *)
(* GENERATED: in block mode a pattern is disabled by the header constraints only
   on the evidence of a block whose base is 0 and that does not start with the header *)
Theorem header_disabled_needs_base0_block : forall file hdr bs,
  existsb (hdr_evidence file hdr) bs = true ->
  exists b, In b bs /\ fst b = 0 /\ hdr_unsatisfied file hdr b = true.
Proof.
  intros file hdr bs H. apply existsb_exists in H. destruct H as (b & Hb & E).
  unfold hdr_evidence in E. change header_pruning_only_at_base_zero with true in E. cbv iota in E.
  apply andb_true_iff in E. destruct E as [E U]. apply andb_true_iff in E. destruct E as [Z _].
  exists b. split; [exact Hb|]. split; [apply N.eqb_eq; exact Z|exact U].
Qed.

Lemma live_blocks_all : forall file hdr bs, existsb (hdr_evidence file hdr) bs = false ->
  live_blocks file hdr false bs = map (fun _ => true) bs.
Proof.
  intros file hdr bs. induction bs as [|b r IH]; intros H; [reflexivity|]. cbn [existsb] in H.
  apply orb_false_iff in H. destruct H as [A B]. cbn [live_blocks map]. rewrite A. cbn. rewrite (IH B). reflexivity.
Qed.

(* when only blocks that contain the whole header are consulted, the evidence is sound:
   the (consistent) data does not start with the header, so `$a at 0` cannot hold *)
Theorem header_pruning_sound : header_pruning_requires_covering_block = true ->
  forall file hdr b, header_pruning_only_at_base_zero = true -> hdr_evidence file hdr b = true ->
    bytes_eqb (slice file 0 (N.of_nat (length hdr))) hdr = false.
Proof.
  intros C file hdr b Z E. unfold hdr_evidence in E. rewrite C, Z in E.
  apply andb_true_iff in E. destruct E as [E U]. apply andb_true_iff in E. destruct E as [B L].
  apply N.eqb_eq in B. unfold hdr_unsatisfied in U. rewrite L, B in U. cbn [andb] in U.
  rewrite N.add_0_l in U. destruct (bytes_eqb (slice file 0 (N.of_nat (length hdr))) hdr); [discriminate U|reflexivity].
Qed.

(* ... and it is not sound when a shorter block is consulted too *)
Theorem header_pruning_unsound_with_short_blocks : header_pruning_requires_covering_block = false ->
  exists file hdr b, hdr_evidence file hdr b = true /\ bytes_eqb (slice file 0 (N.of_nat (length hdr))) hdr = true.
Proof.
  intros C. exists [77; 90; 32], [77; 90], (0, 1). unfold hdr_evidence. rewrite C.
  change header_pruning_only_at_base_zero with true. split; reflexivity.
Qed.

Example blocks_example :
  let keep := fun a b : mtch => if m_len a <? m_len b then b else a in
  let scan_one := fun d : list N => match d with [1; 2; 3] => [(0, 2, 0); (1, 2, 0)] | [2; 3] => [(0, 2, 0)] | _ => [] end in
  scan_blocks keep scan_one [(10, [2; 3]); (0, [1; 2; 3]); (5, []); (9, [1; 2; 3])] = [(0, 2, 0); (1, 2, 0); (9, 2, 0); (10, 2, 0)].
Proof. vm_compute. reflexivity. Qed.
