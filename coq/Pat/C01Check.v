(* Cases written by harness/src/bin/c01.rs.

   stream (a)  ListCase / PMCase / PMBigCase : operation sequences run on the real
               MatchList / PatternMatches (hook lib/src/verif_c01.rs).
               check_case: the model Pat/MatchList.v reproduces every returned
               value and the final state (K, exact).
   stream (b)  ScanCase : a pattern (AST of Pat/Syntax.v), a buffer, the matches
               (offset, length, xor key) the real Scanner reported, in order.
               spec_case: the boolean specification of C01 on that output (S):
                 every reported match is genuine            (genuine_b)
                 offsets strictly ascending                  (one match per start)
                 every start that must be reported is there (required_starts),
                   unless the pattern reached max_matches_per_pattern
                 no more than max_matches_per_pattern matches
               check_case: where the reference admits exactly one length at every
               start and "required" coincides with "genuine", the reported list
               must EQUAL the reference scan (K against the reference model). *)
From Coq Require Import List NArith ZArith Bool Arith.
From YV Require Import Gen.PatConsts Pat.Syntax Pat.Sem Pat.Matcher Pat.Modifiers Pat.MatchList.
From YV Require Export Pat.Base64 Pat.Atoms Pat.Pipeline Pat.ChainRun.
From YV Require Import Pat.Chain.
Import ListNotations.
Local Open Scope N_scope.

(* ---- helpers used by the printed terms -------------------------------- *)
Fixpoint ralt (l : list re) : re :=
  match l with
  | [] => REps
  | [x] => x
  | x :: t => RAlt x (ralt t)
  end.

(* ---- stream (a) ------------------------------------------------------- *)
Inductive op :=
| OAdd (pid start end_ : N) (key : option N) (replace : bool)
| OClear
| OSetMax (n : N)
| OInRange (pid : N) (lo hi : Z)
| OSearch (pid off : N).

Inductive res :=
| RInserted (n : N) | RUpdated | RMax | RDone | RAbsent
| RInRange (z : Z) | RSearch (b : bool) (i : nat).

Definition step (p : pmatches) (o : op) : pmatches * res :=
  match o with
  | OAdd pid s e k r =>
      let '(p', a) := pm_add p pid (mkM s e k) r in
      (p', match a with Inserted n => RInserted n | Updated => RUpdated | MaxMatchesReached => RMax end)
  | OClear => (pm_clear p, RDone)
  | OSetMax n => (pm_set_max p n, RDone)
  | OInRange pid lo hi =>
      (p, match pm_get p pid with Some l => RInRange (ml_matches_in_range l lo hi) | None => RAbsent end)
  | OSearch pid off =>
      (p, match pm_get p pid with Some l => let '(b, i) := ml_search l off in RSearch b i | None => RAbsent end)
  end.

Fixpoint run_ops (p : pmatches) (ops : list op) : pmatches * list res :=
  match ops with
  | [] => (p, [])
  | o :: t => let '(p1, r) := step p o in let '(p2, rs) := run_ops p1 t in (p2, r :: rs)
  end.

(* state only (no result list): used for the long ascending runs *)
Definition run_state (p : pmatches) (ops : list op) : pmatches :=
  fold_left (fun q o => fst (step q o)) ops p.

Definition res_eqb (a b : res) : bool :=
  match a, b with
  | RInserted x, RInserted y => x =? y
  | RUpdated, RUpdated | RMax, RMax | RDone, RDone | RAbsent, RAbsent => true
  | RInRange x, RInRange y => Z.eqb x y
  | RSearch b1 i1, RSearch b2 i2 => Bool.eqb b1 b2 && Nat.eqb i1 i2
  | _, _ => false
  end.

Fixpoint list_eqb {A} (eq : A -> A -> bool) (a b : list A) : bool :=
  match a, b with
  | [], [] => true
  | x :: a', y :: b' => eq x y && list_eqb eq a' b'
  | _, _ => false
  end.

Definition triple := (N * N * option N)%type.
Definition triple_eqb (a b : triple) : bool :=
  let '(s1, e1, k1) := a in let '(s2, e2, k2) := b in (s1 =? s2) && (e1 =? e2) && opt_N_eqb k1 k2.
Definition triple_of (m : mtch) : triple := (m_start m, m_end m, m_key m).

Definition dump_entry := (N * list triple * N)%type.

(* what the hook dumps: for pid in 0..npids, the entries that exist *)
Definition model_dump (p : pmatches) (npids : nat) : list dump_entry :=
  flat_map (fun pid => match pm_lookup (pm_entries p) (N.of_nat pid) with
                       | Some (l, cap) => [(N.of_nat pid, map triple_of l, cap)]
                       | None => []
                       end) (seq 0 npids).

Definition dump_eqb (a b : dump_entry) : bool :=
  let '(p1, l1, c1) := a in let '(p2, l2, c2) := b in
  (p1 =? p2) && list_eqb triple_eqb l1 l2 && (c1 =? c2).

(* the long run of a PMBigCase: for pid in 0..k, run_len ascending adds *)
Definition big_run (k run_len : nat) : list op :=
  flat_map (fun pid => map (fun i => OAdd (N.of_nat pid) (100 + N.of_nat i) (101 + N.of_nat i) None false)
                           (seq 0 run_len)) (seq 0 k).

Fixpoint ascending_b (l : list N) : bool :=
  match l with
  | a :: (b :: _) as t => (a <? b) && ascending_b t
  | _ => true
  end.

(* ---- stream (b) ------------------------------------------------------- *)
Definition t_start (t : triple) : N := fst (fst t).
Definition t_len (t : triple) : N := snd (fst t).
Definition t_key (t : triple) : option N := snd t.

(* The reference scan is computed once per case (rs := ref_scan p d) and
   everything else is read off it. *)
Definition lookup_lens (rs : list (nat * list nat)) (s : nat) : list nat :=
  match find (fun x => Nat.eqb (fst x) s) rs with Some x => snd x | None => [] end.

(* every reported match is genuine.  Text patterns: genuine_b directly (it also
   checks the reported xor key); hex patterns / regexps: no key, and the length
   is one of the reference's lengths at that start. *)
Definition sound_b (p : pat) (d : bytes) (rs : list (nat * list nat)) (rep : list triple) : bool :=
  forallb (fun t =>
    let s := N.to_nat (t_start t) in let l := N.to_nat (t_len t) in
    match p with
    | PText _ _ => genuine_b p d s l (t_key t)
    | _ => opt_N_eqb (t_key t) None && memb l (lookup_lens rs s)
    end) rep.

Definition limit_of (mm : option N) : N :=
  match mm with Some n => n | None => default_max_matches_per_pattern end.

(* (with max_matches_per_pattern = 0 the first match is still stored:
   PatternMatches::add has no limit check for a vacant entry) *)
Definition limit_reached (mm : option N) (rep : list triple) : bool :=
  (limit_of mm <=? N.of_nat (length rep)) && (1 <=? N.of_nat (length rep)).

(* the starts that must be reported (Modifiers.required_starts), read off rs
   where that is the same thing *)
Definition required_from (p : pat) (d : bytes) (rs : list (nat * list nat)) : list nat :=
  match p with
  | PText _ m => if has_b64 m then required_starts p d else map fst rs
  | PHex _ => map fst rs
  | PRegexp _ m => if rm_fullword m then required_starts p d else map fst rs
  end.

(* Documented limit of the regexp engines (re::DEFAULT_SCAN_LIMIT): an
   occurrence longer than the scan limit may be cut or lost.  A start is in
   scope for completeness when every genuine length there is within the limit. *)
Definition within_scan_limit (p : pat) (rs : list (nat * list nat)) (s : nat) : bool :=
  match p with
  | PText _ _ => true
  | _ => forallb (fun l => N.of_nat l <=? default_scan_limit) (lookup_lens rs s)
  end.

Definition complete_b (p : pat) (d : bytes) (rs : list (nat * list nat)) (rep : list triple) : bool :=
  forallb (fun s => negb (within_scan_limit p rs s) || existsb (N.eqb (N.of_nat s)) (map t_start rep))
          (required_from p d rs).

Definition count_ok (mm : option N) (rep : list triple) : bool :=
  match mm with
  | Some n => (n =? 0) || (N.of_nat (length rep) <=? n)   (* "won't produce more matches" *)
  | None => true
  end.

Definition scan_spec_rs (p : pat) (d : bytes) (rs : list (nat * list nat)) (mm : option N) (rep : list triple) : bool :=
  sound_b p d rs rep && ascending_b (map t_start rep) &&
  (limit_reached mm rep || complete_b p d rs rep) && count_ok mm rep.

Definition scan_spec (p : pat) (d : bytes) (mm : option N) (rep : list triple) : bool :=
  scan_spec_rs p d (ref_scan p d) mm rep.

(* the reference admits one length per start, "required" = "genuine": the
   implementation's list is fully determined *)
Definition key_at (p : pat) (d : bytes) (s l : nat) : option N :=
  match filter (fun k => genuine_b p d s l k) (cand_keys p d s) with
  | k :: _ => k
  | [] => None
  end.

Definition predicted (p : pat) (d : bytes) (rs : list (nat * list nat)) : option (list triple) :=
  if forallb (fun x => match snd x with [_] => true | _ => false end) rs &&
     list_eqb Nat.eqb (map fst rs) (required_from p d rs) &&
     forallb (within_scan_limit p rs) (map fst rs)
  then Some (map (fun x => match snd x with
                           | l :: _ => (N.of_nat (fst x), N.of_nat l,
                                        match p with PText _ _ => key_at p d (fst x) l | _ => None end)
                           | [] => (0, 0, None)
                           end) rs)
  else None.

(* ---- cases ------------------------------------------------------------ *)
Inductive case :=
| ListCase (adds : list (N * N * option N * bool)) (rets : list bool) (final : list triple)
| PMCase (npids : nat) (ops : list op) (results : list res) (dump : list dump_entry)
| PMBigCase (npids : nat) (pre : list op) (pre_res : list res) (k run_len : nat)
            (post : list op) (post_res : list res) (dump : list dump_entry)
| ScanCase (p : pat) (subs : list (nat * bool)) (d : bytes) (mm : option N) (panicked : bool) (reported : list triple)
(* the real MatchList / PatternMatches panicked while running the operations
   (the sequence is in the replay file).  The model is total: no operation
   sequence makes it fail (search_index_le, matches_in_range_spec), so this
   is always a disagreement and a violation. *)
| MLPanicCase (nops : nat)
(* stream (d): a pattern of the literal family with the REAL sub-patterns and
   atoms of the compiled rules (hook Rules::verif_c01_dump), the buffer and the
   reported matches.  anchored: the condition only asks for `$a at N`, so the
   pattern may be searched at that offset only (no completeness promised). *)
| PipeCase (p : pat) (sps : list subpat) (atoms : list atom) (anchored : bool)
           (kernel : nat) (hits : list hit) (d : bytes) (reported : list triple)
(* stream (e): a pattern that the compiler splits into a chain of pieces (jumps
   over the chaining threshold), with the REAL pieces and atoms, the kernel that
   ran (0 the vectorised one, 1 the automaton, 2 none), the REAL atom hits and
   the REAL verified piece matches (events) in the order the scan produced them;
   fwd_only: the regexp pieces run by the FastVM all of whose atoms have no backward
   code (the atom is where the piece starts, the forward code matches the whole piece
   and every match length is enumerated) *)
| ChainCase (p : pat) (pieces : list cpiece) (atoms : list atom) (kernel : nat) (hits : list hit)
            (events : list event) (fwd_only : list nat) (d : bytes) (reported : list triple)
(* stream (g): a pattern compiled into plain Regexp sub-patterns, with the REAL atoms of
   those sub-patterns: every start of an occurrence must be reachable from an atom *)
| AtomsCase (p : pat) (atoms : list atom) (d : bytes) (reported : list triple).

(* ---- stream (d) ------------------------------------------------------- *)
Definition flags_eqb (a b : spflags) : bool :=
  Bool.eqb (f_wide a) (f_wide b) && Bool.eqb (f_nocase a) (f_nocase b) &&
  Bool.eqb (f_fwl a) (f_fwl b) && Bool.eqb (f_fwr a) (f_fwr b).
Definition opt_nat_eqb (a b : option nat) : bool :=
  match a, b with Some x, Some y => Nat.eqb x y | None, None => true | _, _ => false end.
Definition kind_eqb (a b : spkind) : bool :=
  match a, b with
  | KLiteral l1 _, KLiteral l2 _ => bytes_eqb l1 l2          (* the anchor comes from the condition *)
  | KMasked l1 m1, KMasked l2 m2 => bytes_eqb l1 l2 && bytes_eqb m1 m2
  | KXor l1, KXor l2 => bytes_eqb l1 l2
  | KBase64 l1 p1 a1 w1, KBase64 l2 p2 a2 w2 =>
      bytes_eqb l1 l2 && Nat.eqb p1 p2 && bytes_eqb a1 a2 && Bool.eqb w1 w2
  | KOther, KOther => true
  | _, _ => false
  end.
Definition sp_eqb (a b : subpat) : bool := kind_eqb (sp_kind a) (sp_kind b) && flags_eqb (sp_flags a) (sp_flags b).

(* the sub-patterns the compiler is expected to produce: c_literal_pattern for
   text patterns; for hex patterns a run of plain bytes is one Literal and a run
   of plain / nibble-masked / ?? bytes one LiteralWithMask; None: no claim *)
Fixpoint hex_items (r : re) : option (list (N * N)) :=
  match r with
  | RCls (CByte b) => Some [(b, 255)]
  | RCls (CMask v m) => Some [(v, m)]
  | RCls CAny => Some [(0, 0)]
  | RCat a b => match hex_items a, hex_items b with Some x, Some y => Some (x ++ y) | _, _ => None end
  | _ => None
  end.
Definition expected_sps (p : pat) : option (list subpat) :=
  match p with
  | PText text m => Some (compile_text text m)
  | PHex r =>
      match hex_items r with
      | Some items =>
          let fl := mkF false false false false in
          if forallb (fun x => snd x =? 255) items then Some [mkSP (KLiteral (map fst items) None) fl]
          else Some [mkSP (KMasked (map fst items) (map snd items)) fl]
      | None => None
      end
  | PRegexp _ _ => None
  end.
Definition xr_of (p : pat) : N * N := match p with PText _ m => xor_range_of m | _ => (0, 0) end.

Definition atoms_of (atoms : list atom) (i : nat) : list atom := filter (fun a => Nat.eqb (a_sp a) i) atoms.

Definition all_atoms_ok (p : pat) (sps : list subpat) (atoms : list atom) : bool :=
  forallb (fun i => match nth_error sps i with
                    | Some sp => atoms_ok sp (xr_of p) (atoms_of atoms i)
                    | None => false
                    end) (seq 0 (length sps)) &&
  forallb (fun a => Nat.ltb (a_sp a) (length sps)) atoms.

Definition nat_triple (m : mtch) : triple := (m_start m, m_end m - m_start m, m_key m).

(* ---- the real hits ---------------------------------------------------- *)
Definition hit_eqb (a b : hit) : bool := Nat.eqb (fst a) (fst b) && Nat.eqb (snd a) (snd b).
Definition hit_mem (h : hit) (l : list hit) : bool := existsb_lazy (hit_eqb h) l.

Fixpoint nondecreasing (l : list nat) : bool :=
  match l with
  | a :: ((b :: _) as t) => Nat.leb a b && nondecreasing t
  | _ => true
  end.

(* the key the kernel orders its reports by: the vectorised kernel (lib/src/teddy)
   looks at the START positions of a block in turn; the automaton (daachorse,
   overlapping iteration) reports when it has consumed the END of an atom *)
Definition hit_key (kernel : nat) (atoms : list atom) (h : hit) : nat :=
  match kernel with
  | O => snd h
  | _ => (snd h + match nth_error atoms (fst h) with Some a => length (a_bytes a) | None => O end)%nat
  end.

(* the recorded hits are exactly the occurrences of the atoms (each once), in an
   order the kernel that ran can produce *)
Definition hits_ok (kernel : nat) (atoms : list atom) (d : bytes) (hits : list hit) : bool :=
  let all := all_hits atoms d in
  Nat.eqb (length hits) (length all) &&
  forallb (fun h => hit_mem h all) hits && forallb (fun h => hit_mem h hits) all &&
  nondecreasing (map (hit_key kernel atoms) hits) &&
  (Nat.ltb kernel 2%nat || match hits with [] => true | _ => false end).

(* the alphabet of a Base64 sub-pattern: 64 distinct bytes, '=' not among them (the side
   conditions of PipelineB64CompleteProofs.pipeline_base64_complete_partial) *)
Fixpoint nodup_b (l : list N) : bool :=
  match l with [] => true | x :: t => negb (existsb (N.eqb x) t) && nodup_b t end.
Definition alphabets_ok (sps : list subpat) : bool :=
  forallb (fun sp => match sp_kind sp with
                     | KBase64 _ _ alpha _ => Nat.eqb (length alpha) 64 && nodup_b alpha && negb (existsb (N.eqb 61) alpha)
                     | _ => true
                     end) sps.

Definition pipe_check (p : pat) (sps : list subpat) (atoms : list atom) (kernel : nat) (hits : list hit)
                      (d : bytes) (rep : list triple) : bool :=
  (match expected_sps p with Some e => list_eqb sp_eqb sps e | None => true end) &&
  all_atoms_ok p sps atoms && alphabets_ok sps &&
  hits_ok kernel atoms d hits &&
  list_eqb triple_eqb rep (map nat_triple (scan_pipeline sps atoms hits d)).

(* ---- stream (e) ------------------------------------------------------- *)
(* the top-level items of a pattern, one item per byte / jump / ... *)
Fixpoint flat_items (r : re) : list re :=
  match r with
  | RCat a b => flat_items a ++ flat_items b
  | REps => []
  | x => [x]
  end.
Fixpoint lit_of_items (l : list re) : option bytes :=
  match l with
  | [] => Some []
  | RCls (CByte b) :: t => match lit_of_items t with Some r => Some (b :: r) | None => None end
  | _ => None
  end.
Definition cgap_eqb (a b : cgap) : bool :=
  match a, b with
  | GBounded a1 a2, GBounded b1 b2 => Nat.eqb a1 b1 && Nat.eqb a2 b2
  | GUnbounded a1, GUnbounded b1 => Nat.eqb a1 b1
  | _, _ => false
  end.

(* the chain Chain.split_at_large_gaps (the model of re/hir.rs proved to keep the
   language) makes of the pattern: (nocase, ascii form?, wide form?, chain) *)
Definition chain_of_pat (p : pat) : option (bool * bool * bool * (re * list (gap * re))) :=
  match p with
  | PHex r => Some (false, true, false, split_at_large_gaps (flat_items r))
  | PRegexp r m =>
      Some (rm_nocase m, negb (rm_wide m) || rm_ascii m, rm_wide m, split_at_large_gaps (flat_items r))
  | PText _ _ => None
  end.

(* the position of a piece in its chain: the number of links back to the head *)
Fixpoint depth (fuel : nat) (pieces : list cpiece) (id : nat) : nat :=
  match fuel with
  | O => O
  | S f => match nth_error pieces id with
           | Some pc => match cp_link pc with Some (to, _) => S (depth f pieces to) | None => O end
           | None => O
           end
  end.
Definition piece_depth (pieces : list cpiece) (id : nat) : nat := depth (length pieces) pieces id.

Definition piece_re (c : re * list (gap * re)) (pieces : list cpiece) (id : nat) : option re :=
  match nth_error pieces id with
  | Some pc => match nth_error (chain_res c) (piece_depth pieces id) with
               | Some r => Some (vre (f_wide (cp_flags pc)) r)
               | None => None
               end
  | None => None
  end.

(* the dumped pieces against the split model: one chain per form (ascii, wide);
   piece k of a chain is linked to piece k-1 of the same form with the gap the
   model gives (in bytes, also for the wide form), LastInChain on the last, and
   a piece the compiler made a LITERAL is the literal the model says *)
Definition chain_shape_ok (p : pat) (pieces : list cpiece) : bool :=
  match chain_of_pat p with
  | None => true
  | Some (_, asc, wid, c) =>
      let n := length (snd c) in
      Nat.eqb (length pieces) (S n * ((if asc then 1 else 0) + (if wid then 1 else 0)))%nat &&
      forallb (fun id =>
        match nth_error pieces id with
        | None => false
        | Some pc =>
            let k := piece_depth pieces id in
            let w := f_wide (cp_flags pc) in
            (if w then wid else asc) &&
            Bool.eqb (cp_last pc) (Nat.eqb k n && negb (Nat.eqb k O)) &&
            (match cp_link pc, k with
             | None, O => true
             | Some (to, g), S k' =>
                 match nth_error pieces to, nth_error (snd c) k' with
                 | Some pt, Some (g', _) =>
                     Nat.eqb (piece_depth pieces to) k' && Bool.eqb (f_wide (cp_flags pt)) w && cgap_eqb g (cgap_of g')
                 | _, _ => false
                 end
             | _, _ => false
             end) &&
            (cp_regexp pc ||
             match nth_error (chain_res c) k with
             | Some r => match lit_of_items (flat_items r) with
                         | Some l => bytes_eqb (cp_lit pc) (if w then widen l else l)
                         | None => false
                         end
             | None => false
             end)
        end) (seq 0 (length pieces))
  end.

(* atoms_ok for the atoms of every LITERAL piece *)
Definition chain_atoms_ok (pieces : list cpiece) (atoms : list atom) : bool :=
  forallb (fun i => match nth_error pieces i with
                    | Some c => cp_regexp c || atoms_ok (piece_sp c) (0, 0) (atoms_of atoms i)
                    | None => false
                    end) (seq 0 (length pieces)) &&
  forallb (fun a => Nat.ltb (a_sp a) (length pieces)) atoms.

Definition event_eqb (a b : event) : bool :=
  let '(i1, s1, e1) := a in let '(i2, s2, e2) := b in Nat.eqb i1 i2 && Nat.eqb s1 s2 && Nat.eqb e1 e2.

Definition is_regexp_piece (pieces : list cpiece) (id : nat) : bool :=
  match nth_error pieces id with Some pc => cp_regexp pc | None => false end.

(* the events of the REGEXP pieces against the reference matcher: every event is
   a match of the piece (its form widened), and -- for a piece without fullword
   flags -- every start where the piece matches has an event *)
Definition regexp_events_ok (p : pat) (pieces : list cpiece) (evs : list event) (d : bytes) : bool :=
  match chain_of_pat p with
  | None => forallb (fun ev => negb (is_regexp_piece pieces (fst (fst ev)))) evs
  | Some (nc, _, _, c) =>
      forallb (fun ev => let '(id, s, e) := ev in
                 negb (is_regexp_piece pieces id) ||
                 match piece_re c pieces id with
                 | Some r => memb e (ends nc d r s)
                 | None => false
                 end) evs &&
      forallb (fun id =>
        match nth_error pieces id, piece_re c pieces id with
        | Some pc, Some r =>
            negb (cp_regexp pc) || f_fwl (cp_flags pc) || f_fwr (cp_flags pc) ||
            forallb (fun s => match ends nc d r s with
                              | [] => true
                              | _ => existsb_lazy (fun ev => Nat.eqb (fst (fst ev)) id && Nat.eqb (snd (fst ev)) s) evs
                              end) (seq 0 (S (length d)))
        | _, _ => true
        end) (seq 0 (length pieces))
  end.

(* the abstract piece matcher of ChainRun (one end per start: the shortest for a lazy
   pattern, the longest for a greedy one) against the events of the regexp pieces whose
   atoms have no backward code *)
Definition one_end_ok (p : pat) (pieces : list cpiece) (evs : list event) (fwd_only : list nat) (d : bytes) : bool :=
  match chain_of_pat p with
  | None => true
  | Some (nc, _, _, c) =>
      forallb (fun ev => let '(id, s, e) := ev in
                 negb (existsb (Nat.eqb id) fwd_only) ||
                 match nth_error pieces id, piece_re c pieces id with
                 | Some pc, Some r =>
                     f_fwl (cp_flags pc) || f_fwr (cp_flags pc) ||
                     match chosen_end nc (cp_greedy pc) r d s with Some e' => Nat.eqb e' e | None => false end
                 | _, _ => false
                 end) evs
  end.

(* 1 shape, 2 atoms_ok, 4 hits, 8 literal events, 16 regexp events, 32 bookkeeping, 64 event order,
   128 the end of a forward-only FastVM piece is not the one the abstract piece matcher picks *)
Definition chain_check_bits (p : pat) (pieces : list cpiece) (atoms : list atom) (kernel : nat) (hits : list hit)
                            (evs : list event) (fwd_only : list nat) (d : bytes) (rep : list triple) : N :=
  (if chain_shape_ok p pieces then 0 else 1) +
  (if chain_atoms_ok pieces atoms then 0 else 2) +
  (if hits_ok kernel atoms d hits then 0 else 4) +
  (if list_eqb event_eqb (filter (fun ev => negb (is_regexp_piece pieces (fst (fst ev)))) evs)
                         (hit_events pieces atoms hits d) then 0 else 8) +
  (if regexp_events_ok p pieces evs d then 0 else 16) +
  (if list_eqb triple_eqb rep (map nat_triple (run_chain pieces evs)) then 0 else 32) +
  (if events_ordered_b evs then 0 else 64) +
  (if one_end_ok p pieces evs fwd_only d then 0 else 128).

Definition chain_check (p : pat) (pieces : list cpiece) (atoms : list atom) (kernel : nat) (hits : list hit)
                       (evs : list event) (fwd_only : list nat) (d : bytes) (rep : list triple) : bool :=
  chain_check_bits p pieces atoms kernel hits evs fwd_only d rep =? 0.

(* ---- the sub-patterns of a pattern, per requested form ------------------- *)
(* subs: for every sub-pattern the compiler made of the pattern (hook
   Rules::verif_c01_dump), its kind (0 Literal, 1 LiteralWithMask, 2 LiteralChainHead,
   3 LiteralChainTail, 4 Regexp, 5 RegexpChainHead, 6 RegexpChainTail, 7 Xor, 8 Base64*,
   9 anything else, 10 not recorded) and its Wide flag.  What c_literal_pattern / c_regexp_pattern /
   c_alternation_literal / c_chain promise about them:
     - a form that was asked for (ascii: no `wide`, or `ascii wide`; wide: `wide`) has at
       least one sub-pattern, a form that was not asked for has none;
     - with both forms the two families have the same number of sub-patterns;
     - the LiteralWithMask shortcut is taken only without `nocase` and without `wide`;
     - a plain Regexp comes once per form.
   (Base64* sub-patterns carry no flags: their forms are inside the sub-pattern.) *)
Definition forms_of (p : pat) : option (bool * bool * bool) :=      (* ascii form?, wide form?, nocase *)
  match p with
  | PText _ m => if has_b64 m then None else Some (negb (tm_wide m) || tm_ascii m, tm_wide m, tm_nocase m)
  | PHex _ => Some (true, false, false)
  | PRegexp _ m => Some (negb (rm_wide m) || rm_ascii m, rm_wide m, rm_nocase m)
  end.
Definition subs_ok (p : pat) (subs : list (nat * bool)) : bool :=
  (* kind 10: not recorded (rule sets with several patterns: identical patterns are merged
     by the compiler and the pattern numbers of the dump are not those of the source) *)
  existsb (fun kw => Nat.eqb (fst kw) 10) subs ||
  match forms_of p with
  | None => forallb (fun kw => Nat.eqb (fst kw) 8) subs && negb (Nat.eqb (length subs) 0)
  | Some (asc, wid, nc) =>
      let nw := length (filter (fun kw => snd kw) subs) in
      let na := length (filter (fun kw => negb (snd kw)) subs) in
      (if wid then Nat.leb 1 nw else Nat.eqb nw 0) &&
      (if asc then Nat.leb 1 na else Nat.eqb na 0) &&
      (if asc && wid then Nat.eqb nw na else true) &&
      forallb (fun kw => negb (Nat.eqb (fst kw) 1) || (negb nc && negb wid)) subs &&
      (if forallb (fun kw => Nat.eqb (fst kw) 4) subs
       then Nat.eqb (length subs) ((if asc then 1 else 0) + (if wid then 1 else 0)) else true)
  end.

(* ---- stream (g) ------------------------------------------------------- *)
(* The search only looks where an atom occurs, and a regexp is verified forwards and
   backwards FROM the atom: a start s of an occurrence can be found only if, for one of
   the genuine lengths L at s, some atom occurs inside s .. s+L.  (An atom set that
   does not cover an alternative of the regexp fails this on an occurrence that goes
   through that alternative.) *)
Definition atom_cover_ok (p : pat) (atoms : list atom) (d : bytes) : bool :=
  forallb (fun sl : nat * list nat =>
    let '(s, lens) := sl in
    match lens with
    | [] => true
    | _ => existsb_lazy (fun L =>
             existsb_lazy (fun q =>
               existsb_lazy (fun a => Nat.leb (q + length (a_bytes a)) (s + L) && atom_at a d q) atoms)
               (seq s (S L))) lens
    end) (ref_scan p d).

Fixpoint run_list (l : match_list) (adds : list (N * N * option N * bool)) : match_list * list bool :=
  match adds with
  | [] => (l, [])
  | (s, e, k, r) :: t =>
      let '(l1, b) := ml_add l (mkM s e k) r in
      let '(l2, bs) := run_list l1 t in (l2, b :: bs)
  end.

Definition check_case (c : case) : bool :=
  match c with
  | ListCase adds rets final =>
      let '(l, bs) := run_list [] adds in
      list_eqb Bool.eqb bs rets && list_eqb triple_eqb (map triple_of l) final
  | PMCase npids ops results dump =>
      let '(p, rs) := run_ops pm_new ops in
      list_eqb res_eqb rs results && list_eqb dump_eqb (model_dump p npids) dump
  | PMBigCase npids pre pre_res k run_len post post_res dump =>
      let '(p1, rs1) := run_ops pm_new pre in
      let p2 := run_state p1 (big_run k run_len) in
      let '(p3, rs3) := run_ops p2 post in
      list_eqb res_eqb rs1 pre_res && list_eqb res_eqb rs3 post_res &&
      list_eqb dump_eqb (model_dump p3 npids) dump
  | MLPanicCase _ => false
  | PipeCase p sps atoms _ k hits d rep => pipe_check p sps atoms k hits d rep
  | ChainCase p pieces atoms k hits evs fo d rep => chain_check p pieces atoms k hits evs fo d rep
  | AtomsCase p atoms d rep => atom_cover_ok p atoms d
  | ScanCase p subs d mm panicked rep =>
      negb panicked && subs_ok p subs &&
      (if limit_reached mm rep then
         match mm with Some n => N.of_nat (length rep) =? N.max n 1 | None => true end
       else match predicted p d (ref_scan p d) with
            | Some exp => list_eqb triple_eqb rep exp
            | None => true
            end)
  end.

(* S on the implementation's own output *)
Definition starts_subset (final : list triple) (adds : list (N * N * option N * bool)) : bool :=
  forallb (fun t => existsb (fun a => fst (fst (fst a)) =? t_start t) adds) final &&
  forallb (fun a => existsb (fun t => fst (fst (fst a)) =? t_start t) final) adds.

Definition spec_case (c : case) : bool :=
  match c with
  | ListCase adds rets final =>
      (* one match per start, ascending, exactly the starts that were added *)
      ascending_b (map t_start final) && starts_subset final adds
  | PMCase _ _ _ dump => forallb (fun e => ascending_b (map t_start (snd (fst e)))) dump
  | PMBigCase _ _ _ _ _ _ _ dump => forallb (fun e => ascending_b (map t_start (snd (fst e)))) dump
  | ScanCase p _ d mm panicked rep => negb panicked && scan_spec p d mm rep
  | MLPanicCase _ => false
  | PipeCase p _ _ anchored _ _ d rep =>
      if anchored then sound_b p d (ref_scan p d) rep && ascending_b (map t_start rep)
      else scan_spec p d None rep
  | ChainCase p _ _ _ _ _ _ d rep => scan_spec p d None rep
  | AtomsCase p _ d rep => scan_spec p d None rep
  end.

(* the reading of a WIDE regexp the chain bookkeeping implements (known finding
   C01:scan:wide-regexp-split-at-large-gap): the pieces widened, the gaps between
   them plain byte distances.  Only used to classify findings. *)
Definition wide_byte_gap_re (r : re) : re :=
  let c := split_at_large_gaps (flat_items r) in
  rcat (widen_re (fst c) :: flat_map (fun gp => [jump_of (fst gp); widen_re (snd gp)]) (snd c)).
Definition wide_byte_gap_explains (p : pat) (d : bytes) (rep : list triple) : bool :=
  match p with
  | PRegexp r m =>
      rm_wide m &&
      forallb (fun t => let s := N.to_nat (t_start t) in
                        matches_b (rm_nocase m) d (wide_byte_gap_re r) s (s + N.to_nat (t_len t)) ||
                        (rm_ascii m && matches_b (rm_nocase m) d r s (s + N.to_nat (t_len t)))) rep
  | _ => false
  end.

(* which part of the specification fails on a scan case (bit mask; used only to
   classify findings): 1 panic / matched bytes wrong, 2 a reported match is not
   genuine, 4 offsets not strictly ascending, 8 a required start is missing,
   16 more matches than max_matches_per_pattern; 32 for the other streams *)
Definition diagnose (c : case) : N :=
  match c with
  | ScanCase p subs d mm panicked rep =>
      let rs := ref_scan p d in
      (if subs_ok p subs then 0 else 1048576) +
      (if panicked then 1 else 0) + (if sound_b p d rs rep then 0 else 2) +
      (if ascending_b (map t_start rep) then 0 else 4) +
      (if limit_reached mm rep || complete_b p d rs rep then 0 else 8) +
      (if count_ok mm rep then 0 else 16) +
      (if sound_b p d rs rep then 0 else if wide_byte_gap_explains p d rep then 262144 else 0)
  | MLPanicCase _ => 33
  (* stream (d): 64 the dumped sub-patterns are not the ones compile_text / the hex model
     expects, 128 atoms_ok is false on the real atoms, 256 the pipeline model run on the
     real sub-patterns and atoms does not reproduce the reported list *)
  | PipeCase p sps atoms anchored k hits d rep =>
      let rs := ref_scan p d in
      (if sound_b p d rs rep then 0 else 2) + (if ascending_b (map t_start rep) then 0 else 4) +
      (if anchored || complete_b p d rs rep then 0 else 8) +
      (match expected_sps p with Some e => if list_eqb sp_eqb sps e then 0 else 64 | None => 0 end) +
      (if all_atoms_ok p sps atoms then 0 else 128) +
      (if hits_ok k atoms d hits then 0 else 512) +
      (if pipe_check p sps atoms k hits d rep then 0 else 256)
  (* stream (e): 64 the dumped pieces are not the ones the split model expects, 128 atoms_ok
     false on the real atoms of a piece, 256 the chain model does not reproduce the reported list *)
  | ChainCase p pieces atoms k hits evs fo d rep =>
      let rs := ref_scan p d in
      (if sound_b p d rs rep then 0 else 2) + (if ascending_b (map t_start rep) then 0 else 4) +
      (if complete_b p d rs rep then 0 else 8) +
      (if chain_check p pieces atoms k hits evs fo d rep then 0 else 256) +
      1024 * chain_check_bits p pieces atoms k hits evs fo d rep +
      (if sound_b p d rs rep then 0 else if wide_byte_gap_explains p d rep then 262144 else 0)
  | AtomsCase p atoms d rep =>
      let rs := ref_scan p d in
      (if sound_b p d rs rep then 0 else 2) + (if ascending_b (map t_start rep) then 0 else 4) +
      (if complete_b p d rs rep then 0 else 8) +
      (if atom_cover_ok p atoms d then 0 else 524288) +
      (if sound_b p d rs rep then 0 else if wide_byte_gap_explains p d rep then 262144 else 0)
  | _ => 32
  end.
