(* What the boolean specification evaluated on every scan case means:
   scan_spec p d mm rep = true implies the statement of C01 for that pattern,
   buffer and reported list. *)
From Coq Require Import List NArith ZArith Bool Arith Lia Sorted.
From YV Require Import Gen.PatConsts Pat.Syntax Pat.Sem Pat.Matcher Pat.MatcherProofs
  Pat.Modifiers Pat.ModifiersProofs Pat.MatchList Pat.Atoms Pat.Pipeline Pat.PipelineProofs Pat.C01Check.
Import ListNotations.

Lemma find_In : forall (A : Type) (f : A -> bool) l x, find f l = Some x -> In x l /\ f x = true.
Proof.
  intros A f. induction l as [|y t IH]; intros x H; cbn [find] in H; [discriminate|].
  destruct (f y) eqn:E.
  - inversion H; subst. split; [left; reflexivity|exact E].
  - apply IH in H. destruct H. split; [right; assumption|assumption].
Qed.

Lemma lookup_lens_In : forall rs s l, In l (lookup_lens rs s) -> exists ls, In (s, ls) rs /\ In l ls.
Proof.
  intros rs s l H. unfold lookup_lens in H.
  destruct (find (fun x => Nat.eqb (fst x) s) rs) as [[s' ls]|] eqn:E; [|destruct H].
  apply find_In in E. destruct E as [Hin Heq]. cbn [fst] in Heq. apply Nat.eqb_eq in Heq. subst s'.
  exists ls. split; assumption.
Qed.

(* hex patterns and regexps never report a key *)
Lemma genuine_key_none : forall p d s l key,
  match p with PText _ _ => False | _ => True end -> genuine p d s l key -> key = None.
Proof.
  intros [text m|r|r m] d s l key Hp H; cbn [genuine] in H; [destruct Hp| |]; destruct H as [-> _]; reflexivity.
Qed.

Theorem sound_b_spec : forall p d rep,
  sound_b p d (ref_scan p d) rep = true ->
  forall t, In t rep -> genuine p d (N.to_nat (t_start t)) (N.to_nat (t_len t)) (t_key t).
Proof.
  intros p d rep H t Ht. unfold sound_b in H. rewrite forallb_forall in H. specialize (H t Ht).
  destruct p as [text m|r|r m].
  - apply genuine_b_spec. exact H.
  - apply andb_true_iff in H. destruct H as [Hk Hl]. apply opt_N_eqb_spec in Hk. apply memb_In in Hl.
    apply lookup_lens_In in Hl. destruct Hl as [ls [Hin Hl]].
    destruct (ref_scan_sound _ _ _ _ _ Hin Hl) as [key G].
    rewrite Hk. rewrite <- (genuine_key_none (PHex r) d _ _ key I G). exact G.
  - apply andb_true_iff in H. destruct H as [Hk Hl]. apply opt_N_eqb_spec in Hk. apply memb_In in Hl.
    apply lookup_lens_In in Hl. destruct Hl as [ls [Hin Hl]].
    destruct (ref_scan_sound _ _ _ _ _ Hin Hl) as [key G].
    rewrite Hk. rewrite <- (genuine_key_none (PRegexp r m) d _ _ key I G). exact G.
Qed.

Theorem ascending_b_spec : forall l, ascending_b l = true <-> Sorted N.lt l.
Proof.
  induction l as [|a [|b t] IH].
  - split; [constructor|reflexivity].
  - split; [repeat constructor|reflexivity].
  - cbn [ascending_b]. rewrite andb_true_iff, N.ltb_lt. split.
    + intros [Hab H]. constructor; [apply IH; exact H|constructor; exact Hab].
    + intro H. inversion H as [|x y Hs Hr]; subst. inversion Hr; subst. split; [assumption|apply IH; exact Hs].
Qed.

(* strictly ascending offsets: one match per start offset *)
Lemma sorted_lt_NoDup : forall l, Sorted N.lt l -> NoDup l.
Proof.
  intros l H. apply Sorted_StronglySorted in H; [|intros x y z; apply N.lt_trans].
  induction H as [|a t Hs IH Hf]; constructor; [|exact IH].
  intro Hin. rewrite Forall_forall in Hf. specialize (Hf a Hin). lia.
Qed.

Lemma required_in_ref_scan : forall p d s,
  In s (required_starts p d) -> In s (map fst (ref_scan p d)).
Proof.
  intros p d s H. apply required_starts_spec in H. destruct H as [Hr Hs].
  apply required_genuine in Hr. destruct Hr as [l [key G]].
  destruct (ref_scan_complete _ _ _ _ _ G) as [ls [Hin _]].
  apply in_map_iff. exists (s, ls). split; [reflexivity|exact Hin].
Qed.

Lemma required_from_complete : forall p d s,
  In s (required_starts p d) -> In s (required_from p d (ref_scan p d)).
Proof.
  intros p d s H. destruct p as [text m|r|r m]; cbn [required_from].
  - destruct (has_b64 m); [exact H|apply required_in_ref_scan; exact H].
  - apply required_in_ref_scan; exact H.
  - destruct (rm_fullword m); [exact H|apply required_in_ref_scan; exact H].
Qed.

Theorem complete_b_spec : forall p d rep,
  complete_b p d (ref_scan p d) rep = true ->
  forall s, required_at p d s = true -> s <= length d ->
            within_scan_limit p (ref_scan p d) s = true ->
            In (N.of_nat s) (map t_start rep).
Proof.
  intros p d rep H s Hr Hs Hw. unfold complete_b in H. rewrite forallb_forall in H.
  assert (Hin : In s (required_from p d (ref_scan p d))).
  { apply required_from_complete. apply required_starts_spec. split; assumption. }
  specialize (H s Hin). rewrite Hw in H. cbn [negb orb] in H.
  apply existsb_exists in H. destruct H as [x [Hx E]]. apply N.eqb_eq in E. subst x. exact Hx.
Qed.

(* The statement of C01 for one scan, from the boolean check. *)
Theorem scan_spec_correct : forall p d mm rep,
  scan_spec p d mm rep = true ->
  (* soundness: offset, length and xor key of every reported match are genuine *)
  (forall t, In t rep -> genuine p d (N.to_nat (t_start t)) (N.to_nat (t_len t)) (t_key t)) /\
  (* ascending order, one match per start offset *)
  Sorted N.lt (map t_start rep) /\ NoDup (map t_start rep) /\
  (* completeness within the documented limits *)
  (limit_reached mm rep = false ->
   forall s, required_at p d s = true -> s <= length d ->
             within_scan_limit p (ref_scan p d) s = true -> In (N.of_nat s) (map t_start rep)) /\
  (* the configured limit *)
  (forall n, mm = Some n -> n <> 0%N -> (N.of_nat (length rep) <= n)%N).
Proof.
  intros p d mm rep H. unfold scan_spec, scan_spec_rs in H. rewrite !andb_true_iff in H.
  destruct H as [[[Hs Ha] Hc] Hn]. apply ascending_b_spec in Ha.
  split; [apply sound_b_spec; exact Hs|]. split; [exact Ha|]. split; [apply sorted_lt_NoDup; exact Ha|]. split.
  - intros Hl. rewrite Hl in Hc. cbn [orb] in Hc. apply complete_b_spec. exact Hc.
  - intros n -> Hn0. cbn [count_ok] in Hn. apply orb_true_iff in Hn. destruct Hn as [Hn|Hn].
    + apply N.eqb_eq in Hn. contradiction.
    + apply N.leb_le. exact Hn.
Qed.

(* together with required_exact: for text patterns without base64, hex patterns
   and regexps without fullword, every start of a genuine occurrence is reported *)
Corollary scan_spec_all_starts : forall p d rep s l key,
  scan_spec p d None rep = true ->
  limit_reached None rep = false ->
  match p with
  | PText _ m => has_b64 m = false
  | PHex _ => True
  | PRegexp _ m => rm_fullword m = false
  end ->
  genuine p d s l key ->
  within_scan_limit p (ref_scan p d) s = true ->
  In (N.of_nat s) (map t_start rep).
Proof.
  intros p d rep s l key H Hl Hp G Hw.
  destruct (scan_spec_correct _ _ _ _ H) as [_ [_ [_ [Hc _]]]].
  apply Hc; [exact Hl| | |exact Hw].
  - apply (required_exact p d s Hp). exists l, key. exact G.
  - apply genuine_in_bounds in G. lia.
Qed.

(* non-vacuity: a scan that satisfies the specification, and one that does not *)
Example scan_spec_example :
  scan_spec (PText [97; 98]%N (mkTM false false false false None None None))
            [97; 98; 32; 97; 98]%N None [(0, 2, None); (3, 2, None)]%N = true /\
  scan_spec (PText [97; 98]%N (mkTM false false false false None None None))
            [97; 98; 32; 97; 98]%N None [(0, 2, None)]%N = false.
Proof. vm_compute. split; reflexivity. Qed.

(* ---- the K checks on the recorded hits / events give the hypotheses of the theorems - *)
Lemma hit_mem_In : forall h l, hit_mem h l = true -> In h l.
Proof.
  intros h l H. unfold hit_mem in H. rewrite PipelineProofs.existsb_lazy_eq in H. apply existsb_exists in H.
  destruct H as [x [Hx E]]. unfold hit_eqb in E. apply andb_true_iff in E. destruct E as [E1 E2].
  apply Nat.eqb_eq in E1, E2. destruct h as [a b], x as [c e]. cbn [fst snd] in *. subst. exact Hx.
Qed.

(* hits_ok (evaluated on the REAL recorded hits in K streams (d) and (e)) implies the
   hypothesis hits_exact of the pipeline and chain theorems *)
Theorem hits_ok_exact : forall kernel atoms d hits, hits_ok kernel atoms d hits = true ->
  PipelineProofs.hits_exact atoms d hits.
Proof.
  intros kernel atoms d hits H. unfold hits_ok in H. rewrite !andb_true_iff in H.
  destruct H as [[[[_ H1] H2] _] _]. rewrite forallb_forall in H1, H2.
  intros i pos. split.
  - intro Hin. apply (PipelineProofs.all_hits_hits_exact atoms d). apply hit_mem_In. apply H1. exact Hin.
  - intro Hex. apply hit_mem_In. apply H2. apply (PipelineProofs.all_hits_hits_exact atoms d). exact Hex.
Qed.
