(* Model of Hir::split_at_large_gaps (lib/src/re/hir.rs): a pattern whose
   top-level concatenation contains a jump (repetition of any byte) with
   max - min > PATTERN_CHAINING_THRESHOLD is split there into chained pieces.

   items : the items of the top-level Concat.  The loop keeps
     g      the gap in front of the piece being collected (gap_min, gap_max, gap_greedy)
     chunks the items of the piece being collected
     chain  the finished pieces, each with the gap in front of it
   (the gap stored with the first piece is a dummy: `chain.remove(0).hir`).

   The constants come from Gen/PatConsts.v (regenerated from the source).
   Definitions only; the theorems are in ChainProofs.v. *)
From Coq Require Import List NArith Bool Arith.
From YV Require Import Gen.PatConsts Pat.Syntax Pat.Sem.
Import ListNotations.

Record gap := mkGap { g_min : nat; g_max : option nat; g_greedy : bool }.

(* regex_syntax's minimum_len *)
Fixpoint min_len (r : re) : nat :=
  match r with
  | REps => 0
  | RCls _ => 1
  | RCat a b => min_len a + min_len b
  | RAlt a b => Nat.min (min_len a) (min_len b)
  | RRep x mn _ _ => mn * min_len x
  | RAssert _ => 0
  end.

(* `num_repetitions > PATTERN_CHAINING_THRESHOLD` with
   num_repetitions = max.unwrap_or(u32::MAX).saturating_sub(min) *)
Definition big_gap (mn : nat) (mx : option nat) : bool :=
  match mx with
  | None => true
  | Some m => Nat.ltb (N.to_nat pattern_chaining_threshold) (m - mn)
  end.

Definition long_enough (r : re) : bool :=
  Nat.leb (N.to_nat min_pattern_length_in_chain) (min_len r).

Definition jump_of (g : gap) : re := RRep (RCls CAny) (g_min g) (g_max g) (g_greedy g).

Definition is_nil {A} (l : list A) : bool := match l with [] => true | _ => false end.

Fixpoint split_loop (items : list re) (g : gap) (chunks : list re) (chain : list (gap * re))
  : gap * list re * list (gap * re) :=
  match items with
  | [] => (g, chunks, chain)
  | item :: rest =>
      match item with
      | RRep (RCls CAny) mn mx gr =>
          if negb (is_nil chunks) && big_gap mn mx then
            let hir := rcat chunks in
            if long_enough hir
            then split_loop rest (mkGap mn mx gr) [] (chain ++ [(g, hir)])
            else split_loop rest g [hir; item] chain
          else split_loop rest g (chunks ++ [item]) chain
      | _ => split_loop rest g (chunks ++ [item]) chain
      end
  end.

Definition head_tail (chain : list (gap * re)) : re * list (gap * re) :=
  match chain with
  | [] => (REps, [])          (* chain.remove(0) would panic; unreachable for a Concat *)
  | (_, h) :: t => (h, t)
  end.

Definition split_at_large_gaps (items : list re) : re * list (gap * re) :=
  let '(g, chunks, chain) := split_loop items (mkGap 0 None false) [] [] in
  match chunks with
  | [] =>
      (* `if chunks.is_empty()`: the pattern ends with a large gap.  The gap is
         appended to the last piece (chain.pop(); concat [last.hir, jump];
         chain.push) -- or, in the code before the repair, forgotten.  Which
         of the two the source does is read from it on every run
         (PatConsts.trailing_gap_kept). *)
      if trailing_gap_kept then
        match rev chain with
        | (lg, lh) :: rc => head_tail (rev rc ++ [(lg, rcat [lh; jump_of g])])
        | [] => (REps, [])        (* chain.pop().unwrap() would panic; only for an empty Concat *)
        end
      else head_tail chain
  | _ =>
      let hir := rcat chunks in
      if is_nil chain || long_enough hir then head_tail (chain ++ [(g, hir)])
      else
        match rev chain with
        | (lg, lh) :: rc => head_tail (rev rc ++ [(lg, rcat [lh; jump_of g; hir])])
        | [] => (REps, [])
        end
  end.

(* what the chain means: the pieces with their gaps in between *)
Definition join_chain (c : re * list (gap * re)) : re :=
  rcat (fst c :: flat_map (fun gp => [jump_of (fst gp); snd gp]) (snd c)).
