(* Completeness of the chain bookkeeping (Pat/ChainRun.v).

   For a linear chain of pieces 0 .. n (piece i+1 chained to piece i, LastInChain on
   piece n) and events (verified piece matches) that
     - are matches of non-empty length, and
     - arrive in the order of their END offset,
   every chain of events -- a head event, then for every piece an event whose start is
   within the gap after the end of the previous one, up to an event of the last piece
   -- has its START reported (run_chain_complete_starts).  The proof follows the
   breadth-first walk of verify_chain_of_matches level by level: chain_length is a
   "visited" mark (0, or the level of the piece), visited matches have all their
   in-gap predecessors visited, visited heads are reported; the greedy reset clears
   the marks only after the whole walk has reached the heads.

   The walk is proved once for an abstract predicate R "what a confirmed head start
   satisfies in the match list": `reported` gives the completeness theorem; for a greedy
   pattern "reported with an end >= the end of this walk's tail" gives
   chain_greedy_longest: the end reported for a start is at least the end of EVERY event
   of the last piece that closes a chain from it (between two events a greedy pattern has
   no marked head, so every walk re-reports every head it reaches). *)
From Coq Require Import List NArith Bool Arith Lia Sorted.
From YV Require Import Pat.Syntax Pat.Sem Pat.Matcher Pat.MatcherProofs Pat.Modifiers Pat.MatchList Pat.MatchListProofs
                       Pat.Chain Pat.ChainProofs Pat.ChainRun Pat.ChainRunProofs.
Import ListNotations.

Definition stv (st : ustate) (k : nat) : list um := match u_get st k with Some v => v | None => [] end.

Lemma stv_set : forall st id v k, stv (u_set st id v) k = if Nat.eqb id k then v else stv st k.
Proof. intros. unfold stv. rewrite u_get_set. destruct (Nat.eqb id k); reflexivity. Qed.

Lemma stv_push : forall st id m k, stv (u_push st id m) k = if Nat.eqb id k then stv st id ++ [m] else stv st k.
Proof.
  intros. unfold u_push. rewrite stv_set. destruct (Nat.eqb id k) eqn:E; [|reflexivity].
  unfold stv. destruct (u_get st id); reflexivity.
Qed.

Definition se (m : um) : nat * nat := (um_s m, um_e m).

Lemma same_se_eq : forall a b, same_se a b <-> se a = se b.
Proof. intros [s1 e1 c1] [s2 e2 c2]. unfold same_se, se. cbn. split; [intros [-> ->]; reflexivity|intro H; inversion H; auto]. Qed.

Lemma Forall2_same_se_map : forall v v', Forall2 same_se v v' -> map se v = map se v'.
Proof. intros v v' H. induction H as [|a b v v' Hab H IH]; [reflexivity|]. cbn [map]. apply same_se_eq in Hab. rewrite Hab, IH. reflexivity. Qed.

(* ---- chain_scan in closed form ------------------------------------------------ *)
Definition cs_test (g : cgap) (cur m : um) : bool :=
  in_gap g (um_e m) (um_s cur) && Nat.leb (um_cl m) (um_cl cur).
Definition cs_mark (cur m : um) : um := mkUM (um_s m) (um_e m) (S (um_cl cur)).

Lemma chain_scan_closed : forall g cur v,
  chain_scan g cur v = (map (fun m => if cs_test g cur m then cs_mark cur m else m) v,
                        map (cs_mark cur) (filter (cs_test g cur) v)).
Proof.
  induction v as [|m t IH]; cbn [chain_scan map filter]; [reflexivity|].
  rewrite IH. fold (cs_test g cur m). destruct (cs_test g cur m); reflexivity.
Qed.

Definition zeros (v : list um) : nat := length (filter (fun m => Nat.eqb (um_cl m) 0) v).

Lemma zeros_app : forall a b, zeros (a ++ b) = zeros a + zeros b.
Proof. intros. unfold zeros. rewrite filter_app, app_length. reflexivity. Qed.

(* when the test can only succeed on unmarked entries, every push uses up a zero *)
Lemma scan_zeros : forall g cur v,
  (forall m, In m v -> cs_test g cur m = true -> um_cl m = 0) ->
  zeros (map (fun m => if cs_test g cur m then cs_mark cur m else m) v) +
  length (filter (cs_test g cur) v) = zeros v.
Proof.
  induction v as [|m t IH]; intros H; [reflexivity|].
  cbn [map filter]. unfold zeros in *. cbn [filter].
  assert (Ht : forall m0, In m0 t -> cs_test g cur m0 = true -> um_cl m0 = 0) by (intros; apply H; [right|]; assumption).
  specialize (IH Ht).
  destruct (cs_test g cur m) eqn:E.
  - rewrite (H m (or_introl eq_refl) E). cbn [cs_mark um_cl Nat.eqb length]. lia.
  - destruct (Nat.eqb (um_cl m) 0); cbn [length]; lia.
Qed.

Definition total_zeros (st : ustate) : nat := fold_right (fun kv acc => zeros (snd kv) + acc) 0 st.

Lemma zeros_le_length : forall v, zeros v <= length v.
Proof. intro v. unfold zeros. induction v as [|m t IH]; cbn [filter length]; [lia|]. destruct (Nat.eqb (um_cl m) 0); cbn [length]; lia. Qed.

Lemma total_zeros_le : forall st, total_zeros st <= total_unconfirmed st.
Proof.
  induction st as [|[k v] t IH]; cbn [total_zeros total_unconfirmed fold_right snd]; [lia|].
  pose proof (zeros_le_length v). unfold total_zeros, total_unconfirmed in IH. lia.
Qed.

Lemma total_zeros_set : forall st id v v0, u_get st id = Some v0 ->
  total_zeros (u_set st id v) + zeros v0 = total_zeros st + zeros v.
Proof.
  induction st as [|[k w] t IH]; intros id v v0 H; cbn [u_get] in H; [discriminate|].
  cbn [u_set]. destruct (Nat.eqb k id) eqn:E.
  - inversion H; subst w. cbn [total_zeros fold_right snd]. lia.
  - cbn [total_zeros fold_right snd]. specialize (IH _ v _ H). unfold total_zeros in IH. lia.
Qed.

(* ---- a linear chain --------------------------------------------------------------- *)
Section Complete.
  Variable pieces : list cpiece.
  Variable n : nat.                       (* the index of the last piece *)
  Variable gp : nat -> cgap.              (* the gap in front of piece S i *)
  Variable greedy : bool.
  Hypothesis Hn : 1 <= n.
  Hypothesis Hlen : length pieces = S n.
  Hypothesis Hhead : forall p, nth_error pieces 0 = Some p -> cp_link p = None.
  Hypothesis Htail : forall i p, nth_error pieces (S i) = Some p -> cp_link p = Some (i, gp i).
  Hypothesis Hlast : forall id p, nth_error pieces id = Some p -> cp_last p = Nat.eqb id n.
  Hypothesis Hgreedy : forall id p, nth_error pieces id = Some p -> cp_greedy p = greedy.

  Lemma piece_exists : forall id, id <= n -> exists p, nth_error pieces id = Some p.
  Proof.
    intros id H. destruct (nth_error pieces id) as [p|] eqn:E; [exists p; reflexivity|].
    apply nth_error_None in E. lia.
  Qed.

  Definition Lv (k : nat) : nat := S (n - k).

  Definition zero_all (st : ustate) : Prop := forall k m, In m (stv st k) -> um_cl m = 0.

  (* the reset walk from piece k down to the head clears every mark at levels <= k *)
  Lemma reset_chain_skel : forall fuel st id k, map se (stv (reset_chain fuel pieces st id) k) = map se (stv st k).
  Proof.
    induction fuel as [|f IH]; intros st id k; cbn [reset_chain]; [reflexivity|].
    destruct id as [i|]; [|reflexivity]. rewrite IH.
    destruct (u_get st i) as [v|] eqn:E; [|reflexivity].
    rewrite stv_set. destruct (Nat.eqb i k) eqn:Ek; [|reflexivity].
    apply Nat.eqb_eq in Ek. subst k. unfold stv. rewrite E. rewrite map_map. reflexivity.
  Qed.

  Lemma reset_chain_get : forall fuel st id k, u_get st k <> None -> u_get (reset_chain fuel pieces st id) k <> None.
  Proof.
    induction fuel as [|f IH]; intros st id k H; cbn [reset_chain]; [exact H|].
    destruct id as [i|]; [|exact H]. apply IH.
    destruct (u_get st i) as [v|] eqn:E; [|exact H].
    rewrite u_get_set. destruct (Nat.eqb i k); [discriminate|exact H].
  Qed.

  Lemma reset_chain_zero : forall fuel st k, k < fuel -> k <= n ->
    forall j m, j <= k -> In m (stv (reset_chain fuel pieces st (Some k)) j) -> um_cl m = 0.
  Proof.
    induction fuel as [|f IH]; intros st k Hf Hk j m Hj Hin; [lia|].
    cbn [reset_chain] in Hin.
    destruct (piece_exists k Hk) as [p Ep]. rewrite Ep in Hin.
    set (st' := match u_get st k with
                | Some v => u_set st k (map (fun m0 => mkUM (um_s m0) (um_e m0) 0) v)
                | None => st end) in *.
    destruct k as [|k'].
    - rewrite (Hhead _ Ep) in Hin. assert (j = 0) by lia. subst j.
      (* no further step: the marks of level 0 in st' are zero *)
      assert (Hz : forall m0, In m0 (stv st' 0) -> um_cl m0 = 0).
      { intros m0 H0. unfold st' in H0. destruct (u_get st 0) as [v|] eqn:E.
        - rewrite stv_set in H0. cbn [Nat.eqb] in H0. apply in_map_iff in H0. destruct H0 as [x [<- _]]. reflexivity.
        - unfold stv in H0. rewrite E in H0. destruct H0. }
      destruct f; cbn [reset_chain] in Hin; apply Hz; exact Hin.
    - rewrite (Htail _ _ Ep) in Hin.
      destruct (Nat.eq_dec j (S k')) as [->|Hne].
      + (* level k itself: zeroed by this step, untouched by the rest of the walk *)
        assert (Hz : forall m0, In m0 (stv st' (S k')) -> um_cl m0 = 0).
        { intros m0 H0. unfold st' in H0. destruct (u_get st (S k')) as [v|] eqn:E.
          - rewrite stv_set, Nat.eqb_refl in H0. apply in_map_iff in H0. destruct H0 as [x [<- _]]. reflexivity.
          - unfold stv in H0. rewrite E in H0. destruct H0. }
        clear IH. revert Hin. generalize st' Hz. clear st' Hz.
        assert (Hgen : forall f0 st0 i, i <= k' ->
                  (forall m0, In m0 (stv st0 (S k')) -> um_cl m0 = 0) ->
                  In m (stv (reset_chain f0 pieces st0 (Some i)) (S k')) -> um_cl m = 0).
        { induction f0 as [|f0 IHf]; intros st0 i Hi Hz0 H0; cbn [reset_chain] in H0; [apply Hz0; exact H0|].
          assert (Hik : i <= n) by lia. destruct (piece_exists i Hik) as [pi Epi]. rewrite Epi in H0.
          set (st1 := match u_get st0 i with
                      | Some v => u_set st0 i (map (fun m0 => mkUM (um_s m0) (um_e m0) 0) v)
                      | None => st0 end) in *.
          assert (Hz1 : forall m0, In m0 (stv st1 (S k')) -> um_cl m0 = 0).
          { intros m0 H1. unfold st1 in H1. destruct (u_get st0 i) as [v|]; [|apply Hz0; exact H1].
            rewrite stv_set in H1. replace (Nat.eqb i (S k')) with false in H1 by (symmetry; apply Nat.eqb_neq; lia).
            apply Hz0. exact H1. }
          destruct i as [|i'].
          - rewrite (Hhead _ Epi) in H0. destruct f0; cbn [reset_chain] in H0; apply Hz1; exact H0.
          - rewrite (Htail _ _ Epi) in H0. apply (IHf st1 i'); [lia|exact Hz1|exact H0]. }
        intros st' Hz Hin. apply (Hgen f st' k'); [lia|exact Hz|exact Hin].
      + apply (IH st' k' ltac:(lia) ltac:(lia) j m ltac:(lia) Hin).
  Qed.

  Lemma reset_chain_marks : forall fuel st id k m, In m (stv (reset_chain fuel pieces st id) k) ->
    exists m0, In m0 (stv st k) /\ se m = se m0 /\ (um_cl m = um_cl m0 \/ um_cl m = 0).
  Proof.
    induction fuel as [|f IH]; intros st id k m H; cbn [reset_chain] in H.
    - exists m. auto.
    - destruct id as [i|]; [|exists m; auto].
      apply IH in H. destruct H as [m1 [H1 [E1 C1]]].
      destruct (u_get st i) as [v|] eqn:E; [|exists m1; auto].
      rewrite stv_set in H1. destruct (Nat.eqb i k) eqn:Ek; [|exists m1; auto].
      apply Nat.eqb_eq in Ek. subst k. apply in_map_iff in H1. destruct H1 as [m0 [<- H0]].
      exists m0. split; [unfold stv; rewrite E; exact H0|]. split; [rewrite E1; reflexivity|].
      right. destruct C1 as [C1|C1]; rewrite C1; reflexivity.
  Qed.

  (* ---- one walk: verify_chain_of_matches for the tail match s_t..e_t ------------- *)
  Definition reported (ml : match_list) (s : nat) : Prop := In (N.of_nat s) (starts ml).

  Section Walk.
    Variable s_t e_t : nat.
    Variable st0 : ustate.                 (* the state when the walk starts: fixes the skeleton *)
    (* what the walk establishes about the head starts it confirms: `reported` (the start
       is in the list) for completeness, "reported with an end >= e_t" for the greedy
       end; all it needs is that adding a match of this walk establishes / keeps it *)
    Variable R : match_list -> nat -> Prop.
    Hypothesis R_new : forall ml s, sorted ml ->
      R (fst (ml_add ml (mkM (N.of_nat s) (N.of_nat e_t) None) greedy)) s.
    Hypothesis R_mono : forall ml s s', sorted ml -> R ml s ->
      R (fst (ml_add ml (mkM (N.of_nat s') (N.of_nat e_t) None) greedy)) s.
    Definition tailum : um := mkUM s_t e_t 1.
    Definition nd (st : ustate) (k : nat) : list um := if Nat.eqb k n then [tailum] else stv st k.

    Definition closed (st : ustate) (k : nat) (m : um) : Prop :=
      match k with
      | O => True
      | S k' => forall m', In m' (stv st k') -> in_gap (gp k') (um_e m') (um_s m) = true -> um_cl m' <> 0
      end.
    Definition pend (queue : list (nat * um)) (k : nat) (m : um) : Prop :=
      exists c, In (k, c) queue /\ se c = se m.

    (* (start, end) pairs connected to the tail match through in-gap steps *)
    Inductive conn : nat -> nat * nat -> Prop :=
    | conn_tail : conn n (s_t, e_t)
    | conn_step : forall k p p2, k < n -> In p (map se (stv st0 k)) ->
        in_gap (gp k) (snd p) (fst p2) = true -> conn (S k) p2 -> conn k p.

    Definition qshape (queue : list (nat * um)) : Prop :=
      exists j q1 q2, queue = map (pair j) q1 ++ map (pair (j - 1)) q2 /\ j <= n /\ (j = 0 -> q2 = []) /\
                      (forall c, In c q1 -> um_cl c = Lv j) /\ (forall c, In c q2 -> um_cl c = Lv (j - 1)).
    Definition heads_only (queue : list (nat * um)) : Prop := forall id c, In (id, c) queue -> id = 0.

    Definition skel (st : ustate) : Prop := forall k, map se (stv st k) = map se (stv st0 k).
    Definition levels (st : ustate) : Prop :=
      forall k m, In m (stv st k) -> k < n /\ (um_cl m = 0 \/ um_cl m = Lv k).
    Definition cl_inv (queue : list (nat * um)) (st : ustate) (ml : match_list) : Prop :=
      forall k m, In m (nd st k) -> um_cl m <> 0 ->
        pend queue k m \/ (closed st k m /\ (k = 0 -> R ml (um_s m))).
    Definition tc_inv (queue : list (nat * um)) (tct : option nat) : Prop :=
      if greedy then In (n, tailum) queue \/ tct = Some (n - 1) else tct = None.
    Definition req_inv (queue : list (nat * um)) (ml : match_list) : Prop :=
      forall p, conn 0 p ->
        R ml (fst p) \/ (exists c, In (0, c) queue /\ um_s c = fst p) \/ ~ heads_only queue.

    Definition Inv (fuel : nat) (queue : list (nat * um)) (tct : option nat) (st : ustate) (ml : match_list) : Prop :=
      sorted ml /\ skel st /\ levels st /\ u_get st (n - 1) <> None /\ qshape queue /\ req_inv queue ml /\
      ((cl_inv queue st ml /\ tc_inv queue tct /\ length queue + total_zeros st <= fuel /\
        (greedy = true -> forall m, In m (stv st 0) -> um_cl m <> 0 -> pend queue 0 m)) \/
       (zero_all st /\ heads_only queue /\ greedy = true /\ tct = Some (n - 1) /\ length queue <= fuel)).

    Definition Post (ml0 : match_list) (st : ustate) (ml : match_list) : Prop :=
      sorted ml /\ skel st /\ levels st /\
      (forall k m, In m (stv st k) -> um_cl m <> 0 -> closed st k m /\ (k = 0 -> R ml (um_s m))) /\
      (forall p, conn 0 p -> R ml (fst p)) /\
      (forall s, reported ml0 s -> reported ml s) /\
      (greedy = true -> forall m, In m (stv st 0) -> um_cl m = 0).

    Lemma qshape_front : forall id c q, qshape ((id, c) :: q) ->
      exists q1 q2, q = map (pair id) q1 ++ map (pair (id - 1)) q2 /\ id <= n /\ (id = 0 -> q2 = []) /\
                    um_cl c = Lv id /\ (forall c0, In c0 q1 -> um_cl c0 = Lv id) /\
                    (forall c0, In c0 q2 -> um_cl c0 = Lv (id - 1)).
    Proof.
      intros id c q [j [q1 [q2 [E [Hj [H0 [H1 H2]]]]]]].
      destruct q1 as [|c1 q1'].
      - cbn [map app] in E. destruct q2 as [|c2 q2']; [discriminate|]. cbn [map] in E. inversion E; subst id c q.
        exists q2', []. cbn [map]. rewrite app_nil_r.
        split; [reflexivity|]. split; [lia|]. split; [intros _; reflexivity|].
        split; [apply H2; left; reflexivity|]. split; [intros c0 Hc; apply H2; right; exact Hc|intros c0 []].
      - cbn [map app] in E. inversion E; subst id c q. exists q1', q2.
        split; [reflexivity|]. split; [exact Hj|]. split; [exact H0|].
        split; [apply H1; left; reflexivity|]. split; [intros c0 Hc; apply H1; right; exact Hc|exact H2].
    Qed.

    Lemma in_queue_split : forall (id : nat) (q1 q2 : list um) k c,
      In (k, c) (map (pair id) q1 ++ map (pair (id - 1)) q2) ->
      (k = id /\ In c q1) \/ (k = id - 1 /\ In c q2).
    Proof.
      intros id q1 q2 k c H. apply in_app_iff in H. destruct H as [H|H]; apply in_map_iff in H;
        destruct H as [x [E Hx]]; inversion E; subst; auto.
    Qed.

    Lemma nd_n : forall st, nd st n = [tailum].
    Proof. intro st. unfold nd. rewrite Nat.eqb_refl. reflexivity. Qed.
    Lemma nd_lt : forall st k, k < n -> nd st k = stv st k.
    Proof. intros st k H. unfold nd. replace (Nat.eqb k n) with false by (symmetry; apply Nat.eqb_neq; lia). reflexivity. Qed.

    Lemma conn_exists : forall st, skel st -> forall k p, conn k p -> exists m, In m (nd st k) /\ se m = p.
    Proof.
      intros st Hsk k p H. destruct H as [|k p p2 Hk Hin Hg Hc].
      - exists tailum. rewrite nd_n. split; [left; reflexivity|reflexivity].
      - rewrite nd_lt by exact Hk. rewrite <- (Hsk k) in Hin. apply in_map_iff in Hin.
        destruct Hin as [m [E Hm]]. exists m. split; [exact Hm|exact E].
    Qed.

    Lemma conn_marked : forall queue st ml, skel st -> cl_inv queue st ml -> heads_only queue ->
      forall k p, conn k p -> forall m, In m (nd st k) -> se m = p -> um_cl m <> 0.
    Proof.
      intros queue st ml Hsk Hcl Hho k p H.
      induction H as [|k p p2 Hk Hin Hg Hc IH]; intros m Hm Hse.
      - rewrite nd_n in Hm. destruct Hm as [<-|[]]. cbn. discriminate.
      - destruct (conn_exists st Hsk _ _ Hc) as [m2 [Hm2 E2]].
        pose proof (IH m2 Hm2 E2) as Hmk.
        destruct (Hcl (S k) m2 Hm2 Hmk) as [[c [Hc0 _]]|[Hclosed _]].
        + apply Hho in Hc0. discriminate.
        + rewrite nd_lt in Hm by exact Hk. cbn [closed] in Hclosed. apply (Hclosed m Hm).
          assert (um_e m = snd p) by (rewrite <- Hse; reflexivity).
          assert (um_s m2 = fst p2) by (rewrite <- E2; reflexivity). congruence.
    Qed.

    Lemma heads_only_nil : heads_only [].
    Proof. intros id c []. Qed.

    Lemma inv_post : forall fuel tct st ml ml0, Inv fuel [] tct st ml ->
      (forall s, reported ml0 s -> reported ml s) -> Post ml0 st ml.
    Proof.
      intros fuel tct st ml ml0 [Hso [Hsk [Hlv [_ [_ [Hreq Hdis]]]]]] Hmono.
      split; [exact Hso|]. split; [exact Hsk|]. split; [exact Hlv|]. split; [|split; [|split; [exact Hmono|]]].
      - intros k m Hm Hmk. destruct Hdis as [[Hcl _]|[Hz _]].
        + destruct (Hlv k m Hm) as [Hk _]. rewrite <- (nd_lt st k Hk) in Hm.
          destruct (Hcl k m Hm Hmk) as [[c [[] _]]|H]. exact H.
        + exfalso. apply Hmk. apply (Hz k m Hm).
      - intros p Hp. destruct (Hreq p Hp) as [H|[[c [[] _]]|H]]; [exact H|]. exfalso. apply H. apply heads_only_nil.
      - intros Hg m Hm. destruct Hdis as [[_ [_ [_ Hhp]]]|[Hz _]]; [|apply (Hz 0 m Hm)].
        destruct (Nat.eq_dec (um_cl m) 0) as [E|E]; [exact E|].
        destruct (Hhp Hg m Hm E) as [c [[] _]].
    Qed.

    Lemma reported_add : forall ml m r s, sorted ml -> reported ml s -> reported (fst (ml_add ml m r)) s.
    Proof. intros ml m r s Hs H. unfold reported, starts. apply add_start_set; [exact Hs|]. right. exact H. Qed.
    Lemma reported_new : forall ml s e k r, sorted ml -> reported (fst (ml_add ml (mkM (N.of_nat s) e k) r)) s.
    Proof. intros ml s e k r Hs. unfold reported, starts. apply add_start_set; [exact Hs|]. left. reflexivity. Qed.

    Lemma step_head : forall f c q tct st ml,
      Inv (S f) ((0, c) :: q) tct st ml ->
      Inv f q tct (reset_chain (S (length pieces)) pieces st tct)
          (fst (ml_add ml (mkM (N.of_nat (um_s c)) (N.of_nat e_t) None) greedy)).
    Proof.
      intros f c q tct st ml [Hso [Hsk [Hlv [Hgn [Hq [Hreq Hdis]]]]]].
      destruct (qshape_front _ _ _ Hq) as [q1 [q2 [Eq [_ [H0 [_ [Hc1 _]]]]]]].
      rewrite (H0 eq_refl) in Eq. cbn [map] in Eq. rewrite app_nil_r in Eq.
      assert (Hho : heads_only q).
      { intros id c0 Hin. rewrite Eq in Hin. apply in_map_iff in Hin. destruct Hin as [x [E _]]. inversion E. reflexivity. }
      assert (Hho' : heads_only ((0, c) :: q)).
      { intros id c0 [E|Hin]; [inversion E; reflexivity|eapply Hho; exact Hin]. }
      set (ml' := fst (ml_add ml (mkM (N.of_nat (um_s c)) (N.of_nat e_t) None) greedy)).
      set (st' := reset_chain (S (length pieces)) pieces st tct).
      split; [apply add_sorted; exact Hso|].
      split; [intro k; unfold st'; rewrite reset_chain_skel; apply Hsk|].
      split.
      { intros k m Hm. unfold st' in Hm. apply reset_chain_marks in Hm. destruct Hm as [m0 [Hm0 [_ C]]].
        destruct (Hlv k m0 Hm0) as [Hk Hc]. split; [exact Hk|]. destruct C as [C|C]; rewrite C; [exact Hc|left; reflexivity]. }
      split; [unfold st'; apply reset_chain_get; exact Hgn|].
      split.
      { exists 0, q1, []. cbn [map]. rewrite app_nil_r. split; [exact Eq|]. split; [lia|]. split; [reflexivity|].
        split; [exact Hc1|intros c0 []]. }
      split.
      { intros p Hp. destruct (Hreq p Hp) as [H|[[c0 [[E|Hin] Hs0]]|H]].
        - left. apply R_mono; assumption.
        - inversion E; subst c0. left. rewrite <- Hs0. apply R_new. exact Hso.
        - right. left. exists c0. split; assumption.
        - exfalso. apply H. exact Hho'. }
      destruct Hdis as [[Hcl [Htc [Hfu Hhp]]]|[Hz [_ [Hg [Ht Hfu]]]]].
      - unfold tc_inv in Htc. destruct (Bool.bool_dec greedy true) as [Eg|Eg].
        + (* greedy: the reset clears every mark *)
          rewrite Eg in Htc.
          destruct Htc as [Hin|Htct]; [apply Hho' in Hin; lia|].
          right. split.
          { intros k m Hm. unfold st' in Hm. rewrite Htct in Hm.
            assert (Hk : k < n).
            { apply reset_chain_marks in Hm. destruct Hm as [m0 [Hm0 _]]. apply (Hlv k m0 Hm0). }
            apply (reset_chain_zero (S (length pieces)) st (n - 1) ltac:(lia) ltac:(lia) k m ltac:(lia) Hm). }
          split; [exact Hho|]. split; [exact Eg|]. split; [exact Htct|]. cbn [length] in Hfu. lia.
        + (* lazy: no reset *)
          apply Bool.not_true_is_false in Eg. rewrite Eg in Htc.
          left. subst tct. assert (Est : st' = st) by reflexivity. rewrite Est. split.
          { intros k m Hm Hmk. destruct (Hcl k m Hm Hmk) as [[c0 [[E|Hin] Hse]]|[Hc Hr]].
            - inversion E; subst k c0. right. split; [exact I|]. intros _.
              replace (um_s m) with (um_s c) by (change (fst (se c) = fst (se m)); rewrite Hse; reflexivity).
              apply R_new. exact Hso.
            - left. exists c0. split; assumption.
            - right. split; [exact Hc|]. intro Hk0. apply R_mono; [exact Hso|apply Hr; exact Hk0]. }
          split; [unfold tc_inv; rewrite Eg; reflexivity|]. split; [cbn [length] in Hfu; lia|].
          intro Hg'. rewrite Eg in Hg'. discriminate.
      - right. split.
        { intros k m Hm. unfold st' in Hm. apply reset_chain_marks in Hm. destruct Hm as [m0 [Hm0 [_ C]]].
          destruct C as [C|C]; rewrite C; [apply (Hz k m0 Hm0)|reflexivity]. }
        split; [exact Hho|]. split; [exact Hg|]. split; [exact Ht|]. cbn [length] in Hfu. lia.
    Qed.

    Lemma heads_only_dec : forall q : list (nat * um), heads_only q \/ ~ heads_only q.
    Proof.
      induction q as [|[id c] t IH].
      - left. apply heads_only_nil.
      - destruct IH as [IH|IH].
        + destruct id as [|id].
          * left. intros id0 c0 [E|H]; [inversion E; reflexivity|eapply IH; exact H].
          * right. intro H. specialize (H (S id) c (or_introl eq_refl)). discriminate.
        + right. intro H. apply IH. intros id0 c0 Hin. eapply H. right. exact Hin.
    Qed.

    Lemma req_from_cl : forall queue st ml, skel st -> cl_inv queue st ml -> req_inv queue ml.
    Proof.
      intros queue st ml Hsk Hcl p Hp.
      destruct (heads_only_dec queue) as [Hho|Hho]; [|right; right; exact Hho].
      destruct (conn_exists st Hsk _ _ Hp) as [m [Hm Hse]].
      pose proof (conn_marked queue st ml Hsk Hcl Hho _ _ Hp m Hm Hse) as Hmk.
      assert (Hs : um_s m = fst p) by (rewrite <- Hse; reflexivity).
      destruct (Hcl 0 m Hm Hmk) as [[c [Hc Hsec]]|[_ Hr]].
      - right. left. exists c. split; [exact Hc|]. rewrite <- Hs.
        change (fst (se c) = fst (se m)). rewrite Hsec. reflexivity.
      - left. rewrite <- Hs. apply Hr. reflexivity.
    Qed.

    Lemma Lv_S : forall j, S j <= n -> Lv j = S (Lv (S j)).
    Proof. intros j H. unfold Lv. lia. Qed.

    Lemma step_tail : forall f j' c q tct st ml,
      Inv (S f) ((S j', c) :: q) tct st ml ->
      exists queue' tct' st',
        chain_loop (S f) pieces e_t ((S j', c) :: q) tct st ml = chain_loop f pieces e_t queue' tct' st' ml /\
        Inv f queue' tct' st' ml.
    Proof.
      intros f j' c q tct st ml [Hso [Hsk [Hlv [Hgn [Hq [Hreq Hdis]]]]]].
      destruct (qshape_front _ _ _ Hq) as [q1 [q2 [Eq [Hjn [_ [Hcc [Hc1 Hc2]]]]]]].
      replace (S j' - 1) with j' in * by lia.
      destruct Hdis as [[Hcl [Htc [Hfu Hhp]]]|[_ [Hho _]]];
        [|specialize (Hho (S j') c (or_introl eq_refl)); discriminate].
      destruct (piece_exists (S j') Hjn) as [p Ep].
      pose proof (Htail _ _ Ep) as Hlink. pose proof (Hlast _ _ Ep) as Hla. pose proof (Hgreedy _ _ Ep) as Hgr.
      cbn [chain_loop]. rewrite Ep, Hlink.
      destruct (u_get st j') as [v|] eqn:Ev.
      - (* some matches of the previous piece *)
        rewrite chain_scan_closed.
        set (v' := map (fun m => if cs_test (gp j') c m then cs_mark c m else m) v).
        set (pushed := map (cs_mark c) (filter (cs_test (gp j') c) v)).
        set (tct' := if cp_last p && cp_greedy p then Some j' else tct).
        exists (q ++ map (fun m => (j', m)) pushed), tct', (u_set st j' v').
        split; [reflexivity|].
        assert (Hv : stv st j' = v) by (unfold stv; rewrite Ev; reflexivity).
        assert (F1 : forall m', In m' v' -> exists m0, In m0 v /\
                  ((cs_test (gp j') c m0 = true /\ m' = cs_mark c m0) \/ (cs_test (gp j') c m0 = false /\ m' = m0))).
        { intros m' H. unfold v' in H. apply in_map_iff in H. destruct H as [m0 [E H0]]. exists m0. split; [exact H0|].
          destruct (cs_test (gp j') c m0); [left|right]; split; auto. }
        assert (Htest0 : forall m0, In m0 v -> cs_test (gp j') c m0 = true -> um_cl m0 = 0).
        { intros m0 H0 Ht. unfold cs_test in Ht. apply andb_true_iff in Ht. destruct Ht as [_ Ht]. apply Nat.leb_le in Ht.
          rewrite <- Hv in H0. destruct (Hlv _ _ H0) as [_ [Hz|Hz]]; [exact Hz|].
          rewrite Hcc in Ht. rewrite (Lv_S j' Hjn) in Hz. lia. }
        split; [exact Hso|].
        split.
        { intro k. rewrite stv_set. destruct (Nat.eqb j' k) eqn:Ek; [|apply Hsk].
          apply Nat.eqb_eq in Ek. subst k. rewrite <- Hsk, Hv. unfold v'. rewrite map_map. apply map_ext.
          intro m. destruct (cs_test (gp j') c m); reflexivity. }
        split.
        { intros k m Hm. rewrite stv_set in Hm. destruct (Nat.eqb j' k) eqn:Ek; [|apply Hlv; exact Hm].
          apply Nat.eqb_eq in Ek. subst k. destruct (F1 _ Hm) as [m0 [H0 [[Ht ->]|[Ht ->]]]].
          - split; [lia|]. right. cbn [cs_mark um_cl]. rewrite Hcc. symmetry. apply Lv_S. exact Hjn.
          - apply Hlv. rewrite Hv. exact H0. }
        split.
        { rewrite u_get_set. destruct (Nat.eqb j' (n - 1)); [discriminate|exact Hgn]. }
        split.
        { exists (S j'), q1, (q2 ++ pushed). replace (S j' - 1) with j' by lia.
          split; [rewrite Eq, map_app, app_assoc; reflexivity|]. split; [exact Hjn|]. split; [discriminate|].
          split; [exact Hc1|]. intros c0 Hc0. apply in_app_iff in Hc0. destruct Hc0 as [Hc0|Hc0]; [apply Hc2; exact Hc0|].
          unfold pushed in Hc0. apply in_map_iff in Hc0. destruct Hc0 as [m0 [<- _]]. cbn [cs_mark um_cl].
          rewrite Hcc. symmetry. apply Lv_S. exact Hjn. }
        assert (Hcl' : cl_inv (q ++ map (fun m => (j', m)) pushed) (u_set st j' v') ml).
        { intros k m Hm Hmk.
          destruct (Nat.eq_dec k j') as [->|Hkj].
          - (* the level that was scanned *)
            assert (Hjlt : j' < n) by lia.
            rewrite nd_lt in Hm by exact Hjlt. rewrite stv_set, Nat.eqb_refl in Hm.
            destruct (F1 _ Hm) as [m0 [H0 [[Ht ->]|[Ht ->]]]].
            + left. exists (cs_mark c m0). split; [|reflexivity].
              apply in_app_iff. right. apply in_map_iff. exists (cs_mark c m0). split; [reflexivity|].
              unfold pushed. apply in_map. apply filter_In. split; assumption.
            + assert (Hm0 : In m0 (nd st j')) by (rewrite nd_lt by exact Hjlt; rewrite Hv; exact H0).
              destruct (Hcl j' m0 Hm0 Hmk) as [[c0 [[E|Hin] Hse]]|[Hc Hr]].
              * inversion E. lia.
              * left. exists c0. split; [apply in_app_iff; left; exact Hin|exact Hse].
              * right. split; [|exact Hr]. destruct j' as [|j'']; [exact I|]. cbn [closed] in *.
                intros m' Hm'. rewrite stv_set in Hm'.
                replace (Nat.eqb (S j'') j'') with false in Hm' by (symmetry; apply Nat.eqb_neq; lia).
                apply Hc. exact Hm'.
          - (* another level: the nodes are the same *)
            assert (Hnd : nd (u_set st j' v') k = nd st k).
            { unfold nd. destruct (Nat.eqb k n); [reflexivity|]. rewrite stv_set.
              replace (Nat.eqb j' k) with false by (symmetry; apply Nat.eqb_neq; lia). reflexivity. }
            rewrite Hnd in Hm.
            (* closedness of a node at level S j' after the scan *)
            assert (Hclosed_new : forall m1, um_s m1 = um_s c \/ closed st (S j') m1 -> closed (u_set st j' v') (S j') m1).
            { intros m1 H1. cbn [closed]. intros m' Hm' Hg. rewrite stv_set, Nat.eqb_refl in Hm'.
              destruct (F1 _ Hm') as [m0 [H0 [[Ht ->]|[Ht ->]]]]; [cbn; discriminate|].
              destruct H1 as [H1|H1].
              - unfold cs_test in Ht. rewrite H1 in Hg. rewrite Hg in Ht. cbn [andb] in Ht.
                apply Nat.leb_gt in Ht. rewrite Hcc in Ht. unfold Lv in Ht. lia.
              - cbn [closed] in H1. apply H1; [rewrite Hv; exact H0|exact Hg]. }
            destruct (Hcl k m Hm Hmk) as [[c0 [[E|Hin] Hse]]|[Hc Hr]].
            + inversion E; subst k c0. right. split; [|intro; discriminate].
              apply Hclosed_new. left. change (fst (se m) = fst (se c)). rewrite Hse. reflexivity.
            + left. exists c0. split; [apply in_app_iff; left; exact Hin|exact Hse].
            + right. split; [|exact Hr].
              destruct (Nat.eq_dec k (S j')) as [->|Hks]; [apply Hclosed_new; right; exact Hc|].
              destruct k as [|k']; [exact I|]. cbn [closed] in *. intros m' Hm'. rewrite stv_set in Hm'.
              replace (Nat.eqb j' k') with false in Hm' by (symmetry; apply Nat.eqb_neq; lia). apply Hc. exact Hm'. }
        split; [apply (req_from_cl _ (u_set st j' v')); [|exact Hcl']|].
        { intro k. rewrite stv_set. destruct (Nat.eqb j' k) eqn:Ek; [|apply Hsk].
          apply Nat.eqb_eq in Ek. subst k. rewrite <- Hsk, Hv. unfold v'. rewrite map_map. apply map_ext.
          intro m. destruct (cs_test (gp j') c m); reflexivity. }
        left. split; [exact Hcl'|]. split.
        { unfold tc_inv in *. unfold tct'. rewrite Hla, Hgr. destruct (Bool.bool_dec greedy true) as [Eg|Eg].
          - rewrite Eg in *. destruct (Nat.eqb (S j') n) eqn:En; cbn [andb].
            + right. apply Nat.eqb_eq in En. f_equal. lia.
            + destruct Htc as [[E|Hin]|Ht]; [inversion E; apply Nat.eqb_neq in En; lia| |right; exact Ht].
              left. apply in_app_iff. left. exact Hin.
          - apply Bool.not_true_is_false in Eg. rewrite Eg in *. rewrite andb_false_r. exact Htc. }
        split.
        { rewrite app_length, map_length. cbn [length] in Hfu.
          pose proof (total_zeros_set st j' v' v Ev) as Hz.
          pose proof (scan_zeros (gp j') c v Htest0) as Hs. fold v' in Hs.
          assert (Hp : length pushed = length (filter (cs_test (gp j') c) v)) by (unfold pushed; apply map_length).
          lia. }
        { intros Hg m Hm Hmk.
          assert (Hq0 : forall m0, In m0 (stv st 0) -> um_cl m0 <> 0 -> pend (q ++ map (fun m1 => (j', m1)) pushed) 0 m0).
          { intros m0 H0 Hk0. destruct (Hhp Hg m0 H0 Hk0) as [c0 [[E|Hin] Hse]]; [inversion E|].
            exists c0. split; [apply in_app_iff; left; exact Hin|exact Hse]. }
          rewrite stv_set in Hm. destruct (Nat.eqb j' 0) eqn:Ej; [|apply Hq0; assumption].
          apply Nat.eqb_eq in Ej. subst j'.
          destruct (F1 _ Hm) as [m0 [H0 [[Ht ->]|[Ht ->]]]].
          - exists (cs_mark c m0). split; [|reflexivity].
            apply in_app_iff. right. apply in_map_iff. exists (cs_mark c m0). split; [reflexivity|].
            unfold pushed. apply in_map. apply filter_In. split; assumption.
          - apply Hq0; [rewrite Hv; exact H0|exact Hmk]. }
      - (* no match of the previous piece was ever recorded *)
        exists q, tct, st. split; [reflexivity|].
        assert (Hv : stv st j' = []) by (unfold stv; rewrite Ev; reflexivity).
        assert (Hcl' : cl_inv q st ml).
        { intros k m Hm Hmk. destruct (Hcl k m Hm Hmk) as [[c0 [[E|Hin] Hse]]|H].
          - inversion E; subst k c0. right. split; [|intro; discriminate]. cbn [closed]. intros m' Hm'. rewrite Hv in Hm'. destruct Hm'.
          - left. exists c0. split; assumption.
          - right. exact H. }
        split; [exact Hso|]. split; [exact Hsk|]. split; [exact Hlv|]. split; [exact Hgn|].
        split; [exists (S j'), q1, q2; replace (S j' - 1) with j' by lia; repeat split; auto; discriminate|].
        split; [apply (req_from_cl _ st); assumption|].
        left. split; [exact Hcl'|]. split.
        { unfold tc_inv in *. destruct (Bool.bool_dec greedy true) as [Eg|Eg].
          - rewrite Eg in *. destruct Htc as [[E|Hin]|Ht]; [|left; exact Hin|right; exact Ht].
            inversion E. exfalso. apply Hgn. replace (n - 1) with j' by lia. exact Ev.
          - apply Bool.not_true_is_false in Eg. rewrite Eg in *. exact Htc. }
        split; [cbn [length] in Hfu; lia|].
        intros Hg m Hm Hmk. destruct (Hhp Hg m Hm Hmk) as [c0 [[E|Hin] Hse]]; [inversion E|].
        exists c0. split; assumption.
    Qed.

    Lemma chain_loop_complete : forall f queue tct st ml ml0,
      Inv f queue tct st ml -> (forall s, reported ml0 s -> reported ml s) ->
      Post ml0 (fst (chain_loop f pieces e_t queue tct st ml)) (snd (chain_loop f pieces e_t queue tct st ml)).
    Proof.
      induction f as [|f IH]; intros queue tct st ml ml0 HI Hmono.
      - assert (queue = []).
        { destruct HI as [_ [_ [_ [_ [_ [_ [[_ [_ [H _]]]|[_ [_ [_ [_ H]]]]]]]]]]]; destruct queue; [reflexivity|cbn [length] in H; lia|reflexivity|cbn [length] in H; lia]. }
        subst queue. cbn [chain_loop fst snd]. eapply inv_post; eassumption.
      - destruct queue as [|[id c] q]; [cbn [chain_loop fst snd]; eapply inv_post; eassumption|].
        destruct id as [|j'].
        + destruct (piece_exists 0 ltac:(lia)) as [p Ep].
          cbn [chain_loop]. rewrite Ep, (Hhead _ Ep), (Hgreedy _ _ Ep).
          apply IH; [apply step_head; exact HI|].
          intros s Hs. apply reported_add; [apply HI|apply Hmono; exact Hs].
        + destruct (step_tail _ _ _ _ _ _ _ HI) as [queue' [tct' [st' [E HI']]]]. rewrite E. apply IH; assumption.
    Qed.
  End Walk.

  (* what holds between two events *)
  Definition closedR (R : match_list -> nat -> Prop) (st : ustate) (ml : match_list) : Prop :=
    forall k m, In m (stv st k) -> um_cl m <> 0 -> closed st k m /\ (k = 0 -> R ml (um_s m)).
  Definition closedD (st : ustate) (ml : match_list) : Prop := closedR reported st ml.
  Definition no_marked_heads (st : ustate) : Prop := forall m, In m (stv st 0) -> um_cl m = 0.

  Lemma verify_complete_R : forall st ml s_t e_t (R : match_list -> nat -> Prop),
    (forall ml0 s, sorted ml0 -> R (fst (ml_add ml0 (mkM (N.of_nat s) (N.of_nat e_t) None) greedy)) s) ->
    (forall ml0 s s', sorted ml0 -> R ml0 s -> R (fst (ml_add ml0 (mkM (N.of_nat s') (N.of_nat e_t) None) greedy)) s) ->
    sorted ml -> levels st -> closedR R st ml -> u_get st (n - 1) <> None ->
    (greedy = true -> no_marked_heads st) ->
    Post s_t e_t st R ml (fst (verify_chain_of_matches pieces st ml n s_t e_t))
                         (snd (verify_chain_of_matches pieces st ml n s_t e_t)).
  Proof.
    intros st ml s_t e_t R Rn Rm Hso Hlv Hcd Hgn Hnm. unfold verify_chain_of_matches.
    apply chain_loop_complete; [exact Rn|exact Rm| |auto].
    split; [exact Hso|]. split; [intro k; reflexivity|]. split; [exact Hlv|]. split; [exact Hgn|].
    split.
    { exists n, [mkUM s_t e_t 1], []. cbn [map app]. split; [reflexivity|]. split; [lia|]. split; [reflexivity|].
      split; [|intros c []]. intros c [<-|[]]. cbn [um_cl]. unfold Lv. lia. }
    split.
    { intros p _. right. right. intro H. specialize (H n _ (or_introl eq_refl)). lia. }
    left. split.
    { intros k m Hm Hmk. unfold nd in Hm. destruct (Nat.eqb k n) eqn:Ek.
      - apply Nat.eqb_eq in Ek. subst k. destruct Hm as [<-|[]]. left. exists (tailum s_t e_t). split; [left; reflexivity|reflexivity].
      - right. apply Hcd; assumption. }
    split.
    { unfold tc_inv. destruct (Bool.bool_dec greedy true) as [Eg|Eg].
      - rewrite Eg. left. left. reflexivity.
      - apply Bool.not_true_is_false in Eg. rewrite Eg. reflexivity. }
    split; [unfold chain_fuel; cbn [length]; pose proof (total_zeros_le st); nia|].
    intros Hg m Hm Hmk. exfalso. apply Hmk. apply (Hnm Hg m Hm).
  Qed.

  Lemma verify_complete : forall st ml s_t e_t,
    sorted ml -> levels st -> closedD st ml -> u_get st (n - 1) <> None ->
    (greedy = true -> no_marked_heads st) ->
    Post s_t e_t st reported ml (fst (verify_chain_of_matches pieces st ml n s_t e_t))
                                (snd (verify_chain_of_matches pieces st ml n s_t e_t)).
  Proof.
    intros st ml s_t e_t Hso Hlv Hcd Hgn Hnm. apply verify_complete_R; try assumption.
    - intros ml0 s Hs0. unfold reported, starts. apply add_start_set; [exact Hs0|]. left. reflexivity.
    - intros ml0 s s' Hs0 H. unfold reported, starts. apply add_start_set; [exact Hs0|]. right. exact H.
  Qed.

  (* ---- the events, one after the other ------------------------------------------- *)
  Definition eend (ev : event) : nat := snd ev.

  (* a chain of events from a head that starts at s0 up to the event k, s..e *)
  Fixpoint left (L : list event) (k s e s0 : nat) : Prop :=
    match k with
    | O => In (0, s, e) L /\ s0 = s
    | S k' => In (S k', s, e) L /\ exists s' e', left L k' s' e' s0 /\ in_gap (gp k') e' s = true
    end.

  Lemma left_in : forall L k s e s0, left L k s e s0 -> In (k, s, e) L.
  Proof. intros L k s e s0 H. destruct k; apply H. Qed.

  Lemma left_mono : forall L L', incl L L' -> forall k s e s0, left L k s e s0 -> left L' k s e s0.
  Proof.
    intros L L' Hi. induction k as [|k IH]; intros s e s0 H; cbn [left] in *.
    - destruct H as [H1 H2]. split; [apply Hi; exact H1|exact H2].
    - destruct H as [H1 [s' [e' [H2 H3]]]]. split; [apply Hi; exact H1|]. exists s', e'. split; [apply IH; exact H2|exact H3].
  Qed.

  Lemma in_gap_le : forall g a b, in_gap g a b = true -> a <= b.
  Proof.
    intros [mn mx|mn] a b H; cbn [in_gap] in H.
    - apply andb_true_iff in H. destruct H as [H _]. apply Nat.leb_le in H. lia.
    - apply Nat.leb_le in H. lia.
  Qed.

  Section Events.
    Variable P : list event.               (* the events handled so far *)
    Variable ev : event.                   (* the next one *)
    Hypothesis Hord : forall k s e, In (k, s, e) P -> s < eend ev.

    (* an old event is not reached through the new one *)
    Lemma left_old : forall k s e s0, left (P ++ [ev]) k s e s0 -> In (k, s, e) P -> left P k s e s0.
    Proof.
      induction k as [|k IH]; intros s e s0 H Hin; cbn [left] in *.
      - destruct H as [_ H]. split; assumption.
      - destruct H as [_ [s' [e' [H2 H3]]]]. split; [exact Hin|]. exists s', e'. split; [|exact H3].
        apply IH; [exact H2|].
        pose proof (left_in _ _ _ _ _ H2) as Hi. apply in_app_iff in Hi. destruct Hi as [Hi|[Hi|[]]]; [exact Hi|].
        exfalso. pose proof (Hord _ _ _ Hin) as Ho. rewrite Hi in Ho. unfold eend in Ho. cbn [snd] in Ho.
        apply in_gap_le in H3. lia.
    Qed.

    Lemma event_dec : forall (a b : event), {a = b} + {a <> b}.
    Proof. decide equality; [apply Nat.eq_dec|decide equality; apply Nat.eq_dec]. Qed.

    (* a chain that ends with the new event: its earlier part is old *)
    Lemma left_new : forall k s e s0, left (P ++ [ev]) (S k) s e s0 -> ~ In (S k, s, e) P ->
      ev = (S k, s, e) /\ exists s' e', left P k s' e' s0 /\ in_gap (gp k) e' s = true.
    Proof.
      intros k s e s0 H Hnin. cbn [left] in H. destruct H as [H1 [s' [e' [H2 H3]]]].
      apply in_app_iff in H1. destruct H1 as [H1|[H1|[]]]; [contradiction|]. split; [exact H1|].
      exists s', e'. split; [|exact H3]. apply left_old; [exact H2|].
      pose proof (left_in _ _ _ _ _ H2) as Hi. apply in_app_iff in Hi. destruct Hi as [Hi|[Hi|[]]]; [exact Hi|].
      rewrite H1 in Hi. inversion Hi. lia.
    Qed.
  End Events.

  (* the invariant between two events *)
  Definition OI (P : list event) (st : ustate) (ml : match_list) : Prop :=
    sorted ml /\ levels st /\ closedD st ml /\
    (forall k s e s0, k < n -> left P k s e s0 -> In (s, e) (map se (stv st k))) /\
    (forall k p, In p (map se (stv st k)) -> In (k, fst p, snd p) P) /\
    (forall s e s0, left P n s e s0 -> reported ml s0) /\
    (greedy = true -> no_marked_heads st).

  Lemma wvd_of_in_gap : forall st k g s s' e', In (s', e') (map se (stv st k)) -> s' <= e' ->
    in_gap g e' s = true -> within_valid_distance st k s g = true.
  Proof.
    intros st k g s s' e' Hin Hle Hg. unfold within_valid_distance. unfold stv in Hin.
    destruct (u_get st k) as [v|]; [|destruct Hin]. apply existsb_exists.
    apply in_map_iff in Hin. destruct Hin as [m [E Hm]]. exists m. split; [exact Hm|].
    inversion E; subst s' e'. destruct g as [mn mx|mn]; cbn [in_gap] in Hg; [exact Hg|].
    apply Nat.leb_le in Hg. apply Nat.leb_le. lia.
  Qed.

  Lemma closed_push : forall st ml P k s e,
    closedD st ml -> k < n ->
    (forall k0 p, In p (map se (stv st k0)) -> In (k0, fst p, snd p) P) ->
    (forall k0 s0 e0, In (k0, s0, e0) P -> s0 < e) ->
    closedD (u_push st k (mkUM s e 0)) ml.
  Proof.
    intros st ml P k s e Hcd Hk HB Hord k1 m1 Hm1 Hmk.
    assert (Hold : In m1 (stv st k1)).
    { rewrite stv_push in Hm1. destruct (Nat.eqb k k1) eqn:Ek; [|exact Hm1].
      apply Nat.eqb_eq in Ek. subst k1. apply in_app_iff in Hm1. destruct Hm1 as [H|[<-|[]]]; [exact H|].
      exfalso. apply Hmk. reflexivity. }
    destruct (Hcd k1 m1 Hold Hmk) as [Hc Hr]. split; [|exact Hr].
    destruct k1 as [|k1']; [exact I|]. cbn [closed] in *. intros m' Hm' Hg.
    rewrite stv_push in Hm'. destruct (Nat.eqb k k1') eqn:Ek; [|apply Hc; assumption].
    apply Nat.eqb_eq in Ek. subst k1'. apply in_app_iff in Hm'. destruct Hm' as [H|[<-|[]]]; [apply Hc; assumption|].
    exfalso. cbn [um_e] in Hg. apply in_gap_le in Hg.
    assert (Hin : In (S k, um_s m1, um_e m1) P) by (apply (HB (S k) (se m1)); apply in_map; exact Hold).
    pose proof (Hord _ _ _ Hin) as Ho. lia.
  Qed.

  Lemma left_conn : forall P st ml s e s0, OI P st ml ->
    forall k1 s1 e1, k1 < n -> left P k1 s1 e1 s0 -> conn s e st k1 (s1, e1) -> exists e0, conn s e st 0 (s0, e0).
  Proof.
    intros P st ml s e s0 [_ [_ [_ [HA _]]]]. induction k1 as [|k1 IH]; intros s1 e1 Hk Hl Hc.
    - cbn [left] in Hl. destruct Hl as [_ ->]. exists e1. exact Hc.
    - cbn [left] in Hl. destruct Hl as [_ [s' [e' [Hl Hg]]]].
      apply (IH s' e'); [lia|exact Hl|].
      apply (conn_step s e st k1 (s', e') (s1, e1)); [lia|apply (HA k1 s' e' s0); [lia|exact Hl]|exact Hg|exact Hc].
  Qed.

  Lemma stv_push_incl : forall st k m k1 x, In x (map se (stv st k1)) -> In x (map se (stv (u_push st k m) k1)).
  Proof.
    intros st k m k1 x H. rewrite stv_push. destruct (Nat.eqb k k1) eqn:E; [|exact H].
    apply Nat.eqb_eq in E. subst k1. rewrite map_app. apply in_app_iff. left. exact H.
  Qed.

  Lemma oi_step : forall P k s e st ml,
    OI P st ml ->
    (forall k0 s0 e0, In (k0, s0, e0) P -> s0 < e) ->
    (forall k0 s0 e0, In (k0, s0, e0) (P ++ [(k, s, e)]) -> s0 <= e0 /\ k0 <= n) ->
    OI (P ++ [(k, s, e)]) (fst (handle_piece_match pieces k s e (st, ml))) (snd (handle_piece_match pieces k s e (st, ml))).
  Proof.
    intros P k s e st ml HOI Hord Hne.
    pose proof HOI as [Hso [Hlv [Hcd [HA [HB [HE Hnm]]]]]].
    assert (Hord' : forall k0 s0 e0, In (k0, s0, e0) P -> s0 < eend (k, s, e)) by exact Hord.
    assert (Hke : s <= e /\ k <= n) by (apply Hne; apply in_app_iff; right; left; reflexivity).
    assert (HneP : forall k0 s0 e0, In (k0, s0, e0) P -> s0 <= e0)
      by (intros k0 s0 e0 H; apply (Hne k0 s0 e0); apply in_app_iff; left; exact H).
    (* the consequences shared by all cases *)
    assert (Hold : forall k1 s1 e1 s0, left (P ++ [(k, s, e)]) k1 s1 e1 s0 -> In (k1, s1, e1) P -> left P k1 s1 e1 s0)
      by (intros; eapply left_old; eassumption).
    assert (Hnew : forall k1 s1 e1 s0, left (P ++ [(k, s, e)]) k1 s1 e1 s0 -> ~ In (k1, s1, e1) P -> (k1, s1, e1) = (k, s, e)).
    { intros k1 s1 e1 s0 Hl Hnin. pose proof (left_in _ _ _ _ _ Hl) as Hi. apply in_app_iff in Hi.
      destruct Hi as [Hi|[Hi|[]]]; [contradiction|symmetry; exact Hi]. }
    assert (Hpred : forall k' s0, k = S k' -> left (P ++ [(k, s, e)]) k s e s0 -> ~ In (k, s, e) P ->
              within_valid_distance st k' s (gp k') = true /\
              exists s' e', left P k' s' e' s0 /\ in_gap (gp k') e' s = true).
    { intros k' s0 -> Hl Hnin. destruct (left_new P _ Hord' _ _ _ _ Hl Hnin) as [_ [s' [e' [Hl' Hg]]]].
      split; [|exists s', e'; split; assumption].
      assert (Hk' : k' < n) by lia.
      pose proof (HA k' s' e' s0 Hk' Hl') as Hin.
      apply (wvd_of_in_gap st k' (gp k') s s' e' Hin); [|exact Hg].
      pose proof (HB k' (s', e') Hin) as HinP. cbn [fst snd] in HinP. apply HneP in HinP. exact HinP. }
    destruct (piece_exists k (proj2 Hke)) as [p Ep].
    unfold handle_piece_match. rewrite Ep.
    (* a push of the new match at a level below n *)
    assert (Hpush : k < n -> (forall s0, left (P ++ [(k, s, e)]) k s e s0 -> ~ In (k, s, e) P -> True) ->
              OI (P ++ [(k, s, e)]) (u_push st k (mkUM s e 0)) ml).
    { intros Hk _. split; [exact Hso|]. split.
      { intros k1 m Hm. rewrite stv_push in Hm. destruct (Nat.eqb k k1) eqn:Ek; [|apply Hlv; exact Hm].
        apply Nat.eqb_eq in Ek. subst k1. apply in_app_iff in Hm. destruct Hm as [Hm|[<-|[]]]; [apply Hlv; exact Hm|].
        split; [exact Hk|left; reflexivity]. }
      split; [apply (closed_push st ml P k s e Hcd Hk HB Hord)|].
      split.
      { intros k1 s1 e1 s0 Hk1 Hl. destruct (in_dec event_dec (k1, s1, e1) P) as [Hi|Hi].
        - apply stv_push_incl. apply (HA k1 s1 e1 s0 Hk1). apply Hold; assumption.
        - pose proof (Hnew _ _ _ _ Hl Hi) as E. inversion E; subst k1 s1 e1.
          rewrite stv_push, Nat.eqb_refl, map_app. apply in_app_iff. right. left. reflexivity. }
      split.
      { intros k1 q Hq. rewrite stv_push in Hq. apply in_app_iff.
        destruct (Nat.eqb k k1) eqn:Ek; [|left; apply HB; exact Hq].
        apply Nat.eqb_eq in Ek. subst k1. rewrite map_app in Hq. apply in_app_iff in Hq.
        destruct Hq as [Hq|[<-|[]]]; [left; apply HB; exact Hq|right; left; reflexivity]. }
      split.
      { intros s1 e1 s0 Hl. destruct (in_dec event_dec (n, s1, e1) P) as [Hi|Hi].
        - apply (HE s1 e1 s0). apply Hold; assumption.
        - pose proof (Hnew _ _ _ _ Hl Hi) as E. inversion E. lia. }
      intros Hg m Hm. rewrite stv_push in Hm. destruct (Nat.eqb k 0) eqn:Ek0; [|apply (Hnm Hg m Hm)].
      apply Nat.eqb_eq in Ek0. rewrite Ek0 in Hm.
      apply in_app_iff in Hm. destruct Hm as [Hm|[<-|[]]]; [apply (Hnm Hg m Hm)|reflexivity]. }
    (* nothing recorded: the new match is not reached by any chain *)
    assert (Hskip : (forall k' s0, k = S k' -> left (P ++ [(k, s, e)]) k s e s0 -> ~ In (k, s, e) P -> False) ->
              k <> 0 -> OI (P ++ [(k, s, e)]) st ml).
    { intros Hno Hk0. split; [exact Hso|]. split; [exact Hlv|]. split; [exact Hcd|]. split.
      { intros k1 s1 e1 s0 Hk1 Hl. destruct (in_dec event_dec (k1, s1, e1) P) as [Hi|Hi].
        - apply (HA k1 s1 e1 s0 Hk1). apply Hold; assumption.
        - pose proof (Hnew _ _ _ _ Hl Hi) as E. inversion E; subst k1 s1 e1.
          destruct k as [|k']; [contradiction|]. exfalso. eapply Hno; [reflexivity|exact Hl|exact Hi]. }
      split; [intros k1 q Hq; apply in_app_iff; left; apply HB; exact Hq|].
      split; [|exact Hnm].
      intros s1 e1 s0 Hl. destruct (in_dec event_dec (n, s1, e1) P) as [Hi|Hi].
      - apply (HE s1 e1 s0). apply Hold; assumption.
      - pose proof (Hnew _ _ _ _ Hl Hi) as E. inversion E; subst k s1 e1.
        exfalso. destruct n as [|n']; [lia|]. eapply Hno; [reflexivity|exact Hl|exact Hi]. }
    destruct k as [|k'].
    - (* a head *)
      rewrite (Hhead _ Ep). cbn [fst snd]. apply Hpush; [lia|auto].
    - rewrite (Htail _ _ Ep).
      destruct (within_valid_distance st k' s (gp k')) eqn:Ew.
      + rewrite (Hlast _ _ Ep). destruct (Nat.eqb (S k') n) eqn:En.
        * (* the last piece: the walk *)
          apply Nat.eqb_eq in En.
          assert (Hgn : u_get st (n - 1) <> None).
          { replace (n - 1) with k' by lia. unfold within_valid_distance in Ew. destruct (u_get st k'); [discriminate|discriminate]. }
          replace (verify_chain_of_matches pieces st ml (S k') s e) with (verify_chain_of_matches pieces st ml n s e)
            by (rewrite En; reflexivity).
          pose proof (verify_complete st ml s e Hso Hlv Hcd Hgn Hnm) as [Hso' [Hsk' [Hlv' [Hcd' [Hconn [Hmono Hnm']]]]]].
          set (r := verify_chain_of_matches pieces st ml n s e) in *.
          split; [exact Hso'|]. split; [exact Hlv'|]. split; [exact Hcd'|]. split.
          { intros k1 s1 e1 s0 Hk1 Hl. rewrite (Hsk' k1). destruct (in_dec event_dec (k1, s1, e1) P) as [Hi|Hi].
            - apply (HA k1 s1 e1 s0 Hk1). apply Hold; assumption.
            - pose proof (Hnew _ _ _ _ Hl Hi) as E. inversion E. lia. }
          split; [intros k1 q Hq; rewrite (Hsk' k1) in Hq; apply in_app_iff; left; apply HB; exact Hq|].
          split; [|exact Hnm'].
          intros s1 e1 s0 Hl. destruct (in_dec event_dec (n, s1, e1) P) as [Hi|Hi].
          { apply Hmono. apply (HE s1 e1 s0). apply Hold; [exact Hl|exact Hi]. }
          pose proof (Hnew _ _ _ _ Hl Hi) as E. inversion E; subst s1 e1.
          assert (Hl' : left (P ++ [(S k', s, e)]) (S k') s e s0) by (rewrite En at 2; exact Hl).
          assert (Hi' : ~ In (S k', s, e) P) by (rewrite En; exact Hi).
          destruct (Hpred k' s0 eq_refl Hl' Hi') as [_ [s' [e' [Hlp Hg]]]].
          assert (Hc : conn s e st k' (s', e')).
          { apply (conn_step s e st k' (s', e') (s, e)); [lia|apply (HA k' s' e' s0); [lia|exact Hlp]|exact Hg|].
            rewrite En. apply conn_tail. }
          destruct (left_conn P st ml s e s0 HOI k' s' e' ltac:(lia) Hlp Hc) as [e0 Hc0].
          apply (Hconn (s0, e0) Hc0).
        * (* a middle piece: recorded *)
          apply Nat.eqb_neq in En. cbn [fst snd]. apply Hpush; [lia|auto].
      + (* not within the gap of any recorded match of the previous piece *)
        cbn [fst snd]. apply Hskip; [|discriminate].
        intros k'' s0 E Hl Hi. inversion E; subst k''. destruct (Hpred k' s0 eq_refl Hl Hi) as [Hw _]. congruence.
  Qed.

  (* every event starts before the end of the events that come after it: true for
     events in the order of their END offset and for events in the order of their START
     offset (the two orders the search kernels produce), matches being non-empty *)
  Definition ordered (evs : list event) : Prop :=
    forall P ev R, evs = P ++ ev :: R -> forall k s e, In (k, s, e) P -> s < eend ev.

  Lemma OI_nil : OI [] [] [].
  Proof.
    split; [apply sorted_nil|]. split; [intros k m []|]. split; [intros k m []|].
    split; [intros k s e s0 _ H; apply left_in in H; destruct H|].
    split; [intros k p []|]. split; [|intros _ m []]. intros s e s0 H. apply left_in in H. destruct H.
  Qed.

  Lemma oi_fold : forall rest P st ml evs, evs = P ++ rest -> ordered evs ->
    (forall k s e, In (k, s, e) evs -> s <= e /\ k <= n) -> OI P st ml ->
    let r := fold_left (fun sm ev => let '(id, s, e) := ev in handle_piece_match pieces id s e sm) rest (st, ml) in
    OI evs (fst r) (snd r).
  Proof.
    induction rest as [|[[k s] e] rest IH]; intros P st ml evs E Hord Hev HOI; cbn [fold_left].
    - rewrite app_nil_r in E. subst evs. exact HOI.
    - assert (E' : evs = (P ++ [(k, s, e)]) ++ rest) by (rewrite <- app_assoc; exact E).
      pose proof (oi_step P k s e st ml HOI) as Hstep.
      destruct (handle_piece_match pieces k s e (st, ml)) as [st1 ml1] eqn:Eh. cbn [fst snd] in Hstep.
      apply (IH (P ++ [(k, s, e)]) st1 ml1 evs E' Hord Hev). apply Hstep.
      + intros k0 s0 e0 Hin. apply (Hord P (k, s, e) rest E k0 s0 e0 Hin).
      + intros k0 s0 e0 Hin. apply Hev. rewrite E'. apply in_app_iff. left. exact Hin.
  Qed.

  (* THE THEOREM: every chain of events has its start reported *)
  Theorem run_chain_complete_starts : forall evs,
    ordered evs -> (forall k s e, In (k, s, e) evs -> s <= e /\ k <= n) ->
    forall s e s0, left evs n s e s0 -> In (N.of_nat s0) (starts (run_chain pieces evs)).
  Proof.
    intros evs Hord Hev s e s0 Hl. unfold run_chain, run_chain_state.
    pose proof (oi_fold evs [] [] [] evs eq_refl Hord Hev OI_nil) as H. cbv zeta in H.
    destruct H as [_ [_ [_ [_ [_ [HE _]]]]]]. apply (HE s e s0 Hl).
  Qed.

  (* ---- greedy: the largest closing end ---------------------------------------------- *)
  (* the list only grows: every stored match keeps its start and its end does not shrink *)
  Definition ml_grows (ml ml' : match_list) : Prop :=
    forall x, In x ml -> exists y, In y ml' /\ m_start y = m_start x /\ (m_end x <= m_end y)%N.

  Lemma ml_grows_refl : forall ml, ml_grows ml ml.
  Proof. intros ml x Hx. exists x. split; [exact Hx|]. split; [reflexivity|lia]. Qed.

  Lemma ml_grows_trans : forall a b c, ml_grows a b -> ml_grows b c -> ml_grows a c.
  Proof.
    intros a b c H1 H2 x Hx. destruct (H1 x Hx) as [y [Hy [E1 L1]]]. destruct (H2 y Hy) as [z [Hz [E2 L2]]].
    exists z. split; [exact Hz|]. split; [congruence|lia].
  Qed.

  Lemma add_grows : forall l m r, sorted l -> ml_grows l (fst (ml_add l m r)).
  Proof.
    intros l m r Hs x Hx.
    destruct (add_shape_ok l m r Hs) as [l1 l2 H1 H2 H3|l1 x0 l2 e H1 H2 H3]; cbn [fst]; subst l.
    - exists x. split; [|split; [reflexivity|lia]]. apply in_app_iff in Hx. apply in_app_iff. cbn [In]. tauto.
    - apply in_app_iff in Hx. cbn [In] in Hx. destruct Hx as [Hx|[Hx|Hx]].
      + exists x. split; [apply in_app_iff; left; exact Hx|]. split; [reflexivity|lia].
      + subst x0. exists (set_end x e). split; [apply in_app_iff; right; left; reflexivity|].
        rewrite set_end_start, set_end_end. split; [reflexivity|]. destruct r; subst e; lia.
      + exists x. split; [apply in_app_iff; right; right; exact Hx|]. split; [reflexivity|lia].
  Qed.

  Lemma chain_loop_grows : forall fuel te queue tct st ml, sorted ml ->
    sorted (snd (chain_loop fuel pieces te queue tct st ml)) /\
    ml_grows ml (snd (chain_loop fuel pieces te queue tct st ml)).
  Proof.
    induction fuel as [|f IH]; intros te queue tct st ml Hs; cbn [chain_loop]; [split; [exact Hs|apply ml_grows_refl]|].
    destruct queue as [|[id cur] q]; [split; [exact Hs|apply ml_grows_refl]|].
    destruct (nth_error pieces id) as [p|]; [|split; [exact Hs|apply ml_grows_refl]].
    destruct (cp_link p) as [[to g]|].
    - destruct (u_get st to) as [v|]; [|apply IH; exact Hs].
      destruct (chain_scan g cur v) as [v' pushed]. apply IH; exact Hs.
    - set (ml1 := fst (ml_add ml (mkM (N.of_nat (um_s cur)) (N.of_nat te) None) (cp_greedy p))).
      assert (Hs1 : sorted ml1) by (apply add_sorted; exact Hs).
      destruct (IH te q tct (reset_chain (S (length pieces)) pieces st tct) ml1 Hs1) as [H1 H2].
      split; [exact H1|]. eapply ml_grows_trans; [apply add_grows; exact Hs|exact H2].
  Qed.

  Lemma handle_grows : forall id s e st ml, sorted ml ->
    ml_grows ml (snd (handle_piece_match pieces id s e (st, ml))).
  Proof.
    intros id s e st ml Hs. unfold handle_piece_match.
    destruct (nth_error pieces id) as [p|]; [|apply ml_grows_refl].
    destruct (cp_link p) as [[to g]|]; [|apply ml_grows_refl].
    destruct (within_valid_distance st to s g); [|apply ml_grows_refl].
    destruct (cp_last p); [|apply ml_grows_refl].
    unfold verify_chain_of_matches. apply chain_loop_grows. exact Hs.
  Qed.

  (* reported with an end that is at least e_t *)
  Definition Rg (e_t : nat) (ml : match_list) (s : nat) : Prop :=
    exists y, In y ml /\ m_start y = N.of_nat s /\ (N.of_nat e_t <= m_end y)%N.

  Lemma Rg_new : forall e_t ml s, sorted ml ->
    Rg e_t (fst (ml_add ml (mkM (N.of_nat s) (N.of_nat e_t) None) true)) s.
  Proof.
    intros e_t ml s Hs. set (m := mkM (N.of_nat s) (N.of_nat e_t) None).
    assert (Hin : In (N.of_nat s) (map m_start (fst (ml_add ml m true)))) by (apply add_start_set; [exact Hs|left; reflexivity]).
    apply in_map_iff in Hin. destruct Hin as [y [Ey Hy]]. exists y. split; [exact Hy|]. split; [exact Ey|].
    destruct (add_true_result_end ml m y Hs Hy Ey) as [[_ H]|[x [_ [_ H]]]]; rewrite H; cbn [m m_end]; lia.
  Qed.

  Lemma Rg_mono : forall e_t ml s s', sorted ml -> Rg e_t ml s ->
    Rg e_t (fst (ml_add ml (mkM (N.of_nat s') (N.of_nat e_t) None) true)) s.
  Proof.
    intros e_t ml s s' Hs [y [Hy [Ey Ly]]].
    destruct (add_grows ml (mkM (N.of_nat s') (N.of_nat e_t) None) true Hs y Hy) as [z [Hz [Ez Lz]]].
    exists z. split; [exact Hz|]. split; [congruence|lia].
  Qed.

  (* the invariant between two events, greedy: every closing event has been honoured *)
  Definition GE (P : list event) (ml : match_list) : Prop :=
    forall s e s0, left P n s e s0 -> exists y, In y ml /\ m_start y = N.of_nat s0 /\ (N.of_nat e <= m_end y)%N.

  Lemma ge_step : forall P k s e st ml,
    greedy = true -> OI P st ml -> GE P ml ->
    (forall k0 s0 e0, In (k0, s0, e0) P -> s0 < e) ->
    (forall k0 s0 e0, In (k0, s0, e0) (P ++ [(k, s, e)]) -> s0 <= e0 /\ k0 <= n) ->
    GE (P ++ [(k, s, e)]) (snd (handle_piece_match pieces k s e (st, ml))).
  Proof.
    intros P k s e st ml Hg HOI HGE Hord Hne s1 e1 s0 Hl.
    pose proof HOI as [Hso [Hlv [Hcd [HA [HB [HE Hnm]]]]]].
    assert (Hord' : forall k0 s2 e2, In (k0, s2, e2) P -> s2 < eend (k, s, e)) by exact Hord.
    destruct (in_dec event_dec (n, s1, e1) P) as [Hi|Hi].
    - (* an older closing event: what was stored only grows *)
      pose proof (left_old P _ Hord' _ _ _ _ Hl Hi) as Hlo.
      destruct (HGE s1 e1 s0 Hlo) as [y [Hy [Ey Ly]]].
      destruct (handle_grows k s e st ml Hso y Hy) as [z [Hz [Ez Lz]]].
      exists z. split; [exact Hz|]. split; [congruence|lia].
    - (* the new event closes a chain: its walk reports the start with its end *)
      assert (E : (n, s1, e1) = (k, s, e)).
      { pose proof (left_in _ _ _ _ _ Hl) as Hin. apply in_app_iff in Hin. destruct Hin as [Hin|[Hin|[]]]; [contradiction|symmetry; exact Hin]. }
      inversion E as [[En E1 E2]]. subst s1 e1. clear E.
      destruct k as [|k']; [lia|].
      assert (Hl' : left (P ++ [(S k', s, e)]) (S k') s e s0) by (rewrite <- En at 2; exact Hl).
      assert (Hi' : ~ In (S k', s, e) P) by (rewrite <- En; exact Hi).
      destruct (left_new P _ Hord' _ _ _ _ Hl' Hi') as [_ [s' [e' [Hlp Hgap]]]].
      assert (Hk' : k' < n) by lia.
      pose proof (HA k' s' e' s0 Hk' Hlp) as Hin.
      assert (Hse : s' <= e').
      { pose proof (HB k' (s', e') Hin) as HinP. cbn [fst snd] in HinP.
        destruct (Hne k' s' e') as [H _]; [apply in_app_iff; left; exact HinP|exact H]. }
      pose proof (wvd_of_in_gap st k' (gp k') s s' e' Hin Hse Hgap) as Hw.
      destruct (piece_exists (S k') ltac:(lia)) as [p Ep].
      unfold handle_piece_match. rewrite Ep, (Htail _ _ Ep), Hw, (Hlast _ _ Ep).
      replace (Nat.eqb (S k') n) with true by (symmetry; apply Nat.eqb_eq; lia).
      replace (verify_chain_of_matches pieces st ml (S k') s e) with (verify_chain_of_matches pieces st ml n s e)
        by (rewrite En; reflexivity).
      assert (Hgn : u_get st (n - 1) <> None).
      { replace (n - 1) with k' by lia. unfold within_valid_distance in Hw. destruct (u_get st k'); discriminate. }
      assert (Hcr : closedR (Rg e) st ml).
      { intros k1 m Hm Hmk. destruct (Hcd k1 m Hm Hmk) as [Hc _]. split; [exact Hc|].
        intro E0. subst k1. exfalso. apply Hmk. apply (Hnm Hg m Hm). }
      assert (Rn : forall ml0 s2, sorted ml0 -> Rg e (fst (ml_add ml0 (mkM (N.of_nat s2) (N.of_nat e) None) greedy)) s2)
        by (intros; rewrite Hg; apply Rg_new; assumption).
      assert (Rm : forall ml0 s2 s3, sorted ml0 -> Rg e ml0 s2 -> Rg e (fst (ml_add ml0 (mkM (N.of_nat s3) (N.of_nat e) None) greedy)) s2)
        by (intros; rewrite Hg; apply Rg_mono; assumption).
      pose proof (verify_complete_R st ml s e (Rg e) Rn Rm Hso Hlv Hcr Hgn Hnm) as [_ [_ [_ [_ [Hconn _]]]]].
      assert (Hc : conn s e st k' (s', e')).
      { apply (conn_step s e st k' (s', e') (s, e)); [exact Hk'|exact Hin|exact Hgap|rewrite <- En; apply conn_tail]. }
      destruct (left_conn P st ml s e s0 HOI k' s' e' Hk' Hlp Hc) as [e0 Hc0].
      apply (Hconn (s0, e0) Hc0).
  Qed.

  Lemma og_fold : forall rest P st ml evs, greedy = true -> evs = P ++ rest -> ordered evs ->
    (forall k s e, In (k, s, e) evs -> s <= e /\ k <= n) -> OI P st ml -> GE P ml ->
    let r := fold_left (fun sm ev => let '(id, s, e) := ev in handle_piece_match pieces id s e sm) rest (st, ml) in
    OI evs (fst r) (snd r) /\ GE evs (snd r).
  Proof.
    induction rest as [|[[k s] e] rest IH]; intros P st ml evs Hg E Hord Hev HOI HGE; cbn [fold_left].
    - rewrite app_nil_r in E. subst evs. split; assumption.
    - assert (E' : evs = (P ++ [(k, s, e)]) ++ rest) by (rewrite <- app_assoc; exact E).
      assert (Ho : forall k0 s0 e0, In (k0, s0, e0) P -> s0 < e) by (intros k0 s0 e0 Hin; apply (Hord P (k, s, e) rest E k0 s0 e0 Hin)).
      assert (Hn' : forall k0 s0 e0, In (k0, s0, e0) (P ++ [(k, s, e)]) -> s0 <= e0 /\ k0 <= n)
        by (intros k0 s0 e0 Hin; apply Hev; rewrite E'; apply in_app_iff; left; exact Hin).
      pose proof (oi_step P k s e st ml HOI Ho Hn') as Hstep.
      pose proof (ge_step P k s e st ml Hg HOI HGE Ho Hn') as Hge.
      destruct (handle_piece_match pieces k s e (st, ml)) as [st1 ml1] eqn:Eh. cbn [fst snd] in Hstep, Hge.
      apply (IH (P ++ [(k, s, e)]) st1 ml1 evs Hg E' Hord Hev Hstep Hge).
  Qed.

  (* GREEDY: the end reported for a start is at least the end of every event of the last
     piece that closes a chain from that start -- with run_chain_end_closes: the LARGEST *)
  Theorem chain_greedy_longest : forall evs,
    greedy = true -> ordered evs -> (forall k s e, In (k, s, e) evs -> s <= e /\ k <= n) ->
    forall y s0, In y (run_chain pieces evs) -> m_start y = N.of_nat s0 ->
    forall s' e', left evs n s' e' s0 -> (N.of_nat e' <= m_end y)%N.
  Proof.
    intros evs Hg Hord Hev y s0 Hy Hys s' e' Hl. unfold run_chain, run_chain_state in Hy.
    assert (HGE0 : GE [] []) by (intros s e s1 H; apply left_in in H; destruct H).
    pose proof (og_fold evs [] [] [] evs Hg eq_refl Hord Hev OI_nil HGE0) as H. cbv zeta in H.
    destruct H as [[Hso _] HGE]. destruct (HGE s' e' s0 Hl) as [z [Hz [Ez Lz]]].
    assert (y = z).
    { apply (sorted_start_inj _ y z Hso Hy Hz). congruence. }
    subst z. exact Lz.
  Qed.
End Complete.

(* ---- the chain of a split pattern, fed with every end of every piece ------------ *)
Lemma Iter_any_len : forall nc d k i j, Iter (M nc d (RCls CAny)) k i j -> j = i + k.
Proof.
  intros nc d k i j H. induction H as [|k i m j Hp H IH]; [lia|]. inversion Hp; subst. lia.
Qed.

Lemma M_jump_inv : forall nc d g e s', M nc d (jump_of g) e s' -> in_gap (cgap_of g) e s' = true.
Proof.
  intros nc d [mn mx gr] e s' H. unfold jump_of in H. cbn [g_min g_max g_greedy] in H.
  inversion H; subst. match goal with HI : Iter _ _ _ _ |- _ => apply Iter_any_len in HI end. subst s'.
  unfold cgap_of. cbn [g_min g_max]. destruct mx as [m|]; cbn [in_gap le_opt] in *.
  - apply andb_true_iff. split; apply Nat.leb_le; lia.
  - apply Nat.leb_le. lia.
Qed.

Lemma M_min_len : forall nc d r i j, M nc d r i j -> i + min_len r <= j.
Proof.
  intros nc d. induction r as [|c|a IHa b IHb|a IHa b IHb|r IH mn mx g|a]; intros i j H; inversion H; subst; cbn [min_len].
  - lia.
  - lia.
  - match goal with H1 : M nc d a _ _, H2 : M nc d b _ _ |- _ => apply IHa in H1; apply IHb in H2; lia end.
  - match goal with H1 : M nc d a _ _ |- _ => apply IHa in H1; lia end.
  - match goal with H1 : M nc d b _ _ |- _ => apply IHb in H1; lia end.
  - match goal with HI : Iter _ _ _ _ |- _ =>
      assert (Hk : i + k * min_len r <= j) by (clear -HI IH; induction HI as [|k i m j Hp HI IHI]; [lia|apply IH in Hp; lia]) end.
    nia.
  - lia.
Qed.

Lemma by_end_complete : forall n evs ev, In ev evs -> snd ev < n -> In ev (by_end n evs).
Proof.
  intros n evs ev Hin Hlt. unfold by_end. apply in_flat_map. exists (snd ev). split.
  - apply in_seq. lia.
  - apply filter_In. split; [exact Hin|apply Nat.eqb_refl].
Qed.

Lemma all_end_events_complete : forall nc rs d id r s e,
  nth_error rs id = Some r -> M nc d r s e -> In (id, s, e) (all_end_events nc rs d).
Proof.
  intros nc rs d id r s e Hr Hm. pose proof (M_bounds _ _ _ _ _ Hm) as [H1 H2].
  unfold all_end_events. apply by_end_complete; [|cbn [snd]; lia].
  apply in_flat_map. exists id. split; [apply in_seq; split; [lia|]; cbn; apply nth_error_Some; congruence|].
  rewrite Hr. apply in_flat_map. exists s. split; [apply in_seq; lia|].
  apply in_map. apply ends_spec. exact Hm.
Qed.

Lemma by_end_ordered : forall n evs P ev R, by_end n evs = P ++ ev :: R -> forall x, In x P -> snd x <= snd ev.
Proof.
  intros n evs. unfold by_end.
  assert (G : forall len a P ev R, flat_map (fun e => filter (fun ev0 : event => Nat.eqb (snd ev0) e) evs) (seq a len) = P ++ ev :: R ->
              a <= snd ev /\ forall x, In x P -> snd x <= snd ev).
  { induction len as [|len IH]; intros a P ev R E; cbn [seq flat_map] in E.
    - destruct P; discriminate.
    - set (fa := filter (fun ev0 : event => Nat.eqb (snd ev0) a) evs) in *.
      assert (Hfa : forall y, In y fa -> snd y = a) by (intros y Hy; apply filter_In in Hy; destruct Hy as [_ Hy]; apply Nat.eqb_eq in Hy; exact Hy).
      (* where does ev fall: in fa or in the rest *)
      destruct (Nat.le_gt_cases (length fa) (length P)) as [Hle|Hgt].
      + (* P = fa ++ P' *)
        assert (Efa : fa = firstn (length fa) P /\ flat_map (fun e => filter (fun ev0 : event => Nat.eqb (snd ev0) e) evs) (seq (S a) len) = skipn (length fa) P ++ ev :: R).
        { assert (E1 : firstn (length fa) (fa ++ flat_map (fun e => filter (fun ev0 : event => Nat.eqb (snd ev0) e) evs) (seq (S a) len)) = firstn (length fa) (P ++ ev :: R)) by (rewrite E; reflexivity).
          assert (E2 : skipn (length fa) (fa ++ flat_map (fun e => filter (fun ev0 : event => Nat.eqb (snd ev0) e) evs) (seq (S a) len)) = skipn (length fa) (P ++ ev :: R)) by (rewrite E; reflexivity).
          rewrite firstn_app, Nat.sub_diag, firstn_all, firstn_O, app_nil_r in E1.
          rewrite skipn_app, Nat.sub_diag, skipn_all, skipn_O in E2. cbn [app] in E2.
          rewrite firstn_app in E1. replace (length fa - length P) with 0 in E1 by lia. rewrite firstn_O, app_nil_r in E1.
          rewrite skipn_app in E2. replace (length fa - length P) with 0 in E2 by lia. rewrite skipn_O in E2.
          split; assumption. }
        destruct Efa as [Ef Er]. destruct (IH _ _ _ _ Er) as [Ha Hx]. split; [lia|].
        intros x Hin. rewrite <- (firstn_skipn (length fa) P) in Hin. apply in_app_iff in Hin. destruct Hin as [Hin|Hin].
        * rewrite <- Ef in Hin. rewrite (Hfa _ Hin). lia.
        * apply Hx. exact Hin.
      + (* ev is in fa *)
        assert (Hev : In ev fa /\ forall x, In x P -> In x fa).
        { assert (E1 : firstn (length fa) (fa ++ flat_map (fun e => filter (fun ev0 : event => Nat.eqb (snd ev0) e) evs) (seq (S a) len)) = firstn (length fa) (P ++ ev :: R)) by (rewrite E; reflexivity).
          rewrite firstn_app, Nat.sub_diag, firstn_all, firstn_O, app_nil_r in E1.
          rewrite firstn_app in E1.
          replace (length fa - length P) with (S (length fa - length P - 1)) in E1 by lia. cbn [firstn] in E1.
          split.
          - rewrite E1. apply in_app_iff. right. left. reflexivity.
          - intros x Hin. rewrite E1. apply in_app_iff. left. rewrite firstn_all2 by lia. exact Hin. }
        destruct Hev as [H1 H2]. rewrite (Hfa _ H1). split; [lia|]. intros x Hin. rewrite (Hfa _ (H2 _ Hin)). lia. }
  intros P ev R E x Hin. apply (G n 0 P ev R E). exact Hin.
Qed.

Section AllEnds.
  Variable nc greedy : bool.
  Variable c : re * list (gap * re).
  Variable d : bytes.
  Hypothesis Htails : snd c <> [].
  Hypothesis Hmin : forall r, In r (chain_res c) -> 1 <= min_len r.

  Let n := length (snd c).
  Let gp (i : nat) : cgap := match nth_error (snd c) i with Some g => cgap_of (fst g) | None => GUnbounded 0 end.
  Let pieces := pieces_of_chain greedy c.
  Let rs := chain_res c.
  Let evs := all_end_events nc rs d.

  Lemma n_pos : 1 <= n.
  Proof. unfold n. destruct (snd c); [contradiction|cbn [length]; lia]. Qed.

  Lemma ae_in : forall id s e, In (id, s, e) evs -> exists r, nth_error rs id = Some r /\ M nc d r s e.
  Proof. intros id s e H. apply all_end_events_sound in H. exact H. Qed.

  Lemma ae_props : forall k s e, In (k, s, e) evs -> s < e /\ k <= n.
  Proof.
    intros k s e H. destruct (ae_in _ _ _ H) as [r [Hr Hm]]. split.
    - pose proof (M_min_len _ _ _ _ _ Hm). pose proof (Hmin r (nth_error_In _ _ Hr)). lia.
    - assert (k < length rs) by (apply nth_error_Some; congruence).
      unfold rs, chain_res in H0. cbn [length] in H0. rewrite map_length in H0. unfold n. lia.
  Qed.

  Lemma ae_ordered : ordered evs.
  Proof.
    intros P ev R E k s e Hin.
    pose proof (by_end_ordered _ _ _ _ _ E (k, s, e) Hin) as Ho. cbn [snd] in Ho.
    assert (Hi : In (k, s, e) evs) by (rewrite E; apply in_app_iff; left; exact Hin).
    pose proof (ae_props _ _ _ Hi). unfold eend. lia.
  Qed.

  (* from a match of the rest of the chain after piece k to a chain of events *)
  Lemma suffix_left : forall m k sk ek s0 te, m = n - k -> k <= n ->
    left gp evs k sk ek s0 ->
    M nc d (rcat (flat_map (fun g => [jump_of (fst g); snd g]) (skipn k (snd c)))) ek te ->
    exists sn, left gp evs n sn te s0.
  Proof.
    induction m as [|m IH]; intros k sk ek s0 te Em Hk Hl Hm.
    - assert (k = n) by lia. subst k. exists sk.
      unfold n in Hm. rewrite skipn_all in Hm. cbn [flat_map rcat] in Hm. inversion Hm; subst. exact Hl.
    - assert (Hkn : k < n) by lia.
      destruct (nth_error (snd c) k) as [[g r']|] eqn:Et; [|apply nth_error_None in Et; unfold n in Hkn; lia].
      rewrite (skipn_nth _ _ _ _ Et) in Hm. cbn [flat_map fst snd app] in Hm.
      apply M_rcat_cons in Hm. destruct Hm as [s' [Hj Hm]].
      apply M_rcat_cons in Hm. destruct Hm as [e' [Hr Hm]].
      apply (IH (S k) s' e' s0 te); [lia|lia| |exact Hm].
      cbn [left]. split.
      + apply (all_end_events_complete nc rs d (S k) r'); [|exact Hr].
        unfold rs, chain_res. cbn [nth_error]. rewrite nth_error_map, Et. reflexivity.
      + exists sk, ek. split; [exact Hl|]. unfold gp. rewrite Et. cbn [fst]. apply M_jump_inv with (nc := nc) (d := d). exact Hj.
  Qed.

  (* the bookkeeping fed with every end of every piece reports the start of every
     occurrence of the chain *)
  Theorem chain_complete_all_ends :
    chain_complete_starts nc c d (scan_chain_all_ends nc greedy false c d).
  Proof.
    intros s te Hm. unfold join_chain in Hm. apply M_rcat_cons in Hm. destruct Hm as [e0 [Hh Hm]].
    assert (Hl0 : left gp evs 0 s e0 s).
    { cbn [left]. split; [|reflexivity]. apply (all_end_events_complete nc rs d 0 (fst c)); [reflexivity|exact Hh]. }
    destruct (suffix_left (n - 0) 0 s e0 s te eq_refl ltac:(lia) Hl0 Hm) as [sn Hl].
    assert (Hin : In (N.of_nat s) (starts (run_chain pieces evs))).
    { apply (run_chain_complete_starts pieces n gp greedy n_pos) with (s := sn) (e := te); try exact Hl.
      - apply (proj1 (pieces_of_chain_shape greedy c)).
      - intros p Hp. unfold pieces in Hp. rewrite pieces_of_chain_head in Hp. inversion Hp. reflexivity.
      - intros i p Hp. unfold pieces in Hp. rewrite pieces_of_chain_tail in Hp. unfold gp.
        destruct (nth_error (snd c) i); cbn [option_map] in Hp; [|discriminate]. inversion Hp. reflexivity.
      - intros id p Hp. destruct id as [|i]; unfold pieces in Hp.
        + rewrite pieces_of_chain_head in Hp. inversion Hp. cbn [cp_last]. pose proof n_pos. symmetry. apply Nat.eqb_neq. lia.
        + rewrite pieces_of_chain_tail in Hp. destruct (nth_error (snd c) i); cbn [option_map] in Hp; [|discriminate].
          inversion Hp. reflexivity.
      - intros id p Hp. destruct id as [|i]; unfold pieces in Hp.
        + rewrite pieces_of_chain_head in Hp. inversion Hp. reflexivity.
        + rewrite pieces_of_chain_tail in Hp. destruct (nth_error (snd c) i); cbn [option_map] in Hp; [|discriminate].
          inversion Hp. reflexivity.
      - exact ae_ordered.
      - intros k s1 e1 H. destruct (ae_props _ _ _ H). split; lia. }
    unfold starts in Hin. apply in_map_iff in Hin. destruct Hin as [y [Hy Hiny]].
    exists y. split; [|exact Hy].
    unfold scan_chain_all_ends. replace (map (vre false) (chain_res c)) with (chain_res c) by (unfold vre; symmetry; apply map_id).
    exact Hiny.
  Qed.
End AllEnds.

(* the boolean order check evaluated on the real events in K stream (e) *)
Lemma events_ordered_b_spec : forall evs, events_ordered_b evs = true -> ordered evs.
Proof.
  induction evs as [|x t IH]; intros H P ev R E k s e Hin.
  - destruct P; discriminate.
  - cbn [events_ordered_b] in H. apply andb_true_iff in H. destruct H as [H1 H2].
    destruct P as [|x0 P']; [destruct Hin|]. cbn [app] in E. inversion E; subst x0 t.
    destruct Hin as [Hx|Hin].
    + subst x. rewrite forallb_forall in H1. specialize (H1 ev). cbn [fst snd] in H1.
      apply Nat.ltb_lt. apply H1. apply in_app_iff. right. left. reflexivity.
    + apply (IH H2 P' ev R eq_refl k s e Hin).
Qed.

(* the hypotheses of chain_complete_all_ends are satisfiable (the pattern of the
   known finding: the all-ends model finds what the one-end model misses) *)
Example all_ends_hypotheses_example :
  let c := split_at_large_gaps missed_items in
  snd c <> [] /\ (forall r, In r (chain_res c) -> 1 <= min_len r).
Proof.
  cbv zeta. split.
  - vm_compute. discriminate.
  - assert (E : forallb (fun r => Nat.leb 1 (min_len r)) (chain_res (split_at_large_gaps missed_items)) = true) by (vm_compute; reflexivity).
    rewrite forallb_forall in E. intros r Hr. apply Nat.leb_le. apply E. exact Hr.
Qed.
