(* Which end is reported for a start (Pat/ChainRun.v, linear chain of pieces 0..n).

   every end     the end of a reported match is the end of an event of the last piece
                 that closes a chain of events from a head with that start
                 (run_chain_end_closes)
   lazy          ... and, the events arriving in the order of their END offset, the
                 smallest such end: the shortest occurrence (chain_lazy_shortest)
   greedy        ... the LARGEST such end, whatever the order the kernels deliver the events in
                 (ChainCompleteProofs.chain_greedy_longest; chain_greedy_end_choice_all_ends
                 here).  True since commit a09b6a08 (MatchList::add compares in both arms);
                 before, it was refuted by the trace of /hh.*qq(aqqb)?/s on "hh_qqaqqb". *)
From Coq Require Import List NArith Bool Arith Lia Sorted.
From YV Require Import Pat.Syntax Pat.Sem Pat.Matcher Pat.MatcherProofs Pat.Modifiers Pat.MatchList Pat.MatchListProofs
                       Pat.Chain Pat.ChainProofs Pat.ChainRun Pat.ChainRunProofs Pat.ChainCompleteProofs.
Import ListNotations.

(* ---- a lazy pattern never changes what it has reported -------------------------- *)
Lemma add_false_keeps : forall l m x, sorted l -> In x l -> In x (fst (ml_add l m false)).
Proof.
  intros l m x Hs Hin.
  destruct (add_shape_ok l m false Hs) as [l1 l2 H1 H2 H3|l1 x0 l2 e H1 H2 H3]; cbn [fst]; subst l.
  - apply in_app_iff in Hin. apply in_app_iff. cbn [In]. tauto.
  - subst e. rewrite set_end_same. exact Hin.
Qed.

Section Lazy.
  Variable pieces : list cpiece.
  Hypothesis Hlazy : forall id p, nth_error pieces id = Some p -> cp_greedy p = false.

  Lemma chain_loop_keeps : forall fuel te queue tct st ml x, sorted ml -> In x ml ->
    sorted (snd (chain_loop fuel pieces te queue tct st ml)) /\ In x (snd (chain_loop fuel pieces te queue tct st ml)).
  Proof.
    induction fuel as [|f IH]; intros te queue tct st ml x Hs Hin; cbn [chain_loop]; [split; assumption|].
    destruct queue as [|[id cur] q]; [split; assumption|].
    destruct (nth_error pieces id) as [p|] eqn:Ep; [|split; assumption].
    destruct (cp_link p) as [[to g]|].
    - destruct (u_get st to) as [v|]; [|apply IH; assumption].
      destruct (chain_scan g cur v) as [v' pushed]. apply IH; assumption.
    - rewrite (Hlazy _ _ Ep). apply IH; [apply add_sorted; exact Hs|apply add_false_keeps; assumption].
  Qed.

  Lemma handle_keeps : forall id s e st ml x, sorted ml -> In x ml ->
    sorted (snd (handle_piece_match pieces id s e (st, ml))) /\ In x (snd (handle_piece_match pieces id s e (st, ml))).
  Proof.
    intros id s e st ml x Hs Hin. unfold handle_piece_match.
    destruct (nth_error pieces id) as [p|]; [|split; assumption].
    destruct (cp_link p) as [[to g]|]; [|split; assumption].
    destruct (within_valid_distance st to s g); [|split; assumption].
    destruct (cp_last p); [|split; assumption].
    unfold verify_chain_of_matches. apply chain_loop_keeps; assumption.
  Qed.

  Lemma fold_keeps : forall evs st ml x, sorted ml -> In x ml ->
    In x (snd (fold_left (fun sm ev => let '(id, s, e) := ev in handle_piece_match pieces id s e sm) evs (st, ml))).
  Proof.
    induction evs as [|[[id s] e] t IH]; intros st ml x Hs Hin; cbn [fold_left]; [exact Hin|].
    destruct (handle_keeps id s e st ml x Hs Hin) as [Hs' Hin'].
    destruct (handle_piece_match pieces id s e (st, ml)) as [st1 ml1]. cbn [snd] in *. apply IH; assumption.
  Qed.

  (* what a prefix of the events has reported stays *)
  Lemma prefix_reported_stays : forall evs1 evs2 x, In x (run_chain pieces evs1) -> In x (run_chain pieces (evs1 ++ evs2)).
  Proof.
    intros evs1 evs2 x H. pose proof (run_chain_sorted pieces evs1) as Hs.
    assert (G : forall r : ustate * match_list, sorted (snd r) -> In x (snd r) ->
              In x (snd (fold_left (fun sm ev => let '(id, s, e) := ev in handle_piece_match pieces id s e sm) evs2 r))).
    { intros [st1 ml1] Hs1 H1. cbn [snd] in *. apply fold_keeps; assumption. }
    unfold run_chain, run_chain_state in *. rewrite fold_left_app. apply G; [exact Hs|exact H].
  Qed.
End Lazy.

(* ---- the end of a reported match closes a chain from its start --------------------- *)
Section Ends.
  Variable pieces : list cpiece.
  Variable n : nat.
  Variable gp : nat -> cgap.
  Variable greedy : bool.
  Hypothesis Hn : 1 <= n.
  Hypothesis Hlen : length pieces = S n.
  Hypothesis Hhead : forall p, nth_error pieces 0 = Some p -> cp_link p = None.
  Hypothesis Htail : forall i p, nth_error pieces (S i) = Some p -> cp_link p = Some (i, gp i).
  Hypothesis Hlast : forall id p, nth_error pieces id = Some p -> cp_last p = Nat.eqb id n.
  Hypothesis Hgreedy : forall id p, nth_error pieces id = Some p -> cp_greedy p = greedy.

  Lemma reaches_left : forall evs k s e te, reaches pieces (fun id s e => In (id, s, e) evs) k s e te ->
    forall s0, left gp evs k s e s0 -> exists st, left gp evs n st te s0.
  Proof.
    intros evs k s e te H. induction H as [id s e p Hpm Hp Hl|id s e te id' s' e' p' g Hpm Hp Hl Hg Hr IH]; intros s0 Hleft.
    - rewrite (Hlast _ _ Hp) in Hl. apply Nat.eqb_eq in Hl. subst id. exists s. exact Hleft.
    - destruct id' as [|i]; [rewrite (Hhead _ Hp) in Hl; discriminate|].
      rewrite (Htail _ _ Hp) in Hl. inversion Hl; subst i g.
      apply (IH s0). cbn [left]. split.
      + inversion Hr; assumption.
      + exists s, e. split; assumption.
  Qed.

  Theorem run_chain_end_closes : forall evs y, In y (run_chain pieces evs) ->
    exists s0 st te, m_start y = N.of_nat s0 /\ m_end y = N.of_nat te /\ left gp evs n st te s0.
  Proof.
    intros evs y Hy.
    destruct (run_chain_sound pieces (fun id s e => In (id, s, e) evs) evs y (fun _ _ _ H => H) Hy)
      as [id [p [s [e [te [Hp [Hl [Hr [Hs He]]]]]]]]].
    destruct id as [|i]; [|rewrite (Htail _ _ Hp) in Hl; discriminate].
    assert (Hin : In (0, s, e) evs) by (inversion Hr; assumption).
    destruct (reaches_left evs 0 s e te Hr s) as [st Hleft]; [cbn [left]; split; [exact Hin|reflexivity]|].
    exists s, st, te. auto.
  Qed.

  (* a chain that ends with an event of a prefix lies inside the prefix *)
  Lemma left_prefix : forall R P, ordered (P ++ R) ->
    forall k s e s0, left gp (P ++ R) k s e s0 -> In (k, s, e) P -> left gp P k s e s0.
  Proof.
    induction R as [|ev R IH] using rev_ind; intros P Hord k s e s0 Hl Hin.
    - rewrite app_nil_r in Hl. exact Hl.
    - rewrite app_assoc in Hl, Hord.
      assert (Hord1 : ordered (P ++ R)).
      { intros P1 ev1 R1 E k1 s1 e1 Hi. refine (Hord P1 ev1 (R1 ++ [ev]) _ k1 s1 e1 Hi).
        rewrite E. rewrite <- app_assoc. reflexivity. }
      apply (IH P Hord1); [|exact Hin].
      apply (left_old pieces n gp Hn Hlen (P ++ R) ev); [|exact Hl|apply in_app_iff; left; exact Hin].
      intros k1 s1 e1 Hi. apply (Hord (P ++ R) ev [] eq_refl k1 s1 e1 Hi).
  Qed.

  Lemma ordered_prefix : forall P R, ordered (P ++ R) -> ordered P.
  Proof.
    intros P R Hord P1 ev R1 E k s e Hi. refine (Hord P1 ev (R1 ++ R) _ k s e Hi).
    rewrite E, <- app_assoc. reflexivity.
  Qed.

  (* the events arrive in the order of their end offset *)
  Definition ends_sorted (evs : list event) : Prop :=
    forall P ev R, evs = P ++ ev :: R -> forall x, In x P -> eend x <= eend ev.

  (* LAZY: the reported end is the smallest end of an event that closes a chain from
     that start *)
  Theorem chain_lazy_shortest : forall evs,
    greedy = false -> ordered evs -> ends_sorted evs ->
    (forall k s e, In (k, s, e) evs -> s <= e /\ k <= n) ->
    forall y s0, In y (run_chain pieces evs) -> m_start y = N.of_nat s0 ->
    forall s' e', left gp evs n s' e' s0 -> (m_end y <= N.of_nat e')%N.
  Proof.
    intros evs Hg Hord Hes Hev y s0 Hy Hys s' e' Hl.
    pose proof (left_in _ _ _ _ _ _ Hl) as Hin. apply in_split in Hin. destruct Hin as [P [R E]].
    set (evs1 := P ++ [(n, s', e')]).
    assert (E1 : evs = evs1 ++ R) by (unfold evs1; rewrite <- app_assoc; exact E).
    rewrite E1 in Hord, Hl, Hev, Hy, Hes.
    assert (Hord1 : ordered evs1) by exact (ordered_prefix evs1 R Hord).
    assert (Hl1 : left gp evs1 n s' e' s0).
    { apply (left_prefix R evs1 Hord _ _ _ _ Hl). unfold evs1. apply in_app_iff. right. left. reflexivity. }
    assert (Hev1 : forall k s e, In (k, s, e) evs1 -> s <= e /\ k <= n).
    { intros k s e Hi. apply Hev. apply in_app_iff. left. exact Hi. }
    (* the prefix reports the start, with the end of one of its own events *)
    pose proof (run_chain_complete_starts pieces n gp greedy Hn Hlen Hhead Htail Hlast Hgreedy evs1 Hord1 Hev1 s' e' s0 Hl1) as Hrep.
    unfold starts in Hrep. apply in_map_iff in Hrep. destruct Hrep as [y1 [Hy1s Hy1]].
    destruct (run_chain_end_closes evs1 y1 Hy1) as [s1 [st [te [Hs1 [He1 Hl2]]]]].
    assert (Hte : te <= e').
    { pose proof (left_in _ _ _ _ _ _ Hl2) as Hi. unfold evs1 in Hi. apply in_app_iff in Hi. destruct Hi as [Hi|[Hi|[]]].
      - assert (E2 : evs1 ++ R = P ++ (n, s', e') :: R) by (rewrite <- E1; exact E).
        pose proof (Hes P (n, s', e') R E2 (n, st, te) Hi) as H. exact H.
      - inversion Hi. lia. }
    (* it stays, and the list has one match per start *)
    assert (Hy1f : In y1 (run_chain pieces (evs1 ++ R))).
    { apply prefix_reported_stays; [|exact Hy1]. intros id p Hp. rewrite (Hgreedy _ _ Hp). exact Hg. }
    assert (Hyy : y = y1).
    { apply (sorted_start_inj (run_chain pieces (evs1 ++ R))); [apply run_chain_sorted|exact Hy|exact Hy1f|]. rewrite Hys, Hy1s. reflexivity. }
    subst y1. rewrite He1. lia.
  Qed.
End Ends.

(* ---- greedy ------------------------------------------------------------------------------ *)
(* /hh.*qq(aqqb)?/s on "hh_qqaqqb": the events as the implementation produces them (both
   kernels; hook trace): head 0..2, last piece 3..9, last piece 6..8.  Before commit
   a09b6a08 MatchList::add overwrote the end of the last match of the list without
   comparing, the end of the LAST closing event stayed (0..8) and "greedy reports the
   longest" was refuted by this very trace; now both arms compare and 0..9 stays. *)
Definition greedy_pieces : list cpiece :=
  [mkCP false [104; 104]%N no_flags false true None; mkCP true [] no_flags true true (Some (0, GUnbounded 0))].
Definition greedy_events : list event := [(0, 0, 2); (1, 3, 9); (1, 6, 8)].

Example chain_greedy_keeps_the_longer_end :
  map (fun y => (m_start y, m_end y)) (run_chain greedy_pieces greedy_events) = [(0, 9)]%N.
Proof. vm_compute. reflexivity. Qed.

(* ---- end to end: the lazy chain of a split pattern, fed with every end of every piece,
   reports for every start the SHORTEST occurrence ---------------------------------------- *)
Theorem chain_lazy_end_choice_all_ends : forall nc c d,
  snd c <> [] -> (forall r, In r (chain_res c) -> 1 <= min_len r) ->
  chain_end_choice nc false c d (scan_chain_all_ends nc false false c d).
Proof.
  intros nc c d Htails Hmin y s Hy Hys.
  unfold scan_chain_all_ends in Hy.
  replace (map (vre false) (chain_res c)) with (chain_res c) in Hy by (unfold vre; symmetry; apply map_id).
  set (n := length (snd c)) in *.
  set (gp := fun i : nat => match nth_error (snd c) i with Some g => cgap_of (fst g) | None => GUnbounded 0 end).
  set (pieces := pieces_of_chain false c) in *.
  set (evs := all_end_events nc (chain_res c) d) in *.
  (* the reported match is a match of the chain *)
  destruct (chain_sound nc d c pieces (pieces_of_chain_shape false c) evs y
              (fun id s0 e0 => all_end_events_sound nc (chain_res c) d id s0 e0) Hy) as [s1 [te [Hs1 [He1 HM]]]].
  assert (s1 = s) by (rewrite Hys in Hs1; lia). subst s1.
  exists te. split; [exact He1|]. split; [exact HM|].
  intros e' HM'.
  (* a chain of events for the other occurrence *)
  unfold join_chain in HM'. apply M_rcat_cons in HM'. destruct HM' as [e0 [Hh Hrest]].
  assert (Hl0 : left gp evs 0 s e0 s).
  { cbn [left]. split; [|reflexivity]. apply (all_end_events_complete nc (chain_res c) d 0 (fst c)); [reflexivity|exact Hh]. }
  destruct (suffix_left nc c d (n - 0) 0 s e0 s e' eq_refl ltac:(lia) Hl0 Hrest) as [sn Hl].
  assert (Hle : (m_end y <= N.of_nat e')%N).
  { apply (chain_lazy_shortest pieces n gp false (n_pos c Htails)) with (evs := evs) (s0 := s) (s' := sn); try assumption; try reflexivity.
    - apply (proj1 (pieces_of_chain_shape false c)).
    - intros p Hp. unfold pieces in Hp. rewrite pieces_of_chain_head in Hp. inversion Hp. reflexivity.
    - intros i p Hp. unfold pieces in Hp. rewrite pieces_of_chain_tail in Hp. unfold gp.
      destruct (nth_error (snd c) i); cbn [option_map] in Hp; [|discriminate]. inversion Hp. reflexivity.
    - intros id p Hp. destruct id as [|i]; unfold pieces in Hp.
      + rewrite pieces_of_chain_head in Hp. inversion Hp. cbn [cp_last]. pose proof (n_pos c Htails). symmetry. apply Nat.eqb_neq. unfold n. lia.
      + rewrite pieces_of_chain_tail in Hp. destruct (nth_error (snd c) i); cbn [option_map] in Hp; [|discriminate].
        inversion Hp. reflexivity.
    - intros id p Hp. destruct id as [|i]; unfold pieces in Hp.
      + rewrite pieces_of_chain_head in Hp. inversion Hp. reflexivity.
      + rewrite pieces_of_chain_tail in Hp. destruct (nth_error (snd c) i); cbn [option_map] in Hp; [|discriminate].
        inversion Hp. reflexivity.
    - apply (ae_ordered nc c d Hmin).
    - intros P ev R E x Hx. unfold evs, all_end_events in E. apply (by_end_ordered _ _ _ _ _ E x Hx).
    - intros k s1 e1 H. destruct (ae_props nc c d Hmin _ _ _ H). split; [lia|assumption]. }
  rewrite He1 in Hle. lia.
Qed.

(* ---- greedy: the LONGEST occurrence ------------------------------------------------------ *)
Theorem chain_greedy_end_choice_all_ends : forall nc c d,
  snd c <> [] -> (forall r, In r (chain_res c) -> 1 <= min_len r) ->
  chain_end_choice nc true c d (scan_chain_all_ends nc true false c d).
Proof.
  intros nc c d Htails Hmin y s Hy Hys.
  unfold scan_chain_all_ends in Hy.
  replace (map (vre false) (chain_res c)) with (chain_res c) in Hy by (unfold vre; symmetry; apply map_id).
  set (n := length (snd c)) in *.
  set (gp := fun i : nat => match nth_error (snd c) i with Some g => cgap_of (fst g) | None => GUnbounded 0 end).
  set (pieces := pieces_of_chain true c) in *.
  set (evs := all_end_events nc (chain_res c) d) in *.
  destruct (chain_sound nc d c pieces (pieces_of_chain_shape true c) evs y
              (fun id s0 e0 => all_end_events_sound nc (chain_res c) d id s0 e0) Hy) as [s1 [te [Hs1 [He1 HM]]]].
  assert (s1 = s) by (rewrite Hys in Hs1; lia). subst s1.
  exists te. split; [exact He1|]. split; [exact HM|].
  intros e' HM'.
  unfold join_chain in HM'. apply M_rcat_cons in HM'. destruct HM' as [e0 [Hh Hrest]].
  assert (Hl0 : left gp evs 0 s e0 s).
  { cbn [left]. split; [|reflexivity]. apply (all_end_events_complete nc (chain_res c) d 0 (fst c)); [reflexivity|exact Hh]. }
  destruct (suffix_left nc c d (n - 0) 0 s e0 s e' eq_refl ltac:(lia) Hl0 Hrest) as [sn Hl].
  assert (Hle : (N.of_nat e' <= m_end y)%N).
  { apply (chain_greedy_longest pieces n gp true (n_pos c Htails)) with (evs := evs) (s0 := s) (s' := sn); try assumption; try reflexivity.
    - apply (proj1 (pieces_of_chain_shape true c)).
    - intros p Hp. unfold pieces in Hp. rewrite pieces_of_chain_head in Hp. inversion Hp. reflexivity.
    - intros i p Hp. unfold pieces in Hp. rewrite pieces_of_chain_tail in Hp. unfold gp.
      destruct (nth_error (snd c) i); cbn [option_map] in Hp; [|discriminate]. inversion Hp. reflexivity.
    - intros id p Hp. destruct id as [|i]; unfold pieces in Hp.
      + rewrite pieces_of_chain_head in Hp. inversion Hp. cbn [cp_last]. pose proof (n_pos c Htails). symmetry. apply Nat.eqb_neq. unfold n. lia.
      + rewrite pieces_of_chain_tail in Hp. destruct (nth_error (snd c) i); cbn [option_map] in Hp; [|discriminate].
        inversion Hp. reflexivity.
    - intros id p Hp. destruct id as [|i]; unfold pieces in Hp.
      + rewrite pieces_of_chain_head in Hp. inversion Hp. reflexivity.
      + rewrite pieces_of_chain_tail in Hp. destruct (nth_error (snd c) i); cbn [option_map] in Hp; [|discriminate].
        inversion Hp. reflexivity.
    - apply (ae_ordered nc c d Hmin).
    - intros k s1 e1 H. destruct (ae_props nc c d Hmin _ _ _ H). split; [lia|assumption]. }
  rewrite He1 in Hle. lia.
Qed.
