(* split_at_large_gaps preserves the language of the pattern, for every list of
   items (a pattern ending with a jump over the chaining threshold included:
   the jump stays in the last piece; before commit c49f314d it was dropped). *)
From Coq Require Import List NArith Bool Arith Lia.
From YV Require Import Gen.PatConsts Pat.Syntax Pat.Sem Pat.Matcher Pat.MatcherProofs Pat.Chain.
Import ListNotations.

Section Lang.
  Variable nc : bool.
  Variable d : bytes.

  Lemma M_rcat_cons : forall x t i j,
    M nc d (rcat (x :: t)) i j <-> exists k, M nc d x i k /\ M nc d (rcat t) k j.
  Proof.
    intros x [|y t] i j; cbn [rcat].
    - split.
      + intro H. exists j. split; [exact H|]. constructor. apply M_bounds in H. lia.
      + intros [k [H1 H2]]. inversion H2; subst. exact H1.
    - split.
      + intro H. inversion H; subst. eexists. split; eassumption.
      + intros [k [H1 H2]]. econstructor; eassumption.
  Qed.

  Lemma M_rcat_app : forall a b i j,
    M nc d (rcat (a ++ b)) i j <-> exists k, M nc d (rcat a) i k /\ M nc d (rcat b) k j.
  Proof.
    induction a as [|x a IH]; intros b i j.
    - cbn [app rcat]. split.
      + intro H. exists i. split; [|exact H]. constructor. apply M_bounds in H. lia.
      + intros [k [H1 H2]]. inversion H1; subst. exact H2.
    - change ((x :: a) ++ b) with (x :: (a ++ b)). rewrite M_rcat_cons. split.
      + intros [k [H1 H2]]. apply IH in H2. destruct H2 as [k2 [H2 H3]].
        exists k2. split; [|exact H3]. apply M_rcat_cons. exists k. split; assumption.
      + intros [k2 [H1 H3]]. apply M_rcat_cons in H1. destruct H1 as [k [H1 H2]].
        exists k. split; [exact H1|]. apply IH. exists k2. split; assumption.
  Qed.

  (* two item lists with the same language *)
  Definition leq (l1 l2 : list re) : Prop :=
    forall i j, M nc d (rcat l1) i j <-> M nc d (rcat l2) i j.

  Lemma leq_refl : forall l, leq l l.
  Proof. intros l i j. tauto. Qed.
  Lemma leq_sym : forall a b, leq a b -> leq b a.
  Proof. intros a b H i j. symmetry. apply H. Qed.
  Lemma leq_trans : forall a b c, leq a b -> leq b c -> leq a c.
  Proof. intros a b c H1 H2 i j. rewrite (H1 i j). apply H2. Qed.

  Lemma leq_app : forall a a' b b', leq a a' -> leq b b' -> leq (a ++ b) (a' ++ b').
  Proof.
    intros a a' b b' Ha Hb i j. rewrite !M_rcat_app. split; intros [k [H1 H2]]; exists k.
    - split; [apply Ha|apply Hb]; assumption.
    - split; [apply Ha|apply Hb]; assumption.
  Qed.

  (* a piece collapsed into one item *)
  Lemma leq_collapse : forall c, leq [rcat c] c.
  Proof. intros c i j. cbn [rcat]. tauto. Qed.

  Lemma leq_mid : forall a c b, leq (a ++ rcat c :: b) (a ++ c ++ b).
  Proof.
    intros a c b. apply leq_app; [apply leq_refl|].
    change (rcat c :: b) with ([rcat c] ++ b). apply leq_app; [apply leq_collapse|apply leq_refl].
  Qed.

  Definition jp (gp : gap * re) : list re := [jump_of (fst gp); snd gp].

  (* the item list a loop state stands for *)
  Definition denote (chain : list (gap * re)) (g : gap) (chunks : list re) : list re :=
    match chain with
    | [] => chunks
    | (_, h0) :: t => h0 :: flat_map jp t ++ jump_of g :: chunks
    end.

  Lemma denote_app : forall chain g chunks l, denote chain g chunks ++ l = denote chain g (chunks ++ l).
  Proof.
    intros [|[x h0] t] g chunks l; cbn [denote]; [reflexivity|].
    cbn [app]. rewrite <- app_assoc. reflexivity.
  Qed.

  (* closing the current piece *)
  Lemma denote_close : forall chain g chunks g' l,
    leq (denote (chain ++ [(g, rcat chunks)]) g' l) (denote chain g (chunks ++ jump_of g' :: l)).
  Proof.
    intros [|[x h0] t] g chunks g' l; cbn [denote app].
    - cbn [flat_map app]. apply (leq_mid [] chunks (jump_of g' :: l)).
    - rewrite flat_map_app. cbn [flat_map jp fst snd app]. rewrite <- !app_assoc. cbn [app].
      apply (leq_mid (h0 :: flat_map jp t ++ [jump_of g]) chunks (jump_of g' :: l)) || idtac.
      replace (h0 :: flat_map jp t ++ jump_of g :: rcat chunks :: jump_of g' :: l)
        with ((h0 :: flat_map jp t ++ [jump_of g]) ++ rcat chunks :: jump_of g' :: l)
        by (cbn [app]; rewrite <- app_assoc; reflexivity).
      replace (h0 :: flat_map jp t ++ jump_of g :: chunks ++ jump_of g' :: l)
        with ((h0 :: flat_map jp t ++ [jump_of g]) ++ chunks ++ jump_of g' :: l)
        by (cbn [app]; rewrite <- app_assoc; reflexivity).
      apply leq_mid.
  Qed.

  Lemma denote_chunks_leq : forall chain g c1 c2, leq c1 c2 -> leq (denote chain g c1) (denote chain g c2).
  Proof.
    intros [|[x h0] t] g c1 c2 H; cbn [denote]; [exact H|].
    change (h0 :: flat_map jp t ++ jump_of g :: c1) with ((h0 :: flat_map jp t ++ [jump_of g]) ++ c1) || idtac.
    replace (h0 :: flat_map jp t ++ jump_of g :: c1) with ((h0 :: flat_map jp t ++ [jump_of g]) ++ c1)
      by (cbn [app]; rewrite <- app_assoc; reflexivity).
    replace (h0 :: flat_map jp t ++ jump_of g :: c2) with ((h0 :: flat_map jp t ++ [jump_of g]) ++ c2)
      by (cbn [app]; rewrite <- app_assoc; reflexivity).
    apply leq_app; [apply leq_refl|exact H].
  Qed.

  (* the loop keeps the language of (state ++ remaining items) *)
  Lemma split_loop_inv : forall items g chunks chain,
    let '(g', chunks', chain') := split_loop items g chunks chain in
    leq (denote chain' g' chunks') (denote chain g (chunks ++ items)).
  Proof.
    induction items as [|item rest IH]; intros g chunks chain.
    - cbn [split_loop]. rewrite app_nil_r. apply leq_refl.
    - assert (Hpush : let '(g', chunks', chain') := split_loop rest g (chunks ++ [item]) chain in
                      leq (denote chain' g' chunks') (denote chain g (chunks ++ item :: rest))).
      { specialize (IH g (chunks ++ [item]) chain).
        destruct (split_loop rest g (chunks ++ [item]) chain) as [[g' chunks'] chain'].
        rewrite <- app_assoc in IH. exact IH. }
      cbn [split_loop].
      destruct item as [|c|a b|a b|x mn mx gr|a]; try exact Hpush.
      destruct x as [|c|? ?|? ?|? ? ? ?|?]; try exact Hpush.
      destruct c; try exact Hpush.
      destruct (negb (is_nil chunks) && big_gap mn mx); [|exact Hpush].
      destruct (long_enough (rcat chunks)).
      + specialize (IH (mkGap mn mx gr) [] (chain ++ [(g, rcat chunks)])).
        destruct (split_loop rest (mkGap mn mx gr) [] (chain ++ [(g, rcat chunks)])) as [[g' chunks'] chain'].
        eapply leq_trans; [exact IH|]. cbn [app].
        apply (denote_close chain g chunks (mkGap mn mx gr) rest).
      + specialize (IH g [rcat chunks; RRep (RCls CAny) mn mx gr] chain).
        destruct (split_loop rest g [rcat chunks; RRep (RCls CAny) mn mx gr] chain) as [[g' chunks'] chain'].
        eapply leq_trans; [exact IH|]. apply denote_chunks_leq. cbn [app].
        apply (leq_mid [] chunks (RRep (RCls CAny) mn mx gr :: rest)).
  Qed.

  Lemma join_head_tail_snoc : forall chain g hir,
    leq (let c := head_tail (chain ++ [(g, hir)]) in fst c :: flat_map jp (snd c))
        (denote chain g [hir]).
  Proof.
    intros [|[x h0] t] g hir; cbn [app head_tail fst snd denote flat_map].
    - apply leq_refl.
    - rewrite flat_map_app. cbn [flat_map jp fst snd app]. apply leq_refl.
  Qed.

  Theorem split_preserves_language : forall items i j,
    M nc d (join_chain (split_at_large_gaps items)) i j <-> M nc d (rcat items) i j.
  Proof.
    intros items.
    pose proof (split_loop_inv items (mkGap 0 None false) [] []) as Inv.
    unfold split_at_large_gaps.
    destruct (split_loop items (mkGap 0 None false) [] []) as [[g chunks] chain].
    cbn [app denote] in Inv.
    destruct chunks as [|c0 cs].
    - (* the pattern ends with a large gap: it is appended to the last piece *)
      change trailing_gap_kept with true. cbv iota.
      destruct (rev chain) as [|[lg lh] rc] eqn:Er.
      + assert (chain = []) as -> by (rewrite <- (rev_involutive chain), Er; reflexivity).
        cbn [denote] in Inv. unfold join_chain. cbn [fst snd flat_map].
        eapply leq_trans; [|exact Inv]. intros i j. cbn [rcat]. tauto.
      + assert (Hc : chain = rev rc ++ [(lg, lh)]).
        { rewrite <- (rev_involutive chain), Er. reflexivity. }
        unfold join_chain. eapply leq_trans; [apply join_head_tail_snoc|].
        eapply leq_trans; [|exact Inv]. rewrite Hc.
        eapply leq_trans; [apply denote_chunks_leq; apply leq_collapse|].
        apply leq_sym. change lh with (rcat [lh]) at 1.
        apply (denote_close (rev rc) lg [lh] g []).
    - set (chunks := c0 :: cs) in *.
      assert (Hgoal : leq (denote chain g [rcat chunks]) items).
      { eapply leq_trans; [|exact Inv]. apply denote_chunks_leq. apply leq_collapse. }
      destruct (is_nil chain || long_enough (rcat chunks)) eqn:E.
      + unfold join_chain. eapply leq_trans; [|exact Hgoal]. apply join_head_tail_snoc.
      + apply orb_false_iff in E. destruct E as [En _].
        destruct (rev chain) as [|[lg lh] rc] eqn:Er.
        * destruct chain; [discriminate|]. apply (f_equal (@length _)) in Er.
          rewrite rev_length in Er. discriminate.
        * assert (Hc : chain = rev rc ++ [(lg, lh)]).
          { rewrite <- (rev_involutive chain), Er. reflexivity. }
          unfold join_chain. eapply leq_trans; [apply join_head_tail_snoc|].
          eapply leq_trans; [|exact Hgoal]. rewrite Hc.
          (* the merged last piece [lh; J g; hir] versus the piece lh followed by J g and hir *)
          eapply leq_trans; [apply denote_chunks_leq; apply leq_collapse|].
          apply leq_sym. change lh with (rcat [lh]) at 1.
          apply (denote_close (rev rc) lg [lh] g [rcat chunks]).
  Qed.
End Lang.

(* the regexp of commit c49f314d: /abc.{5,300}/s keeps its trailing jump, so
   "abc" alone is not matched any more while "abc12345" is *)
Example trailing_gap_example :
  let items := [RCls (CByte 97); RCls (CByte 98); RCls (CByte 99); RRep (RCls CAny) 5 (Some 300) true] in
  split_at_large_gaps items =
    (rcat [rcat [RCls (CByte 97); RCls (CByte 98); RCls (CByte 99)]; RRep (RCls CAny) 5 (Some 300) true], []) /\
  ends false [97; 98; 99]%N (join_chain (split_at_large_gaps items)) 0 = [] /\
  ends false [97; 98; 99; 1; 2; 3; 4; 5]%N (join_chain (split_at_large_gaps items)) 0 = [8].
Proof. vm_compute. repeat split. Qed.

(* a real split happens *)
Example split_example :
  let items := [RCls (CByte 1); RCls (CByte 2); RRep (RCls CAny) 0 (Some 300) false; RCls (CByte 3); RCls (CByte 4)] in
  split_at_large_gaps items =
    (RCat (RCls (CByte 1)) (RCls (CByte 2)),
     [(mkGap 0 (Some 300) false, RCat (RCls (CByte 3)) (RCls (CByte 4)))]).
Proof. vm_compute. reflexivity. Qed.

(* below the threshold nothing is split: max - min = 200 is not "greater than" *)
Example no_split_at_threshold :
  let items := [RCls (CByte 1); RCls (CByte 2); RRep (RCls CAny) 0 (Some 200) false; RCls (CByte 3); RCls (CByte 4)] in
  snd (split_at_large_gaps items) = [].
Proof. vm_compute. reflexivity. Qed.
