(* Architecture level (A): chained sub-patterns at run time, following
   lib/src/scanner/context.rs

     handle_sub_pattern_match   head piece: remember the match (unconfirmed);
                                tail piece: within_valid_distance of some match
                                of the previous piece?  then remember it, or --
                                for the last piece -- verify_chain_of_matches
     within_valid_distance      bounded gap: prev.end+min <= start <= prev.end+max;
                                unbounded gap: prev.START+min <= start (sic)
     verify_chain_of_matches    breadth-first walk from the tail match back to
                                the head through the unconfirmed matches, pruned
                                by chain_length; every head reached gives
                                track_match(head.start .. tail.end, greedy);
                                for a greedy pattern the chain_length of every
                                piece before the tail is reset afterwards
     track_match                PatternMatches::add(.., replace_if_longer = greedy)

   The bookkeeping consumes EVENTS (sub-pattern id, start, end): the verified
   matches of the pieces in the order handle_sub_pattern_match receives them.
   For literal pieces (LiteralChainHead / LiteralChainTail) the events are
   derived from the atom hits by Pipeline.handle_atom_match; for regexp pieces
   (RegexpChainHead / RegexpChainTail) they are whatever verify_regexp yields --
   per atom hit ONE end (the first the forward code reports for a lazy pattern,
   the last for a greedy one) and every start of the backward code.  In K stream
   (e) sub-patterns, atoms, hits and events are the REAL ones (hooks
   Rules::verif_c01_dump, verif_c01_trace_take).  `one_end_events` is the abstract
   reading "one end per start" used in ChainRunProofs.v.
   Definitions only. *)
From Coq Require Import List NArith Bool Arith.
From YV Require Import Pat.Syntax Pat.Sem Pat.Matcher Pat.Modifiers Pat.MatchList Pat.Atoms Pat.Pipeline Pat.Chain.
Import ListNotations.

Inductive cgap := GBounded (mn mx : nat) | GUnbounded (mn : nat).

(* a chain piece: SubPattern::LiteralChainHead (link = None) or LiteralChainTail *)
Record cpiece := mkCP {
  cp_regexp : bool;                     (* Regexp* instead of Literal*: cp_lit is not used *)
  cp_lit : bytes;
  cp_flags : spflags;
  cp_last : bool;                       (* SubPatternFlags::LastInChain *)
  cp_greedy : bool;                     (* SubPatternFlags::GreedyRegexp *)
  cp_link : option (nat * cgap) }.      (* chained_to, gap *)

(* UnconfirmedMatch { range, chain_length } *)
Record um := mkUM { um_s : nat; um_e : nat; um_cl : nat }.

(* tracker.unconfirmed_matches : sub-pattern id -> Vec<UnconfirmedMatch> (push order) *)
Definition ustate := list (nat * list um).

Fixpoint u_get (st : ustate) (id : nat) : option (list um) :=
  match st with
  | [] => None
  | (k, v) :: t => if Nat.eqb k id then Some v else u_get t id
  end.
Fixpoint u_set (st : ustate) (id : nat) (v : list um) : ustate :=
  match st with
  | [] => [(id, v)]
  | (k, w) :: t => if Nat.eqb k id then (k, v) :: t else (k, w) :: u_set t id v
  end.
(* entry(id).or_default().push(m) *)
Definition u_push (st : ustate) (id : nat) (m : um) : ustate :=
  u_set st id (match u_get st id with Some v => v ++ [m] | None => [m] end).

Definition in_gap (g : cgap) (prev_end start : nat) : bool :=
  match g with
  | GBounded mn mx => Nat.leb (prev_end + mn) start && Nat.leb start (prev_end + mx)
  | GUnbounded mn => Nat.leb (prev_end + mn) start
  end.

(* within_valid_distance: note that the unbounded case measures from the START
   of the previous match (a weaker pre-filter than the check made later) *)
Definition within_valid_distance (st : ustate) (chained_to : nat) (start : nat) (g : cgap) : bool :=
  match u_get st chained_to with
  | None => false
  | Some v => existsb (fun m => match g with
                                | GBounded mn mx => Nat.leb (um_e m + mn) start && Nat.leb start (um_e m + mx)
                                | GUnbounded mn => Nat.leb (um_s m + mn) start
                                end) v
  end.

(* the `for m in unconfirmed_matches` loop of verify_chain_of_matches: updates
   chain lengths in place and returns the clones pushed to the queue *)
Fixpoint chain_scan (g : cgap) (cur : um) (v : list um) : list um * list um :=
  match v with
  | [] => ([], [])
  | m :: t =>
      let '(v', q) := chain_scan g cur t in
      if in_gap g (um_e m) (um_s cur) && Nat.leb (um_cl m) (um_cl cur)
      then let m' := mkUM (um_s m) (um_e m) (S (um_cl cur)) in (m' :: v', m' :: q)
      else (m :: v', q)
  end.

(* the reset walk: from the piece before the tail back to the head *)
Fixpoint reset_chain (fuel : nat) (pieces : list cpiece) (st : ustate) (id : option nat) : ustate :=
  match fuel, id with
  | S f, Some i =>
      let st' := match u_get st i with
                 | Some v => u_set st i (map (fun m => mkUM (um_s m) (um_e m) 0) v)
                 | None => st
                 end in
      reset_chain f pieces st' (match nth_error pieces i with
                                | Some p => match cp_link p with Some (to, _) => Some to | None => None end
                                | None => None
                                end)
  | _, _ => st
  end.

(* the queue loop.  tail_e: the end of the tail match; tct: tail_chained_to *)
Fixpoint chain_loop (fuel : nat) (pieces : list cpiece) (tail_e : nat) (queue : list (nat * um))
                    (tct : option nat) (st : ustate) (ml : match_list) : ustate * match_list :=
  match fuel, queue with
  | S f, (id, cur) :: q =>
      match nth_error pieces id with
      | None => (st, ml)                                   (* unreachable!() *)
      | Some p =>
          match cp_link p with
          | None =>
              (* a head: the chain is confirmed *)
              let ml' := fst (ml_add ml (mkM (N.of_nat (um_s cur)) (N.of_nat tail_e) None) (cp_greedy p)) in
              chain_loop f pieces tail_e q tct (reset_chain (S (length pieces)) pieces st tct) ml'
          | Some (to, g) =>
              match u_get st to with
              | None => chain_loop f pieces tail_e q tct st ml          (* `continue` *)
              | Some v =>
                  let '(v', pushed) := chain_scan g cur v in
                  let tct' := if cp_last p && cp_greedy p then Some to else tct in
                  chain_loop f pieces tail_e (q ++ map (fun m => (to, m)) pushed) tct' (u_set st to v') ml
              end
          end
      end
  | _, _ => (st, ml)
  end.

Definition total_unconfirmed (st : ustate) : nat := fold_right (fun kv n => length (snd kv) + n) 0 st.

(* every unconfirmed match is pushed at most once per chain level, so this many
   iterations are enough for the queue to drain *)
Definition chain_fuel (pieces : list cpiece) (st : ustate) : nat :=
  S (S (total_unconfirmed st) * S (length pieces)).

Definition verify_chain_of_matches (pieces : list cpiece) (st : ustate) (ml : match_list)
                                   (tail_id : nat) (ts te : nat) : ustate * match_list :=
  chain_loop (chain_fuel pieces st) pieces te [(tail_id, mkUM ts te 1)] None st ml.

(* handle_sub_pattern_match for a chain piece that matched at s..e *)
Definition handle_piece_match (pieces : list cpiece) (id : nat) (s e : nat)
                              (sm : ustate * match_list) : ustate * match_list :=
  let '(st, ml) := sm in
  match nth_error pieces id with
  | None => sm
  | Some p =>
      match cp_link p with
      | None => (u_push st id (mkUM s e 0), ml)
      | Some (to, g) =>
          if within_valid_distance st to s g then
            if cp_last p then verify_chain_of_matches pieces st ml id s e
            else (u_push st id (mkUM s e 0), ml)
          else sm
      end
  end.

(* an event: sub-pattern id, start, end of a verified piece match *)
Definition event := (nat * nat * nat)%type.

(* the matches of a chained pattern, the piece matches arriving in the given order *)
Definition run_chain_state (pieces : list cpiece) (evs : list event) : ustate * match_list :=
  fold_left (fun sm ev => let '(id, s, e) := ev in handle_piece_match pieces id s e sm) evs ([], []).
Definition run_chain (pieces : list cpiece) (evs : list event) : match_list :=
  snd (run_chain_state pieces evs).

(* the sub-pattern a literal piece is, for Pipeline.handle_atom_match *)
Definition piece_sp (p : cpiece) : subpat := mkSP (KLiteral (cp_lit p) None) (cp_flags p).

(* handle_atom_match for an atom of a LITERAL piece found at match_start: the
   Literal* arm is the one of SubPattern::Literal (exact-atom shortcut with the
   fullword check, else verify_literal) *)
Definition hit_event (pieces : list cpiece) (atoms : list atom) (d : bytes) (h : hit) : list event :=
  match nth_error atoms (fst h) with
  | None => []
  | Some a =>
      match nth_error pieces (a_sp a) with
      | None => []
      | Some p =>
          if cp_regexp p then [] else
          match handle_atom_match (piece_sp p) a (snd h) d with
          | Some (s, e, _) => [(a_sp a, s, e)]
          | None => []
          end
      end
  end.

Definition hit_events (pieces : list cpiece) (atoms : list atom) (hits : list hit) (d : bytes) : list event :=
  flat_map (hit_event pieces atoms d) hits.

(* every event starts before the end of every later one: the order property the
   completeness theorem (ChainCompleteProofs.run_chain_complete_starts) needs; it holds
   for events in the order of their start offset and in the order of their end offset *)
Fixpoint events_ordered_b (evs : list event) : bool :=
  match evs with
  | [] => true
  | x :: t => forallb (fun ev => Nat.ltb (snd (fst x)) (snd ev)) t && events_ordered_b t
  end.

(* a chain of literal pieces, the hits being processed in the given order *)
Definition scan_chain (pieces : list cpiece) (atoms : list atom) (hits : list hit) (d : bytes) : match_list :=
  run_chain pieces (hit_events pieces atoms hits d).

(* ---- the abstract piece matcher ------------------------------------------- *)
(* One end per (piece, start): the shortest the reference matcher finds for a
   lazy pattern (and for hex patterns), the longest for a greedy one.  Events in
   the order of their END offset, then piece, then start: the order of an
   automaton that consumes the data from left to right. *)
Fixpoint list_min (l : list nat) : option nat :=
  match l with
  | [] => None
  | x :: t => match list_min t with Some m => Some (Nat.min x m) | None => Some x end
  end.
Fixpoint list_max (l : list nat) : option nat :=
  match l with
  | [] => None
  | x :: t => match list_max t with Some m => Some (Nat.max x m) | None => Some x end
  end.
Definition chosen_end (nc greedy : bool) (r : re) (d : bytes) (s : nat) : option nat :=
  if greedy then list_max (ends nc d r s) else list_min (ends nc d r s).

(* the events in the order of their end offset (then piece, then start) *)
Definition by_end (n : nat) (evs : list event) : list event :=
  flat_map (fun e => filter (fun ev => Nat.eqb (snd ev) e) evs) (seq 0 n).

Definition one_end_events (nc greedy : bool) (rs : list re) (d : bytes) : list event :=
  let n := S (length d) in
  by_end n
    (flat_map (fun id =>
       match nth_error rs id with
       | None => []
       | Some r => flat_map (fun s => match chosen_end nc greedy r d s with
                                      | Some e => [(id, s, e)]
                                      | None => []
                                      end) (seq 0 n)
       end) (seq 0 (length rs))).

(* every end the reference matcher finds: what a complete piece matcher yields *)
Definition all_end_events (nc : bool) (rs : list re) (d : bytes) : list event :=
  let n := S (length d) in
  by_end n
    (flat_map (fun id =>
       match nth_error rs id with
       | None => []
       | Some r => flat_map (fun s => map (fun e => (id, s, e)) (ends nc d r s)) (seq 0 n)
       end) (seq 0 (length rs))).

(* the pieces of a chain (head, [(gap, piece)]) as Chain.split_at_large_gaps gives it:
   piece i+1 is chained to piece i, the last one has LastInChain *)
Definition cgap_of (g : gap) : cgap :=
  match g_max g with Some m => GBounded (g_min g) m | None => GUnbounded (g_min g) end.

Definition no_flags : spflags := mkF false false false false.

Definition pieces_of_chain (greedy : bool) (c : re * list (gap * re)) : list cpiece :=
  let n := length (snd c) in
  mkCP true [] no_flags false greedy None ::
  map (fun igp => mkCP true [] no_flags (Nat.eqb (S (fst igp)) n) greedy (Some (fst igp, cgap_of (fst (snd igp)))))
      (combine (seq 0 n) (snd c)).

Definition chain_res (c : re * list (gap * re)) : list re := fst c :: map snd (snd c).

(* a chained pattern end to end, with the abstract piece matcher; w: the wide form
   (the pieces are widened, the gaps stay what they are: byte distances) *)
Definition scan_chain_abs (nc greedy w : bool) (c : re * list (gap * re)) (d : bytes) : match_list :=
  run_chain (pieces_of_chain greedy c) (one_end_events nc greedy (map (vre w) (chain_res c)) d).

(* the same bookkeeping fed with every end of every piece *)
Definition scan_chain_all_ends (nc greedy w : bool) (c : re * list (gap * re)) (d : bytes) : match_list :=
  run_chain (pieces_of_chain greedy c) (all_end_events nc (map (vre w) (chain_res c)) d).
