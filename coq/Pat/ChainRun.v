(* Architecture level (A): chained sub-patterns at run time, following
   lib/src/scanner/context.rs

     handle_sub_pattern_match   head piece: remember the match (unconfirmed);
                                tail piece: within_valid_distance of some match
                                of the previous piece?  then remember it, or --
                                for the last piece -- verify_chain_of_matches
     within_valid_distance      bounded gap: prev.end+min <= start <= prev.end+max;
                                unbounded gap: prev.START+min <= start (sic)
     verify_chain_of_matches    breadth-first walk from the tail match back to
                                the head through the unconfirmed matches, pruned
                                by chain_length; every head reached gives
                                track_match(head.start .. tail.end, greedy);
                                for a greedy pattern the chain_length of every
                                piece before the tail is reset afterwards
     track_match                PatternMatches::add(.., replace_if_longer = greedy)

   The pieces are literals (LiteralChainHead / LiteralChainTail: hex patterns
   with jumps over the chaining threshold, regexps like /abc.*def.*ghi/s), so a
   piece match is decided by Pipeline.verify_literal.  Sub-patterns and atoms are
   the REAL ones (hook Rules::verif_c01_dump) in K stream (e).
   Definitions only. *)
From Coq Require Import List NArith Bool Arith.
From YV Require Import Pat.Syntax Pat.Sem Pat.Modifiers Pat.MatchList Pat.Atoms Pat.Pipeline.
Import ListNotations.

Inductive cgap := GBounded (mn mx : nat) | GUnbounded (mn : nat).

(* a chain piece: SubPattern::LiteralChainHead (link = None) or LiteralChainTail *)
Record cpiece := mkCP {
  cp_lit : bytes;
  cp_flags : spflags;
  cp_last : bool;                       (* SubPatternFlags::LastInChain *)
  cp_greedy : bool;                     (* SubPatternFlags::GreedyRegexp *)
  cp_link : option (nat * cgap) }.      (* chained_to, gap *)

(* UnconfirmedMatch { range, chain_length } *)
Record um := mkUM { um_s : nat; um_e : nat; um_cl : nat }.

(* tracker.unconfirmed_matches : sub-pattern id -> Vec<UnconfirmedMatch> (push order) *)
Definition ustate := list (nat * list um).

Fixpoint u_get (st : ustate) (id : nat) : option (list um) :=
  match st with
  | [] => None
  | (k, v) :: t => if Nat.eqb k id then Some v else u_get t id
  end.
Fixpoint u_set (st : ustate) (id : nat) (v : list um) : ustate :=
  match st with
  | [] => [(id, v)]
  | (k, w) :: t => if Nat.eqb k id then (k, v) :: t else (k, w) :: u_set t id v
  end.
(* entry(id).or_default().push(m) *)
Definition u_push (st : ustate) (id : nat) (m : um) : ustate :=
  u_set st id (match u_get st id with Some v => v ++ [m] | None => [m] end).

Definition in_gap (g : cgap) (prev_end start : nat) : bool :=
  match g with
  | GBounded mn mx => Nat.leb (prev_end + mn) start && Nat.leb start (prev_end + mx)
  | GUnbounded mn => Nat.leb (prev_end + mn) start
  end.

(* within_valid_distance: note that the unbounded case measures from the START
   of the previous match (a weaker pre-filter than the check made later) *)
Definition within_valid_distance (st : ustate) (chained_to : nat) (start : nat) (g : cgap) : bool :=
  match u_get st chained_to with
  | None => false
  | Some v => existsb (fun m => match g with
                                | GBounded mn mx => Nat.leb (um_e m + mn) start && Nat.leb start (um_e m + mx)
                                | GUnbounded mn => Nat.leb (um_s m + mn) start
                                end) v
  end.

(* the `for m in unconfirmed_matches` loop of verify_chain_of_matches: updates
   chain lengths in place and returns the clones pushed to the queue *)
Fixpoint chain_scan (g : cgap) (cur : um) (v : list um) : list um * list um :=
  match v with
  | [] => ([], [])
  | m :: t =>
      let '(v', q) := chain_scan g cur t in
      if in_gap g (um_e m) (um_s cur) && Nat.leb (um_cl m) (um_cl cur)
      then let m' := mkUM (um_s m) (um_e m) (S (um_cl cur)) in (m' :: v', m' :: q)
      else (m :: v', q)
  end.

(* the reset walk: from the piece before the tail back to the head *)
Fixpoint reset_chain (fuel : nat) (pieces : list cpiece) (st : ustate) (id : option nat) : ustate :=
  match fuel, id with
  | S f, Some i =>
      let st' := match u_get st i with
                 | Some v => u_set st i (map (fun m => mkUM (um_s m) (um_e m) 0) v)
                 | None => st
                 end in
      reset_chain f pieces st' (match nth_error pieces i with
                                | Some p => match cp_link p with Some (to, _) => Some to | None => None end
                                | None => None
                                end)
  | _, _ => st
  end.

(* the queue loop.  tail_e: the end of the tail match; tct: tail_chained_to *)
Fixpoint chain_loop (fuel : nat) (pieces : list cpiece) (tail_e : nat) (queue : list (nat * um))
                    (tct : option nat) (st : ustate) (ml : match_list) : ustate * match_list :=
  match fuel, queue with
  | S f, (id, cur) :: q =>
      match nth_error pieces id with
      | None => (st, ml)                                   (* unreachable!() *)
      | Some p =>
          match cp_link p with
          | None =>
              (* a head: the chain is confirmed *)
              let ml' := fst (ml_add ml (mkM (N.of_nat (um_s cur)) (N.of_nat tail_e) None) (cp_greedy p)) in
              chain_loop f pieces tail_e q tct (reset_chain (S (length pieces)) pieces st tct) ml'
          | Some (to, g) =>
              match u_get st to with
              | None => chain_loop f pieces tail_e q tct st ml          (* `continue` *)
              | Some v =>
                  let '(v', pushed) := chain_scan g cur v in
                  let tct' := if cp_last p && cp_greedy p then Some to else tct in
                  chain_loop f pieces tail_e (q ++ map (fun m => (to, m)) pushed) tct' (u_set st to v') ml
              end
          end
      end
  | _, _ => (st, ml)
  end.

Definition total_unconfirmed (st : ustate) : nat := fold_right (fun kv n => length (snd kv) + n) 0 st.

(* every unconfirmed match is pushed at most once per chain level, so this many
   iterations are enough for the queue to drain *)
Definition chain_fuel (pieces : list cpiece) (st : ustate) : nat :=
  S (S (total_unconfirmed st) * S (length pieces)).

Definition verify_chain_of_matches (pieces : list cpiece) (st : ustate) (ml : match_list)
                                   (tail_id : nat) (ts te : nat) : ustate * match_list :=
  chain_loop (chain_fuel pieces st) pieces te [(tail_id, mkUM ts te 1)] None st ml.

(* handle_sub_pattern_match for a chain piece that matched at s..e *)
Definition handle_piece_match (pieces : list cpiece) (id : nat) (s e : nat)
                              (sm : ustate * match_list) : ustate * match_list :=
  let '(st, ml) := sm in
  match nth_error pieces id with
  | None => sm
  | Some p =>
      match cp_link p with
      | None => (u_push st id (mkUM s e 0), ml)
      | Some (to, g) =>
          if within_valid_distance st to s g then
            if cp_last p then verify_chain_of_matches pieces st ml id s e
            else (u_push st id (mkUM s e 0), ml)
          else sm
      end
  end.

(* handle_atom_match for an atom of a chain piece found at match_start *)
Definition handle_chain_hit (pieces : list cpiece) (atoms : list atom) (d : bytes) (h : hit)
                            (sm : ustate * match_list) : ustate * match_list :=
  match nth_error atoms (fst h) with
  | None => sm
  | Some a =>
      match nth_error pieces (a_sp a) with
      | None => sm
      | Some p =>
          if Nat.ltb (snd h) (a_bt a) then sm else
          let pos := (snd h - a_bt a)%nat in
          if a_exact a then
            let e := (pos + length (a_bytes a))%nat in
            if verify_full_word (cp_flags p) 0 d pos e then handle_piece_match pieces (a_sp a) pos e sm else sm
          else
            if verify_literal (cp_lit p) d pos (cp_flags p)
            then handle_piece_match pieces (a_sp a) pos (pos + length (cp_lit p))%nat sm else sm
      end
  end.

(* the matches of a chained pattern, the hits being processed in the given order *)
Definition scan_chain (pieces : list cpiece) (atoms : list atom) (hits : list hit) (d : bytes) : match_list :=
  snd (fold_left (fun sm h => handle_chain_hit pieces atoms d h sm) hits ([], [])).

(* ---- what a confirmed chain is (for ChainRunProofs) ----------------------- *)
(* piece id matches d at s..e *)
Definition piece_match (pieces : list cpiece) (d : bytes) (id s e : nat) : bool :=
  match nth_error pieces id with
  | Some p => Nat.eqb e (s + length (cp_lit p)) && verify_literal (cp_lit p) d s (cp_flags p)
  | None => false
  end.

(* a path of piece matches from piece id at s..e up to the end of the chain,
   every gap respected: the matches (id, s, e), (next, ...), ..., tail *)
Fixpoint chain_path (pieces : list cpiece) (d : bytes) (path : list (nat * nat * nat)) : bool :=
  match path with
  | [] => false
  | [(id, s, e)] => piece_match pieces d id s e &&
                    match nth_error pieces id with Some p => cp_last p | None => false end
  | (id, s, e) :: (((id', s', e') :: _) as rest) =>
      piece_match pieces d id s e &&
      match nth_error pieces id' with
      | Some p' => match cp_link p' with
                   | Some (to, g) => Nat.eqb to id && in_gap g e s'
                   | None => false
                   end
      | None => false
      end && chain_path pieces d rest
  end.
