(* Chains at run time (Pat/ChainRun.v) against the specification.

   run_chain_sound     whatever the pieces, the events and their order: every
                       match the bookkeeping reports is a chain of piece matches,
                       head first, every gap within its bounds, ending with a
                       match of the last piece
   chain_sound         for the pieces Chain.split_at_large_gaps makes of a
                       pattern (ascii form): every reported match is a match of
                       the joined chain, hence (ChainProofs.split_preserves_language)
                       of the pattern itself
   literal_events_sound / literal_events_complete
                       the events Pipeline.handle_atom_match derives from the atom
                       hits for a LITERAL piece are exactly the occurrences of the
                       piece (under atoms_ok and hits_exact, both checked on the
                       real atoms and hits in K stream (e))
   refutations         (vm_compute witnesses on the faithful model)
     chain_wide_gap_refuted            the wide form: the gap is a byte distance
     chain_complete_one_end_refuted    one end per (piece, start) + a bounded gap
                                       measured from that end: occurrences missed *)
From Coq Require Import List NArith Bool Arith Lia.
From YV Require Import Gen.PatConsts Pat.Syntax Pat.Sem Pat.Matcher Pat.MatcherProofs Pat.Modifiers
                       Pat.MatchList Pat.MatchListProofs Pat.Atoms Pat.Pipeline Pat.PipelineProofs
                       Pat.Chain Pat.ChainProofs Pat.ChainRun.
Import ListNotations.

(* ---- the state ------------------------------------------------------------ *)
Lemma u_get_set : forall st id v id',
  u_get (u_set st id v) id' = if Nat.eqb id id' then Some v else u_get st id'.
Proof.
  induction st as [|[k w] t IH]; intros id v id'; cbn [u_set u_get].
  - destruct (Nat.eqb id id') eqn:E; [reflexivity|]. reflexivity.
  - destruct (Nat.eqb k id) eqn:E1; cbn [u_get].
    + apply Nat.eqb_eq in E1. subst k. destruct (Nat.eqb id id') eqn:E2; reflexivity.
    + rewrite IH. destruct (Nat.eqb k id') eqn:E2; [|reflexivity].
      apply Nat.eqb_eq in E2. subst k. rewrite Nat.eqb_sym, E1. reflexivity.
Qed.

Definition same_se (a b : um) : Prop := um_s a = um_s b /\ um_e a = um_e b.

Lemma chain_scan_spec : forall g cur v v' q, chain_scan g cur v = (v', q) ->
  Forall2 same_se v v' /\
  (forall m, In m q -> exists m0, In m0 v /\ same_se m0 m /\ in_gap g (um_e m0) (um_s cur) = true).
Proof.
  induction v as [|m t IH]; intros v' q H; cbn [chain_scan] in H.
  - inversion H; subst. split; [constructor|]. intros m [].
  - destruct (chain_scan g cur t) as [v1 q1] eqn:E. specialize (IH _ _ eq_refl). destruct IH as [IH1 IH2].
    destruct (in_gap g (um_e m) (um_s cur) && Nat.leb (um_cl m) (um_cl cur)) eqn:C; inversion H; subst.
    + apply andb_true_iff in C. destruct C as [C _]. split.
      * constructor; [split; reflexivity|exact IH1].
      * intros x [<-|Hx].
        -- exists m. split; [left; reflexivity|]. split; [split; reflexivity|exact C].
        -- destruct (IH2 _ Hx) as [m0 [Hi Hr]]. exists m0. split; [right; exact Hi|exact Hr].
    + split.
      * constructor; [split; reflexivity|exact IH1].
      * intros x Hx. destruct (IH2 _ Hx) as [m0 [Hi Hr]]. exists m0. split; [right; exact Hi|exact Hr].
Qed.

Lemma Forall2_same_se_In : forall v v' m', Forall2 same_se v v' -> In m' v' -> exists m, In m v /\ same_se m m'.
Proof.
  intros v v' m' H. induction H as [|a b v v' Hab H IH]; intros Hin; [destruct Hin|].
  destruct Hin as [<-|Hin].
  - exists a. split; [left; reflexivity|exact Hab].
  - destruct (IH Hin) as [m [Hm Hs]]. exists m. split; [right; exact Hm|exact Hs].
Qed.

(* ---- soundness of the bookkeeping ----------------------------------------- *)
Section Sound.
  Variable pieces : list cpiece.
  Variable PM : nat -> nat -> nat -> Prop.       (* piece id matches at s..e *)

  (* from the match s..e of piece id a chain of piece matches leads to a match of
     the last piece that ends at te, every gap within its bounds *)
  Inductive reaches : nat -> nat -> nat -> nat -> Prop :=
  | reach_last : forall id s e p,
      PM id s e -> nth_error pieces id = Some p -> cp_last p = true -> reaches id s e e
  | reach_step : forall id s e te id' s' e' p' g,
      PM id s e -> nth_error pieces id' = Some p' -> cp_link p' = Some (id, g) ->
      in_gap g e s' = true -> reaches id' s' e' te -> reaches id s e te.

  Definition confirmed (y : mtch) : Prop :=
    exists id p s e te, nth_error pieces id = Some p /\ cp_link p = None /\ reaches id s e te /\
                        m_start y = N.of_nat s /\ m_end y = N.of_nat te.

  Definition st_ok (st : ustate) : Prop :=
    forall id v m, u_get st id = Some v -> In m v -> PM id (um_s m) (um_e m).
  Definition ml_ok (ml : match_list) : Prop := sorted ml /\ forall y, In y ml -> confirmed y.

  Lemma st_ok_set : forall st id v, st_ok st -> (forall m, In m v -> PM id (um_s m) (um_e m)) -> st_ok (u_set st id v).
  Proof.
    intros st id v Hst Hv id' v' m Hg Hin. rewrite u_get_set in Hg.
    destruct (Nat.eqb id id') eqn:E.
    - apply Nat.eqb_eq in E. subst id'. inversion Hg; subst. apply Hv. exact Hin.
    - eapply Hst; eassumption.
  Qed.

  Lemma st_ok_push : forall st id m, st_ok st -> PM id (um_s m) (um_e m) -> st_ok (u_push st id m).
  Proof.
    intros st id m Hst Hm. unfold u_push. apply st_ok_set; [exact Hst|].
    intros x Hx. destruct (u_get st id) as [v|] eqn:E.
    - apply in_app_iff in Hx. destruct Hx as [Hx|[<-|[]]]; [eapply Hst; eassumption|exact Hm].
    - destruct Hx as [<-|[]]. exact Hm.
  Qed.

  Lemma reset_chain_ok : forall fuel st id, st_ok st -> st_ok (reset_chain fuel pieces st id).
  Proof.
    induction fuel as [|f IH]; intros st id Hst; cbn [reset_chain]; [exact Hst|].
    destruct id as [i|]; [|exact Hst]. apply IH.
    destruct (u_get st i) as [v|] eqn:E; [|exact Hst].
    apply st_ok_set; [exact Hst|]. intros m Hm. apply in_map_iff in Hm. destruct Hm as [m0 [<- Hm0]].
    cbn [um_s um_e]. eapply Hst; eassumption.
  Qed.

  Lemma ml_ok_add : forall ml s te r id p e,
    ml_ok ml -> nth_error pieces id = Some p -> cp_link p = None -> reaches id s e te ->
    ml_ok (fst (ml_add ml (mkM (N.of_nat s) (N.of_nat te) None) r)).
  Proof.
    intros ml s te r id p e [Hs Hc] Hn Hl Hr. split; [apply add_sorted; exact Hs|].
    intros y Hy. destruct (add_result_end _ _ _ _ Hs Hy) as [[H1 H2]|[x [Hx [H1 H2]]]].
    - exists id, p, s, e, te. cbn [m_start m_end] in H1, H2. auto.
    - destruct (Hc _ Hx) as [id0 [p0 [s0 [e0 [te0 [A [B [C [D E]]]]]]]]].
      exists id0, p0, s0, e0, te0. repeat split; try assumption; congruence.
  Qed.

  Lemma chain_loop_ok : forall fuel tail_e queue tct st ml,
    st_ok st -> ml_ok ml ->
    (forall id cur, In (id, cur) queue -> reaches id (um_s cur) (um_e cur) tail_e) ->
    st_ok (fst (chain_loop fuel pieces tail_e queue tct st ml)) /\
    ml_ok (snd (chain_loop fuel pieces tail_e queue tct st ml)).
  Proof.
    induction fuel as [|f IH]; intros tail_e queue tct st ml Hst Hml Hq; cbn [chain_loop]; [split; assumption|].
    destruct queue as [|[id cur] q]; [split; assumption|].
    assert (Hcur : reaches id (um_s cur) (um_e cur) tail_e) by (apply Hq; left; reflexivity).
    assert (Hq' : forall id0 cur0, In (id0, cur0) q -> reaches id0 (um_s cur0) (um_e cur0) tail_e)
      by (intros; apply Hq; right; assumption).
    destruct (nth_error pieces id) as [p|] eqn:En; [|split; assumption].
    destruct (cp_link p) as [[to g]|] eqn:El.
    - destruct (u_get st to) as [v|] eqn:Eg; [|apply IH; assumption].
      destruct (chain_scan g cur v) as [v' pushed] eqn:Ec.
      destruct (chain_scan_spec _ _ _ _ _ Ec) as [Hf Hp].
      apply IH.
      + apply st_ok_set; [exact Hst|]. intros m Hm.
        destruct (Forall2_same_se_In _ _ _ Hf Hm) as [m0 [Hm0 [S1 S2]]]. rewrite <- S1, <- S2. eapply Hst; eassumption.
      + exact Hml.
      + intros id0 cur0 Hin. apply in_app_iff in Hin. destruct Hin as [Hin|Hin]; [apply Hq'; exact Hin|].
        apply in_map_iff in Hin. destruct Hin as [m [E Hm]]. inversion E; subst id0 cur0.
        destruct (Hp _ Hm) as [m0 [Hm0 [[S1 S2] Hg]]]. rewrite <- S1, <- S2.
        eapply reach_step; [eapply Hst; eassumption|exact En|exact El|exact Hg|exact Hcur].
    - apply IH.
      + apply reset_chain_ok. exact Hst.
      + eapply ml_ok_add; eassumption.
      + exact Hq'.
  Qed.

  Lemma handle_piece_match_ok : forall id s e st ml,
    st_ok st -> ml_ok ml -> PM id s e ->
    st_ok (fst (handle_piece_match pieces id s e (st, ml))) /\
    ml_ok (snd (handle_piece_match pieces id s e (st, ml))).
  Proof.
    intros id s e st ml Hst Hml Hpm. unfold handle_piece_match.
    destruct (nth_error pieces id) as [p|] eqn:En; [|split; assumption].
    destruct (cp_link p) as [[to g]|] eqn:El.
    - destruct (within_valid_distance st to s g); [|split; assumption].
      destruct (cp_last p) eqn:Ela.
      + unfold verify_chain_of_matches. apply chain_loop_ok; [exact Hst|exact Hml|].
        intros id0 cur0 [E|[]]. inversion E; subst. cbn [um_s um_e]. eapply reach_last; eassumption.
      + cbn [fst snd]. split; [|exact Hml]. apply st_ok_push; [exact Hst|exact Hpm].
    - cbn [fst snd]. split; [|exact Hml]. apply st_ok_push; [exact Hst|exact Hpm].
  Qed.

  Lemma run_chain_state_ok : forall evs st ml,
    st_ok st -> ml_ok ml -> (forall id s e, In (id, s, e) evs -> PM id s e) ->
    let r := fold_left (fun sm ev => let '(id, s, e) := ev in handle_piece_match pieces id s e sm) evs (st, ml) in
    st_ok (fst r) /\ ml_ok (snd r).
  Proof.
    induction evs as [|[[id s] e] t IH]; intros st ml Hst Hml Hev; cbn [fold_left]; [split; assumption|].
    destruct (handle_piece_match_ok id s e st ml Hst Hml) as [H1 H2]; [apply Hev; left; reflexivity|].
    destruct (handle_piece_match pieces id s e (st, ml)) as [st1 ml1]. cbn [fst snd] in H1, H2.
    apply IH; [exact H1|exact H2|]. intros; apply Hev; right; assumption.
  Qed.

  (* whatever the events and their order: only chains of piece matches are reported *)
  Theorem run_chain_sound : forall evs y,
    (forall id s e, In (id, s, e) evs -> PM id s e) -> In y (run_chain pieces evs) -> confirmed y.
  Proof.
    intros evs y Hev Hy. unfold run_chain, run_chain_state in Hy.
    destruct (run_chain_state_ok evs [] [] ) as [_ [_ H]].
    - intros id v m Hg. discriminate.
    - split; [apply sorted_nil|]. intros ? [].
    - exact Hev.
    - apply H. exact Hy.
  Qed.

End Sound.

(* the reported list is strictly ascending with unique starts, whatever the events *)
Theorem run_chain_sorted : forall pieces evs, sorted (run_chain pieces evs).
Proof.
  intros pieces evs. unfold run_chain, run_chain_state.
  destruct (run_chain_state_ok pieces (fun _ _ _ => True) evs [] []) as [_ [H _]].
  - intros id v m Hg. discriminate.
  - split; [apply sorted_nil|]. intros ? [].
  - intros; exact I.
  - exact H.
Qed.

(* ---- the pieces of a split pattern ---------------------------------------- *)
Lemma nth_error_combine_seq : forall (A : Type) (l : list A) start i,
  nth_error (combine (seq start (length l)) l) i = option_map (fun x => (start + i, x)) (nth_error l i).
Proof.
  induction l as [|a l IH]; intros start i; cbn [length seq combine].
  - destruct i; reflexivity.
  - destruct i as [|i]; cbn [nth_error option_map].
    + rewrite Nat.add_0_r. reflexivity.
    + rewrite IH. replace (S start + i) with (start + S i) by lia. reflexivity.
Qed.

Lemma pieces_of_chain_head : forall greedy c,
  nth_error (pieces_of_chain greedy c) 0 = Some (mkCP true [] no_flags false greedy None).
Proof. reflexivity. Qed.

Lemma pieces_of_chain_tail : forall greedy c i,
  nth_error (pieces_of_chain greedy c) (S i) =
  option_map (fun gp => mkCP true [] no_flags (Nat.eqb (S i) (length (snd c))) greedy (Some (i, cgap_of (fst gp))))
             (nth_error (snd c) i).
Proof.
  intros greedy c i. unfold pieces_of_chain. cbn [nth_error].
  rewrite nth_error_map, nth_error_combine_seq. destruct (nth_error (snd c) i); reflexivity.
Qed.

(* pieces in the shape Chain.split_at_large_gaps gives a chain: piece 0 is the head,
   piece i+1 is chained to piece i with the gap in front of it, LastInChain (if
   anywhere) on the last piece *)
Definition chain_shape (pieces : list cpiece) (c : re * list (gap * re)) : Prop :=
  length pieces = S (length (snd c)) /\
  forall id p, nth_error pieces id = Some p ->
    cp_link p = match id with
                | O => None
                | S i => option_map (fun gp => (i, cgap_of (fst gp))) (nth_error (snd c) i)
                end /\
    (cp_last p = true -> id = length (snd c)).

Lemma pieces_of_chain_shape : forall greedy c, chain_shape (pieces_of_chain greedy c) c.
Proof.
  intros greedy c. split.
  - unfold pieces_of_chain. cbn [length]. rewrite map_length, combine_length, seq_length, Nat.min_id. reflexivity.
  - intros id p Hn. destruct id as [|i].
    + rewrite pieces_of_chain_head in Hn. inversion Hn; subst p. split; [reflexivity|discriminate].
    + rewrite pieces_of_chain_tail in Hn.
      destruct (nth_error (snd c) i) as [gp|]; cbn [option_map] in Hn; [|discriminate]. inversion Hn; subst p.
      split; [reflexivity|]. intro Hl.
      assert (Hl' : Nat.eqb (S i) (length (snd c)) = true) by exact Hl. apply Nat.eqb_eq in Hl'. exact Hl'.
Qed.

Section Lang.
  Variable nc : bool.
  Variable d : bytes.
  Definition PMre (rs : list re) (id s e : nat) : Prop := exists r, nth_error rs id = Some r /\ M nc d r s e.

  Lemma M_any_iter : forall k e, e + k <= length d -> Iter (M nc d (RCls CAny)) k e (e + k).
  Proof.
    induction k as [|k IH]; intros e H.
    - rewrite Nat.add_0_r. constructor.
    - destruct (nth_error d e) as [b|] eqn:E; [|apply nth_error_None in E; lia].
      apply IterS with (m := S e).
      + econstructor; [exact E|]. reflexivity.
      + replace (e + S k) with (S e + k) by lia. apply IH. lia.
  Qed.

  Lemma M_jump : forall g e s', in_gap (cgap_of g) e s' = true -> s' <= length d -> M nc d (jump_of g) e s'.
  Proof.
    intros [mn mx gr] e s' H Hb. unfold cgap_of in H. cbn [g_min g_max] in H. unfold jump_of. cbn [g_min g_max g_greedy].
    assert (Hle : e + mn <= s' /\ le_opt (s' - e) mx).
    { destruct mx as [m|]; cbn [in_gap] in H.
      - apply andb_true_iff in H. destruct H as [H1 H2]. apply Nat.leb_le in H1, H2. cbn [le_opt]. lia.
      - apply Nat.leb_le in H. cbn [le_opt]. auto. }
    destruct Hle as [H1 H2].
    apply MRep with (k := s' - e); [lia|lia|exact H2|].
    replace s' with (e + (s' - e)) at 2 by lia. apply M_any_iter. lia.
  Qed.

  Variable c : re * list (gap * re).
  Variable pieces : list cpiece.
  Hypothesis Hshape : chain_shape pieces c.
  Let rs := chain_res c.

  Definition chain_suffix (r : re) (k : nat) : re :=
    rcat (r :: flat_map (fun gp => [jump_of (fst gp); snd gp]) (skipn k (snd c))).

  Lemma skipn_nth : forall (A : Type) (l : list A) k x, nth_error l k = Some x -> skipn k l = x :: skipn (S k) l.
  Proof.
    induction l as [|a l IH]; intros k x H; destruct k; cbn [nth_error] in H; try discriminate.
    - inversion H. reflexivity.
    - cbn [skipn]. apply IH. exact H.
  Qed.

  Lemma reaches_join : forall k s e te, reaches pieces (PMre rs) k s e te ->
    forall r, nth_error rs k = Some r -> M nc d (chain_suffix r k) s te.
  Proof.
    destruct Hshape as [Hlen Hsh].
    intros k s e te H. induction H as [id s e p Hpm Hn Hl|id s e te id' s' e' p' g Hpm Hn Hl Hg Hr IH]; intros r Hr0.
    - (* the last piece *)
      destruct Hpm as [r0 [Hr1 Hm]]. rewrite Hr0 in Hr1. inversion Hr1; subst r0.
      destruct (Hsh _ _ Hn) as [_ Hlast]. specialize (Hlast Hl).
      unfold chain_suffix. rewrite Hlast, skipn_all. cbn [flat_map rcat]. exact Hm.
    - (* one link *)
      destruct Hpm as [r0 [Hr1 Hm]]. rewrite Hr0 in Hr1. inversion Hr1; subst r0.
      destruct (Hsh _ _ Hn) as [Hlink _]. rewrite Hl in Hlink.
      destruct id' as [|i]; [discriminate|].
      destruct (nth_error (snd c) i) as [[gi ri]|] eqn:Et; cbn [option_map] in Hlink; [|discriminate].
      cbn [fst] in Hlink. inversion Hlink; subst i g.
      assert (Hri : nth_error rs (S id) = Some ri).
      { unfold rs, chain_res. cbn [nth_error]. rewrite nth_error_map, Et. reflexivity. }
      specialize (IH ri Hri).
      unfold chain_suffix. rewrite (skipn_nth _ _ _ _ Et). cbn [flat_map fst snd app].
      apply M_rcat_cons. exists e. split; [exact Hm|].
      apply M_rcat_cons. exists s'. split; [|exact IH].
      apply M_jump; [exact Hg|]. apply M_bounds in IH. lia.
  Qed.

  (* every match the bookkeeping reports for the pieces of a chain, fed with genuine
     piece matches, is a match of the joined chain *)
  Theorem chain_sound : forall evs y,
    (forall id s e, In (id, s, e) evs -> PMre rs id s e) ->
    In y (run_chain pieces evs) ->
    exists s te, m_start y = N.of_nat s /\ m_end y = N.of_nat te /\ M nc d (join_chain c) s te.
  Proof.
    intros evs y Hev Hy. destruct (run_chain_sound pieces (PMre rs) evs y Hev Hy) as [id [p [s [e [te [Hn [Hl [Hr [Hs He]]]]]]]]].
    exists s, te. split; [exact Hs|]. split; [exact He|].
    destruct Hshape as [Hlen Hsh]. destruct (Hsh _ _ Hn) as [Hlink _]. rewrite Hl in Hlink.
    destruct id as [|i].
    - assert (Hh : nth_error rs 0 = Some (fst c)) by reflexivity.
      pose proof (reaches_join _ _ _ _ Hr _ Hh) as Hm. unfold chain_suffix in Hm. cbn [skipn] in Hm. exact Hm.
    - assert (Hi : S i < length pieces) by (apply nth_error_Some; congruence).
      destruct (nth_error (snd c) i) eqn:Et; cbn [option_map] in Hlink; [discriminate|].
      apply nth_error_None in Et. lia.
  Qed.
End Lang.

(* ---- the abstract piece matchers yield genuine piece matches ---------------- *)
Lemma list_min_In : forall l m, list_min l = Some m -> In m l.
Proof.
  induction l as [|x t IH]; intros m H; cbn [list_min] in H; [discriminate|].
  destruct (list_min t) as [m0|] eqn:E.
  - inversion H. destruct (Nat.min_spec x m0) as [[_ ->]|[_ ->]]; [left; reflexivity|right; apply IH; reflexivity].
  - inversion H. left. reflexivity.
Qed.
Lemma list_max_In : forall l m, list_max l = Some m -> In m l.
Proof.
  induction l as [|x t IH]; intros m H; cbn [list_max] in H; [discriminate|].
  destruct (list_max t) as [m0|] eqn:E.
  - inversion H. destruct (Nat.max_spec x m0) as [[_ ->]|[_ ->]]; [right; apply IH; reflexivity|left; reflexivity].
  - inversion H. left. reflexivity.
Qed.

Lemma by_end_In : forall n evs ev, In ev (by_end n evs) -> In ev evs.
Proof.
  intros n evs ev H. unfold by_end in H. apply in_flat_map in H. destruct H as [e [_ H]].
  apply filter_In in H. apply H.
Qed.

Lemma one_end_events_sound : forall nc greedy rs d id s e,
  In (id, s, e) (one_end_events nc greedy rs d) -> PMre nc d rs id s e.
Proof.
  intros nc greedy rs d id s e H. unfold one_end_events in H. apply by_end_In in H.
  apply in_flat_map in H. destruct H as [id0 [_ H]].
  destruct (nth_error rs id0) as [r|] eqn:Er; [|destruct H].
  apply in_flat_map in H. destruct H as [s0 [_ H]].
  destruct (chosen_end nc greedy r d s0) as [e'|] eqn:Ec; [|destruct H].
  destruct H as [H|[]]. inversion H; subst id0 s0 e'.
  exists r. split; [exact Er|]. apply ends_spec.
  unfold chosen_end in Ec. destruct greedy; [apply list_max_In|apply list_min_In]; exact Ec.
Qed.

Lemma all_end_events_sound : forall nc rs d id s e,
  In (id, s, e) (all_end_events nc rs d) -> PMre nc d rs id s e.
Proof.
  intros nc rs d id s e H. unfold all_end_events in H. apply by_end_In in H.
  apply in_flat_map in H. destruct H as [id0 [_ H]].
  destruct (nth_error rs id0) as [r|] eqn:Er; [|destruct H].
  apply in_flat_map in H. destruct H as [s0 [_ H]].
  apply in_map_iff in H. destruct H as [e0 [H He]]. inversion H; subst id0 s0 e0.
  exists r. split; [exact Er|]. apply ends_spec. exact He.
Qed.

(* end to end, ascii form: what the chain model reports for a split pattern is a
   match of the pattern *)
Theorem scan_chain_abs_sound : forall nc greedy items d y,
  In y (scan_chain_abs nc greedy false (split_at_large_gaps items) d) ->
  exists s te, m_start y = N.of_nat s /\ m_end y = N.of_nat te /\ M nc d (rcat items) s te.
Proof.
  intros nc greedy items d y H. unfold scan_chain_abs in H.
  assert (Hm : map (vre false) (chain_res (split_at_large_gaps items)) = chain_res (split_at_large_gaps items))
    by (unfold vre; apply map_id).
  rewrite Hm in H.
  destruct (chain_sound nc d _ _ (pieces_of_chain_shape greedy _) _ y (fun id s e => one_end_events_sound nc greedy _ d id s e) H) as [s [te [Hs [He HM]]]].
  exists s, te. split; [exact Hs|]. split; [exact He|]. apply split_preserves_language. exact HM.
Qed.

Theorem chain_hex_sound : forall items d y,
  In y (scan_chain_abs false false false (split_at_large_gaps items) d) ->
  exists s len, m_start y = N.of_nat s /\ m_end y = N.of_nat (s + len) /\ genuine (PHex (rcat items)) d s len None.
Proof.
  intros items d y H. destruct (scan_chain_abs_sound _ _ _ _ _ H) as [s [te [Hs [He HM]]]].
  pose proof (M_bounds _ _ _ _ _ HM) as [Hle _].
  exists s, (te - s). replace (s + (te - s)) with te by lia. split; [exact Hs|]. split; [exact He|].
  cbn [genuine]. split; [reflexivity|]. replace (s + (te - s)) with te by lia. exact HM.
Qed.

(* ---- literal pieces: the events derived from the atom hits -------------------- *)
Section LiteralPieces.
  Variable pieces : list cpiece.
  Variable atoms : list atom.
  Variable d : bytes.
  Variable hits : list hit.
  Let atoms_of (id : nat) := filter (fun a => Nat.eqb (a_sp a) id) atoms.
  Hypothesis Hok : forall id p, nth_error pieces id = Some p -> cp_regexp p = false ->
                                atoms_ok (piece_sp p) (0%N, 0%N) (atoms_of id) = true.
  Hypothesis Hhits : hits_exact atoms d hits.

  Theorem hit_events_sound : forall id s e, In (id, s, e) (hit_events pieces atoms hits d) ->
    exists p k, nth_error pieces id = Some p /\ cp_regexp p = false /\
                sp_match (piece_sp p) (0%N, 0%N) d s = Some (e, k).
  Proof.
    intros id s e H. unfold hit_events in H. apply in_flat_map in H. destruct H as [[i pos] [Hin H]].
    unfold hit_event in H. cbn [fst snd] in H.
    destruct (nth_error atoms i) as [a|] eqn:Ea; [|destruct H].
    destruct (nth_error pieces (a_sp a)) as [p|] eqn:Ep; [|destruct H].
    destruct (cp_regexp p) eqn:Er; [destruct H|].
    destruct (handle_atom_match (piece_sp p) a pos d) as [[[s0 e0] k]|] eqn:Eh; [|destruct H].
    destruct H as [H|[]]. inversion H; subst id s0 e0.
    exists p, k. split; [exact Ep|]. split; [exact Er|].
    apply Hhits in Hin. destruct Hin as [a' [Ea' At]]. rewrite Ea in Ea'. inversion Ea'; subst a'.
    pose proof (handle_sound_literal (cp_lit p) (cp_flags p) (0%N, 0%N) (atoms_of (a_sp a)) d (Hok _ _ Ep Er)) as Hs.
    apply (Hs a pos s e k); [|exact At|exact Eh].
    unfold atoms_of. apply filter_In. split; [eapply nth_error_In; exact Ea|apply Nat.eqb_refl].
  Qed.

  Theorem hit_events_complete : forall id p s e k,
    nth_error pieces id = Some p -> cp_regexp p = false ->
    sp_match (piece_sp p) (0%N, 0%N) d s = Some (e, k) -> In (id, s, e) (hit_events pieces atoms hits d).
  Proof.
    intros id p s e k Ep Er Hm.
    pose proof (handle_complete_literal (cp_lit p) (cp_flags p) (0%N, 0%N) (atoms_of id) d (Hok _ _ Ep Er)) as Hc.
    destruct (Hc s e k Hm) as [a [pos [Ia [At Hh]]]].
    unfold atoms_of in Ia. apply filter_In in Ia. destruct Ia as [Ia Hsp]. apply Nat.eqb_eq in Hsp.
    apply In_nth_error in Ia. destruct Ia as [i Ei].
    unfold hit_events. apply in_flat_map. exists (i, pos). split.
    - apply Hhits. exists a. split; [exact Ei|exact At].
    - unfold hit_event. cbn [fst snd]. rewrite Ei, Hsp, Ep, Er.
      change (handle_atom_match (piece_sp p) a pos d) with
             (handle_atom_match (mkSP (KLiteral (cp_lit p) None) (cp_flags p)) a pos d).
      rewrite Hh. left. reflexivity.
  Qed.
End LiteralPieces.

(* an occurrence of a literal sub-pattern without wide / fullword flags is a match of
   the literal as an expression *)
Lemma skipn_cons_S : forall (l : bytes) k y rest, skipn k l = y :: rest -> skipn (S k) l = rest.
Proof.
  induction l as [|a l IH]; intros k y rest H; destruct k; cbn [skipn] in *; try discriminate.
  - inversion H. reflexivity.
  - destruct l as [|b l']; [destruct k; discriminate|]. apply (IH k y rest). exact H.
Qed.

Lemma prefix_M : forall nc d lit i, i <= length d ->
  prefix_b (byte_eq nc 0) lit (skipn i d) = true -> M nc d (rlit lit) i (i + length lit).
Proof.
  intros nc d lit. induction lit as [|x t IH]; intros i Hi H.
  - cbn [length rlit map rcat]. rewrite Nat.add_0_r. constructor. exact Hi.
  - unfold rlit. cbn [map]. apply M_rcat_cons.
    destruct (skipn i d) as [|y rest] eqn:Es; cbn [prefix_b] in H; [discriminate|].
    apply andb_true_iff in H. destruct H as [Hb Ht].
    exists (S i). split.
    + econstructor; [eapply skipn_head; exact Es|].
      unfold byte_eq in Hb. rewrite N.lxor_0_r in Hb. cbn [cls_match]. exact Hb.
    + cbn [length]. replace (i + S (length t)) with (S i + length t) by lia.
      assert (Hn : nth_error d i = Some y) by (eapply skipn_head; exact Es).
      assert (i < length d) by (apply nth_error_Some; congruence).
      apply IH; [lia|]. rewrite (skipn_cons_S _ _ _ _ Es). exact Ht.
Qed.

Lemma sp_match_literal_M : forall lit nc d s e k,
  sp_match (mkSP (KLiteral lit None) (mkF false nc false false)) (0%N, 0%N) d s = Some (e, k) ->
  M nc d (rlit lit) s e.
Proof.
  intros lit nc d s e k H. apply sp_match_literal in H. cbn [f_nocase] in H.
  destruct H as [-> [_ [Hb [Hp _]]]]. apply prefix_M; [lia|exact Hp].
Qed.

(* a chain of LITERAL pieces (no wide, no fullword) with the real atoms and hits:
   every reported match is a match of the pattern the chain was made of *)
Theorem chain_literal_sound : forall nc items pieces atoms d hits y,
  let c := split_at_large_gaps items in
  chain_shape pieces c ->
  (forall id p, nth_error pieces id = Some p ->
     cp_regexp p = false /\ cp_flags p = mkF false nc false false /\
     exists r, nth_error (chain_res c) id = Some r /\ r = rlit (cp_lit p)) ->
  (forall id p, nth_error pieces id = Some p -> cp_regexp p = false ->
     atoms_ok (piece_sp p) (0%N, 0%N) (filter (fun a => Nat.eqb (a_sp a) id) atoms) = true) ->
  hits_exact atoms d hits ->
  In y (scan_chain pieces atoms hits d) ->
  exists s te, m_start y = N.of_nat s /\ m_end y = N.of_nat te /\ M nc d (rcat items) s te.
Proof.
  intros nc items pieces atoms d hits y c Hshape Hlit Hok Hhits Hy. unfold scan_chain in Hy.
  destruct (chain_sound nc d c pieces Hshape (hit_events pieces atoms hits d) y) as [s [te [Hs [He HM]]]]; [|exact Hy|].
  - intros id s e Hin.
    destruct (hit_events_sound pieces atoms d hits Hok Hhits id s e Hin) as [p [k [Ep [Er Hm]]]].
    destruct (Hlit _ _ Ep) as [_ [Hfl [r [Hr ->]]]].
    exists (rlit (cp_lit p)). split; [exact Hr|].
    unfold piece_sp in Hm. rewrite Hfl in Hm. eapply sp_match_literal_M. exact Hm.
  - exists s, te. split; [exact Hs|]. split; [exact He|]. apply split_preserves_language. exact HM.
Qed.

(* ---- completeness: the statement, and where the faithful model misses ---------- *)
(* every start of an occurrence of the chain is reported (one match per start:
   run_chain_sorted) *)
Definition chain_complete_starts (nc : bool) (c : re * list (gap * re)) (d : bytes) (reported : match_list) : Prop :=
  forall s e, M nc d (join_chain c) s e -> exists y, In y reported /\ m_start y = N.of_nat s.

(* ... with, for a lazy pattern, the end of the nearest last piece that closes a
   chain from that start, and for a greedy one the farthest *)
Definition chain_end_choice (nc greedy : bool) (c : re * list (gap * re)) (d : bytes) (reported : match_list) : Prop :=
  forall y s, In y reported -> m_start y = N.of_nat s ->
    exists e, m_end y = N.of_nat e /\ M nc d (join_chain c) s e /\
              forall e', M nc d (join_chain c) s e' -> if greedy then e' <= e else e <= e'.

(* One end per (piece, start) and a BOUNDED gap measured from that end: an occurrence
   whose first piece has to take its longer end is missed.
   { 2E [1-2] 42 [0-201] 0A 7F } on ".aBB" + 201 x 'x' + 0A 7F: 2E, jump 2, 42 at
   offset 3, gap 201, 0A 7F is an occurrence, the shorter end (offset 3) of the first
   piece is 202 bytes away from the second.  Replayed on the implementation: reports
   nothing (known finding C01:scan:chain-piece-variable-length-bounded-gap). *)
Definition missed_items : list re :=
  [RCls (CByte 46); RRep (RCls CAny) 1 (Some 2) false; RCls (CByte 66); RRep (RCls CAny) 0 (Some 201) false;
   RCls (CByte 10); RCls (CByte 127)].
Definition missed_data : bytes := [46; 97; 66; 66]%N ++ repeat 120%N 201 ++ [10; 127]%N.

Theorem chain_complete_one_end_refuted :
  exists items d, ~ chain_complete_starts false (split_at_large_gaps items) d
                      (scan_chain_abs false false false (split_at_large_gaps items) d).
Proof.
  exists missed_items, missed_data. intro H.
  assert (E : scan_chain_abs false false false (split_at_large_gaps missed_items) missed_data = [])
    by (vm_compute; reflexivity).
  assert (Em : memb 207 (ends false missed_data (join_chain (split_at_large_gaps missed_items)) 0) = true)
    by (vm_compute; reflexivity).
  destruct (H 0 207) as [y [Hy _]].
  - apply ends_spec. exact (proj1 (memb_In _ _) Em).
  - rewrite E in Hy. exact Hy.
Qed.

(* The same with an UNBOUNDED gap for a greedy pattern, where the end kept is the
   longest: /aba?a.*abX/s on "abaabX" -- aba, nothing, abX is an occurrence; the head
   piece is recorded as 0..4 and abX starts at 3.  Replayed on the implementation:
   reports nothing (known finding C01:scan:chain-piece-variable-length-greedy). *)
Definition missed_greedy_items : list re :=
  [RCls (CByte 97); RCls (CByte 98); RRep (RCls (CByte 97)) 0 (Some 1) true; RCls (CByte 97);
   RRep (RCls CAny) 0 None true; RCls (CByte 97); RCls (CByte 98); RCls (CByte 88)].
Definition missed_greedy_data : bytes := [97; 98; 97; 97; 98; 88]%N.

Theorem chain_complete_one_end_greedy_refuted :
  exists items d, ~ chain_complete_starts false (split_at_large_gaps items) d
                      (scan_chain_abs false true false (split_at_large_gaps items) d).
Proof.
  exists missed_greedy_items, missed_greedy_data. intro H.
  assert (E : scan_chain_abs false true false (split_at_large_gaps missed_greedy_items) missed_greedy_data = [])
    by (vm_compute; reflexivity).
  assert (Em : memb 6 (ends false missed_greedy_data (join_chain (split_at_large_gaps missed_greedy_items)) 0) = true)
    by (vm_compute; reflexivity).
  destruct (H 0 6) as [y [Hy _]].
  - apply ends_spec. exact (proj1 (memb_In _ _) Em).
  - rewrite E in Hy. exact Hy.
Qed.

(* with every end of every piece fed to the same bookkeeping the occurrence is found:
   the miss is the piece matcher's, not the bookkeeping's *)
Example missed_found_with_all_ends :
  map (fun y => (m_start y, m_end y)) (scan_chain_all_ends false false false (split_at_large_gaps missed_items) missed_data)
  = [(0, 207)]%N.
Proof. vm_compute. reflexivity. Qed.
Example missed_greedy_found_with_all_ends :
  map (fun y => (m_start y, m_end y)) (scan_chain_all_ends false true false (split_at_large_gaps missed_greedy_items) missed_greedy_data)
  = [(0, 6)]%N.
Proof. vm_compute. reflexivity. Qed.

(* The wide form: the pieces are widened, the gap stays a byte distance, so a match
   can contain bytes that are not wide characters.  /ab.*cd/s wide on
   a\0 b\0 x c\0 d\0: reported 0..9 (known finding C01:scan:wide-regexp-split-at-large-gap) *)
Definition wide_items : list re :=
  [RCls (CByte 97); RCls (CByte 98); RRep (RCls CAny) 0 None true; RCls (CByte 99); RCls (CByte 100)].
Definition wide_data : bytes := [97; 0; 98; 0; 120; 99; 0; 100; 0]%N.

Theorem chain_wide_gap_refuted :
  exists items d y, In y (scan_chain_abs false true true (split_at_large_gaps items) d) /\
    exists s te, m_start y = N.of_nat s /\ m_end y = N.of_nat te /\ ~ M false d (widen_re (rcat items)) s te.
Proof.
  assert (E : scan_chain_abs false true true (split_at_large_gaps wide_items) wide_data = [mkM 0 9 None])
    by (vm_compute; reflexivity).
  assert (Em : memb 9 (ends false wide_data (widen_re (rcat wide_items)) 0) = false)
    by (vm_compute; reflexivity).
  exists wide_items, wide_data, (mkM 0 9 None). split.
  - rewrite E. left. reflexivity.
  - exists 0, 9. split; [reflexivity|]. split; [reflexivity|].
    intro H. apply ends_spec in H. apply (proj2 (memb_In _ _)) in H. rewrite Em in H. discriminate.
Qed.

(* the hypotheses of chain_literal_sound are satisfiable: a two-piece chain *)
Example chain_literal_sound_example :
  let items := [RCls (CByte 97); RCls (CByte 98); RRep (RCls CAny) 0 None false; RCls (CByte 99); RCls (CByte 100)] in
  let pieces := [mkCP false [97; 98]%N no_flags false false None;
                 mkCP false [99; 100]%N no_flags true false (Some (0, GUnbounded 0))] in
  let atoms := [mkAtom 0 [97; 98]%N 0 true; mkAtom 1 [99; 100]%N 0 true] in
  let d := [97; 98; 120; 99; 100; 99; 100]%N in
  chain_shape pieces (split_at_large_gaps items) /\
  map (fun y => (m_start y, m_end y)) (scan_chain pieces atoms (all_hits atoms d) d) = [(0, 5)]%N.
Proof.
  cbv zeta. split.
  - split; [vm_compute; reflexivity|].
    intros id p H. destruct id as [|[|id]]; cbn [nth_error] in H; try (destruct id; discriminate);
      inversion H; subst p; (split; [vm_compute; reflexivity|]); cbn [cp_last]; try discriminate. intros _. vm_compute. reflexivity.
  - vm_compute. reflexivity.
Qed.
