(* Consecutive jumps of a hex pattern: lib/src/compiler/ir/hex2hir.rs coalesces
   `[a-b][c-d]` into ONE jump before anything else sees the pattern.  The arithmetic
   (which bound survives in which combination of present / absent bounds) is read from
   the source on every run (Gen/JumpCoalesce.v, translate/gen_jumpcoalesce.py); the
   coalesced jump is defined through those tables here, and JumpsProofs.v proves that
   it matches exactly what the two jumps match one after the other.
   Definitions only. *)
From Coq Require Import List Arith.
From YV Require Import Gen.JumpCoalesce Pat.Syntax.
Import ListNotations.

(* a jump as written: [n] = (Some n, Some n), [a-b], [a-] = (Some a, None), [-b], [-] *)
Definition ajump := (option nat * option nat)%type.

Definition has_bound (o : option nat) : bool := match o with Some _ => true | None => false end.

Definition apply_rule (r : crule) (a b : option nat) : option nat :=
  match r with
  | RSum => match a, b with Some x, Some y => Some (x + y) | _, _ => None end
  | RFirst => a
  | RSecond => b
  | RNone => None
  end.

Definition coalesce (j1 j2 : ajump) : ajump :=
  (apply_rule (coalesce_start_rule (has_bound (fst j1)) (has_bound (fst j2))) (fst j1) (fst j2),
   apply_rule (coalesce_end_rule (has_bound (snd j1)) (has_bound (snd j2))) (snd j1) (snd j2)).

Definition jump_lo (j : ajump) : nat := match fst j with Some n => n | None => 0 end.
Definition jump_re (j : ajump) : re := RRep (RCls CAny) (jump_lo j) (snd j) false.

(* the compiler rejects a jump whose lower bound exceeds its upper bound *)
Definition jump_wf (j : ajump) : Prop := match snd j with Some b => jump_lo j <= b | None => True end.

(* several jumps in a row, as the loop folds them *)
Fixpoint coalesce_all (j : ajump) (rest : list ajump) : ajump :=
  match rest with
  | [] => j
  | j2 :: t => coalesce_all (coalesce j j2) t
  end.
