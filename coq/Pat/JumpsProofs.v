(* The coalesced jump (Pat/Jumps.v, tables generated from hex2hir.rs) matches exactly
   the language of the jumps it replaces. *)
From Coq Require Import List NArith Bool Arith Lia.
From YV Require Import Gen.JumpCoalesce Pat.Syntax Pat.Sem Pat.Matcher Pat.MatcherProofs Pat.Jumps.
Import ListNotations.

Section J.
  Variable nc : bool.
  Variable d : bytes.

  Lemma any_iter : forall k e, e + k <= length d -> Iter (M nc d (RCls CAny)) k e (e + k).
  Proof.
    induction k as [|k IH]; intros e H.
    - rewrite Nat.add_0_r. constructor.
    - destruct (nth_error d e) as [b|] eqn:E; [|apply nth_error_None in E; lia].
      apply IterS with (m := S e).
      + econstructor; [exact E|reflexivity].
      + replace (e + S k) with (S e + k) by lia. apply IH. lia.
  Qed.

  Lemma any_iter_len : forall k i j, Iter (M nc d (RCls CAny)) k i j -> j = i + k.
  Proof. intros k i j H. induction H as [|k i m j Hp H IH]; [lia|]. inversion Hp; subst. lia. Qed.

  (* what a jump matches *)
  Lemma jump_spec : forall j i k,
    M nc d (jump_re j) i k <->
    (i + jump_lo j <= k /\ k <= length d /\ match snd j with Some b => k - i <= b | None => True end).
  Proof.
    intros j i k. unfold jump_re. split.
    - intro H. inversion H; subst.
      match goal with HI : Iter _ _ _ _ |- _ => pose proof (any_iter_len _ _ _ HI) as E end.
      subst k. pose proof (M_bounds _ _ _ _ _ H) as [_ Hb].
      split; [lia|]. split; [exact Hb|]. destruct (snd j) as [b|]; [|exact I].
      match goal with HL : le_opt _ (Some b) |- _ => cbn [le_opt] in HL end. lia.
    - intros [H1 [H2 H3]]. apply MRep with (k := k - i); [lia|lia| |].
      + destruct (snd j) as [b|]; cbn [le_opt]; [exact H3|exact I].
      + replace k with (i + (k - i)) at 2 by lia. apply any_iter. lia.
  Qed.

  (* two jumps one after the other = the coalesced jump *)
  Theorem coalesce_language : forall j1 j2 i k, jump_wf j1 -> jump_wf j2 ->
    (M nc d (RCat (jump_re j1) (jump_re j2)) i k <-> M nc d (jump_re (coalesce j1 j2)) i k).
  Proof.
    intros [lo1 hi1] [lo2 hi2] i k W1 W2. rewrite jump_spec. split.
    - intro H. inversion H as [| |a b i0 m k0 Ha Hb| | | |]; subst.
      apply jump_spec in Ha. apply jump_spec in Hb.
      unfold jump_wf, jump_lo, coalesce in *. cbn [fst snd] in *.
      destruct lo1 as [a1|], lo2 as [a2|], hi1 as [b1|], hi2 as [b2|];
        cbn [has_bound coalesce_start_rule coalesce_end_rule apply_rule fst snd] in *; lia.
    - intros [H1 [H2 H3]].
      unfold jump_wf, jump_lo, coalesce in *. cbn [fst snd] in *.
      (* the split point: as far left as the first jump allows, unless the second one
         has an upper bound that forces it to the right *)
      set (a1 := match lo1 with Some n => n | None => 0 end) in *.
      set (m := match hi2 with Some b2 => Nat.max (i + a1) (k - b2) | None => i + a1 end).
      apply MCat with (k := m); apply jump_spec; unfold jump_lo; cbn [fst snd]; fold a1; subst m;
        destruct lo1 as [x1|], lo2 as [a2|], hi1 as [b1|], hi2 as [b2|];
        cbn [has_bound coalesce_start_rule coalesce_end_rule apply_rule fst snd] in *; subst a1; lia.
  Qed.

  Theorem coalesce_wf : forall j1 j2, jump_wf j1 -> jump_wf j2 -> jump_wf (coalesce j1 j2).
  Proof.
    intros [lo1 hi1] [lo2 hi2] W1 W2. unfold jump_wf, jump_lo, coalesce in *. cbn [fst snd] in *.
    destruct lo1 as [a1|], lo2 as [a2|], hi1 as [b1|], hi2 as [b2|];
      cbn [has_bound coalesce_start_rule coalesce_end_rule apply_rule fst snd] in *; lia.
  Qed.
End J.

(* the examples of the comment in hex2hir.rs, and the shapes a wrong rule would break *)
Example coalesce_examples :
  coalesce (Some 1, Some 2) (Some 3, Some 4) = (Some 4, Some 6) /\
  coalesce (Some 0, Some 2) (Some 5, None) = (Some 5, None) /\
  coalesce (Some 4, Some 4) (Some 0, Some 7) = (Some 4, Some 11) /\
  coalesce (Some 2, None) (Some 0, Some 4) = (Some 2, None) /\
  coalesce (None, Some 3) (Some 1, None) = (Some 1, None) /\
  coalesce (None, None) (Some 5, None) = (Some 5, None).
Proof. vm_compute. repeat split; reflexivity. Qed.
