(* Model of lib/src/scanner/matches.rs: MatchList::{add, search, matches_in_range}
   and PatternMatches::{new, max_matches_per_pattern, get, add, clear} with AddResult.
   The model follows the Rust code arm by arm (including what looks odd: the
   "same start as the last match" arm of MatchList::add overwrites `end` without
   comparing, and the Vacant arm of PatternMatches::add has no limit check).
   Definitions only; the theorems are in Pat/MatchListProofs.v.

   Trusted std behaviour (not re-proved from /repo, stated where it is used):
   slice::binary_search_by (modelled literally by ml_search_std and by its
   specification ml_search), Vec::{push, insert, clear, with_capacity, capacity}
   with the amortised growth policy of RawVec::grow_amortized, hash-map lookup by
   key.  usize/isize/i64 are unbounded here (N / Z): a Vec<Match> cannot hold
   2^63 elements, offsets are offsets into an in-memory buffer. *)
From Coq Require Import List NArith ZArith Bool Lia.
From YV Require Import Gen.PatConsts.
Import ListNotations.

(* Match { base, range: start..end, xor_key }.  `base` is always 0 on the code paths
   that reach MatchList (Match::new / rebase are outside this file's scope). *)
Record mtch := mkM { m_start : N; m_end : N; m_key : option N }.

(* MatchList.matches : Vec<Match> *)
Definition match_list := list mtch.

(* ------------------------------------------------------------------ search *)

(* MatchList::search(offset) = self.matches.binary_search_by(|m| m.range.start.cmp(&offset)).
   (true, i) is Ok(i), (false, i) is Err(i).
   This is the SPECIFICATION form of the binary search: the index of the first
   element whose start is >= offset, Ok iff that element's start equals offset.
   It coincides with the std loop (ml_search_std below, a literal transcription
   of core::slice::binary_search_by) whenever the list is strictly ascending by
   start (MatchListProofs.search_std_eq), and add_sorted proves that every list
   reachable through MatchList::add is strictly ascending.  On lists that are not
   sorted std gives no guarantee at all, so nothing is lost. *)
Fixpoint ml_search (l : match_list) (offset : N) : bool * nat :=
  match l with
  | [] => (false, O)
  | m :: t =>
      if (offset <=? m_start m)%N then ((m_start m =? offset)%N, O)
      else let '(b, i) := ml_search t offset in (b, S i)
  end.

(* Literal transcription of core::slice::binary_search_by (rust 1.8x library/core/src/slice/mod.rs):
     let mut size = self.len(); if size == 0 { return Err(0) }
     let mut base = 0;
     while size > 1 { let half = size/2; let mid = base+half;
                      base = if f(self[mid]) == Greater { base } else { mid }; size -= half; }
     let cmp = f(self[base]);
     if cmp == Equal { Ok(base) } else { Err(base + (cmp == Less) as usize) }
   `fuel` bounds the loop: `size` strictly decreases while it is > 1, so fuel = len is
   enough and the loop never runs out (MatchListProofs.bs_loop_inv, search_std_eq).
   get_unchecked(mid) is in bounds by the same invariant; start_at's default is never used. *)
Definition start_at (l : match_list) (i : nat) : N :=
  match nth_error l i with Some m => m_start m | None => 0%N end.

Fixpoint bs_loop (fuel : nat) (l : match_list) (offset : N) (base size : nat) : nat :=
  match fuel with
  | O => base
  | S fuel' =>
      if Nat.ltb 1 size then
        let half := Nat.div2 size in
        let mid := (base + half)%nat in
        let base' := if (offset <? start_at l mid)%N (* cmp == Greater *) then base else mid in
        bs_loop fuel' l offset base' (size - half)%nat
      else base
  end.

Definition ml_search_std (l : match_list) (offset : N) : bool * nat :=
  match l with
  | [] => (false, O)
  | _ =>
      let base := bs_loop (length l) l offset O (length l) in
      let s := start_at l base in
      if (s =? offset)%N then (true, base)
      else (false, if (s <? offset)%N then S base else base)
  end.

(* ------------------------------------------------------------------ add *)

(* self.matches.last_mut() (read part) *)
Fixpoint last_opt (l : match_list) : option mtch :=
  match l with
  | [] => None
  | [x] => Some x
  | _ :: t => last_opt t
  end.

(* `x.range.end = e`: only the end changes, start / xor_key / base are kept *)
Definition set_end (x : mtch) (e : N) : mtch := mkM (m_start x) e (m_key x).

(* in-place update of self.matches[i] (indexing panics when i >= len; never the
   case here: the index is len-1 of a non-empty Vec or an Ok(i) of the search,
   see MatchListProofs.search_ok_lt) *)
Fixpoint map_at (i : nat) (f : mtch -> mtch) (l : match_list) : match_list :=
  match l, i with
  | [], _ => []
  | h :: t, O => f h :: t
  | h :: t, S i' => h :: map_at i' f t
  end.

(* Vec::insert(i, x) (panics when i > len; never the case here: the index is an
   Err(i) of the search, i <= len, see MatchListProofs.search_index_le) *)
Fixpoint insert_at (i : nat) (x : mtch) (l : match_list) : match_list :=
  match i, l with
  | O, _ => x :: l
  | S i', h :: t => h :: insert_at i' x t
  | S _, [] => [x]
  end.

(* MatchList::add(new_match, replace_if_longer) -> bool, arms in the order of the
   Rust `match self.matches.last_mut()`:
     Some(last) if new.start > last.start  => push; true
     Some(last) if new.start == last.start => if replace_if_longer && last.end < new.end { last.end = new.end }; false
                                              (since commit a09b6a08; before, the end was overwritten without comparing)
     None                                  => push; true
     _ => match binary_search_by_key(new.start) {
            Ok(i) if replace_if_longer => if self[i].end < new.end { self[i].end = new.end }; false
            Err(i)                     => insert(i, new); true
            _                          => false } *)
Definition ml_add (l : match_list) (m : mtch) (replace_if_longer : bool) : match_list * bool :=
  match last_opt l with
  | Some last =>
      if (m_start last <? m_start m)%N then (l ++ [m], true)
      else if (m_start m =? m_start last)%N then
        ((if replace_if_longer && (m_end last <? m_end m)%N
          then map_at (length l - 1) (fun x => set_end x (m_end m)) l
          else l), false)
      else
        match ml_search l (m_start m) with
        | (true, i) =>
            if replace_if_longer then
              (map_at i (fun ex => if (m_end ex <? m_end m)%N then set_end ex (m_end m) else ex) l, false)
            else (l, false)
        | (false, i) => (insert_at i m l, true)
        end
  | None => (l ++ [m], true)
  end.

(* ------------------------------------------------------------------ matches_in_range *)

(* the `for m in &self.matches[index..] { if (start..=end).contains(&m.range.start) { count += 1 } else { break } }` loop *)
Fixpoint count_while (s e : N) (l : match_list) : Z :=
  match l with
  | [] => 0%Z
  | m :: t =>
      if ((s <=? m_start m) && (m_start m <=? e))%N then (1 + count_while s e t)%Z else 0%Z
  end.

(* MatchList::matches_in_range(lo..=hi) -> i64:
     if hi < 0 { return 0 }
     start = lo.try_into().unwrap_or(0)   (isize -> usize fails exactly when lo < 0)
     end   = hi.try_into().unwrap()       (cannot fail here)
     index = search(start) (Ok or Err alike); count as above on [index..]
   (`&slice[index..]` panics when index > len; never: search_index_le) *)
Definition ml_matches_in_range (l : match_list) (lo hi : Z) : Z :=
  if (hi <? 0)%Z then 0%Z
  else
    let start := if (lo <? 0)%Z then 0%N else Z.to_N lo in
    let end_ := Z.to_N hi in
    let '(_, index) := ml_search l start in
    count_while start end_ (skipn index l).

(* ------------------------------------------------------------------ PatternMatches *)

Inductive add_result := Inserted (len : N) | Updated | MaxMatchesReached.

(* FxHashMap<PatternId, MatchList> as an association list keyed by the pattern id;
   the order of entries is irrelevant (the code only looks keys up, iterates for
   clear(), or drops everything).  Each entry carries the MatchList and the
   capacity of its Vec.  pm_capacity is the `capacity: usize` counter, kept in Z
   (as the C17 model does for usize counters); MatchListProofs.pm_capacity_inv
   shows it equals the sum of the entries' capacities, so neither the `-=` in
   add nor anything else ever takes it below 0. *)
Record pmatches := mkPM {
  pm_entries : list (N * (match_list * N));
  pm_max : N;
  pm_capacity : Z }.

Definition len_N (l : match_list) : N := N.of_nat (length l).

(* Vec capacity model (trusted std behaviour, alloc::raw_vec::RawVec::grow_amortized):
   Vec::with_capacity(n) has capacity exactly n (non zero-sized element);
   push / insert first do `if len == capacity { grow_one() }`, and grow_one sets
   capacity := max(min_non_zero_cap = 4 (element size 32 <= 1024), max(2 * capacity, len + 1));
   clear() keeps the capacity. *)
Definition vec_grow (cap len : N) : N :=
  if (len =? cap)%N then N.max 4 (N.max (2 * cap) (len + 1)) else cap.

Fixpoint pm_lookup (es : list (N * (match_list * N))) (pid : N) : option (match_list * N) :=
  match es with
  | [] => None
  | (k, v) :: t => if (k =? pid)%N then Some v else pm_lookup t pid
  end.

(* write-back through the OccupiedEntry's &mut *)
Fixpoint pm_replace (es : list (N * (match_list * N))) (pid : N) (v : match_list * N)
  : list (N * (match_list * N)) :=
  match es with
  | [] => []
  | (k, v0) :: t => if (k =? pid)%N then (k, v) :: t else (k, v0) :: pm_replace t pid v
  end.

(* PatternMatches::new *)
Definition pm_new : pmatches := mkPM [] default_max_matches_per_pattern 0%Z.

(* PatternMatches::max_matches_per_pattern(n) *)
Definition pm_set_max (p : pmatches) (n : N) : pmatches :=
  mkPM (pm_entries p) n (pm_capacity p).

(* PatternMatches::get *)
Definition pm_get (p : pmatches) (pid : N) : option match_list :=
  match pm_lookup (pm_entries p) pid with Some (l, _) => Some l | None => None end.

(* PatternMatches::add:
     Occupied: if matches.len() < self.max { self.capacity -= matches.capacity();
                                            inserted = matches.add(m, r);
                                            self.capacity += matches.capacity();
                                            if inserted { Inserted(matches.len()) } else { Updated } }
               else { MaxMatchesReached }
     Vacant:   NO limit check. matches = MatchList::with_capacity(8);
               self.capacity += matches.capacity();   (BEFORE the add)
               matches.add(m, r); len = matches.len(); entry.insert(matches); Inserted(len) *)
Definition pm_add (p : pmatches) (pid : N) (m : mtch) (replace_if_longer : bool)
  : pmatches * add_result :=
  match pm_lookup (pm_entries p) pid with
  | Some (l, cap) =>
      if (len_N l <? pm_max p)%N then
        let c1 := (pm_capacity p - Z.of_N cap)%Z in
        let '(l', inserted) := ml_add l m replace_if_longer in
        let cap' := if inserted then vec_grow cap (len_N l) else cap in
        let c2 := (c1 + Z.of_N cap')%Z in
        (mkPM (pm_replace (pm_entries p) pid (l', cap')) (pm_max p) c2,
         if inserted then Inserted (len_N l') else Updated)
      else (p, MaxMatchesReached)
  | None =>
      let cap0 := initial_list_capacity in
      let c := (pm_capacity p + Z.of_N cap0)%Z in
      let '(l', inserted) := ml_add [] m replace_if_longer in
      let cap' := if inserted then vec_grow cap0 0 else cap0 in
      (mkPM ((pid, (l', cap')) :: pm_entries p) (pm_max p) c, Inserted (len_N l'))
  end.

(* PatternMatches::clear:
     if self.capacity > 10000 { self.matches.clear(); self.capacity = 0 }
     else { for matches in self.matches.values_mut() { matches.clear() } } *)
Definition pm_clear (p : pmatches) : pmatches :=
  if (Z.of_N clear_capacity_threshold <? pm_capacity p)%Z then mkPM [] (pm_max p) 0%Z
  else mkPM (map (fun e : N * (match_list * N) => (fst e, ([], snd (snd e)))) (pm_entries p))
            (pm_max p) (pm_capacity p).

(* ------------------------------------------------------------------ histories *)

(* a sequence of MatchList::add calls starting from the empty list *)
Definition run_adds (ops : list (mtch * bool)) : match_list :=
  fold_left (fun l (o : mtch * bool) => fst (ml_add l (fst o) (snd o))) ops [].

(* ... all of them with replace_if_longer = true *)
Definition adds_true (ms : list mtch) : match_list :=
  fold_left (fun l m => fst (ml_add l m true)) ms [].

(* the ends that were added for start s, in order of arrival *)
Definition ends_for (s : N) (ms : list mtch) : list N :=
  map m_end (filter (fun m => (m_start m =? s)%N) ms).

Definition max_list (l : list N) : N := fold_right N.max 0%N l.

(* operations on a PatternMatches *)
Inductive pm_op := OpAdd (pid : N) (m : mtch) (replace_if_longer : bool) | OpClear.

Definition pm_step (p : pmatches) (o : pm_op) : pmatches :=
  match o with
  | OpAdd pid m r => fst (pm_add p pid m r)
  | OpClear => pm_clear p
  end.

Definition pm_run (p : pmatches) (ops : list pm_op) : pmatches := fold_left pm_step ops p.
