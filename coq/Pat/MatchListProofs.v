(* Proofs about Pat/MatchList.v (model of lib/src/scanner/matches.rs).
   Part 1: MatchList::add keeps the list strictly ascending by start, one match per
           start; what it does to the set of starts, the length, the other matches.
   Part 2: MatchList::search and matches_in_range meet their specifications on
           sorted lists; the literal std binary search agrees with ml_search.
   Part 3: histories of add: "keeps the longest" is REFUTED (tail arm overwrites
           without comparing); guarded version and the unconditional weaker fact.
   Part 4: PatternMatches: limit, MaxMatchesReached leaves the state alone, the
           capacity counter is the sum of the Vec capacities, lists stay sorted. *)
From Coq Require Import List NArith ZArith Bool Lia Sorted.
From YV Require Import Gen.PatConsts Pat.MatchList.
Import ListNotations.
Local Open Scope N_scope.

(* ================================================================== sorted *)

Definition lt_start (a b : mtch) : Prop := m_start a < m_start b.

(* strictly ascending by start offset *)
Definition sorted (l : match_list) : Prop := StronglySorted lt_start l.

Definition all_lt (l : match_list) (s : N) : Prop := Forall (fun a => m_start a < s) l.
Definition all_gt (l : match_list) (s : N) : Prop := Forall (fun a => s < m_start a) l.

Definition starts (l : match_list) : list N := map m_start l.

Example sorted_ex : sorted [mkM 1 15 None; mkM 2 10 (Some 7); mkM 5 6 None].
Proof.
  repeat constructor; unfold lt_start; cbn [m_start]; lia.
Qed.

Lemma sorted_nil : sorted [].
Proof. constructor. Qed.

Lemma sorted_cons_iff a l : sorted (a :: l) <-> sorted l /\ all_gt l (m_start a).
Proof.
  split.
  - intros H. apply StronglySorted_inv in H. exact H.
  - intros [H1 H2]. constructor; assumption.
Qed.

Lemma all_lt_app l1 l2 s : all_lt (l1 ++ l2) s <-> all_lt l1 s /\ all_lt l2 s.
Proof. unfold all_lt. apply Forall_app. Qed.

Lemma all_gt_app l1 l2 s : all_gt (l1 ++ l2) s <-> all_gt l1 s /\ all_gt l2 s.
Proof. unfold all_gt. apply Forall_app. Qed.

Lemma all_lt_weaken l s s' : all_lt l s -> s <= s' -> all_lt l s'.
Proof.
  unfold all_lt. intros H Hs. eapply Forall_impl; [|exact H].
  cbv beta. intros a Ha. lia.
Qed.

Lemma all_gt_weaken l s s' : all_gt l s -> s' <= s -> all_gt l s'.
Proof.
  unfold all_gt. intros H Hs. eapply Forall_impl; [|exact H].
  cbv beta. intros a Ha. lia.
Qed.

Lemma all_lt_In l s a : all_lt l s -> In a l -> m_start a < s.
Proof. unfold all_lt. rewrite Forall_forall. intros H Hin. apply H. exact Hin. Qed.

Lemma all_gt_In l s a : all_gt l s -> In a l -> s < m_start a.
Proof. unfold all_gt. rewrite Forall_forall. intros H Hin. apply H. exact Hin. Qed.

Lemma all_lt_not_In l s : all_lt l s -> ~ In s (starts l).
Proof.
  unfold starts. intros H Hin. apply in_map_iff in Hin. destruct Hin as [a [Ha Hin]].
  pose proof (all_lt_In _ _ _ H Hin). lia.
Qed.

Lemma all_gt_not_In l s : all_gt l s -> ~ In s (starts l).
Proof.
  unfold starts. intros H Hin. apply in_map_iff in Hin. destruct Hin as [a [Ha Hin]].
  pose proof (all_gt_In _ _ _ H Hin). lia.
Qed.

(* sortedness of l1 ++ x :: l2 in terms of its pieces *)
Lemma sorted_mid l1 x l2 :
  sorted (l1 ++ x :: l2) <->
  sorted l1 /\ sorted l2 /\ all_lt l1 (m_start x) /\ all_gt l2 (m_start x).
Proof.
  induction l1 as [|a l1 IH]; cbn [app].
  - rewrite sorted_cons_iff. split.
    + intros [H1 H2]. repeat split; try assumption; constructor.
    + intros [_ [H1 [_ H2]]]. split; assumption.
  - rewrite !sorted_cons_iff, IH. unfold all_lt, all_gt in *. split.
    + intros [[H1 [H2 [H3 H4]]] H5]. apply Forall_app in H5. destruct H5 as [H5 H6].
      inversion H6 as [|? ? H7 H8]; subst.
      repeat split; try assumption. constructor; assumption.
    + intros [[H1 H2] [H3 [H4 H5]]]. inversion H4 as [|? ? H6 H7]; subst.
      repeat split; try assumption.
      apply Forall_app. split; [assumption|]. constructor; [assumption|].
      eapply Forall_impl; [|exact H5]. cbv beta. intros b Hb. lia.
Qed.

Lemma sorted_app l1 l2 : sorted (l1 ++ l2) -> sorted l1 /\ sorted l2.
Proof.
  induction l1 as [|a l1 IH]; cbn [app].
  - intros H. split; [constructor|exact H].
  - rewrite !sorted_cons_iff. intros [H1 H2]. apply all_gt_app in H2.
    destruct (IH H1) as [H3 H4]. tauto.
Qed.

(* inserting in the gap *)
Lemma sorted_insert l1 l2 m :
  sorted (l1 ++ l2) -> all_lt l1 (m_start m) -> all_gt l2 (m_start m) ->
  sorted (l1 ++ m :: l2).
Proof.
  intros H H1 H2. apply sorted_mid. destruct (sorted_app _ _ H) as [H3 H4]. tauto.
Qed.

Lemma sorted_NoDup_starts l : sorted l -> NoDup (starts l).
Proof.
  induction l as [|a l IH]; cbn [starts map].
  - intros _. constructor.
  - rewrite sorted_cons_iff. intros [H1 H2]. constructor.
    + apply all_gt_not_In. exact H2.
    + apply IH. exact H1.
Qed.

(* in a sorted list the start identifies the match *)
Lemma sorted_start_inj l x y : sorted l -> In x l -> In y l -> m_start x = m_start y -> x = y.
Proof.
  induction l as [|a l IH]; [intros _ []|].
  rewrite sorted_cons_iff. intros [H1 H2] [Hx|Hx] [Hy|Hy] He.
  - congruence.
  - subst a. pose proof (all_gt_In _ _ _ H2 Hy). lia.
  - subst a. pose proof (all_gt_In _ _ _ H2 Hx). lia.
  - apply IH; assumption.
Qed.

Lemma set_end_same x : set_end x (m_end x) = x.
Proof. destruct x; reflexivity. Qed.

Lemma set_end_start x e : m_start (set_end x e) = m_start x.
Proof. reflexivity. Qed.

Lemma set_end_end x e : m_end (set_end x e) = e.
Proof. reflexivity. Qed.

(* ================================================================== list helpers *)

Lemma last_opt_snoc l x : last_opt (l ++ [x]) = Some x.
Proof.
  induction l as [|a l IH]; [reflexivity|].
  cbn [app last_opt]. rewrite IH. destruct (l ++ [x]) eqn:E; [|reflexivity].
  destruct l; discriminate.
Qed.

Lemma list_snoc_cases (l : match_list) : l = [] \/ exists l' x, l = l' ++ [x].
Proof.
  destruct l as [|a l]; [left; reflexivity|right].
  destruct (@exists_last _ (a :: l)) as [l' [x H]]; [discriminate|].
  exists l', x. exact H.
Qed.

Lemma map_at_app f l1 x l2 : map_at (length l1) f (l1 ++ x :: l2) = l1 ++ f x :: l2.
Proof.
  induction l1 as [|a l1 IH]; [reflexivity|].
  cbn [app length map_at]. rewrite IH. reflexivity.
Qed.

Lemma insert_at_app m l1 l2 : insert_at (length l1) m (l1 ++ l2) = l1 ++ m :: l2.
Proof.
  induction l1 as [|a l1 IH]; [reflexivity|].
  cbn [app length insert_at]. rewrite IH. reflexivity.
Qed.

(* ================================================================== search: structure *)

(* what ml_search returns on ANY list: a split point *)
Lemma search_split l off : forall b i, ml_search l off = (b, i) ->
  exists l1 l2, l = l1 ++ l2 /\ length l1 = i /\ all_lt l1 off /\
    match l2 with
    | [] => b = false
    | x :: _ => off <= m_start x /\ b = (m_start x =? off)
    end.
Proof.
  induction l as [|a l IH]; intros b i; cbn [ml_search].
  - intros H. inversion H; subst. exists [], []. repeat split. constructor.
  - destruct (off <=? m_start a) eqn:E.
    + intros H. inversion H; subst. exists [], (a :: l).
      apply N.leb_le in E. repeat split; [constructor|exact E].
    + destruct (ml_search l off) as [b' i'] eqn:E2. intros H. inversion H; subst.
      destruct (IH _ _ eq_refl) as [l1 [l2 [H1 [H2 [H3 H4]]]]].
      exists (a :: l1), l2. apply N.leb_gt in E. subst l.
      repeat split; [cbn [length]; congruence| |exact H4].
      constructor; assumption.
Qed.

(* Err(i)/Ok(i) never exceeds len: Vec::insert(i, _) and &slice[i..] cannot panic *)
Lemma search_index_le l off b i : ml_search l off = (b, i) -> (i <= length l)%nat.
Proof.
  intros H. destruct (search_split _ _ _ _ H) as [l1 [l2 [H1 [H2 _]]]].
  subst. rewrite app_length. lia.
Qed.

(* Ok(i) is a valid index: self.matches[i] cannot panic *)
Lemma search_ok_lt l off i : ml_search l off = (true, i) -> (i < length l)%nat.
Proof.
  intros H. destruct (search_split _ _ _ _ H) as [l1 [l2 [H1 [H2 [_ H4]]]]].
  subst. rewrite app_length. destruct l2; [discriminate|]. cbn [length]. lia.
Qed.

(* ================================================================== add: shape *)

(* The two things MatchList::add can do to a sorted list. *)
Inductive add_shape (l : match_list) (m : mtch) (r : bool) : match_list * bool -> Prop :=
| AS_ins l1 l2 :
    l = l1 ++ l2 -> all_lt l1 (m_start m) -> all_gt l2 (m_start m) ->
    add_shape l m r (l1 ++ m :: l2, true)
| AS_upd l1 x l2 e :
    l = l1 ++ x :: l2 -> m_start x = m_start m ->
    e = (if r then N.max (m_end x) (m_end m)      (* replaced if longer, in both arms *)
         else m_end x) ->
    add_shape l m r (l1 ++ set_end x e :: l2, false).

Lemma add_shape_ok l m r : sorted l -> add_shape l m r (ml_add l m r).
Proof.
  intros Hs. unfold ml_add.
  destruct (list_snoc_cases l) as [->|[l' [x ->]]].
  - cbn [last_opt app]. apply (AS_ins [] m r [] []); [reflexivity|constructor|constructor].
  - rewrite last_opt_snoc.
    pose proof Hs as Hs'. apply sorted_mid in Hs'. destruct Hs' as [Hs1 [_ [Hlt _]]].
    destruct (m_start x <? m_start m) eqn:E1.
    + (* push *)
      apply N.ltb_lt in E1.
      replace ((l' ++ [x]) ++ [m]) with ((l' ++ [x]) ++ m :: []) by reflexivity.
      apply AS_ins; [rewrite app_nil_r; reflexivity| |constructor].
      apply all_lt_app. split.
      * eapply all_lt_weaken; [exact Hlt|lia].
      * constructor; [exact E1|constructor].
    + apply N.ltb_ge in E1.
      destruct (m_start m =? m_start x) eqn:E2.
      * (* same start as the last one *)
        apply N.eqb_eq in E2.
        replace (length (l' ++ [x]) - 1)%nat with (length l').
        2:{ rewrite app_length. cbn [length]. lia. }
        destruct r; cbn [andb].
        -- destruct (m_end x <? m_end m) eqn:E4.
           ++ apply N.ltb_lt in E4. rewrite map_at_app.
              apply (AS_upd _ m true l' x [] (m_end m)); [reflexivity|congruence|]. rewrite N.max_r by lia. reflexivity.
           ++ apply N.ltb_ge in E4. rewrite <- (set_end_same x) at 2.
              apply (AS_upd _ m true l' x [] (m_end x)); [reflexivity|congruence|]. rewrite N.max_l by lia. reflexivity.
        -- rewrite <- (set_end_same x) at 2.
           apply (AS_upd _ m false l' x [] (m_end x)); [reflexivity|congruence|reflexivity].
      * (* somewhere before the last one: binary search *)
        apply N.eqb_neq in E2.
        destruct (ml_search (l' ++ [x]) (m_start m)) as [b i] eqn:E3.
        destruct (search_split _ _ _ _ E3) as [l1 [l2 [H1 [H2 [H3 H4]]]]].
        destruct l2 as [|y l2].
        { (* impossible: the last element is > m.start *)
          exfalso. rewrite app_nil_r in H1. subst l1.
          apply all_lt_app in H3. destruct H3 as [_ H3].
          inversion H3; subst. lia. }
        destruct H4 as [H4 H5]. rewrite H1 in *. subst i.
        apply sorted_mid in Hs. destruct Hs as [Hs2 [Hs3 [Hs4 Hs5]]].
        destruct b.
        -- (* Ok(index) *)
           symmetry in H5. apply N.eqb_eq in H5.
           assert (Hne : l2 <> []).
           { intros ->. apply app_inj_tail in H1. destruct H1 as [_ ->]. lia. }
           destruct r.
           ++ rewrite map_at_app.
              replace (if m_end y <? m_end m then set_end y (m_end m) else y)
                with (set_end y (N.max (m_end y) (m_end m))).
              2:{ destruct (m_end y <? m_end m) eqn:E4.
                  - apply N.ltb_lt in E4. rewrite N.max_r by lia. reflexivity.
                  - apply N.ltb_ge in E4. rewrite N.max_l by lia. apply set_end_same. }
              apply (AS_upd _ m true l1 y l2); [reflexivity|exact H5|reflexivity].
           ++ rewrite <- (set_end_same y) at 2.
              apply (AS_upd _ m false l1 y l2); [reflexivity|exact H5|reflexivity].
        -- (* Err(index) *)
           symmetry in H5. apply N.eqb_neq in H5.
           rewrite insert_at_app.
           apply AS_ins; [reflexivity|exact H3|].
           constructor; [lia|]. eapply all_gt_weaken; [exact Hs5|lia].
Qed.

(* ================================================================== add: theorems *)

Lemma starts_app l1 l2 : starts (l1 ++ l2) = starts l1 ++ starts l2.
Proof. unfold starts. apply map_app. Qed.

Lemma starts_upd l1 x e l2 : starts (l1 ++ set_end x e :: l2) = starts (l1 ++ x :: l2).
Proof. rewrite !starts_app. reflexivity. Qed.

(* MatchList::add keeps the list strictly ascending by start *)
Theorem add_sorted : forall l m r, sorted l -> sorted (fst (ml_add l m r)).
Proof.
  intros l m r Hs. destruct (add_shape_ok l m r Hs) as [l1 l2 H1 H2 H3|l1 x l2 e H1 H2 H3];
    cbn [fst]; subst l.
  - apply sorted_insert; assumption.
  - apply sorted_mid. apply sorted_mid in Hs. rewrite set_end_start. exact Hs.
Qed.

(* ... hence one match per start offset *)
Theorem add_starts_unique : forall l m r, sorted l -> NoDup (map m_start (fst (ml_add l m r))).
Proof. intros l m r Hs. apply (sorted_NoDup_starts _ (add_sorted l m r Hs)). Qed.

(* the set of starts grows by exactly the new start *)
Theorem add_start_set : forall l m r x, sorted l ->
  (In x (map m_start (fst (ml_add l m r))) <-> x = m_start m \/ In x (map m_start l)).
Proof.
  intros l m r s Hs. fold (starts (fst (ml_add l m r))). fold (starts l).
  destruct (add_shape_ok l m r Hs) as [l1 l2 H1 H2 H3|l1 x l2 e H1 H2 H3]; cbn [fst]; subst l.
  - rewrite !starts_app. cbn [starts map]. rewrite !in_app_iff. cbn [In].
    split; intros H; intuition auto.
  - rewrite starts_upd. split; [tauto|]. intros [->|H]; [|exact H].
    rewrite starts_app. apply in_app_iff. right. left. exact H2.
Qed.

Theorem add_len : forall l m r, sorted l ->
  length (fst (ml_add l m r)) = if snd (ml_add l m r) then S (length l) else length l.
Proof.
  intros l m r Hs.
  destruct (add_shape_ok l m r Hs) as [l1 l2 H1 H2 H3|l1 x l2 e H1 H2 H3]; cbn [fst snd]; subst l;
    rewrite !app_length; cbn [length]; lia.
Qed.

(* the returned bool says whether the start was new *)
Theorem add_returns_true_iff_new : forall l m r, sorted l ->
  (snd (ml_add l m r) = true <-> ~ In (m_start m) (map m_start l)).
Proof.
  intros l m r Hs. fold (starts l).
  destruct (add_shape_ok l m r Hs) as [l1 l2 H1 H2 H3|l1 x l2 e H1 H2 H3]; cbn [snd]; subst l.
  - split; [intros _|reflexivity]. rewrite starts_app. intros H. apply in_app_iff in H.
    destruct H as [H|H]; [exact (all_lt_not_In _ _ H2 H)|exact (all_gt_not_In _ _ H3 H)].
  - split; [discriminate|]. intros H. exfalso. apply H.
    rewrite starts_app. apply in_app_iff. right. left. exact H2.
Qed.

(* every match of l whose start differs from the new one is still there, unchanged *)
Theorem add_other_matches_kept : forall l m r x, sorted l ->
  In x l -> m_start x <> m_start m -> In x (fst (ml_add l m r)).
Proof.
  intros l m r y Hs Hin Hne.
  destruct (add_shape_ok l m r Hs) as [l1 l2 H1 H2 H3|l1 x l2 e H1 H2 H3]; cbn [fst]; subst l.
  - apply in_app_iff in Hin. apply in_app_iff. cbn [In]. tauto.
  - apply in_app_iff in Hin. apply in_app_iff. cbn [In] in *.
    destruct Hin as [H|[H|H]]; [tauto|subst y; congruence|tauto].
Qed.

(* ... and nothing else with a different start appears *)
Theorem add_no_other_matches_created : forall l m r y, sorted l ->
  In y (fst (ml_add l m r)) -> m_start y <> m_start m -> In y l.
Proof.
  intros l m r y Hs Hin Hne.
  destruct (add_shape_ok l m r Hs) as [l1 l2 H1 H2 H3|l1 x l2 e H1 H2 H3]; cbn [fst] in Hin; subst l.
  - apply in_app_iff in Hin. apply in_app_iff. cbn [In] in *.
    destruct Hin as [H|[H|H]]; [tauto|subst y; congruence|tauto].
  - apply in_app_iff in Hin. apply in_app_iff. cbn [In] in *.
    destruct Hin as [H|[H|H]]; [tauto| |tauto].
    subst y. rewrite set_end_start in Hne. congruence.
Qed.

(* what is stored for the new start afterwards (any replace_if_longer):
   either the new match's end, or an end that was already stored for that start *)
Lemma add_result_end : forall l m r y, sorted l -> In y (fst (ml_add l m r)) ->
  (m_start y = m_start m /\ m_end y = m_end m) \/
  (exists x, In x l /\ m_start x = m_start y /\ m_end x = m_end y).
Proof.
  intros l m r y Hs Hin.
  destruct (add_shape_ok l m r Hs) as [l1 l2 H1 H2 H3|l1 x l2 e H1 H2 H3]; cbn [fst] in Hin; subst l.
  - apply in_app_iff in Hin. cbn [In] in Hin. destruct Hin as [H|[H|H]].
    + right. exists y. rewrite in_app_iff. tauto.
    + subst y. left. split; reflexivity.
    + right. exists y. rewrite in_app_iff. tauto.
  - apply in_app_iff in Hin. cbn [In] in Hin. destruct Hin as [H|[H|H]].
    + right. exists y. rewrite in_app_iff. cbn [In]. tauto.
    + subst y. rewrite set_end_start, set_end_end.
      assert (Hx : In x (l1 ++ x :: l2)) by (apply in_app_iff; right; left; reflexivity).
      destruct r.
      * destruct (N.max_spec (m_end x) (m_end m)) as [[_ Hm]|[_ Hm]]; rewrite Hm in H3.
        -- left. split; [exact H2|exact H3].
        -- right. exists x. split; [exact Hx|]. split; [reflexivity|congruence].
      * right. exists x. split; [exact Hx|]. split; [reflexivity|congruence].
    + right. exists y. rewrite in_app_iff. cbn [In]. tauto.
Qed.

(* with replace_if_longer = true: a new start gets the new end, a stored one the
   maximum of the stored and the new end (in both arms since commit a09b6a08) *)
Lemma add_true_result_end : forall l m y, sorted l -> In y (fst (ml_add l m true)) ->
  m_start y = m_start m ->
  (~ In (m_start m) (starts l) /\ m_end y = m_end m) \/
  (exists x, In x l /\ m_start x = m_start m /\ m_end y = N.max (m_end x) (m_end m)).
Proof.
  intros l m y Hs Hin He.
  destruct (add_shape_ok l m true Hs) as [l1 l2 H1 H2 H3|l1 x l2 e H1 H2 H3]; cbn [fst] in Hin; subst l.
  - apply in_app_iff in Hin. cbn [In] in Hin. destruct Hin as [H|[H|H]].
    + pose proof (all_lt_In _ _ _ H2 H). lia.
    + subst y. left. split; [|reflexivity]. rewrite starts_app. intro Hi. apply in_app_iff in Hi.
      destruct Hi as [Hi|Hi]; [exact (all_lt_not_In _ _ H2 Hi)|exact (all_gt_not_In _ _ H3 Hi)].
    + pose proof (all_gt_In _ _ _ H3 H). lia.
  - apply sorted_mid in Hs. destruct Hs as [_ [_ [Hs1 Hs2]]].
    apply in_app_iff in Hin. cbn [In] in Hin. destruct Hin as [H|[H|H]].
    + pose proof (all_lt_In _ _ _ Hs1 H). lia.
    + subst y. rewrite set_end_end.
      assert (Hx : In x (l1 ++ x :: l2)) by (apply in_app_iff; right; left; reflexivity).
      right. exists x. split; [exact Hx|]. split; [exact H2|exact H3].
    + pose proof (all_gt_In _ _ _ Hs2 H). lia.
Qed.

(* ================================================================== search: specification *)

Definition lt_off (off : N) : mtch -> bool := fun m => m_start m <? off.

Lemma filter_all_lt l off : all_lt l off -> filter (lt_off off) l = l.
Proof.
  induction l as [|a l IH]; [reflexivity|]. intros H. inversion H; subst.
  cbn [filter]. unfold lt_off at 1. replace (m_start a <? off) with true.
  - rewrite IH by assumption. reflexivity.
  - symmetry. apply N.ltb_lt. assumption.
Qed.

Lemma filter_all_ge l off : Forall (fun a => off <= m_start a) l -> filter (lt_off off) l = [].
Proof.
  induction l as [|a l IH]; [reflexivity|]. intros H. inversion H; subst.
  cbn [filter]. unfold lt_off at 1. replace (m_start a <? off) with false.
  - apply IH. assumption.
  - symmetry. apply N.ltb_ge. assumption.
Qed.

(* on a sorted list everything from the split point on is >= offset *)
Lemma search_split_sorted l off b i : sorted l -> ml_search l off = (b, i) ->
  exists l1 l2, l = l1 ++ l2 /\ length l1 = i /\ all_lt l1 off /\
    Forall (fun a => off <= m_start a) l2 /\
    match l2 with
    | [] => b = false
    | x :: _ => b = (m_start x =? off)
    end.
Proof.
  intros Hs H. destruct (search_split _ _ _ _ H) as [l1 [l2 [H1 [H2 [H3 H4]]]]].
  exists l1, l2. subst l. repeat split; try assumption.
  - destruct l2 as [|x l2]; [constructor|]. destruct H4 as [H4 _].
    apply sorted_mid in Hs. destruct Hs as [_ [_ [_ Hs]]].
    constructor; [exact H4|]. eapply Forall_impl; [|exact Hs]. cbv beta. intros a Ha. lia.
  - destruct l2; [exact H4|]. destruct H4 as [_ H4]. exact H4.
Qed.

Lemma ge_not_In l off : Forall (fun a => off < m_start a) l -> ~ In off (starts l).
Proof. apply all_gt_not_In. Qed.

(* MatchList::search: Ok(i) -> the match at i starts at offset;
   Err(i) -> no match starts at offset and i is the number of matches starting before it
   (the insertion point that keeps the list sorted). *)
Theorem search_spec : forall l off i, sorted l ->
  (ml_search l off = (true, i) -> nth_error (map m_start l) i = Some off) /\
  (ml_search l off = (false, i) ->
     ~ In off (map m_start l) /\
     i = length (filter (fun m => m_start m <? off) l)).
Proof.
  intros l off i Hs. split; intros H.
  - destruct (search_split_sorted _ _ _ _ Hs H) as [l1 [l2 [H1 [H2 [H3 [H4 H5]]]]]].
    destruct l2 as [|x l2]; [discriminate|]. symmetry in H5. apply N.eqb_eq in H5.
    subst l i. rewrite map_app. rewrite nth_error_app2 by (rewrite map_length; lia).
    rewrite map_length, Nat.sub_diag. cbn [map nth_error]. congruence.
  - destruct (search_split_sorted _ _ _ _ Hs H) as [l1 [l2 [H1 [H2 [H3 [H4 H5]]]]]].
    assert (H6 : Forall (fun a => off < m_start a) l2).
    { destruct l2 as [|x l2]; [constructor|]. symmetry in H5. apply N.eqb_neq in H5.
      inversion H4; subst. constructor; [lia|].
      apply sorted_mid in Hs. destruct Hs as [_ [_ [_ Hs]]].
      eapply Forall_impl; [|exact Hs]. cbv beta. intros a Ha. lia. }
    subst l i. split.
    + fold (starts (l1 ++ l2)). rewrite starts_app. intros Hin. apply in_app_iff in Hin.
      destruct Hin as [Hin|Hin]; [exact (all_lt_not_In _ _ H3 Hin)|exact (ge_not_In _ _ H6 Hin)].
    + change (fun m => m_start m <? off) with (lt_off off).
      rewrite filter_app, filter_all_lt, filter_all_ge by assumption.
      rewrite app_nil_r. reflexivity.
Qed.

(* the same index formula holds for Ok(i) *)
Lemma search_index : forall l off b i, sorted l -> ml_search l off = (b, i) ->
  i = length (filter (fun m => m_start m <? off) l) /\
  (b = true <-> In off (map m_start l)).
Proof.
  intros l off b i Hs H.
  destruct (search_split_sorted _ _ _ _ Hs H) as [l1 [l2 [H1 [H2 [H3 [H4 H5]]]]]].
  split.
  - subst l i. change (fun m => m_start m <? off) with (lt_off off).
    rewrite filter_app, filter_all_lt, filter_all_ge by assumption.
    rewrite app_nil_r. reflexivity.
  - destruct b.
    + split; [intros _|reflexivity].
      destruct (search_spec l off i Hs) as [Ht _]. apply nth_error_In in Ht; [exact Ht|exact H].
    + split; [discriminate|]. intros Hin.
      destruct (search_spec l off i Hs) as [_ Hf]. destruct (Hf H) as [Hn _]. contradiction.
Qed.

Example search_ex_ok :
  ml_search [mkM 1 2 None; mkM 3 4 None; mkM 7 9 None] 3 = (true, 1%nat).
Proof. reflexivity. Qed.
Example search_ex_err :
  ml_search [mkM 1 2 None; mkM 3 4 None; mkM 7 9 None] 5 = (false, 2%nat).
Proof. reflexivity. Qed.

(* ================================================================== matches_in_range *)

Definition in_range_N (s e : N) : mtch -> bool :=
  fun m => (s <=? m_start m) && (m_start m <=? e).

(* on a sorted list the counting loop that breaks at the first miss counts all hits,
   provided everything is >= s *)
Lemma count_while_sorted s e l : sorted l -> Forall (fun a => s <= m_start a) l ->
  count_while s e l = Z.of_nat (length (filter (in_range_N s e) l)).
Proof.
  induction l as [|a l IH]; [reflexivity|].
  rewrite sorted_cons_iff. intros [Hs1 Hs2] Hge. inversion Hge; subst.
  cbn [count_while filter]. unfold in_range_N at 1.
  destruct ((s <=? m_start a) && (m_start a <=? e)) eqn:E.
  - rewrite IH by assumption. cbn [length]. lia.
  - (* a misses; it is >= s so it is > e, and so is everything after it *)
    replace (filter (in_range_N s e) l) with (@nil mtch); [reflexivity|].
    symmetry. apply andb_false_iff in E. destruct E as [E|E].
    + apply N.leb_gt in E. lia.
    + apply N.leb_gt in E. clear IH Hge. induction l as [|b l IH]; [reflexivity|].
      inversion Hs2; subst. inversion H2; subst.
      apply sorted_cons_iff in Hs1. destruct Hs1 as [Hs1 _].
      cbn [filter]. unfold in_range_N at 1.
      replace (m_start b <=? e) with false by (symmetry; apply N.leb_gt; lia).
      rewrite andb_false_r. apply IH; assumption.
Qed.

Lemma filter_ext_in_local {A} (f g : A -> bool) l :
  (forall a, In a l -> f a = g a) -> filter f l = filter g l.
Proof.
  induction l as [|a l IH]; [reflexivity|]. intros H. cbn [filter].
  rewrite (H a) by (left; reflexivity). rewrite IH; [reflexivity|].
  intros b Hb. apply H. right. exact Hb.
Qed.

Lemma filter_none {A} (f : A -> bool) l : (forall a, In a l -> f a = false) -> filter f l = [].
Proof.
  induction l as [|a l IH]; [reflexivity|]. intros H. cbn [filter].
  rewrite (H a) by (left; reflexivity). apply IH. intros b Hb. apply H. right. exact Hb.
Qed.

(* MatchList::matches_in_range(lo..=hi) is the number of matches whose start lies in
   [lo, hi], for ALL lo, hi (negative lo, negative hi, hi < lo included). *)
Theorem matches_in_range_spec : forall l lo hi, sorted l ->
  ml_matches_in_range l lo hi =
  Z.of_nat (length (filter (fun m => ((lo <=? Z.of_N (m_start m)) && (Z.of_N (m_start m) <=? hi))%Z) l)).
Proof.
  intros l lo hi Hs. unfold ml_matches_in_range.
  destruct (hi <? 0)%Z eqn:Ehi.
  - apply Z.ltb_lt in Ehi. rewrite filter_none; [reflexivity|].
    intros a _. apply andb_false_iff. right. apply Z.leb_gt. lia.
  - apply Z.ltb_ge in Ehi.
    set (start := if (lo <? 0)%Z then 0 else Z.to_N lo).
    assert (Hstart : forall a : mtch, (lo <=? Z.of_N (m_start a))%Z = (start <=? m_start a)).
    { intros a. subst start. destruct (lo <? 0)%Z eqn:Elo.
      - apply Z.ltb_lt in Elo. transitivity true; [apply Z.leb_le; lia|symmetry; apply N.leb_le; lia].
      - apply Z.ltb_ge in Elo. destruct (Z.to_N lo <=? m_start a) eqn:E.
        + apply N.leb_le in E. apply Z.leb_le. lia.
        + apply N.leb_gt in E. apply Z.leb_gt. lia. }
    assert (Hend : forall a : mtch, (Z.of_N (m_start a) <=? hi)%Z = (m_start a <=? Z.to_N hi)).
    { intros a. destruct (m_start a <=? Z.to_N hi) eqn:E.
      - apply N.leb_le in E. apply Z.leb_le. lia.
      - apply N.leb_gt in E. apply Z.leb_gt. lia. }
    rewrite (filter_ext_in_local _ (in_range_N start (Z.to_N hi))).
    2:{ intros a _. unfold in_range_N. rewrite Hstart, Hend. reflexivity. }
    destruct (ml_search l start) as [b i] eqn:E.
    destruct (search_split_sorted _ _ _ _ Hs E) as [l1 [l2 [H1 [H2 [H3 [H4 _]]]]]].
    subst l i. rewrite skipn_app, skipn_all, Nat.sub_diag. cbn [skipn app].
    rewrite filter_app. rewrite (filter_none _ l1).
    2:{ intros a Ha. unfold in_range_N. pose proof (all_lt_In _ _ _ H3 Ha).
        apply andb_false_iff. left. apply N.leb_gt. assumption. }
    cbn [app]. apply count_while_sorted; [|exact H4].
    apply sorted_app in Hs. tauto.
Qed.

Example matches_in_range_ex :
  ml_matches_in_range [mkM 1 2 None; mkM 3 4 None; mkM 7 9 None; mkM 8 9 None] (-5) 7 = 3%Z.
Proof. reflexivity. Qed.

(* ================================================================== the std binary search *)
(* ml_search_std transcribes core::slice::binary_search_by literally; on sorted lists it
   returns exactly what ml_search returns, so the proofs above apply to the real loop. *)

Lemma start_at_In l j : (j < length l)%nat -> exists x, In x l /\ start_at l j = m_start x.
Proof.
  intros H. unfold start_at. destruct (nth_error l j) as [x|] eqn:E.
  - exists x. split; [eapply nth_error_In; exact E|reflexivity].
  - apply nth_error_None in E. lia.
Qed.

Lemma start_at_cons_S a l j : start_at (a :: l) (S j) = start_at l j.
Proof. reflexivity. Qed.

Lemma start_at_app1 l1 l2 j : (j < length l1)%nat -> start_at (l1 ++ l2) j = start_at l1 j.
Proof. intros H. unfold start_at. rewrite nth_error_app1 by exact H. reflexivity. Qed.

Lemma start_at_app2 l1 l2 j : (length l1 <= j)%nat ->
  start_at (l1 ++ l2) j = start_at l2 (j - length l1).
Proof. intros H. unfold start_at. rewrite nth_error_app2 by exact H. reflexivity. Qed.

Lemma sorted_start_at_lt l : sorted l -> forall i j, (i < j)%nat -> (j < length l)%nat ->
  start_at l i < start_at l j.
Proof.
  induction l as [|a l IH]; intros Hs i j Hij Hj; [cbn [length] in Hj; lia|].
  apply sorted_cons_iff in Hs. destruct Hs as [Hs1 Hs2].
  destruct j as [|j]; [lia|]. cbn [length] in Hj. rewrite start_at_cons_S.
  destruct i as [|i].
  - destruct (start_at_In l j) as [x [Hx ->]]; [lia|].
    apply (all_gt_In _ _ _ Hs2 Hx).
  - rewrite start_at_cons_S. apply IH; [exact Hs1|lia|lia].
Qed.

Lemma sorted_start_at_le l : sorted l -> forall i j, (i <= j)%nat -> (j < length l)%nat ->
  start_at l i <= start_at l j.
Proof.
  intros Hs i j Hij Hj. destruct (Nat.eq_dec i j) as [->|Hne]; [lia|].
  pose proof (sorted_start_at_lt l Hs i j). lia.
Qed.

(* ml_search's answer in index form *)
Lemma search_index_form l off b i : sorted l -> ml_search l off = (b, i) ->
  (i <= length l)%nat /\
  (forall j, (j < i)%nat -> start_at l j < off) /\
  (forall j, (i <= j)%nat -> (j < length l)%nat -> off <= start_at l j) /\
  (b = true <-> (i < length l)%nat /\ start_at l i = off).
Proof.
  intros Hs H.
  destruct (search_split_sorted _ _ _ _ Hs H) as [l1 [l2 [H1 [H2 [H3 [H4 H5]]]]]].
  subst l i. rewrite app_length. split; [lia|]. split; [|split].
  - intros j Hj. rewrite start_at_app1 by exact Hj.
    destruct (start_at_In l1 j Hj) as [x [Hx ->]]. apply (all_lt_In _ _ _ H3 Hx).
  - intros j Hj1 Hj2. rewrite start_at_app2 by exact Hj1.
    destruct (start_at_In l2 (j - length l1)) as [x [Hx ->]]; [lia|].
    rewrite Forall_forall in H4. apply H4. exact Hx.
  - rewrite start_at_app2 by lia. rewrite Nat.sub_diag.
    destruct l2 as [|x l2].
    + subst b. cbn [length]. split; [discriminate|]. intros [Hlt _]. lia.
    + subst b. unfold start_at. cbn [nth_error length]. rewrite N.eqb_eq.
      split; [intros ->; split; [lia|reflexivity]|tauto].
Qed.

Lemma div2_bounds n : (2 * Nat.div2 n <= n <= 2 * Nat.div2 n + 1)%nat.
Proof.
  pose proof (Nat.div2_odd n) as H. destruct (Nat.odd n); cbn [Nat.b2n] in H; lia.
Qed.

(* loop invariant of binary_search_by *)
Definition bs_inv (l : match_list) (off : N) (base size : nat) : Prop :=
  (1 <= size)%nat /\ (base + size <= length l)%nat /\
  (base = O \/ start_at l base <= off) /\
  (forall j, (base + size <= j)%nat -> (j < length l)%nat -> off < start_at l j).

Lemma bs_loop_inv l off : sorted l -> forall fuel base size,
  (size <= fuel)%nat -> bs_inv l off base size ->
  bs_inv l off (bs_loop fuel l off base size) 1.
Proof.
  intros Hs. induction fuel as [|fuel IH]; intros base size Hf Hinv.
  - destruct Hinv as [H1 _]. lia.
  - cbn [bs_loop]. destruct (Nat.ltb 1 size) eqn:E.
    + apply Nat.ltb_lt in E. pose proof (div2_bounds size) as Hd.
      destruct Hinv as [H1 [H2 [H3 H4]]].
      apply IH; [lia|].
      destruct (off <? start_at l (base + Nat.div2 size)) eqn:Ec.
      * (* Greater: keep base *)
        apply N.ltb_lt in Ec. unfold bs_inv. repeat split; [lia|lia|exact H3|].
        intros j Hj1 Hj2.
        pose proof (sorted_start_at_le l Hs (base + Nat.div2 size) j) as Hle.
        assert (start_at l (base + Nat.div2 size) <= start_at l j) by (apply Hle; lia). lia.
      * (* Less or Equal: base := mid *)
        apply N.ltb_ge in Ec. unfold bs_inv. repeat split; [lia|lia|right; exact Ec|].
        intros j Hj1 Hj2. apply H4; lia.
    + apply Nat.ltb_ge in E. destruct Hinv as [H1 [H2 [H3 H4]]].
      assert (size = 1)%nat by lia. subst size. unfold bs_inv. repeat split; try assumption; lia.
Qed.

Lemma list_eq_dec_nil (l : match_list) : l = [] \/ l <> [].
Proof. destruct l; [left; reflexivity|right; discriminate]. Qed.

Lemma ml_search_std_nonempty l off : l <> [] ->
  ml_search_std l off =
  (if start_at l (bs_loop (length l) l off O (length l)) =? off
   then (true, bs_loop (length l) l off O (length l))
   else (false, if start_at l (bs_loop (length l) l off O (length l)) <? off
                then S (bs_loop (length l) l off O (length l))
                else bs_loop (length l) l off O (length l))).
Proof. destruct l; [congruence|reflexivity]. Qed.

Theorem search_std_eq : forall l off, sorted l -> ml_search_std l off = ml_search l off.
Proof.
  intros l off Hs. destruct (list_eq_dec_nil l) as [->|Hne]; [reflexivity|].
  rewrite ml_search_std_nonempty by exact Hne.
  assert (Hn : (1 <= length l)%nat) by (destruct l; [congruence|cbn [length]; lia]).
  pose proof (bs_loop_inv l off Hs (length l) O (length l)) as Hinv.
  assert (Hi : bs_inv l off (bs_loop (length l) l off 0 (length l)) 1).
  { apply Hinv; [lia|]. unfold bs_inv. repeat split; [lia|lia|left; reflexivity|].
    intros j Hj1 Hj2. lia. }
  clear Hinv. set (base := bs_loop (length l) l off 0 (length l)) in *.
  destruct Hi as [_ [Hb1 [Hb2 Hb3]]].
  destruct (ml_search l off) as [b i] eqn:E.
  destruct (search_index_form _ _ _ _ Hs E) as [Hi1 [Hi2 [Hi3 Hi4]]].
  destruct (start_at l base =? off) eqn:E1.
  - (* Equal -> Ok(base) *)
    apply N.eqb_eq in E1.
    assert (base = i).
    { destruct (Nat.lt_trichotomy base i) as [Hlt|[Heq|Hgt]]; [|exact Heq|].
      - pose proof (Hi2 base Hlt). lia.
      - pose proof (Hi3 i (Nat.le_refl i)) as H1.
        pose proof (sorted_start_at_lt l Hs i base Hgt). lia. }
    subst i. f_equal. symmetry. apply Hi4. split; [lia|exact E1].
  - apply N.eqb_neq in E1. destruct (start_at l base <? off) eqn:E2.
    + (* Less -> Err(base + 1) *)
      apply N.ltb_lt in E2.
      assert (i = S base).
      { destruct (Nat.lt_trichotomy i (S base)) as [Hlt|[Heq|Hgt]]; [|exact Heq|].
        - pose proof (Hi3 base). lia.
        - pose proof (Hi2 (S base) Hgt). pose proof (Hb3 (S base)). lia. }
      subst i. f_equal. destruct b; [|reflexivity].
      destruct Hi4 as [Hi4 _]. destruct (Hi4 eq_refl) as [Hlt Heq].
      pose proof (Hb3 (S base)). lia.
    + (* Greater -> Err(base), and then base = 0 *)
      apply N.ltb_ge in E2. assert (base = O) by (destruct Hb2; [assumption|lia]).
      assert (i = O).
      { destruct i as [|i]; [reflexivity|]. pose proof (Hi2 O). rewrite H in *. lia. }
      subst i. rewrite H in *. f_equal. destruct b; [|reflexivity].
      destruct Hi4 as [Hi4 _]. destruct (Hi4 eq_refl) as [Hlt Heq]. lia.
Qed.

Example search_std_ex :
  ml_search_std [mkM 1 2 None; mkM 3 4 None; mkM 5 6 None; mkM 7 8 None; mkM 9 9 None] 6
  = (false, 3%nat).
Proof. reflexivity. Qed.

(* ================================================================== histories of add *)

Lemma adds_true_snoc ms m : adds_true (ms ++ [m]) = fst (ml_add (adds_true ms) m true).
Proof. unfold adds_true. rewrite fold_left_app. reflexivity. Qed.

Lemma run_adds_snoc ops o :
  run_adds (ops ++ [o]) = fst (ml_add (run_adds ops) (fst o) (snd o)).
Proof. unfold run_adds. rewrite fold_left_app. reflexivity. Qed.

Lemma adds_true_as_run ms : adds_true ms = run_adds (map (fun m => (m, true)) ms).
Proof.
  induction ms as [|m ms IH] using rev_ind; [reflexivity|].
  rewrite map_app. cbn [map]. rewrite adds_true_snoc, run_adds_snoc, IH. reflexivity.
Qed.

(* every list reachable from the empty one through add is sorted *)
Theorem run_adds_sorted : forall ops, sorted (run_adds ops).
Proof.
  induction ops as [|o ops IH] using rev_ind; [apply sorted_nil|].
  rewrite run_adds_snoc. apply add_sorted. exact IH.
Qed.

Lemma adds_true_sorted ms : sorted (adds_true ms).
Proof. rewrite adds_true_as_run. apply run_adds_sorted. Qed.

Lemma adds_true_starts ms s : In s (starts (adds_true ms)) <-> In s (starts ms).
Proof.
  induction ms as [|m ms IH] using rev_ind; [reflexivity|].
  rewrite adds_true_snoc. unfold starts at 1.
  rewrite (add_start_set _ m true s (adds_true_sorted ms)).
  rewrite starts_app. cbn [starts map]. rewrite in_app_iff. cbn [In].
  fold (starts (adds_true ms)). rewrite IH. split; intros H; intuition auto.
Qed.

Lemma ends_for_snoc s ms m :
  ends_for s (ms ++ [m]) = ends_for s ms ++ (if m_start m =? s then [m_end m] else []).
Proof.
  unfold ends_for. rewrite filter_app, map_app. cbn [filter].
  destruct (m_start m =? s); reflexivity.
Qed.

Lemma ends_for_app s ms1 ms2 : ends_for s (ms1 ++ ms2) = ends_for s ms1 ++ ends_for s ms2.
Proof. unfold ends_for. rewrite filter_app, map_app. reflexivity. Qed.

Lemma ends_for_absent s ms : ~ In s (starts ms) -> ends_for s ms = [].
Proof.
  intros H. unfold ends_for. rewrite filter_none; [reflexivity|].
  intros a Ha. apply N.eqb_neq. intros He. apply H. unfold starts. apply in_map_iff.
  exists a. split; assumption.
Qed.

Lemma max_list_snoc a e : max_list (a ++ [e]) = N.max (max_list a) e.
Proof.
  unfold max_list. induction a as [|x a IH]; cbn [app fold_right]; [lia|]. rewrite IH. lia.
Qed.

(* The property as one would expect it from the doc comment of MatchList::add
   ("the old match will be replaced if the new one is longer"): after any sequence
   of add(_, true) from the empty list, the stored end for each start is the maximum
   of the ends that were added for that start. *)
Definition add_keeps_longest : Prop :=
  forall ms x, In x (adds_true ms) -> m_end x = max_list (ends_for (m_start x) ms).

(* TRUE since commit a09b6a08 (both arms compare; before, the arm for the LAST match of
   the list overwrote the end without comparing and the property was refuted by
   add(1..15, true); add(1..10, true)). *)
Theorem add_keeps_longest_holds : add_keeps_longest.
Proof.
  intros ms. induction ms as [|m ms IH] using rev_ind; intros x Hin; [destruct Hin|].
  rewrite adds_true_snoc in Hin. rewrite ends_for_snoc.
  destruct (N.eq_dec (m_start x) (m_start m)) as [He|Hne].
  - rewrite He, N.eqb_refl, max_list_snoc.
    destruct (add_true_result_end _ m x (adds_true_sorted ms) Hin He) as [[Hn H1]|[x0 [Hx0 [Hs0 H1]]]].
    + rewrite adds_true_starts in Hn. rewrite (ends_for_absent _ _ Hn). unfold max_list. cbn [fold_right]. lia.
    + pose proof (IH x0 Hx0) as H2. rewrite Hs0 in H2. rewrite <- H2. exact H1.
  - replace (m_start m =? m_start x) with false by (symmetry; apply N.eqb_neq; congruence).
    rewrite app_nil_r. apply IH.
    apply (add_no_other_matches_created _ m true x (adds_true_sorted ms) Hin Hne).
Qed.

(* the sequence that used to show the two arms disagreeing *)
Example add_arms_agree :
  adds_true [mkM 1 15 None; mkM 1 10 None] = [mkM 1 15 None] /\
  adds_true [mkM 1 15 None; mkM 2 3 None; mkM 1 10 None] = [mkM 1 15 None; mkM 2 3 None].
Proof. split; reflexivity. Qed.

(* (kept from the time the property needed a guard) *)
Definition nondecreasing_end (ms : list mtch) : Prop :=
  forall ms1 m ms2 x, ms = ms1 ++ m :: ms2 ->
    In x (adds_true ms1) -> m_start x = m_start m -> m_end x <= m_end m.

Theorem add_keeps_longest_if_nondecreasing_end : forall ms x,
  nondecreasing_end ms -> In x (adds_true ms) ->
  m_end x = max_list (ends_for (m_start x) ms).
Proof. intros ms x _ Hin. apply add_keeps_longest_holds. exact Hin. Qed.

(* Unconditionally (either value of replace_if_longer at each step): the end stored for a
   start is one of the ends that were added for that start. *)
Theorem add_end_is_one_of_added : forall ops y,
  In y (run_adds ops) -> In (m_end y) (ends_for (m_start y) (map fst ops)).
Proof.
  induction ops as [|[m r] ops IH] using rev_ind; intros y Hin; [destruct Hin|].
  rewrite run_adds_snoc in Hin. cbn [fst snd] in Hin.
  rewrite map_app. cbn [map fst]. rewrite ends_for_snoc. apply in_app_iff.
  destruct (add_result_end _ m r y (run_adds_sorted ops) Hin) as [[H1 H2]|[x [Hx [H1 H2]]]].
  - right. rewrite H1, N.eqb_refl, H2. left. reflexivity.
  - left. rewrite <- H1, <- H2. apply IH. exact Hx.
Qed.

(* The guard phrased on the input alone: for every start, the ends arrive in
   non-decreasing order. *)
Definition ends_arrive_nondecreasing (ms : list mtch) : Prop :=
  forall s, StronglySorted N.le (ends_for s ms).

Lemma StronglySorted_app_mid {A} (R : A -> A -> Prop) l1 b l2 :
  StronglySorted R (l1 ++ b :: l2) -> Forall (fun a => R a b) l1.
Proof.
  induction l1 as [|a l1 IH]; cbn [app]; intros H; [constructor|].
  apply StronglySorted_inv in H. destruct H as [H1 H2]. constructor.
  - rewrite Forall_forall in H2. apply H2. apply in_app_iff. right. left. reflexivity.
  - apply IH. exact H1.
Qed.

Lemma ends_arrive_nondecreasing_guard ms : ends_arrive_nondecreasing ms -> nondecreasing_end ms.
Proof.
  intros H ms1 m ms2 x Heq Hin Hs.
  specialize (H (m_start m)). rewrite Heq in H. rewrite ends_for_app in H.
  unfold ends_for at 2 in H. cbn [filter] in H. rewrite N.eqb_refl in H. cbn [map] in H.
  apply StronglySorted_app_mid in H. rewrite Forall_forall in H. apply H.
  rewrite <- Hs. rewrite adds_true_as_run in Hin.
  pose proof (add_end_is_one_of_added _ _ Hin) as H1.
  rewrite map_map in H1. cbn [fst] in H1. rewrite map_id in H1. exact H1.
Qed.

Corollary add_keeps_longest_if_ends_sorted : forall ms x,
  ends_arrive_nondecreasing ms -> In x (adds_true ms) ->
  m_end x = max_list (ends_for (m_start x) ms).
Proof.
  intros ms x H. apply add_keeps_longest_if_nondecreasing_end.
  apply ends_arrive_nondecreasing_guard. exact H.
Qed.

(* the guards are satisfiable with a genuine replacement (1..10 then 1..15) *)
Example ends_arrive_nondecreasing_ex :
  ends_arrive_nondecreasing [mkM 1 10 None; mkM 2 3 None; mkM 1 15 None].
Proof.
  intros s. unfold ends_for. cbn [filter map m_start m_end].
  destruct (N.eqb_spec 1 s); destruct (N.eqb_spec 2 s); cbn [map m_end];
    repeat first [lia | constructor].
Qed.

Example nondecreasing_end_ex : nondecreasing_end [mkM 1 10 None; mkM 2 3 None; mkM 1 15 None].
Proof. apply ends_arrive_nondecreasing_guard. apply ends_arrive_nondecreasing_ex. Qed.

(* ================================================================== PatternMatches *)

Definition entry := (N * (match_list * N))%type.

Fixpoint cap_sum (es : list entry) : Z :=
  match es with
  | [] => 0%Z
  | e :: t => (Z.of_N (snd (snd e)) + cap_sum t)%Z
  end.

(* the `capacity` counter is the sum of the capacities of the per-pattern Vecs *)
Definition pm_cap_ok (p : pmatches) : Prop := pm_capacity p = cap_sum (pm_entries p).

(* a property of every per-pattern list *)
Definition pm_all (P : match_list -> Prop) (p : pmatches) : Prop :=
  Forall (fun e : entry => P (fst (snd e))) (pm_entries p).

Lemma cap_sum_nonneg es : (0 <= cap_sum es)%Z.
Proof. induction es as [|e es IH]; cbn [cap_sum]; lia. Qed.

Lemma cap_sum_replace es pid l cap v :
  pm_lookup es pid = Some (l, cap) ->
  cap_sum (pm_replace es pid v) = (cap_sum es - Z.of_N cap + Z.of_N (snd v))%Z.
Proof.
  induction es as [|[k v0] es IH]; cbn [pm_lookup pm_replace]; [discriminate|].
  destruct (k =? pid).
  - intros H. inversion H; subst. cbn [cap_sum snd]. lia.
  - intros H. cbn [cap_sum snd]. rewrite (IH H). lia.
Qed.

Lemma cap_sum_lookup_le es pid l cap :
  pm_lookup es pid = Some (l, cap) -> (Z.of_N cap <= cap_sum es)%Z.
Proof.
  induction es as [|[k v0] es IH]; cbn [pm_lookup]; [discriminate|].
  destruct (k =? pid).
  - intros H. inversion H; subst. cbn [cap_sum snd]. pose proof (cap_sum_nonneg es). lia.
  - intros H. cbn [cap_sum snd]. pose proof (IH H). lia.
Qed.

Lemma cap_sum_clear es :
  cap_sum (map (fun e : entry => (fst e, ([] : match_list, snd (snd e)))) es) = cap_sum es.
Proof. induction es as [|e es IH]; cbn [map cap_sum snd]; [reflexivity|]. rewrite IH. reflexivity. Qed.

Lemma lookup_all (Q : match_list * N -> Prop) es pid v :
  Forall (fun e : entry => Q (snd e)) es -> pm_lookup es pid = Some v -> Q v.
Proof.
  induction es as [|[k v0] es IH]; cbn [pm_lookup]; [discriminate|].
  intros H. inversion H; subst. destruct (k =? pid).
  - intros E. inversion E; subst. assumption.
  - apply IH. assumption.
Qed.

Lemma replace_all (Q : match_list * N -> Prop) es pid v :
  Forall (fun e : entry => Q (snd e)) es -> Q v ->
  Forall (fun e : entry => Q (snd e)) (pm_replace es pid v).
Proof.
  induction es as [|[k v0] es IH]; cbn [pm_replace]; intros H Hv; [constructor|].
  inversion H; subst. destruct (k =? pid); constructor; try assumption.
  apply IH; assumption.
Qed.

Lemma lookup_replace_same es pid v0 v :
  pm_lookup es pid = Some v0 -> pm_lookup (pm_replace es pid v) pid = Some v.
Proof.
  induction es as [|[k w] es IH]; cbn [pm_lookup pm_replace]; [discriminate|].
  destruct (k =? pid) eqn:E; cbn [pm_lookup]; rewrite E; [reflexivity|exact IH].
Qed.

Lemma lookup_replace_other es pid pid' v :
  pid' <> pid -> pm_lookup (pm_replace es pid v) pid' = pm_lookup es pid'.
Proof.
  intros Hne. induction es as [|[k w] es IH]; cbn [pm_lookup pm_replace]; [reflexivity|].
  destruct (k =? pid) eqn:E; cbn [pm_lookup].
  - apply N.eqb_eq in E. subst k.
    replace (pid =? pid') with false by (symmetry; apply N.eqb_neq; congruence). reflexivity.
  - rewrite IH. reflexivity.
Qed.

(* MatchList::with_capacity(8) followed by one push does not reallocate.  This is where the
   generated constant matters: `self.capacity += matches.capacity()` is executed BEFORE the
   add in the Vacant arm, so with an initial capacity of 0 the counter would be stale. *)
Lemma vec_grow_initial : vec_grow initial_list_capacity 0 = initial_list_capacity.
Proof. reflexivity. Qed.

Lemma ml_add_nil m r : ml_add [] m r = ([m], true).
Proof. reflexivity. Qed.

(* ------------------------------------------------------------ the three arms of add *)

Definition occupied_result (p : pmatches) (pid : N) (l : match_list) (cap : N) (m : mtch) (r : bool)
  : pmatches * add_result :=
  let cap' := if snd (ml_add l m r) then vec_grow cap (len_N l) else cap in
  (mkPM (pm_replace (pm_entries p) pid (fst (ml_add l m r), cap')) (pm_max p)
        (pm_capacity p - Z.of_N cap + Z.of_N cap')%Z,
   if snd (ml_add l m r) then Inserted (len_N (fst (ml_add l m r))) else Updated).

Lemma pm_add_occupied p pid m r l cap :
  pm_lookup (pm_entries p) pid = Some (l, cap) -> len_N l < pm_max p ->
  pm_add p pid m r = occupied_result p pid l cap m r.
Proof.
  intros H1 H2. unfold pm_add, occupied_result. rewrite H1.
  replace (len_N l <? pm_max p) with true by (symmetry; apply N.ltb_lt; exact H2).
  destruct (ml_add l m r) as [l' ins]. reflexivity.
Qed.

Lemma pm_add_full p pid m r l cap :
  pm_lookup (pm_entries p) pid = Some (l, cap) -> pm_max p <= len_N l ->
  pm_add p pid m r = (p, MaxMatchesReached).
Proof.
  intros H1 H2. unfold pm_add. rewrite H1.
  replace (len_N l <? pm_max p) with false by (symmetry; apply N.ltb_ge; exact H2).
  reflexivity.
Qed.

Lemma pm_add_vacant p pid m r :
  pm_lookup (pm_entries p) pid = None ->
  pm_add p pid m r =
  (mkPM ((pid, ([m], initial_list_capacity)) :: pm_entries p) (pm_max p)
        (pm_capacity p + Z.of_N initial_list_capacity)%Z, Inserted 1).
Proof.
  intros H1. unfold pm_add. rewrite H1. rewrite ml_add_nil. rewrite vec_grow_initial. reflexivity.
Qed.

(* case analysis used by every theorem below *)
Lemma pm_add_cases p pid m r :
  (exists l cap, pm_lookup (pm_entries p) pid = Some (l, cap) /\ len_N l < pm_max p /\
                 pm_add p pid m r = occupied_result p pid l cap m r) \/
  (exists l cap, pm_lookup (pm_entries p) pid = Some (l, cap) /\ pm_max p <= len_N l /\
                 pm_add p pid m r = (p, MaxMatchesReached)) \/
  (pm_lookup (pm_entries p) pid = None /\
   pm_add p pid m r =
   (mkPM ((pid, ([m], initial_list_capacity)) :: pm_entries p) (pm_max p)
         (pm_capacity p + Z.of_N initial_list_capacity)%Z, Inserted 1)).
Proof.
  destruct (pm_lookup (pm_entries p) pid) as [[l cap]|] eqn:E.
  - destruct (N.lt_ge_cases (len_N l) (pm_max p)) as [H|H].
    + left. exists l, cap. split; [reflexivity|]. split; [exact H|].
      apply pm_add_occupied; assumption.
    + right. left. exists l, cap. split; [reflexivity|]. split; [exact H|].
      eapply pm_add_full; eassumption.
  - right. right. split; [reflexivity|]. apply pm_add_vacant. exact E.
Qed.

(* ------------------------------------------------------------ MaxMatchesReached *)

Theorem pm_add_max_reached_unchanged : forall p pid m r,
  snd (pm_add p pid m r) = MaxMatchesReached -> fst (pm_add p pid m r) = p.
Proof.
  intros p pid m r.
  destruct (pm_add_cases p pid m r) as [[l [cap [_ [_ ->]]]]|[[l [cap [_ [_ ->]]]]|[_ ->]]].
  - unfold occupied_result. cbn [snd]. destruct (snd (ml_add l m r)); discriminate.
  - reflexivity.
  - cbn [snd]. discriminate.
Qed.

Theorem pm_add_max_reached_iff : forall p pid m r,
  snd (pm_add p pid m r) = MaxMatchesReached <->
  exists l, pm_get p pid = Some l /\ pm_max p <= len_N l.
Proof.
  intros p pid m r. unfold pm_get.
  destruct (pm_add_cases p pid m r) as [[l [cap [H1 [H2 ->]]]]|[[l [cap [H1 [H2 ->]]]]|[H1 ->]]];
    rewrite H1.
  - unfold occupied_result. cbn [snd]. split.
    + destruct (snd (ml_add l m r)); discriminate.
    + intros [l0 [E H3]]. inversion E; subst. lia.
  - cbn [snd]. split; [intros _|reflexivity]. exists l. split; [reflexivity|exact H2].
  - cbn [snd]. split; [discriminate|]. intros [l0 [E _]]. discriminate.
Qed.

(* the premise is satisfiable: limit 1, second distinct match for the same pattern *)
Example pm_add_max_reached_ex :
  let p := fst (pm_add (pm_set_max pm_new 1) 7 (mkM 1 2 None) false) in
  snd (pm_add p 7 (mkM 3 4 None) false) = MaxMatchesReached.
Proof. reflexivity. Qed.

(* ------------------------------------------------------------ capacity counter *)

Lemma pm_cap_ok_new : pm_cap_ok pm_new.
Proof. reflexivity. Qed.

Lemma pm_cap_ok_set_max p n : pm_cap_ok p -> pm_cap_ok (pm_set_max p n).
Proof. intros H. exact H. Qed.

Lemma pm_cap_ok_add p pid m r : pm_cap_ok p -> pm_cap_ok (fst (pm_add p pid m r)).
Proof.
  unfold pm_cap_ok. intros H.
  destruct (pm_add_cases p pid m r) as [[l [cap [H1 [H2 ->]]]]|[[l [cap [H1 [H2 ->]]]]|[H1 ->]]].
  - unfold occupied_result. cbn [fst pm_capacity pm_entries].
    rewrite (cap_sum_replace _ _ _ _ _ H1). cbn [snd]. rewrite H. reflexivity.
  - exact H.
  - cbn [fst pm_capacity pm_entries cap_sum snd]. rewrite H. lia.
Qed.

Lemma pm_cap_ok_clear p : pm_cap_ok p -> pm_cap_ok (pm_clear p).
Proof.
  unfold pm_cap_ok, pm_clear. intros H.
  destruct (Z.of_N clear_capacity_threshold <? pm_capacity p)%Z; cbn [pm_capacity pm_entries].
  - reflexivity.
  - rewrite cap_sum_clear. exact H.
Qed.

(* pm_capacity = sum of the entries' Vec capacities is preserved by every operation;
   in particular the usize counter never goes below zero *)
Theorem pm_capacity_inv : forall p, pm_cap_ok p ->
  (forall pid m r, pm_cap_ok (fst (pm_add p pid m r))) /\
  pm_cap_ok (pm_clear p) /\
  (forall n, pm_cap_ok (pm_set_max p n)) /\
  (0 <= pm_capacity p)%Z.
Proof.
  intros p H. split; [|split; [|split]].
  - intros pid m r. apply pm_cap_ok_add. exact H.
  - apply pm_cap_ok_clear. exact H.
  - intros n. apply pm_cap_ok_set_max. exact H.
  - rewrite H. apply cap_sum_nonneg.
Qed.

(* the intermediate `self.capacity -= matches.capacity()` does not underflow either *)
Theorem pm_add_no_underflow : forall p pid l cap,
  pm_cap_ok p -> pm_lookup (pm_entries p) pid = Some (l, cap) ->
  (0 <= pm_capacity p - Z.of_N cap)%Z.
Proof.
  intros p pid l cap H H1. rewrite H. pose proof (cap_sum_lookup_le _ _ _ _ H1). lia.
Qed.

Lemma pm_cap_ok_step p o : pm_cap_ok p -> pm_cap_ok (pm_step p o).
Proof.
  destruct o as [pid m r|]; cbn [pm_step]; [apply pm_cap_ok_add|apply pm_cap_ok_clear].
Qed.

Theorem pm_capacity_inv_run : forall mx ops,
  pm_cap_ok (pm_run (pm_set_max pm_new mx) ops) /\
  (0 <= pm_capacity (pm_run (pm_set_max pm_new mx) ops))%Z.
Proof.
  intros mx ops.
  assert (H : pm_cap_ok (pm_run (pm_set_max pm_new mx) ops)).
  { unfold pm_run. induction ops as [|o ops IH] using rev_ind; [reflexivity|].
    rewrite fold_left_app. cbn [fold_left]. apply pm_cap_ok_step. exact IH. }
  split; [exact H|]. rewrite H. apply cap_sum_nonneg.
Qed.

Example pm_cap_ok_ex :
  pm_cap_ok (pm_run pm_new [OpAdd 1 (mkM 1 2 None) false; OpAdd 1 (mkM 0 2 None) true; OpAdd 2 (mkM 5 6 None) false]).
Proof. reflexivity. Qed.

(* ------------------------------------------------------------ lists stay sorted *)

Lemma pm_all_add (P : match_list -> Prop) p pid m r :
  (forall l, P l -> P (fst (ml_add l m r))) -> P [m] ->
  pm_all P p -> pm_all P (fst (pm_add p pid m r)).
Proof.
  unfold pm_all. intros Hstep Hone H.
  destruct (pm_add_cases p pid m r) as [[l [cap [H1 [H2 ->]]]]|[[l [cap [H1 [H2 ->]]]]|[H1 ->]]].
  - unfold occupied_result. cbn [fst pm_entries].
    apply (replace_all (fun v => P (fst v))); [exact H|]. cbn [fst]. apply Hstep.
    apply (lookup_all (fun v => P (fst v)) _ _ _ H H1).
  - exact H.
  - cbn [fst pm_entries]. constructor; [exact Hone|exact H].
Qed.

Lemma pm_all_clear (P : match_list -> Prop) p : P [] -> pm_all P p -> pm_all P (pm_clear p).
Proof.
  unfold pm_all, pm_clear. intros Hnil H.
  destruct (Z.of_N clear_capacity_threshold <? pm_capacity p)%Z; cbn [pm_entries]; [constructor|].
  apply Forall_map. eapply Forall_impl; [|exact H]. intros e _. exact Hnil.
Qed.

Theorem pm_add_sorted : forall p pid m r,
  pm_all sorted p -> pm_all sorted (fst (pm_add p pid m r)).
Proof.
  intros p pid m r. apply pm_all_add.
  - intros l. apply add_sorted.
  - apply (add_sorted [] m r sorted_nil).
Qed.

Theorem pm_clear_sorted : forall p, pm_all sorted p -> pm_all sorted (pm_clear p).
Proof. intros p. apply pm_all_clear. apply sorted_nil. Qed.

Lemma pm_step_sorted p o : pm_all sorted p -> pm_all sorted (pm_step p o).
Proof.
  destruct o as [pid m r|]; cbn [pm_step]; [apply pm_add_sorted|apply pm_clear_sorted].
Qed.

Theorem pm_run_sorted : forall mx ops, pm_all sorted (pm_run (pm_set_max pm_new mx) ops).
Proof.
  intros mx ops. unfold pm_run. induction ops as [|o ops IH] using rev_ind; [constructor|].
  rewrite fold_left_app. cbn [fold_left]. apply pm_step_sorted. exact IH.
Qed.

Lemma pm_all_get (P : match_list -> Prop) p pid l : pm_all P p -> pm_get p pid = Some l -> P l.
Proof.
  unfold pm_all, pm_get. intros H.
  destruct (pm_lookup (pm_entries p) pid) as [[l0 c0]|] eqn:E; [|discriminate].
  intros E2. inversion E2; subst.
  apply (lookup_all (fun v => P (fst v)) _ _ _ H E).
Qed.

Example pm_all_sorted_ex : pm_all sorted (pm_set_max pm_new 5).
Proof. constructor. Qed.

(* ------------------------------------------------------------ the limit *)

Lemma pm_step_max p o : pm_max (pm_step p o) = pm_max p.
Proof.
  destruct o as [pid m r|]; cbn [pm_step].
  - destruct (pm_add_cases p pid m r) as [[l [cap [H1 [H2 ->]]]]|[[l [cap [H1 [H2 ->]]]]|[H1 ->]]];
      reflexivity.
  - unfold pm_clear. destruct (Z.of_N clear_capacity_threshold <? pm_capacity p)%Z; reflexivity.
Qed.

Definition within (mx : N) (l : match_list) : Prop := sorted l /\ len_N l <= N.max mx 1.

Lemma pm_step_within p o : pm_all (within (pm_max p)) p -> pm_all (within (pm_max p)) (pm_step p o).
Proof.
  destruct o as [pid m r|]; cbn [pm_step].
  - unfold pm_all. intros H.
    destruct (pm_add_cases p pid m r) as [[l [cap [H1 [H2 ->]]]]|[[l [cap [H1 [H2 ->]]]]|[H1 ->]]].
    + unfold occupied_result. cbn [fst pm_entries].
      apply (replace_all (fun v => within (pm_max p) (fst v))); [exact H|]. cbn [fst].
      pose proof (lookup_all (fun v => within (pm_max p) (fst v)) _ _ _ H H1) as [Hs Hl].
      cbn [fst] in Hs, Hl. split; [apply add_sorted; exact Hs|].
      pose proof (add_len l m r Hs) as Hlen. unfold len_N in *.
      destruct (snd (ml_add l m r)); rewrite Hlen; lia.
    + exact H.
    + cbn [fst pm_entries]. constructor; [|exact H]. cbn [fst snd]. split.
      * apply (add_sorted [] m r sorted_nil).
      * unfold len_N. cbn [length]. lia.
  - apply pm_all_clear. split; [apply sorted_nil|]. unfold len_N. cbn [length]. lia.
Qed.

(* With a fixed limit mx, starting from PatternMatches::new().max_matches_per_pattern(mx),
   after any sequence of add / clear no list is longer than max(mx, 1).
   (max(mx,1) and not mx: the Vacant arm has no limit check, see pm_add_limit_zero_refuted.) *)
Theorem pm_add_limit : forall mx ops,
  pm_all (fun l => len_N l <= N.max mx 1) (pm_run (pm_set_max pm_new mx) ops).
Proof.
  intros mx ops.
  assert (H : pm_max (pm_run (pm_set_max pm_new mx) ops) = mx /\
              pm_all (within mx) (pm_run (pm_set_max pm_new mx) ops)).
  { unfold pm_run. induction ops as [|o ops IH] using rev_ind.
    - split; [reflexivity|constructor].
    - rewrite fold_left_app. cbn [fold_left]. destruct IH as [IH1 IH2]. split.
      + rewrite pm_step_max. exact IH1.
      + pose proof (pm_step_within (fold_left pm_step ops (pm_set_max pm_new mx)) o) as Hw.
        rewrite IH1 in Hw. apply Hw. exact IH2. }
  destruct H as [_ H]. unfold pm_all in *. eapply Forall_impl; [|exact H].
  intros e [_ He]. exact He.
Qed.

Corollary pm_add_limit_get : forall mx ops pid l,
  pm_get (pm_run (pm_set_max pm_new mx) ops) pid = Some l -> len_N l <= N.max mx 1.
Proof.
  intros mx ops pid l H.
  apply (pm_all_get (fun l => len_N l <= N.max mx 1) _ _ _ (pm_add_limit mx ops) H).
Qed.

(* "never exceeds the configured limit" is FALSE for limit 0: the first match of a pattern
   goes through the Vacant arm, which does not look at max_matches_per_pattern. *)
Theorem pm_add_limit_zero_refuted :
  exists mx ops pid l, pm_get (pm_run (pm_set_max pm_new mx) ops) pid = Some l /\ mx < len_N l.
Proof.
  exists 0, [OpAdd 3 (mkM 1 2 None) false], 3, [mkM 1 2 None]. split; [reflexivity|].
  vm_compute. reflexivity.
Qed.

(* lowering the limit afterwards does not shrink the lists (why pm_add_limit fixes mx) *)
Example pm_set_max_lowering_ex :
  let p := pm_run pm_new [OpAdd 3 (mkM 1 2 None) false; OpAdd 3 (mkM 2 3 None) false] in
  pm_get (pm_set_max p 1) 3 = Some [mkM 1 2 None; mkM 2 3 None].
Proof. reflexivity. Qed.

(* ------------------------------------------------------------ results of add / get *)

Theorem pm_add_inserted_len : forall p pid m r n,
  snd (pm_add p pid m r) = Inserted n ->
  exists l', pm_get (fst (pm_add p pid m r)) pid = Some l' /\ len_N l' = n.
Proof.
  intros p pid m r n. unfold pm_get.
  destruct (pm_add_cases p pid m r) as [[l [cap [H1 [H2 ->]]]]|[[l [cap [H1 [H2 ->]]]]|[H1 ->]]].
  - unfold occupied_result. cbn [fst snd pm_entries].
    rewrite (lookup_replace_same _ _ _ _ H1).
    destruct (snd (ml_add l m r)); [|discriminate].
    intros E. inversion E; subst. exists (fst (ml_add l m r)). split; reflexivity.
  - cbn [snd]. discriminate.
  - cbn [fst snd pm_entries pm_lookup]. rewrite N.eqb_refl.
    intros E. inversion E; subst. exists [m]. split; reflexivity.
Qed.

Theorem pm_add_other_pid : forall p pid m r pid',
  pid' <> pid -> pm_get (fst (pm_add p pid m r)) pid' = pm_get p pid'.
Proof.
  intros p pid m r pid' Hne. unfold pm_get.
  destruct (pm_add_cases p pid m r) as [[l [cap [H1 [H2 ->]]]]|[[l [cap [H1 [H2 ->]]]]|[H1 ->]]].
  - unfold occupied_result. cbn [fst pm_entries]. rewrite lookup_replace_other by exact Hne.
    reflexivity.
  - reflexivity.
  - cbn [fst pm_entries pm_lookup].
    replace (pid =? pid') with false by (symmetry; apply N.eqb_neq; congruence). reflexivity.
Qed.

(* what add does to the list of the pattern it is called for *)
Theorem pm_add_same_pid : forall p pid m r,
  pm_get (fst (pm_add p pid m r)) pid =
  match pm_get p pid with
  | Some l => if len_N l <? pm_max p then Some (fst (ml_add l m r)) else Some l
  | None => Some [m]
  end.
Proof.
  intros p pid m r. unfold pm_get.
  destruct (pm_add_cases p pid m r) as [[l [cap [H1 [H2 ->]]]]|[[l [cap [H1 [H2 ->]]]]|[H1 ->]]].
  - unfold occupied_result. cbn [fst pm_entries]. rewrite (lookup_replace_same _ _ _ _ H1), H1.
    replace (len_N l <? pm_max p) with true by (symmetry; apply N.ltb_lt; exact H2). reflexivity.
  - cbn [fst]. rewrite H1.
    replace (len_N l <? pm_max p) with false by (symmetry; apply N.ltb_ge; exact H2). reflexivity.
  - cbn [fst pm_entries pm_lookup]. rewrite N.eqb_refl, H1. reflexivity.
Qed.

(* ================================================================== the Rust unit tests, replayed *)

(* matches.rs `fn match_list`: same calls, same expected vector *)
Example rust_test_match_list :
  map (fun x => (m_start x, m_end x))
      (run_adds [(mkM 2 10 None, false); (mkM 1 10 None, false); (mkM 1 15 None, true);
                 (mkM 4 10 None, false); (mkM 3 10 None, false); (mkM 5 10 None, false)])
  = [(1, 15); (2, 10); (3, 10); (4, 10); (5, 10)].
Proof. reflexivity. Qed.

(* premises of add_other_matches_kept / add_returns_true_iff_new are satisfiable, and the
   xor key of an updated match is the OLD one (only `end` is assigned) *)
Example add_update_keeps_key :
  ml_add [mkM 1 4 (Some 7); mkM 9 12 None] (mkM 1 6 (Some 200)) true
  = ([mkM 1 6 (Some 7); mkM 9 12 None], false).
Proof. reflexivity. Qed.

Example add_other_matches_kept_ex :
  let l := [mkM 1 4 (Some 7); mkM 9 12 None] in
  sorted l /\ In (mkM 9 12 None) l /\ m_start (mkM 9 12 None) <> m_start (mkM 1 6 None).
Proof.
  cbv zeta. split; [|split].
  - repeat constructor.
  - right. left. reflexivity.
  - discriminate.
Qed.
