(* Reference level (R): an executable matcher, by structural recursion on the
   regular expression.  [ends nc d r i] is the list of all j with
   [M nc d r i j] (MatcherProofs.ends_spec).

   Repetition: S_0 = {i}, S_(k+1) = step(S_k) are the positions reachable by
   exactly k iterations; the result is the union of the S_k with
   min <= k <= min(max, min + (|d| - i)).  Iterations that consume nothing can
   be dropped from any derivation, so no position needs more than
   min + (|d| - i) iterations: the fuel "remaining length (+ min)" is provably
   sufficient and no out-of-fuel result exists. *)
From Coq Require Import List NArith Bool Arith.
From YV Require Import Pat.Syntax Pat.Sem.
Import ListNotations.

Fixpoint memb (x : nat) (l : list nat) : bool :=
  match l with [] => false | y :: t => Nat.eqb x y || memb x t end.
Fixpoint dedup (l : list nat) : list nat :=
  match l with [] => [] | x :: t => if memb x t then dedup t else x :: dedup t end.

Definition flat_step (f : nat -> list nat) (s : list nat) : list nat :=
  dedup (flat_map f s).

(* positions reachable from the set s by exactly k steps *)
Fixpoint level (f : nat -> list nat) (k : nat) (s : list nat) : list nat :=
  match k with O => s | S k' => level f k' (flat_step f s) end.

(* s is the level number k; collect the levels k .. k+n that are >= mn *)
Fixpoint rep_levels (f : nat -> list nat) (n k mn : nat) (s : list nat) : list nat :=
  (if Nat.leb mn k then s else []) ++
  match n with
  | O => []
  | S n' => rep_levels f n' (S k) mn (flat_step f s)
  end.

(* f tabulated on i, i+1, .., i+n-1: the body of a repetition is evaluated once
   per position instead of once per position and level *)
Definition tabulate (f : nat -> list nat) (i n : nat) : nat -> list nat :=
  let tab := map f (seq i n) in
  fun x => if Nat.ltb x i then f x else nth (x - i) tab [].

Definition rep_bound (mn : nat) (mx : option nat) (remaining : nat) : nat :=
  match mx with
  | None => mn + remaining
  | Some m => Nat.min m (mn + remaining)
  end.

Fixpoint ends (nc : bool) (d : bytes) (r : re) (i : nat) : list nat :=
  match r with
  | REps => if Nat.leb i (length d) then [i] else []
  | RCls c => match nth_error d i with
              | Some b => if cls_match nc c b then [S i] else []
              | None => []
              end
  | RCat a b => dedup (flat_map (ends nc d b) (ends nc d a i))
  | RAlt a b => dedup (ends nc d a i ++ ends nc d b i)
  | RRep r' mn mx _ =>
      if Nat.leb i (length d)
      then let k := rep_bound mn mx (length d - i) in
           let f := if Nat.leb k 4 then ends nc d r'
                    else tabulate (ends nc d r') i (length d - i + 1) in
           dedup (rep_levels f k 0 mn [i])
      else []
  | RAssert a => if Nat.leb i (length d) && assert_holds a d i then [i] else []
  end.

(* does r match d[i..j) *)
Definition matches_b (nc : bool) (d : bytes) (r : re) (i j : nat) : bool :=
  memb j (ends nc d r i).

(* all (start, ends) with a non-empty set of ends, ascending starts *)
Definition scan_re (nc : bool) (d : bytes) (r : re) : list (nat * list nat) :=
  filter (fun p => match snd p with [] => false | _ => true end)
         (map (fun i => (i, ends nc d r i)) (seq 0 (S (length d)))).
