(* R |= S for the regular-expression layer:
     ends_spec : In j (ends nc d r i) <-> M nc d r i j
   for every regular expression (unbounded repetitions of sub-expressions that
   match the empty string included), every data and every position. *)
From Coq Require Import List NArith Bool Arith Lia.
From YV Require Import Pat.Syntax Pat.Sem Pat.Matcher.
Import ListNotations.

(* ---- dedup ------------------------------------------------------------- *)
Lemma memb_In : forall x l, memb x l = true <-> In x l.
Proof.
  induction l as [|y t IH]; cbn [memb In].
  - split; [discriminate | tauto].
  - rewrite orb_true_iff, Nat.eqb_eq, IH. split; intros [H|H]; auto.
Qed.

Lemma dedup_In : forall x l, In x (dedup l) <-> In x l.
Proof.
  induction l as [|y t IH]; cbn [dedup In]; [tauto|].
  destruct (memb y t) eqn:E.
  - rewrite IH. split; [auto|]. intros [H|H]; [subst; apply memb_In; exact E | exact H].
  - cbn [In]. rewrite IH. tauto.
Qed.

Lemma dedup_NoDup : forall l, NoDup (dedup l).
Proof.
  induction l as [|y t IH]; cbn [dedup]; [constructor|].
  destruct (memb y t) eqn:E; [exact IH|].
  constructor; [|exact IH]. rewrite dedup_In. intro H. apply memb_In in H. congruence.
Qed.

(* ---- Iter -------------------------------------------------------------- *)
Lemma Iter_mono : forall (P Q : nat -> nat -> Prop),
  (forall a b, P a b -> Q a b) -> forall k i j, Iter P k i j -> Iter Q k i j.
Proof.
  intros P Q H k i j I. induction I; [constructor|]. econstructor; eauto.
Qed.

Lemma Iter_le : forall (P : nat -> nat -> Prop),
  (forall a b, P a b -> a <= b) -> forall k i j, Iter P k i j -> i <= j.
Proof.
  intros P H k i j I. induction I; [lia|]. apply H in H0. lia.
Qed.

(* an iteration that makes no progress can be dropped *)
Lemma Iter_drop1 : forall (P : nat -> nat -> Prop),
  (forall a b, P a b -> a <= b) ->
  forall k i j, Iter P (S k) i j -> j - i <= k -> Iter P k i j.
Proof.
  intros P Hm. induction k as [|k IH]; intros i j I Hk.
  - inversion I as [|k0 i0 m j0 Hp I0]; subst. inversion I0; subst.
    apply Hm in Hp. assert (i = j) by lia. subst. constructor.
  - inversion I as [|k0 i0 m j0 Hp I0]; subst.
    pose proof (Hm _ _ Hp) as Him. pose proof (Iter_le P Hm _ _ _ I0) as Hmj.
    destruct (Nat.eq_dec m i) as [->|Hne]; [exact I0|].
    econstructor; [exact Hp|]. apply IH; [exact I0|lia].
Qed.

Lemma Iter_shorten : forall (P : nat -> nat -> Prop),
  (forall a b, P a b -> a <= b) ->
  forall n k i j, Iter P (n + k) i j -> j - i <= k -> Iter P k i j.
Proof.
  intros P Hm. induction n as [|n IH]; intros k i j I Hk; [exact I|].
  apply IH; [|exact Hk]. apply Iter_drop1; [exact Hm| |lia].
  replace (S (n + k)) with (S n + k) by lia. exact I.
Qed.

(* ---- levels ------------------------------------------------------------ *)
Section Levels.
  Variable f : nat -> list nat.
  Let R := fun a b => In b (f a).

  Lemma flat_step_In : forall s j, In j (flat_step f s) <-> exists a, In a s /\ In j (f a).
  Proof.
    intros s j. unfold flat_step. rewrite dedup_In, in_flat_map. tauto.
  Qed.

  Lemma level_In : forall k s j, In j (level f k s) <-> exists a, In a s /\ Iter R k a j.
  Proof.
    induction k as [|k IH]; intros s j; cbn [level].
    - split.
      + intro H. exists j. split; [exact H|constructor].
      + intros [a [Ha I]]. inversion I; subst. exact Ha.
    - rewrite IH. split.
      + intros [m [Hm I]]. apply flat_step_In in Hm. destruct Hm as [a [Ha Hf]].
        exists a. split; [exact Ha|]. econstructor; [exact Hf|exact I].
      + intros [a [Ha I]]. inversion I as [|k0 i0 m j0 Hp I0]; subst.
        exists m. split; [|exact I0]. apply flat_step_In. exists a. split; assumption.
  Qed.

  Lemma rep_levels_In : forall n k mn s j,
    In j (rep_levels f n k mn s) <-> exists t, t <= n /\ mn <= k + t /\ In j (level f t s).
  Proof.
    induction n as [|n IH]; intros k mn s j; cbn [rep_levels]; rewrite in_app_iff.
    - split.
      + intros [H|[]]. destruct (Nat.leb mn k) eqn:E; [|destruct H].
        apply Nat.leb_le in E. exists 0. cbn [level]. repeat split; [lia|lia|exact H].
      + intros [t [Ht [Hmn H]]]. assert (t = 0) by lia. subst. cbn [level] in H.
        left. replace (Nat.leb mn k) with true; [exact H|]. symmetry. apply Nat.leb_le. lia.
    - rewrite IH. split.
      + intros [H|[t [Ht [Hmn H]]]].
        * destruct (Nat.leb mn k) eqn:E; [|destruct H]. apply Nat.leb_le in E.
          exists 0. cbn [level]. repeat split; [lia|lia|exact H].
        * exists (S t). cbn [level]. repeat split; [lia|lia|exact H].
      + intros [t [Ht [Hmn H]]]. destruct t as [|t].
        * left. cbn [level] in H. replace (Nat.leb mn k) with true; [exact H|].
          symmetry. apply Nat.leb_le. lia.
        * right. exists t. cbn [level] in H. repeat split; [lia|lia|exact H].
  Qed.
End Levels.

Lemma level_ext : forall f g, (forall x, f x = g x) -> forall k s, level f k s = level g k s.
Proof.
  intros f g E. induction k as [|k IH]; intros s; cbn [level]; [reflexivity|].
  rewrite IH. f_equal. unfold flat_step. f_equal.
  induction s as [|a s IHs]; cbn [flat_map]; [reflexivity|]. rewrite E, IHs. reflexivity.
Qed.

Lemma rep_levels_ext : forall f g, (forall x, f x = g x) ->
  forall n k mn s, rep_levels f n k mn s = rep_levels g n k mn s.
Proof.
  intros f g E. induction n as [|n IH]; intros k mn s; cbn [rep_levels]; [reflexivity|].
  rewrite IH. do 2 f_equal. unfold flat_step. f_equal.
  induction s as [|a s IHs]; cbn [flat_map]; [reflexivity|]. rewrite E, IHs. reflexivity.
Qed.

Lemma tabulate_eq : forall f i len, i <= len -> (forall x, len < x -> f x = []) ->
  forall x, tabulate f i (len - i + 1) x = f x.
Proof.
  intros f i len Hi Hout x. unfold tabulate. destruct (Nat.ltb x i) eqn:E; [reflexivity|].
  apply Nat.ltb_ge in E. destruct (Nat.le_gt_cases x len) as [Hx|Hx].
  - rewrite nth_indep with (d' := f 0) by (rewrite map_length, seq_length; lia).
    rewrite map_nth. rewrite seq_nth by lia. f_equal. lia.
  - rewrite nth_overflow; [symmetry; apply Hout; exact Hx|]. rewrite map_length, seq_length. lia.
Qed.

(* ---- the relation ------------------------------------------------------ *)
Section Spec.
  Variable nc : bool.
  Variable d : bytes.

  Lemma M_bounds : forall r i j, M nc d r i j -> i <= j /\ j <= length d.
  Proof.
    induction r as [|c|a IHa b IHb|a IHa b IHb|r IH mn mx g|a]; intros i j H; inversion H; subst.
    - lia.
    - assert (i < length d) by (apply nth_error_Some; congruence). lia.
    - match goal with H1 : M nc d a _ _, H2 : M nc d b _ _ |- _ =>
        apply IHa in H1; apply IHb in H2; lia end.
    - apply IHa; assumption.
    - apply IHb; assumption.
    - match goal with HI : Iter _ _ _ _ |- _ => revert HI end.
      match goal with HL : i <= length d |- _ => revert HL end. clear -IH.
      intros HL HI. induction HI as [|k i m j Hp HI IHI]; [lia|].
      apply IH in Hp. destruct IHI; lia.
    - lia.
  Qed.

  Theorem ends_spec : forall r i j, In j (ends nc d r i) <-> M nc d r i j.
  Proof.
    induction r as [|c|a IHa b IHb|a IHa b IHb|r IH mn mx g|a]; intros i j; cbn [ends].
    - (* REps *)
      destruct (Nat.leb i (length d)) eqn:E.
      + apply Nat.leb_le in E. cbn [In]. split.
        * intros [<-|[]]. constructor. exact E.
        * intro H. inversion H; subst. left. reflexivity.
      + apply Nat.leb_gt in E. split; [intros []|]. intro H. inversion H; subst. lia.
    - (* RCls *)
      destruct (nth_error d i) as [b|] eqn:E.
      + destruct (cls_match nc c b) eqn:C.
        * cbn [In]. split.
          -- intros [<-|[]]. econstructor; eassumption.
          -- intro H. inversion H; subst. left. reflexivity.
        * split; [intros []|]. intro H. inversion H; subst. congruence.
      + split; [intros []|]. intro H. inversion H; subst. congruence.
    - (* RCat *)
      rewrite dedup_In, in_flat_map. split.
      + intros [k [Hk Hj]]. apply IHa in Hk. apply IHb in Hj. econstructor; eassumption.
      + intro H. inversion H; subst. eexists. split; [apply IHa|apply IHb]; eassumption.
    - (* RAlt *)
      rewrite dedup_In, in_app_iff, IHa, IHb. split.
      + intros [H|H]; [apply MAltL|apply MAltR]; exact H.
      + intro H. inversion H; subst; auto.
    - (* RRep *)
      destruct (Nat.leb i (length d)) eqn:E.
      2:{ apply Nat.leb_gt in E. split; [intros []|]. intro H. inversion H; subst. lia. }
      apply Nat.leb_le in E.
      assert (Hf : forall x, (if Nat.leb (rep_bound mn mx (length d - i)) 4 then ends nc d r
                              else tabulate (ends nc d r) i (length d - i + 1)) x = ends nc d r x).
      { intro x. destruct (Nat.leb (rep_bound mn mx (length d - i)) 4); [reflexivity|].
        apply tabulate_eq; [exact E|]. intros y Hy.
        destruct (ends nc d r y) as [|j1 js] eqn:Ey; [reflexivity|]. exfalso.
        assert (Hin : In j1 (ends nc d r y)) by (rewrite Ey; left; reflexivity).
        apply IH in Hin. apply M_bounds in Hin. lia. }
      cbv zeta. rewrite (rep_levels_ext _ _ Hf).
      rewrite dedup_In, rep_levels_In. split.
      + intros [t [Ht [Hmn H]]]. apply level_In in H. destruct H as [a0 [[<-|[]] I]].
        apply MRep with (k := t); [exact E|lia| |].
        * unfold rep_bound in Ht. destruct mx as [m|]; cbn [le_opt]; [lia|trivial].
        * eapply Iter_mono; [|exact I]. intros x y Hxy. apply IH. exact Hxy.
      + intro H. inversion H as [| | | | |r0 mn0 mx0 g0 k i0 j0 Hi Hmn Hmx I|]; subst.
        assert (Hmono : forall x y, M nc d r x y -> x <= y)
          by (intros x y Hxy; apply M_bounds in Hxy; lia).
        assert (Hb : i <= j /\ j <= length d) by (apply M_bounds with (r := RRep r mn mx g); exact H).
        set (K := rep_bound mn mx (length d - i)).
        destruct (Nat.le_gt_cases k K) as [Hle|Hgt].
        * exists k. split; [exact Hle|]. split; [lia|].
          apply level_In. exists i. split; [left; reflexivity|].
          eapply Iter_mono; [|exact I]. intros x y Hxy. apply IH. exact Hxy.
        * assert (HK : K = mn + (length d - i)).
          { unfold K, rep_bound in *. destruct mx as [m|]; cbn [le_opt] in Hmx; lia. }
          exists K. split; [lia|]. split; [lia|].
          apply level_In. exists i. split; [left; reflexivity|].
          eapply Iter_mono; [intros x y Hxy; apply IH; exact Hxy|].
          apply Iter_shorten with (n := k - K); [exact Hmono| |lia].
          replace (k - K + K) with k by lia. exact I.
    - (* RAssert *)
      destruct (Nat.leb i (length d)) eqn:E; cbn [andb].
      + apply Nat.leb_le in E. destruct (assert_holds a d i) eqn:A.
        * cbn [In]. split.
          -- intros [<-|[]]. constructor; assumption.
          -- intro H. inversion H; subst. left. reflexivity.
        * split; [intros []|]. intro H. inversion H; subst. congruence.
      + apply Nat.leb_gt in E. split; [intros []|]. intro H. inversion H; subst. lia.
  Qed.

  Corollary matches_b_spec : forall r i j, matches_b nc d r i j = true <-> M nc d r i j.
  Proof. intros. unfold matches_b. rewrite memb_In. apply ends_spec. Qed.

  Lemma ends_NoDup : forall r i, NoDup (ends nc d r i).
  Proof.
    destruct r; intro i; cbn [ends].
    - destruct (Nat.leb i (length d)); repeat constructor; intros [].
    - destruct (nth_error d i); [destruct (cls_match nc c n)|]; repeat constructor; intros [].
    - apply dedup_NoDup.
    - apply dedup_NoDup.
    - destruct (Nat.leb i (length d)); [cbv zeta; apply dedup_NoDup|constructor].
    - destruct (Nat.leb i (length d) && assert_holds a d i); repeat constructor; intros [].
  Qed.

  (* scan_re lists exactly the starts that have some end, in ascending order *)
  Theorem scan_re_spec : forall r i es,
    In (i, es) (scan_re nc d r) <-> (es = ends nc d r i /\ es <> [] /\ i <= length d).
  Proof.
    intros r i es. unfold scan_re. rewrite filter_In, in_map_iff. split.
    - intros [[x [Hx Hin]] Hne]. inversion Hx; subst. apply in_seq in Hin. cbn [snd] in Hne.
      repeat split; [|lia]. intro Hnil. rewrite Hnil in Hne. discriminate.
    - intros [-> [Hne Hi]]. split.
      + exists i. split; [reflexivity|]. apply in_seq. lia.
      + cbn [snd]. destruct (ends nc d r i); [congruence|reflexivity].
  Qed.

  Corollary scan_re_complete : forall r i j, M nc d r i j ->
    exists es, In (i, es) (scan_re nc d r) /\ In j es.
  Proof.
    intros r i j H. exists (ends nc d r i). split; [|apply ends_spec; exact H].
    apply scan_re_spec. repeat split.
    - apply ends_spec in H. intro E. rewrite E in H. destruct H.
    - apply M_bounds in H. lia.
  Qed.
End Spec.

(* greedy and lazy repetitions denote the same set of (start, end) pairs *)
Theorem greediness_irrelevant : forall nc d r mn mx g1 g2 i j,
  M nc d (RRep r mn mx g1) i j <-> M nc d (RRep r mn mx g2) i j.
Proof.
  intros. split; intro H; inversion H; subst; econstructor; eassumption.
Qed.

(* non-vacuity: an unbounded repetition of an expression that matches the
   empty string, a lazy jump, an anchor and a word boundary *)
Example ends_example_star_of_optional :
  ends false [97; 97; 98]%N (RRep (RRep (RCls (CByte 97)) 0 (Some 1) true) 0 None true) 0 = [0; 1; 2].
Proof. vm_compute. reflexivity. Qed.

Example ends_example_jump :
  ends false [1; 2; 3; 4; 5; 4]%N (RCat (RCls (CByte 1)) (RCat (rjump 1 (Some 4)) (RCls (CByte 4)))) 0 = [4; 6].
Proof. vm_compute. reflexivity. Qed.

Example ends_example_assert :
  scan_re false [97; 32; 97; 98]%N (RCat (RAssert AWordB) (RCat (RCls (CByte 97)) (RAssert AWordB))) = [(0, [1])].
Proof. vm_compute. reflexivity. Qed.
