(* Specification of pattern occurrences with modifiers, written from
   site/content/docs/writing_rules/text_patterns.md, hex_patterns.md,
   regexps.md and differences.md:

   [genuine p d s len key] : the pattern p occurs in the data d at offset s
   with length len, and `key` is what Match::xor_key must report for it.

     nocase      ASCII case folding
     wide        the ASCII codes interleaved with zeroes; `ascii wide`: either form
     xor(lo-hi)  some single byte key in lo..hi applied to every byte (after
                 `wide`: the interleaved zeroes are xored too); the key is
                 reported with the match; without `xor` no key is reported
     fullword    delimited by non-alphanumeric characters; with `xor` the
                 neighbours are xored before the test (differences.md).  The
                 documentation does not say what the neighbouring *character*
                 of a wide string is; following DESIGN.md 1.3 the definition
                 accepts the implementation's reading (verify_full_word): a wide
                 occurrence is not a full word when it is preceded / followed by
                 a wide alphanumeric character (alphanumeric byte, zero byte).
     base64      the text occurs inside base64-encoded data at one of the three
                 alignments (padding 0,1,2); the match is the part of the
                 encoding that does not depend on the neighbouring bytes;
                 YARA-X additionally decodes the enclosing window and demands
                 the text at offset `padding` ("no false positives").
                 base64wide: the same encoding interleaved with zeroes.
                 `wide`/`ascii` are applied to the text first.
     regexps     nocase or /i, wide, ascii, fullword "with the same semantics".

   Definitions only; the reflection theorems are in ModifiersProofs.v. *)
From Coq Require Import List NArith Bool Arith.
From YV Require Import Pat.Syntax Pat.Sem Pat.Matcher.
Import ListNotations.
Local Open Scope N_scope.

(* ---- occurrences of a byte string --------------------------------------- *)
Fixpoint widen (s : bytes) : bytes :=
  match s with [] => [] | b :: t => b :: 0 :: widen t end.

(* pattern byte x against data byte y under an xor key, optionally ignoring case *)
Definition byte_eq (nc : bool) (key : N) (x y : N) : bool :=
  let y' := N.lxor y key in (y' =? x) || (nc && (swapcase y' =? x)).

Definition occurs (eq : N -> N -> bool) (v d : bytes) (s : nat) : Prop :=
  exists pre mid post, d = pre ++ mid ++ post /\ length pre = s /\
                       Forall2 (fun x y => eq x y = true) v mid.

Fixpoint prefix_b (eq : N -> N -> bool) (v d : bytes) : bool :=
  match v, d with
  | [], _ => true
  | x :: v', y :: d' => eq x y && prefix_b eq v' d'
  | _ :: _, [] => false
  end.
Definition occurs_b (eq : N -> N -> bool) (v d : bytes) (s : nat) : bool :=
  Nat.leb s (length d) && prefix_b eq v (skipn s d).

(* ---- fullword ----------------------------------------------------------- *)
Definition alnum_at_b (key : N) (d : bytes) (i : nat) : bool :=
  match nth_error d i with Some b => is_alnum (N.lxor b key) | None => false end.
Definition zero_at_b (key : N) (d : bytes) (i : nat) : bool :=
  match nth_error d i with Some b => N.lxor b key =? 0 | None => false end.
Definition alnum_at (key : N) (d : bytes) (i : nat) : Prop :=
  exists b, nth_error d i = Some b /\ is_alnum (N.lxor b key) = true.
Definition zero_at (key : N) (d : bytes) (i : nat) : Prop :=
  exists b, nth_error d i = Some b /\ N.lxor b key = 0.

(* the occurrence d[s..e) is delimited by non-alphanumeric characters *)
Definition FullWord (wide : bool) (key : N) (d : bytes) (s e : nat) : Prop :=
  if wide then
    (forall p, S (S p) = s -> ~ (zero_at key d (S p) /\ alnum_at key d p)) /\
    ~ (zero_at key d (S e) /\ alnum_at key d e)
  else
    (forall p, S p = s -> ~ alnum_at key d p) /\ ~ alnum_at key d e.

Definition fullword_b (wide : bool) (key : N) (d : bytes) (s e : nat) : bool :=
  if wide then
    negb (match s with S (S p) => zero_at_b key d (S p) && alnum_at_b key d p | _ => false end) &&
    negb (zero_at_b key d (S e) && alnum_at_b key d e)
  else
    negb (match s with S p => alnum_at_b key d p | O => false end) &&
    negb (alnum_at_b key d e).

(* ---- ascii / wide variants ---------------------------------------------- *)
(* true = the wide form.  Without `wide` only ascii; `wide` alone only wide;
   `ascii wide` both. *)
Definition variants (ascii wide : bool) : list bool :=
  (if wide then [true] else []) ++ (if wide && negb ascii then [] else [false]).
Definition vbytes (w : bool) (text : bytes) : bytes := if w then widen text else text.

(* ---- xor keys ----------------------------------------------------------- *)
Definition key_in_range (x : option (N * N)) (k : N) : Prop :=
  match x with None => k = 0 | Some (lo, hi) => lo <= k /\ k <= hi end.
Definition key_in_range_b (x : option (N * N)) (k : N) : bool :=
  match x with None => k =? 0 | Some (lo, hi) => (lo <=? k) && (k <=? hi) end.
(* what Match::xor_key reports *)
Definition key_report (x : option (N * N)) (k : N) : option N :=
  match x with None => None | Some _ => Some k end.
Definition key_of_report (key : option N) : N := match key with Some k => k | None => 0 end.

Definition opt_N_eqb (a b : option N) : bool :=
  match a, b with
  | None, None => true
  | Some x, Some y => x =? y
  | _, _ => false
  end.

(* ---- text patterns without base64 --------------------------------------- *)
Definition text_occ (text : bytes) (m : tmods) (d : bytes) (s len : nat) (key : option N) : Prop :=
  exists (w : bool) (k : N),
    In w (variants (tm_ascii m) (tm_wide m)) /\
    key_in_range (tm_xor m) k /\ key = key_report (tm_xor m) k /\
    len = length (vbytes w text) /\
    occurs (byte_eq (tm_nocase m) k) (vbytes w text) d s /\
    (tm_fullword m = true -> FullWord w k d s (s + len)).

Definition text_occ_b (text : bytes) (m : tmods) (d : bytes) (s len : nat) (key : option N) : bool :=
  let k := key_of_report key in
  key_in_range_b (tm_xor m) k && opt_N_eqb key (key_report (tm_xor m) k) &&
  existsb (fun w =>
    Nat.eqb len (length (vbytes w text)) &&
    occurs_b (byte_eq (tm_nocase m) k) (vbytes w text) d s &&
    (negb (tm_fullword m) || fullword_b w k d s (s + len)))
    (variants (tm_ascii m) (tm_wide m)).

(* ---- base64 ------------------------------------------------------------- *)
Fixpoint index_of (c : N) (a : list N) (i : N) : option N :=
  match a with
  | [] => None
  | x :: t => if x =? c then Some i else index_of c t (i + 1)
  end.

(* characters -> sextets; None when a character is not in the alphabet *)
Fixpoint sextets (a : alphabet) (cs : list N) : option (list N) :=
  match cs with
  | [] => Some []
  | c :: t => match index_of c a 0, sextets a t with
              | Some v, Some r => Some (v :: r)
              | _, _ => None
              end
  end.

(* sextets -> bytes, 4 -> 3; a trailing group of 2 or 3 sextets gives 1 or 2
   bytes (the unused low bits are not inspected: this is the permissive
   reading used for soundness; completeness is only demanded for whole
   quanta); a single trailing sextet is not a valid encoding *)
Fixpoint unsextets (l : list N) : option bytes :=
  match l with
  | [] => Some []
  | [_] => None
  | [a; b] => Some [a * 4 + b / 16]
  | [a; b; c] => Some [a * 4 + b / 16; (b mod 16) * 16 + c / 4]
  | a :: b :: c :: e :: t =>
      match unsextets t with
      | Some r => Some ((a * 4 + b / 16) :: ((b mod 16) * 16 + c / 4) :: ((c mod 4) * 64 + e) :: r)
      | None => None
      end
  end.

Definition b64_decode (a : alphabet) (cs : list N) : option bytes :=
  match sextets a cs with Some l => unsextets l | None => None end.

(* number of base64 characters that encode n bytes without padding: ceil(8n/6) *)
Definition enc_len (n : nat) : nat := (n * 8 + 5) / 6.

(* The part of the encoding of (x ++ text ++ y), |x| = p, that does not depend
   on x and y: it starts after the characters that carry bits of x and drops
   the last character when it also carries bits of y. *)
Definition core_start (p : nat) : nat := enc_len p.
Definition core_len (p n : nat) : nat :=
  enc_len (p + n) - (if Nat.eqb ((p + n) mod 3) 0 then 0 else 1) - core_start p.

(* every second byte of l, starting with the first; the others must be zero
   (the last one may be missing: the data may end right after a character) *)
Fixpoint unwiden (l : bytes) : option bytes :=
  match l with
  | [] => Some []
  | [c] => Some [c]
  | c :: z :: t => if z =? 0 then match unwiden t with Some r => Some (c :: r) | None => None end
                   else None
  end.

(* the window of nchars characters starting at byte offset ws *)
Definition window (w : bool) (d : bytes) (ws nchars : nat) : option bytes :=
  if w then
    let raw := firstn (2 * nchars) (skipn ws d) in
    if Nat.leb (2 * nchars - 1) (length raw) then unwiden raw else None
  else
    let raw := firstn nchars (skipn ws d) in
    if Nat.eqb (length raw) nchars then Some raw else None.

Definition unit_of (w : bool) : nat := if w then 2 else 1.

(* one alignment of one encoding of one form of the text.
   ylen: how many bytes after the text the window covers (0..2). *)
Definition b64_occ_at (a : alphabet) (w : bool) (t : bytes) (p ylen : nat)
                      (d : bytes) (s len : nat) : bool :=
  let unit := unit_of w in
  let n := length t in
  Nat.leb (core_start p * unit) s &&
  Nat.eqb len (core_len p n * unit) &&
  Nat.leb (s + len) (length d) &&
  match window w d (s - core_start p * unit) (enc_len (p + n + ylen)) with
  | Some cs =>
      match b64_decode a cs with
      | Some bs => Nat.eqb (length bs) (p + n + ylen) &&
                   prefix_b N.eqb t (skipn p bs)
      | None => false
      end
  | None => false
  end.

(* (alphabet, wide encoding?) for base64 / base64wide *)
Definition b64_kinds (m : tmods) : list (alphabet * bool) :=
  (match tm_b64 m with Some a => [(a, false)] | None => [] end) ++
  (match tm_b64wide m with Some a => [(a, true)] | None => [] end).

Definition has_b64 (m : tmods) : bool :=
  match tm_b64 m, tm_b64wide m with None, None => false | _, _ => true end.

Definition b64_occ_b (text : bytes) (m : tmods) (d : bytes) (s len : nat) (strict : bool) : bool :=
  existsb (fun tw =>
    let t := vbytes tw text in
    existsb (fun kind =>
      existsb (fun p =>
        existsb (fun ylen =>
          (negb strict || Nat.eqb ((p + length t + ylen) mod 3)%nat 0%nat) &&
          b64_occ_at (fst kind) (snd kind) t p ylen d s len)
          [0; 1; 2]%nat)
        [0; 1; 2]%nat)
      (b64_kinds m))
    (variants (tm_ascii m) (tm_wide m)).

Definition b64_occ (text : bytes) (m : tmods) (d : bytes) (s len : nat) (strict : bool) : Prop :=
  exists tw kind p ylen,
    In tw (variants (tm_ascii m) (tm_wide m)) /\ In kind (b64_kinds m) /\
    (p <= 2)%nat /\ (ylen <= 2)%nat /\
    (strict = true -> ((p + length (vbytes tw text) + ylen) mod 3)%nat = 0%nat) /\
    b64_occ_at (fst kind) (snd kind) (vbytes tw text) p ylen d s len = true.

(* ---- regexps ------------------------------------------------------------ *)
(* `wide` on a regexp: every byte-consuming atom is followed by a zero byte *)
Fixpoint widen_re (r : re) : re :=
  match r with
  | RCls c => RCat (RCls c) (RCls (CByte 0))
  | RCat a b => RCat (widen_re a) (widen_re b)
  | RAlt a b => RAlt (widen_re a) (widen_re b)
  | RRep x mn mx g => RRep (widen_re x) mn mx g
  | REps => REps
  | RAssert a => RAssert (AWide a)
  end.
Definition vre (w : bool) (r : re) : re := if w then widen_re r else r.

Definition re_occ (r : re) (m : rmods) (d : bytes) (s len : nat) : Prop :=
  exists w, In w (variants (rm_ascii m) (rm_wide m)) /\
            M (rm_nocase m) d (vre w r) s (s + len) /\
            (rm_fullword m = true -> FullWord w 0 d s (s + len)).

Definition re_occ_b (r : re) (m : rmods) (d : bytes) (s len : nat) : bool :=
  existsb (fun w => matches_b (rm_nocase m) d (vre w r) s (s + len) &&
                    (negb (rm_fullword m) || fullword_b w 0 d s (s + len)))
          (variants (rm_ascii m) (rm_wide m)).

(* ---- the specification -------------------------------------------------- *)
Definition genuine (p : pat) (d : bytes) (s len : nat) (key : option N) : Prop :=
  match p with
  | PText text m =>
      if has_b64 m then key = None /\ b64_occ text m d s len false
      else text_occ text m d s len key
  | PHex r => key = None /\ M false d r s (s + len)
  | PRegexp r m => key = None /\ re_occ r m d s len
  end.

Definition genuine_b (p : pat) (d : bytes) (s len : nat) (key : option N) : bool :=
  match p with
  | PText text m =>
      if has_b64 m then opt_N_eqb key None && b64_occ_b text m d s len false
      else text_occ_b text m d s len key
  | PHex r => opt_N_eqb key None && matches_b false d r s (s + len)
  | PRegexp r m => opt_N_eqb key None && re_occ_b r m d s len
  end.

(* ---- reference scan ----------------------------------------------------- *)
(* candidate lengths of an occurrence at s *)
Definition cand_lens (p : pat) (d : bytes) (s : nat) : list nat :=
  match p with
  | PText text m =>
      if has_b64 m then
        dedup (flat_map (fun tw : bool => flat_map (fun kind : alphabet * bool => map (fun q : nat =>
                 Nat.mul (core_len q (length (vbytes tw text))) (unit_of (snd kind))) [0; 1; 2]%nat)
                 (b64_kinds m)) (variants (tm_ascii m) (tm_wide m)))
      else dedup (map (fun w => length (vbytes w text)) (variants (tm_ascii m) (tm_wide m)))
  | PHex r => map (fun j => j - s)%nat (ends false d r s)
  | PRegexp r m =>
      dedup (flat_map (fun w => map (fun j => j - s)%nat (ends (rm_nocase m) d (vre w r) s))
                      (variants (rm_ascii m) (rm_wide m)))
  end.

(* lo .. hi *)
Definition N_range (lo hi : N) : list N :=
  map (fun i => lo + N.of_nat i) (seq 0 (N.to_nat (hi + 1 - lo))).

(* candidate keys at s: without nocase the key is determined by the first byte *)
Definition cand_keys (p : pat) (d : bytes) (s : nat) : list (option N) :=
  match p with
  | PText text m =>
      if has_b64 m then [None] else
      match tm_xor m with
      | None => [None]
      | Some (lo, hi) =>
          match tm_nocase m, text, nth_error d s with
          | false, x :: _, Some y => [Some (N.lxor y x)]
          | false, _ :: _, None => []
          | _, _, _ => map Some (N_range lo hi)
          end
      end
  | _ => [None]
  end.

(* the genuine lengths at s (for some key).  For hex patterns and regexps the
   candidate ends are already exactly the matches; only `fullword` filters. *)
Definition lens_at (p : pat) (d : bytes) (s : nat) : list nat :=
  match p with
  | PText _ _ =>
      filter (fun l => existsb (fun key => genuine_b p d s l key) (cand_keys p d s)) (cand_lens p d s)
  | PHex r => map (fun j => j - s)%nat (ends false d r s)
  | PRegexp r m =>
      dedup (flat_map (fun w => map (fun j => j - s)%nat
                                    (filter (fun j => negb (rm_fullword m) || fullword_b w 0 d s j)
                                            (ends (rm_nocase m) d (vre w r) s)))
                      (variants (rm_ascii m) (rm_wide m)))
  end.

(* every start with its genuine lengths, ascending starts *)
Definition ref_scan (p : pat) (d : bytes) : list (nat * list nat) :=
  filter (fun x => match snd x with [] => false | _ => true end)
         (map (fun s => (s, lens_at p d s)) (seq 0 (S (length d)))).

(* Starts that must be reported (completeness).  Narrower than "some genuine
   length exists" in two documented-as-operational situations:
   * base64: only occurrences whose whole 4-character-aligned window lies in
     the data and decodes (strict = true);
   * fullword on a regexp: the engine tests the delimiters of the one length it
     picked for the start, and which of several genuine lengths that is is not
     documented; the start is required only when every raw end at that start
     is delimited. *)
Definition required_at (p : pat) (d : bytes) (s : nat) : bool :=
  match p with
  | PText text m =>
      if has_b64 m then existsb (fun l => b64_occ_b text m d s l true) (cand_lens p d s)
      else match lens_at p d s with [] => false | _ => true end
  | PHex r => match ends false d r s with [] => false | _ => true end
  | PRegexp r m =>
      existsb (fun w =>
        let es := ends (rm_nocase m) d (vre w r) s in
        match es with [] => false | _ => true end &&
        (negb (rm_fullword m) || forallb (fun j => fullword_b w 0 d s j) es))
        (variants (rm_ascii m) (rm_wide m))
  end.

Definition required_starts (p : pat) (d : bytes) : list nat :=
  filter (required_at p d) (seq 0 (S (length d))).
